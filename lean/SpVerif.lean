import SpVerif.Model.Core
import SpVerif.Model.Naming
import SpVerif.Model.BoolFlag
import SpVerif.Drive.Naming
import SpVerif.Props.C12
import SpVerif.Props.C10
