/-
  Line-protocol driver: one JSON object per line in ({"id":n,"op":"…","case":{…}}), one per line out
  ({"id":n,"out":…} or {"id":n,"err":"…"}).  Imports the model and `Lean.Data.Json` only.
-/
import SpVerif.Drive.Naming
import SpVerif.Drive.Conflicts
import SpVerif.Drive.Replace
import SpVerif.Drive.DocScan
import SpVerif.Drive.Engine
import SpVerif.Drive.Callables
import SpVerif.Drive.Fields
import SpVerif.Drive.Subclass
import SpVerif.Drive.Serial
import SpVerif.Drive.Defaults
import SpVerif.Drive.Annot
import SpVerif.Drive.Merge
import SpVerif.Drive.Layers
import SpVerif.Drive.Post
import SpVerif.Drive.History
import SpVerif.Drive.ConfigLoop
import SpVerif.Drive.Subgroups
import SpVerif.Drive.Help
import SpVerif.Drive.BoolFlagE2E
open Lean SpVerif.Drive

/-- every op of every per-property driver module: add `++ <module>Ops` here -/
def allOps : List (String × (Json → R Json)) :=
  namingOps ++ conflictsOps ++ replaceOps ++ docScanOps ++ engineOps ++ callablesOps ++ fieldsOps ++ subclassOps ++ serialOps ++ defaultsOps ++ annotOps ++ mergeOps ++ layersOps ++ postOps ++ historyOps ++ configLoopOps ++ subgroupsOps ++ helpOps ++ boolE2EOps

def dispatch (op : String) (c : Json) : R Json :=
  match allOps.lookup op with
  | some f => f c
  | none => .error s!"unknown op {op}"

def handleLine (line : String) : String :=
  match Json.parse line with
  | .error e => (Json.mkObj [("err", Json.str s!"parse: {e}")]).compress
  | .ok j =>
    let id := (j.getObjVal? "id").toOption.getD Json.null
    match (do let op ← str j "op"; let c ← obj j "case"; dispatch op c : R Json) with
    | .ok out => (Json.mkObj [("id", id), ("out", out)]).compress
    | .error e => (Json.mkObj [("id", id), ("err", Json.str e)]).compress

partial def loop (h : IO.FS.Stream) (out : IO.FS.Stream) : IO Unit := do
  let line ← h.getLine
  if line.isEmpty then return ()
  let t := line.trimAscii.toString
  if !t.isEmpty then out.putStrLn (handleLine t)
  loop h out

def main : IO Unit := do
  let out ← IO.getStdout
  loop (← IO.getStdin) out
  out.flush
