import SpVerif.Drive.Fields
import SpVerif.Model.History
open Lean

namespace SpVerif.Drive
open SpVerif.History

def histParseFields (j : Json) (k : String) : R (List FieldSpec) := do
  (← arr j k).toList.mapM fParseField

def histParseSub (j : Json) : R (Option SubSpec) :=
  match j.getObjVal? "sub" with
  | .ok .null => pure none
  | .error _ => pure none
  | .ok s => do
    let alts ← (← arr s "alts").toList.mapM (fun a => do
      return ({ key := chars (← str a "key"), cls := chars (← str a "cls"),
                fields := ← histParseFields a "fields" } : Alt))
    return some { name := chars (← str s "name"), alts := alts, default := chars (← str s "default") }

def histCtype : String → R BConv
  | "int" => pure .int
  | "float" => pure .float
  | "str" => pure .str
  | t => throw s!"bad ctype {t}"

/-- `"ctype"` on a field = `field(..., type=<builtin>)` -/
def histParseCustom (j : Json) : R (List (Str × BConv)) := do
  let fs ← arr j "fields"
  let l ← fs.toList.mapM (fun f => do
    match f.getObjVal? "ctype" with
    | .ok (.str t) => return some (chars (← str f "name"), ← histCtype t)
    | _ => return none)
  return l.filterMap id

def histParseClass (j : Json) : R ClassSpec := do
  return { name := chars (← str j "name"), fields := ← histParseFields j "fields", sub := ← histParseSub j,
           custom := ← histParseCustom j }

def histParseOp (j : Json) : R Op := do
  let i ← nat j "i"
  match (← str j "op") with
  | "construct" =>
    return .construct i (← parseCfg (← obj j "cfg")) ((bool j "cfg_path").toOption.getD false)
      (((strList j "cfg_files").toOption.getD []).map chars)
  | "add" => return .add i { dest := chars (← str j "dest"), cls := ← histParseClass (← obj j "cls") }
  | "parse" => return .parse i ((bool j "known").toOption.getD false) ((← strList j "argv").map chars)
  | "print_help" => return .printHelp i
  | "format_help" => return .formatHelp i
  | o => throw s!"bad history op {o}"

def histParseFileC (j : Json) : R FileC := do
  let a ← j.getArr?
  a.toList.mapM (fun dk => do
    let d ← dk.getArrVal? 0 >>= (·.getStr?)
    let kvs ← (← dk.getArrVal? 1 >>= (·.getArr?)).toList.mapM (fun kv => do
      let k ← kv.getArrVal? 0 >>= (·.getStr?)
      let v ← eParseVal (← kv.getArrVal? 1)
      return (chars k, v))
    return (chars d, kvs))

def histParseKV (a : Array Json) : R (List (Str × Val)) :=
  a.toList.mapM (fun kv => do
    let k ← kv.getArrVal? 0 >>= (·.getStr?)
    let v ← eParseVal (← kv.getArrVal? 1)
    return (chars k, v))

def histParseFileJ (x : Json) : R FileJ :=
  match x.getObjVal? "rootless" with
  | .ok (.arr a) => (histParseKV a).map FileJ.rootless
  | _ => (histParseFileC x).map FileJ.rooted

def histParseFiles (c : Json) : R (List (Str × Option FileJ)) :=
  match c.getObjVal? "files" with
  | .ok (.arr a) => a.toList.mapM (fun p => do
      let k ← p.getArrVal? 0 >>= (·.getStr?)
      let v ← match p.getArrVal? 1 with
        | .ok .null => pure none
        | .ok x => (histParseFileJ x).map some
        | .error e => throw e
      return (chars k, v))
  | _ => pure []

def histKV (l : List (Str × Val)) : Json :=
  Json.arr (l.map (fun p => Json.arr #[jstr p.1, eValJson p.2])).toArray

def histInstJson (i : Inst) : Json :=
  Json.mkObj [("dest", jstr i.dest), ("cls", jstr i.cls), ("fields", histKV i.fields),
    ("sub", match i.sub with
      | none => .null
      | some (n, c, fs) => Json.mkObj [("name", jstr n), ("cls", jstr c), ("fields", histKV fs)])]

def histOutJson : Out → Json
  | .ok insts subs cfg extras other => Json.mkObj [("o", "ok"), ("insts", Json.arr (insts.map histInstJson).toArray),
      ("subgroups", histKV subs), ("cfg", match cfg with | some v => eValJson v | none => .null),
      ("extras", jstrs extras), ("other", histKV other)]
  | .exit c k => Json.mkObj [("o", "exit"), ("code", Json.num (JsonNumber.fromNat c)), ("kind", exitKindStr k)]
  | .raise e => Json.mkObj [("o", "raise"), ("exc", jstr e)]
  | .unit => Json.mkObj [("o", "unit")]
  | .unmodelled w => Json.mkObj [("o", "unmodelled"), ("why", w)]

def histEnv (c : Json) : R Env := do
  return { fenv := ← eParseFEnv c, files := ← histParseFiles c }

def histCfgJson (c : Cfg) : Json :=
  Json.mkObj [("dash", match c.dash with | .underscore => "UNDERSCORE" | .both => "UNDERSCORE_AND_DASH" | .dashOnly => "DASH"),
              ("gen", match c.gen with | .flat => "FLAT" | .nested => "NESTED" | .both => "BOTH"),
              ("nest", match c.nest with | .default => "DEFAULT" | .withoutRoot => "WITHOUT_ROOT")]

/-- op `hist.run`: {ops:[…], floats, files} ↦ the output of every API call of the history -/
def opHistRun (c : Json) : R Json := do
  let env ← histEnv c
  let ops ← (← arr c "ops").toList.mapM histParseOp
  return Json.mkObj [("outs", Json.arr ((runHist env init ops).map histOutJson).toArray),
                     ("g", Json.arr ((runG env init ops).map histCfgJson).toArray)]

/-- op `hist.fresh`: {spec:{cfg,cfg_path,resolve,regs:[{dest,cls}]}, known, argv, floats, files} ↦ `fresh` -/
def opHistFresh (c : Json) : R Json := do
  let env ← histEnv c
  let s ← obj c "spec"
  let regs ← (← arr s "regs").toList.mapM (fun r => do
    return ({ dest := chars (← str r "dest"), cls := ← histParseClass (← obj r "cls") } : Reg))
  let spec : Spec := { cfg := ← parseCfg (← obj s "cfg"), cfgPath := (bool s "cfg_path").toOption.getD false,
                       cfgFiles := ((strList s "cfg_files").toOption.getD []).map chars, regs := regs }
  return histOutJson (fresh env spec ((bool c "known").toOption.getD false) ((← strList c "argv").map chars))

def historyOps : List (String × (Json → R Json)) :=
  [("hist.run", opHistRun), ("hist.fresh", opHistFresh)]

end SpVerif.Drive
