import SpVerif.Drive.Util
import SpVerif.Model.Engine
open Lean

namespace SpVerif.Drive

def eParseScalar (j : Json) : R Scalar := do
  match (← str j "t") with
  | "int" => match (← str j "v").toInt? with
    | some i => return .int i
    | none => throw "bad int"
  | "float" => return .float (chars (← str j "v"))
  | "str" => return .str (chars (← str j "v"))
  | "bool" => return .bool (← bool j "v")
  | "none" => return .none
  | "path" => return .path (chars (← str j "v"))
  | "enum" => return .enum (chars (← str j "cls")) (chars (← str j "v"))
  | t => throw s!"bad scalar tag {t}"

def eParseVal (j : Json) : R Val := do
  match (← str j "t") with
  | "list" => return .list (← (← arr j "v").toList.mapM eParseScalar)
  | "tuple" => return .tuple (← (← arr j "v").toList.mapM eParseScalar)
  | _ => return .sc (← eParseScalar j)

def eScalarJson : Scalar → Json
  | .int i => Json.mkObj [("t", "int"), ("v", Json.str (toString i))]
  | .float r => Json.mkObj [("t", "float"), ("v", jstr r)]
  | .str s => Json.mkObj [("t", "str"), ("v", jstr s)]
  | .bool b => Json.mkObj [("t", "bool"), ("v", Json.bool b)]
  | .none => Json.mkObj [("t", "none")]
  | .path s => Json.mkObj [("t", "path"), ("v", jstr s)]
  | .enum c n => Json.mkObj [("t", "enum"), ("cls", jstr c), ("v", jstr n)]

def eValJson : Val → Json
  | .sc s => eScalarJson s
  | .list l => Json.mkObj [("t", "list"), ("v", Json.arr (l.map eScalarJson).toArray)]
  | .tuple l => Json.mkObj [("t", "tuple"), ("v", Json.arr (l.map eScalarJson).toArray)]

def eParseBConv (j : Json) : R BConv := do
  match (← str j "k") with
  | "int" => return .int
  | "float" => return .float
  | "str" => return .str
  | "bool" => return .bool
  | "path" => return .path
  | "noop" => return .noop
  | "enum" => return .enumName (chars (← str j "cls")) ((← strList j "members").map chars)
  | k => throw s!"bad bconv {k}"

def eParseConv (j : Json) : R Conv := do
  match (← str j "k") with
  | "union" => return .union (← (← arr j "alts").toList.mapM eParseBConv)
  | "tuple" => return .tupleCounter (← (← arr j "alts").toList.mapM eParseBConv)
  | _ => return .base (← eParseBConv j)

def eParseNArgs (j : Json) : R NArgs :=
  match j with
  | .null => .ok .one
  | .str "?" => .ok .opt
  | .str "*" => .ok .star
  | .str "+" => .ok .plus
  | .num n => .ok (.num n.mantissa.toNat)
  | _ => .error "bad nargs"

def eParseAct (j : Json) : R Act := do
  let kind ← match (← str j "kind") with
    | "store" => pure ActKind.store
    | "bool" => pure (ActKind.boolOpt ((← strList j "negs").map chars))
    | "help" => pure ActKind.help
    | k => throw s!"bad kind {k}"
  let choices ← match j.getObjVal? "choices" with
    | .ok (.arr a) => pure (some ((← a.toList.mapM (fun x => x.getStr?)).map chars))
    | _ => pure none
  let default ← match j.getObjVal? "default" with
    | .ok .null => pure none
    | .ok d => pure (some (← eParseVal d))
    | .error _ => pure none
  return { opts := (← strList j "opts").map chars, dest := chars (← str j "dest"), kind := kind,
           nargs := ← eParseNArgs ((j.getObjVal? "nargs").toOption.getD .null),
           conv := ← eParseConv (← obj j "conv"), choices := choices,
           required := ← bool j "required", default := default }

def eParseFEnv (j : Json) : R FEnv := do
  match j.getObjVal? "floats" with
  | .ok (.arr a) => a.toList.mapM (fun p => do
      let k ← p.getArrVal? 0 >>= (·.getStr?)
      let v := match p.getArrVal? 1 with
        | .ok (.str s) => some (chars s)
        | _ => none
      return (chars k, v))
  | _ => return []

def exitKindStr : ExitKind → String
  | .required => "required" | .choice => "choice" | .type => "type" | .nargs => "nargs"
  | .unrecognized => "unrecognized" | .ambiguous => "ambiguous" | .negflag => "negflag"
  | .help => "help" | .explicit => "explicit"

def eoutJson : EOut → Json
  | .ok ns extras cs => Json.mkObj [("o", "ok"),
      ("ns", Json.arr (ns.map (fun p => Json.arr #[jstr p.1, eValJson p.2])).toArray),
      ("extras", jstrs extras), ("counters", Json.arr (cs.map (fun (n : Nat) => Json.num (JsonNumber.fromNat n))).toArray)]
  | .exit c k => Json.mkObj [("o", "exit"), ("code", Json.num c), ("kind", exitKindStr k)]
  | .raise e => Json.mkObj [("o", "raise"), ("exc", jstr e)]
  | .unmodelled w => Json.mkObj [("o", "unmodelled"), ("why", w)]

/-- op `engine.run`: {table:[act…], argv:[…], floats:[[tok,repr|null]…], strict: bool} -/
def opEngineRun (c : Json) : R Json := do
  let tbl ← (← arr c "table").toList.mapM eParseAct
  let argv := (← strList c "argv").map chars
  let fenv ← eParseFEnv c
  let strict := (c.getObjValAs? Bool "strict").toOption.getD false
  let counters := tbl.map (fun _ => 0)
  return eoutJson (if strict then runStrict fenv tbl counters argv else run fenv tbl counters argv)

def engineOps : List (String × (Json → R Json)) :=
  [("engine.run", opEngineRun)]

end SpVerif.Drive
