/-
  JSON glue for the C18 model (`SpVerif.Model.Replace`).  Values use the canonical value tree of
  DESIGN Appendix A; instances sent *to* the model carry per-field `init` flags and defaults:
  {"t":"inst","cls":c,"fs":[{"n":name,"init":b,"v":V,"d":V}]}, the model answers in `cv` form
  {"t":"inst","cls":c,"v":[[name,V]…]}.
-/
import SpVerif.Drive.Util
import SpVerif.Model.Replace
open Lean

namespace SpVerif.Drive
open SpVerif.Replace

partial def parseVal (j : Json) : R Val := do
  match (← str j "t") with
  | "int" =>
    let s ← str j "v"
    match s.toInt? with
    | some i => return .int i
    | none => throw s!"bad int {s}"
  | "str" => return .str (chars (← str j "v"))
  | "bool" => return .bool (← bool j "v")
  | "none" => return .none
  | "list" => return .list (← (← arr j "v").toList.mapM parseVal)
  | "dict" =>
    let items ← (← arr j "v").toList.mapM (fun kv => do
      let a ← (kv.getArr? : R (Array Json))
      if a.size != 2 then throw "bad dict item"
      let k ← str a[0]! "v"
      if (← str a[0]! "t") != "str" then throw "non-string dict key"
      let v ← parseVal a[1]!
      return (chars k, v))
    return .dict items
  | "inst" =>
    let fs ← (← arr j "fs").toList.mapM (fun f => do
      return Fld.mk (chars (← str f "n")) (← bool f "init") (← parseVal (← obj f "v")) (← parseVal (← obj f "d")))
    return .inst (chars (← str j "cls")) fs
  | "type" => return .type (chars (← str j "cls")) (← parseVal (← obj j "mk"))
  | t => throw s!"bad value tag {t}"

def parseDict (j : Json) : R Dict := do
  match (← parseVal j) with
  | .dict d => return d
  | _ => throw "expected a dict"

def optDict (j : Json) (k : String) : R (Option Dict) :=
  match j.getObjVal? k with
  | .ok .null => .ok none
  | .ok v => (parseDict v).map some
  | .error _ => .ok none

partial def valJson : Val → Json
  | .int i => Json.mkObj [("t", "int"), ("v", Json.str (toString i))]
  | .str s => Json.mkObj [("t", "str"), ("v", jstr s)]
  | .bool b => Json.mkObj [("t", "bool"), ("v", Json.bool b)]
  | .none => Json.mkObj [("t", "none")]
  | .list vs => Json.mkObj [("t", "list"), ("v", Json.arr (vs.map valJson).toArray)]
  | .dict kvs => Json.mkObj [("t", "dict"), ("v", Json.arr (kvs.map (fun kv =>
      Json.arr #[Json.mkObj [("t", "str"), ("v", jstr kv.1)], valJson kv.2])).toArray)]
  | .inst c fs => Json.mkObj [("t", "inst"), ("cls", jstr c), ("v", Json.arr (fs.map (fun f =>
      Json.arr #[jstr f.name, valJson f.val])).toArray)]
  | .type c _ => Json.mkObj [("t", "type"), ("cls", jstr c)]

def excName : Exc → String
  | .valueError => "ValueError" | .typeError => "TypeError" | .assertionError => "AssertionError"
  | .keyError => "KeyError" | .indexError => "IndexError"

def outJson : Out Val → Json
  | .ok v => Json.mkObj [("o", "ok"), ("v", valJson v)]
  | .error (.raise e) => Json.mkObj [("o", "raise"), ("exc", Json.str (excName e))]
  | .error (.unmodelled w) => Json.mkObj [("o", "unmodelled"), ("why", jstr w)]

/-- op `replace.unflatten`: {ch} ↦ unflatten_split(ch) -/
def opUnflatten (c : Json) : R Json := do
  let ch ← parseDict (← obj c "ch")
  return outJson ((unflattenSplit ch).map Val.dict)

/-- op `replace.e2e`: {obj, cd|null, kw} ↦ replace(obj, cd, **kw) -/
def opReplace (c : Json) : R Json := do
  let o ← parseVal (← obj c "obj")
  let cd ← optDict c "cd"
  let kw ← parseDict (← obj c "kw")
  return outJson (replaceTop o cd kw)

/-- op `replace.ref`: {obj, path, v} ↦ dataclasses.replace level by level along `path` -/
def opRef (c : Json) : R Json := do
  let o ← parseVal (← obj c "obj")
  let p := (← strList c "path").map chars
  let v ← parseVal (← obj c "v")
  match refEdit o p v with
  | some r => return Json.mkObj [("o", "ok"), ("v", valJson r)]
  | none => return Json.mkObj [("o", "raise")]

/-- op `replace.unflatten_sel`: {sel} ↦ _unflatten_selection_dict(sel, recursive=False) -/
def opUnflattenSel (c : Json) : R Json := do
  let s ← parseDict (← obj c "sel")
  return Json.mkObj [("o", "ok"), ("v", valJson (.dict (unflattenSel s)))]

def parseMeta (j : Json) : R ((Str × Str) × SgMeta) := do
  let sg ← optDict j "sg"
  let fac ← match j.getObjVal? "fac" with
    | .ok .null => pure none
    | .ok v => (parseVal v).map some
    | .error _ => pure none
  return ((chars (← str j "cls"), chars (← str j "f")),
          { hasDc := ← bool j "hasDc", isOpt := ← bool j "isOpt", sg := sg, fac := fac })

/-- op `replace.subgroups`: {obj, sel|null, tbl, fuel} ↦ replace_subgroups(obj, sel) -/
def opSubgroups (c : Json) : R Json := do
  let o ← parseVal (← obj c "obj")
  let sel := (← optDict c "sel").getD []
  let tbl ← (← arr c "tbl").toList.mapM parseMeta
  let fuel ← nat c "fuel"
  return outJson (replaceSg tbl fuel o sel)

def replaceOps : List (String × (Json → R Json)) :=
  [("replace.unflatten", opUnflatten), ("replace.e2e", opReplace), ("replace.ref", opRef),
   ("replace.unflatten_sel", opUnflattenSel), ("replace.subgroups", opSubgroups)]

end SpVerif.Drive
