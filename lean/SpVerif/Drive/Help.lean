import SpVerif.Drive.Util
import SpVerif.Drive.Conflicts
import SpVerif.Model.Help
open Lean

namespace SpVerif.Drive
open SpVerif.Help

def helpOptStrVal (j : Json) : R (Option Str) :=
  match j with
  | .null => .ok none
  | v => (v.getStr?).map (fun s => some (chars s))

def helpParseTy (j : Json) : R Ty := do
  match (← str j "k") with
  | "int" => return .int
  | "float" => return .float
  | "str" => return .str
  | "bool" => return .bool
  | "listInt" => return .listInt
  | "optInt" => return .optInt
  | "optStr" => return .optStr
  | "optFloat" => return .optFloat
  | "enum" => return .enum (chars (← str j "cls"))
  | k => throw s!"bad ty {k}"

def helpStrOr (j : Json) (k : String) : R Str := do
  return ((← optStr j k).map chars).getD []

def helpParseLeaf (j : Json) : R Leaf := do
  let h ← obj j "help"
  return { name := chars (← str j "name"), ty := ← helpParseTy (← obj j "ty"),
           dflt := ← helpOptStrVal (← obj j "dflt"),
           aliases := (← strList j "aliases").map chars,
           cmd := ← bool j "cmd", init := ← bool j "init",
           helpExplicit := ← helpStrOr h "explicit", below := ← helpStrOr h "below",
           above := ← helpStrOr h "above", inline := ← helpStrOr h "inline" }

def helpParsePairOpt (j : Json) : R (Str × Option Str) := do
  match j with
  | .arr #[k, v] => return (chars (← k.getStr?), ← helpOptStrVal v)
  | _ => throw "bad pair"

def helpParsePair (j : Json) : R (Str × Str) := do
  match j with
  | .arr #[k, v] => return (chars (← k.getStr?), chars (← v.getStr?))
  | _ => throw "bad pair"

partial def helpParseTree (j : Json) : R Tree := do
  let leaves ← (← arr j "leaves").toList.mapM helpParseLeaf
  let over ← (← arr j "over").toList.mapM helpParsePairOpt
  let kids ← (← arr j "kids").toList.mapM helpParseTree
  let cmd := match j.getObjValAs? Bool "cmd" with
    | .ok b => b
    | .error _ => true
  return .node (chars (← str j "cls")) (chars (← str j "name")) leaves over kids cmd

def helpParseForest (c : Json) : R Forest := do
  (← arr c "forest").toList.mapM (fun r => do
    return (← helpParseTree (← obj r "tree"), chars (← str r "prefix")))

def helpParseSources (c : Json) : R Sources := do
  let inst ← (← arr c "inst").toList.mapM helpParsePairOpt
  let files ← (← arr c "files").toList.mapM (fun f => do
    match f with
    | .arr a => a.toList.mapM helpParsePair
    | _ => throw "bad file")
  return { inst := inst, files := files }

def helpOptJson : Option Str → Json
  | some s => jstr s
  | none => Json.null

def helpEntryJson (e : Entry) : Json :=
  Json.mkObj [("cls", jstr e.cls), ("gdest", jstr e.gdest), ("dest", jstr e.dest), ("opts", jstrs e.opts),
              ("metavar", jstr e.metavar), ("default", helpOptJson e.dflt), ("help", jstr e.help),
              ("shown", jstr e.shown)]

def helpExc : Out → String
  | .ok _ => "ok"
  | .conflictResolutionError => "ConflictResolutionError"
  | .assertionError => "AssertionError"
  | .argumentError => "ArgumentError"
  | .notImplementedError => "NotImplementedError"

/-- op `help.entries`: {cfg, mode, forest, inst, files} ↦ {o:ok, entries:[entry…]} | {o:raise, exc} -/
def opHelpEntries (c : Json) : R Json := do
  let cfg ← parseCfg (← obj c "cfg")
  let mode ← parseCR (← str c "mode")
  let forest ← helpParseForest c
  let src ← helpParseSources c
  match entries cfg mode forest src with
  | .ok es => return Json.mkObj [("o", "ok"), ("entries", Json.arr (es.map helpEntryJson).toArray)]
  | o => return Json.mkObj [("o", "raise"), ("exc", helpExc o)]

/-- op `help.shown`: {help, default} ↦ {shown} -/
def opHelpShown (c : Json) : R Json := do
  let h ← helpStrOr c "help"
  let d ← helpOptStrVal (← obj c "default")
  return Json.mkObj [("shown", jstr (shownHelp h d))]

def helpOps : List (String × (Json → R Json)) :=
  [("help.entries", opHelpEntries), ("help.shown", opHelpShown)]

end SpVerif.Drive
