/-
  JSON glue for the C20 ops (`call.*`).  Values are opaque canonical strings (`V := Str`).
-/
import SpVerif.Drive.Util
import SpVerif.Model.Callables
open Lean

namespace SpVerif.Drive
open SpVerif.Callables

abbrev CV := Str

def parseKind : String → R Kind
  | "posOnly" => .ok .posOnly
  | "posOrKw" => .ok .posOrKw
  | "kwOnly" => .ok .kwOnly
  | s => .error s!"bad kind {s}"

def parseTyClass : String → R TyClass
  | "plain" => .ok .plain
  | "choice" => .ok .choice
  | "optional" => .ok .optional
  | "union" => .ok .union
  | "enum" => .ok .enum
  | "list" => .ok .list
  | "tuple" => .ok .tuple
  | "bool" => .ok .bool
  | "dc" => .ok .dc
  | s => .error s!"bad tyclass {s}"

def optField (j : Json) (k : String) : Option Json :=
  match j.getObjVal? k with
  | .ok .null => none
  | .ok v => some v
  | .error _ => none

def parseDflt (j : Json) : R (Dflt CV) := do
  match (← str j "k") with
  | "value" => return .value (chars (← str j "v")) (← bool j "none")
  | "func" => return .func (chars (← str j "fn")) (chars (← str j "v"))
  | k => throw s!"bad dflt {k}"

def parseParam (j : Json) : R (Param CV) := do
  let ann ← match optField j "ann" with
    | none => pure none
    | some a => do let s ← a.getStr?; pure (some (← parseTyClass s))
  let dflt ← match optField j "dflt" with
    | none => pure none
    | some d => do pure (some (← parseDflt d))
  let help := match optField j "help" with
    | some (.str s) => chars s
    | _ => []
  let mut_ := (j.getObjValAs? Bool "mutable").toOption.getD false
  return { name := chars (← str j "name"), kind := ← parseKind (← str j "kind"), ann := ann,
           dflt := dflt, help := help, mutableDefault := mut_ }

def parseSig (c : Json) : R (List (Param CV)) := do
  (← arr c "sig").toList.mapM parseParam

def sortedStrs (l : List Str) : List String :=
  ((l.map unchars).toArray.qsort (· < ·)).toList

def jsorted (l : List Str) : Json := Json.arr ((sortedStrs l).map Json.str).toArray

def parsePairs (j : Json) (k : String) : R (List (Str × CV)) := do
  (← arr j k).toList.mapM (fun p => do
    match p with
    | .arr #[.str a, .str b] => pure (chars a, chars b)
    | _ => throw "bad pair")

def jpairs (l : List (Str × CV)) : Json :=
  Json.arr (l.map (fun (k, v) => Json.arr #[jstr k, jstr v])).toArray

def jpairsSorted (l : List (Str × CV)) : Json :=
  let a := (l.map (fun (k, v) => (unchars k, unchars v))).toArray.qsort (fun x y => x.1 < y.1)
  Json.arr (a.toList.map (fun (k, v) => Json.arr #[Json.str k, Json.str v])).toArray

def parseAction (s : String) : Action :=
  match s with
  | "store" => .store
  | "store_const" => .storeConst
  | "store_true" => .storeTrue
  | "store_false" => .storeFalse
  | "append" => .append
  | "append_const" => .appendConst
  | "count" => .count
  | "help" => .help
  | "version" => .version
  | "parsers" => .parsers
  | _ => .custom []

/-- op `call.keep`: {keys, action} ↦ {kept} -/
def opCallKeep (c : Json) : R Json := do
  let keys := (← strList c "keys").map chars
  let a := parseAction (← str c "action")
  return Json.mkObj [("kept", jsorted (onlyKeepActionArgs keys a))]

def fdefaultTag : FDefault CV → String
  | .missing => "missing"
  | .value _ _ => "value"
  | .factory _ => "factory"

def addOutcomeTag : AddOutcome → String
  | .ok => "ok"
  | .typeError => "TypeError"

def fieldJson (f : Field CV) : Json :=
  Json.mkObj [("name", jstr f.name), ("positional", Json.bool f.positional),
    ("dflt", Json.str (fdefaultTag f.default)), ("custom", jsorted f.custom), ("help", jstr f.help),
    ("keys", if f.ty == .dc then Json.null else jsorted (argOptionKeys f).1)]

/-- op `call.fields`: {sig} ↦ fields + set-up outcome of the synthesised and of the equivalent class -/
def opCallFields (c : Json) : R Json := do
  let sig ← parseSig c
  let fs := mainFields sig
  let ps := plainFields sig
  -- `make_dataclass` refuses an unhashable `default=`: the synthesised class does not exist
  if fs.any (·.mutable) then
    return Json.mkObj [("main", "ValueError"), ("plain", "ok")]
  return Json.mkObj [("fields", Json.arr (fs.map fieldJson).toArray),
                     ("setup", Json.str (addOutcomeTag (setup fs))),
                     ("plain_fields", Json.arr (ps.map fieldJson).toArray),
                     ("plain_setup", Json.str (addOutcomeTag (setup ps)))]

def parseParseOut (j : Json) : R (ParseOut CV) := do
  match (← str j "o") with
  | "ok" => return .ok (← parsePairs j "vals")
  | "exit" => return .exit (← nat j "code")
  | "raise" => return .raise (chars (← str j "exc"))
  | o => throw s!"bad parse outcome {o}"

def callJson (c : Call CV) : List (String × Json) :=
  [("args", jstrs c.args), ("kwargs", jpairsSorted c.kwargs)]

/-- op `call.main`: {sig, parse, other_args, other_kw} ↦ outcome -/
def opCallMain (c : Json) : R Json := do
  let sig ← parseSig c
  let parse ← parseParseOut (← obj c "parse")
  let oa := (← strList c "other_args").map chars
  let ok ← parsePairs c "other_kw"
  match mainRun sig parse (chars "<unset>") oa ok with
  | .call cl =>
    let bound := match bind sig cl.args cl.kwargs with
      | some b => jpairs b
      | none => Json.null
    return Json.mkObj ([("o", Json.str "call")] ++ callJson cl ++ [("bound", bound)])
  | .exit code => return Json.mkObj [("o", "exit"), ("code", Json.num code)]
  | .raise e => return Json.mkObj [("o", "raise"), ("exc", jstr e)]

/-- op `call.bind`: {sig, args, kw} ↦ {o: ok, bound} | {o: TypeError} -/
def opCallBind (c : Json) : R Json := do
  let sig ← parseSig c
  let args := (← strList c "args").map chars
  let kw ← parsePairs c "kw"
  match bind sig args kw with
  | some b => return Json.mkObj [("o", "ok"), ("bound", jpairs b)]
  | none => return Json.mkObj [("o", "TypeError")]

partial def parseShape (j : Json) : R Shape := do
  match j with
  | .str "int" => return .int
  | .str "float" => return .float
  | .str "str" => return .str
  | .str "bool" => return .bool
  | .str "unhashable" => return .unhashable
  | .str _ => return .other
  | _ =>
    match j.getObjVal? "tuple" with
    | .ok (.arr a) => return .tuple (← a.toList.mapM parseShape)
    | _ => match j.getObjVal? "list" with
      | .ok (.arr a) => return .list (← a.toList.mapM parseShape)
      | _ => match j.getObjVal? "dict" with
        | .ok (.bool b) => return .dict b
        | _ => throw "bad shape"

def parseDV (j : Json) : R (CV × Shape) := do
  return (chars (← str j "v"), ← parseShape (← obj j "shape"))

def parseCParam (j : Json) : R (CParam CV) := do
  let dflt ← match optField j "dflt" with
    | none => pure none
    | some d => do pure (some (← parseDV d))
  return { name := chars (← str j "name"), annotated := ← bool j "annotated", dflt := dflt }

/-- op `call.config`: {sig, class_ann, ignore, overrides} ↦ {o: ok, fields} | {o: raise} -/
def opCallConfig (c : Json) : R Json := do
  let sig ← (← arr c "sig").toList.mapM parseCParam
  let classAnn := (← strList c "class_ann").map chars
  let ignore := (← strList c "ignore").map chars
  let ov ← (← arr c "overrides").toList.mapM (fun p => do
    match p with
    | .arr #[.str n, d] => do let (v, sh) ← parseDV d; pure (chars n, v, sh)
    | _ => throw "bad override")
  let doc (k : String) : Option Str := match optField c k with
    | some (.str t) => some (chars t)
    | _ => none
  match configForDoc (doc "class_doc") (doc "init_doc") classAnn ignore ov sig with
  | (.notImplemented, _) => return Json.mkObj [("o", "raise"), ("exc", "NotImplementedError")]
  | (.mutableDefault, _) => return Json.mkObj [("o", "raise"), ("exc", "ValueError")]
  | (.docError .valueError, _) => return Json.mkObj [("o", "raise"), ("exc", "ValueError")]
  | (.docError _, _) => return Json.mkObj [("o", "raise"), ("exc", "KeyError")]
  | (.ok fs, helps) =>
    return Json.mkObj [("o", "ok"), ("fields", Json.arr (fs.map (fun f =>
      Json.mkObj [("name", jstr f.name), ("required", Json.bool f.default.isNone),
                  ("default", match f.default with | some v => jstr v | none => Json.null),
                  ("help", match (helps.lookup f.name) with
                    | some (some h) => jstr h
                    | _ => Json.null)])).toArray)]

/-- op `call.docargs`: {doc} ↦ {o: ok, entries} | {o: raise, exc} -/
def opCallDocArgs (c : Json) : R Json := do
  match parseArgsDoc (chars (← str c "doc")) with
  | .ok es => return Json.mkObj [("o", "ok"), ("entries", jpairs es)]
  | .valueError => return Json.mkObj [("o", "raise"), ("exc", "ValueError")]
  | .keyError => return Json.mkObj [("o", "raise"), ("exc", "KeyError")]

/-- op `call.partial`: {sig, parse, args, kwargs} ↦ outcome -/
def opCallPartial (c : Json) : R Json := do
  let sig ← parseSig c
  let parse ← parseParseOut (← obj c "parse")
  let args := (← strList c "args").map chars
  let kw ← parsePairs c "kwargs"
  -- `config_for` itself fails (make_dataclass: mutable default) before anything is parsed
  if (c.getObjValAs? Bool "mutable_field_default").toOption.getD false then
    return Json.mkObj [("o", "raise"), ("exc", "ValueError")]
  match partialRun sig parse args kw with
  | .call cl =>
    let bound := match bind sig cl.args cl.kwargs with
      | some b => jpairs b
      | none => Json.null
    return Json.mkObj ([("o", Json.str "call")] ++ callJson cl ++ [("bound", bound)])
  | .exit code => return Json.mkObj [("o", "exit"), ("code", Json.num code)]
  | .raise e => return Json.mkObj [("o", "raise"), ("exc", jstr e)]

/-- op `call.infer`: {shape} ↦ {ok} -/
def opCallInfer (c : Json) : R Json := do
  return Json.mkObj [("ok", Json.bool (inferable (← parseShape (← obj c "shape"))))]

def parseIgnoreForm (j : Json) : R IgnoreForm := do
  match (← str j "form") with
  | "absent" => return .absent
  | "str" => return .str (chars (← str j "s"))
  | "tuple" => return .tuple ((← strList j "names").map chars)
  | "list" => return .list ((← strList j "names").map chars)
  | f => throw s!"bad ignore form {f}"

def parseCacheKey (j : Json) : R CacheKey := do
  let frozen := match optField j "frozen" with
    | some (.bool b) => some b
    | _ => none
  return { target := ← nat j "target", ignore := ← parseIgnoreForm (← obj j "ignore"),
           frozen := frozen, defaults := ← parsePairs j "defaults",
           hashableDefaults := ← bool j "hashable" }

/-- op `call.cache`: {calls} ↦ {ids} -/
def opCallCache (c : Json) : R Json := do
  let ks ← (← arr c "calls").toList.mapM parseCacheKey
  let (ids, _) := runCalls {} ks
  return Json.mkObj [("ids", Json.arr (ids.map (fun (n : Nat) => Json.num n)).toArray)]

def callablesOps : List (String × (Json → R Json)) :=
  [("call.keep", opCallKeep), ("call.fields", opCallFields), ("call.main", opCallMain),
   ("call.bind", opCallBind), ("call.config", opCallConfig), ("call.partial", opCallPartial),
   ("call.cache", opCallCache), ("call.cachemany", opCallCache), ("call.infer", opCallInfer),
   ("call.docargs", opCallDocArgs)]

end SpVerif.Drive
