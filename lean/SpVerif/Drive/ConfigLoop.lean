import SpVerif.Drive.Fields
import SpVerif.Model.ConfigLoop
open Lean

namespace SpVerif.Drive
open SpVerif.ConfigLoop

/-- instance tree: [[name, {"k":"leaf","v":V} | {"k":"sub","cls":…,"v":[…]} | {"k":"subnone"}] …] -/
partial def clParseInst (j : Json) : R Inst := do
  let entries ← j.getArr?
  entries.toList.foldrM (fun e acc => do
    let name := chars (← (← e.getArrVal? 0).getStr?)
    let b ← e.getArrVal? 1
    match (← str b "k") with
    | "leaf" => return Inst.leaf name (← eParseVal (← obj b "v")) acc
    | "sub" => return Inst.sub name (chars (← str b "cls")) (← clParseInst (← obj b "v")) acc
    | "subnone" => return Inst.subNone name acc
    | k => throw s!"bad inst entry {k}") Inst.nil

/-- class tree: [{"k":"leaf","f":field} | {"k":"sub","name","cls","optional","dflt":{"kind":…,"v":inst},"fields":[…]} …] -/
partial def clParseSpec (j : Json) : R Spec := do
  let entries ← j.getArr?
  entries.toList.foldrM (fun e acc => do
    match (← str e "k") with
    | "leaf" => return Spec.leaf (← fParseField (← obj e "f")) acc
    | "sub" =>
      let d ← obj e "dflt"
      let dflt ← match (← str d "kind") with
        | "missing" => pure SubDflt.missing
        | "none" => pure SubDflt.none
        | "inst" => pure (SubDflt.inst (← clParseInst (← obj d "v")))
        | k => throw s!"bad sub default {k}"
      return Spec.sub (chars (← str e "name")) (chars (← str e "cls")) (← bool e "optional") dflt
        (← clParseSpec (← obj e "fields")) acc
    | k => throw s!"bad spec entry {k}") Spec.nil

/-- file tree: [[name, {"k":"val","v":V} | {"k":"obj","v":[…]}] …] -/
partial def clParseFile (j : Json) : R File := do
  let entries ← j.getArr?
  entries.toList.foldrM (fun e acc => do
    let name := chars (← (← e.getArrVal? 0).getStr?)
    let b ← e.getArrVal? 1
    match (← str b "k") with
    | "val" => return File.leaf name (← eParseVal (← obj b "v")) acc
    | "obj" => return File.sub name (← clParseFile (← obj b "v")) acc
    | k => throw s!"bad file entry {k}") File.nil

def clFileJson : File → List Json
  | .nil => []
  | .leaf n v r => Json.arr #[jstr n, Json.mkObj [("k", "val"), ("v", eValJson v)]] :: clFileJson r
  | .sub n c r => Json.arr #[jstr n, Json.mkObj [("k", "obj"), ("v", Json.arr (clFileJson c).toArray)]] :: clFileJson r

/-- Appendix-A rendering of an instance: [[name, V] …] -/
def clInstFields : Inst → List Json
  | .nil => []
  | .leaf n v r => Json.arr #[jstr n, eValJson v] :: clInstFields r
  | .sub n c t r => Json.arr #[jstr n, Json.mkObj [("t", "inst"), ("cls", jstr c), ("v", Json.arr (clInstFields t).toArray)]]
      :: clInstFields r
  | .subNone n r => Json.arr #[jstr n, Json.mkObj [("t", "none")]] :: clInstFields r

def clOutJson (cls : String) : Out Inst → Json
  | .ok i => Json.mkObj [("o", "ok"), ("inst", Json.mkObj [("t", "inst"), ("cls", cls), ("v", Json.arr (clInstFields i).toArray)])]
  | .exit2 => Json.mkObj [("o", "exit"), ("code", Json.num 2)]
  | .raise e _ => Json.mkObj [("o", "raise"), ("exc", jstr e)]
  | .unmodelled w => Json.mkObj [("o", "unmodelled"), ("why", w)]

def clParseApi : String → R Api
  | "parse" => .ok .parse
  | "parser" => .ok .parser
  | s => .error s!"bad api {s}"

/-- op `cl.loop`: {api, dest, cls, spec, x, floats} ↦ outcome of parse(config = save x) -/
def opClLoop (c : Json) : R Json := do
  let api ← clParseApi (← str c "api")
  let spec ← clParseSpec (← obj c "spec")
  let x ← clParseInst (← obj c "x")
  return clOutJson (← str c "cls") (ConfigLoop.loop (← eParseFEnv c) api (chars (← str c "dest")) spec x)

/-- op `cl.parse_file`: {api, dest, cls, spec, file, floats} ↦ outcome of parse(config = an arbitrary file tree) -/
def opClParseFile (c : Json) : R Json := do
  let api ← clParseApi (← str c "api")
  let spec ← clParseSpec (← obj c "spec")
  let file ← clParseFile (← obj c "file")
  return clOutJson (← str c "cls") (ConfigLoop.run (← eParseFEnv c) api (chars (← str c "dest")) spec file)

/-- op `cl.encode`: {x} ↦ the tree `to_dict(x)` -/
def opClEncode (c : Json) : R Json := do
  let x ← clParseInst (← obj c "x")
  return Json.mkObj [("file", Json.arr (clFileJson (fileOf x)).toArray)]

/-- op `cl.filesafe`: {spec, x, floats} ↦ {"filesafe": b} — the theorem's exclusion predicate on (spec, x); `unmodelled` when
    x is outside the theorem's hypotheses (`conformsB`, `wfB`) -/
def opClFilesafe (c : Json) : R Json := do
  let spec ← clParseSpec (← obj c "spec")
  let x ← clParseInst (← obj c "x")
  let fenv ← eParseFEnv c
  if !(conformsB spec x && wfB spec) then
    return Json.mkObj [("o", "unmodelled"), ("why", "x does not conform to the class tree / is not in the model")]
  -- where the model itself cannot follow the loop (e.g. a non-ASCII str in a Union with an int member: `parseInt` is not
  -- modelled there) `unionSafe` is conservatively false: not comparable
  match ConfigLoop.loop fenv .parse (chars (← str c "dest")) spec x with
  | .unmodelled w => return Json.mkObj [("o", "unmodelled"), ("why", w)]
  | _ => return Json.mkObj [("filesafe", fileSafe fenv spec .empty x)]

def configLoopOps : List (String × (Json → R Json)) :=
  [("cl.loop", opClLoop), ("cl.parse_file", opClParseFile), ("cl.encode", opClEncode), ("cl.filesafe", opClFilesafe)]

end SpVerif.Drive
