import SpVerif.Drive.Util
import SpVerif.Model.DocScan
open Lean

namespace SpVerif.Drive
open SpVerif.DocScan

def parseClassSrc (j : Json) : R ClassSrc := do
  let ps ← (← arr j "params").toList.mapM (fun p => do
    return (chars (← str p "name"), chars (← str p "desc")))
  return { source := (← optStr j "source").map chars, doc := (← optStr j "doc").map chars, params := ps }

def docJson (d : Doc) : Json :=
  Json.mkObj [("above", jstr d.above), ("inline", jstr d.inline), ("below", jstr d.below), ("cls", jstr d.cls)]

def optJson : Option Str → Json
  | some s => jstr s
  | none => Json.null

/-- the answer for sources with a definition line outside the modelled inline-comment fragment -/
def unmodelledJson : Json := Json.mkObj [("unmodelled", Json.bool true)]

/-- op `doc.scan`: {mro: [{source, doc, params}], names: [..]} ↦ {docs: {name: Doc}} — compared
    with the real `get_attribute_docstring(cls, name)`. -/
def opDocScan (c : Json) : R Json := do
  let mro ← (← arr c "mro").toList.mapM parseClassSrc
  let names ← strList c "names"
  if !mro.all classModelled then return unmodelledJson
  return Json.mkObj [("docs", Json.mkObj (names.map (fun n => (n, docJson (attributeDoc mro (chars n))))))]

/-- op `doc.help`: {mro, fields: [{name, custom, meta}]} ↦ {help: {name: str|null}} — compared
    with the `help` of the real argparse action (the temporary token read as null). -/
def opDocHelp (c : Json) : R Json := do
  let mro ← (← arr c "mro").toList.mapM parseClassSrc
  let fs ← (← arr c "fields").toList.mapM (fun f => do
    return (← str f "name", (← optStr f "custom").map chars, (← optStr f "meta").map chars))
  if !mro.all classModelled then return unmodelledJson
  return Json.mkObj [("help", Json.mkObj (fs.map (fun (n, cu, me) =>
    (n, optJson (actionHelp cu me (attributeDoc mro (chars n)))))))]

/-- op `doc.line`: {line, name} ↦ the line classifiers — compared with the real helper functions. -/
def opDocLine (c : Json) : R Json := do
  let l := chars (← str c "line")
  let n := chars (← str c "name")
  return Json.mkObj [("def", Json.bool (containsFieldDef l)), ("defines", Json.bool (lineDefines l n)),
                     ("empty", Json.bool (isEmptyLine l)), ("comment", Json.bool (isComment l))]

/-- op `doc.inline`: {line} ↦ {inline: text} | {unmodelled} — compared with the real
    `_get_inline_comment_at_line([line], 0)` on definition lines. -/
def opDocInline (c : Json) : R Json := do
  let l := chars (← str c "line")
  if !lineModelled l then return unmodelledJson
  return Json.mkObj [("inline", jstr (inlineComment l))]

/-- op `doc.history`: {classes: [{name, source, doc, params}], queries: [{kind: "scan", mro: [names],
    names} | {kind: "help", mro, fields}]} ↦ {answers: [...]} — a sequence of look-ups made in ONE
    process on classes of one module.  The model runs them through `lookupMut`: per field name a
    cache of the records that served as accumulators (the code's `lru_cache` + in-place merge).
    Theorem `c19_cache_linear` shows the answers are the one-shot answers on linear chains; on a
    diamond they are not (`c19_diamond_history_witness`) and the model reproduces that. -/
def opDocHistory (c : Json) : R Json := do
  let classes ← (← arr c "classes").toList.mapM (fun j => do return (← str j "name", ← parseClassSrc j))
  if !classes.all (fun p => classModelled p.2) then return unmodelledJson
  let idx (n : String) : Nat := (classes.findIdx? (fun p => p.1 == n)).getD classes.length
  let src (k : Nat) : Option ClassSrc := (classes[k]?).map (·.2)
  let mut caches : List (String × Cache) := []
  let mut outs : Array Json := #[]
  for q in (← arr c "queries") do
    let kind ← str q "kind"
    let mro := (← strList q "mro").map idx
    let fieldSpecs : List (String × Option Str × Option Str) ←
      if kind == "scan" then pure ((← strList q "names").map (fun n => (n, none, none)))
      else (← arr q "fields").toList.mapM (fun f => do
        return (← str f "name", (← optStr f "custom").map chars, (← optStr f "meta").map chars))
    let mut entries : List (String × Json) := []
    for (n, cu, me) in fieldSpecs do
      let raw : Nat → Option Doc := fun k => (src k).bind (fun cs => scanClass cs (chars n))
      let cache := (caches.lookup n).getD []
      let r := lookupMut raw cache mro
      caches := (n, r.2) :: caches
      entries := entries ++ [(n, if kind == "scan" then docJson r.1 else optJson (actionHelp cu me r.1))]
    outs := outs.push (Json.mkObj [(if kind == "scan" then "docs" else "help", Json.mkObj entries)])
  return Json.mkObj [("answers", Json.arr outs)]

def parseQuote : String → R Quote
  | "\"\"\"" => .ok .dq
  | "'''" => .ok .sq
  | s => .error s!"bad quote {s}"

def parseBlock (j : Json) : R Block := do
  let below ← match j.getObjVal? "below" with
    | .ok .null => pure Below.none
    | .error _ => pure Below.none
    | .ok b => do
      let q ← parseQuote (← str b "q")
      let ls := (← strList b "lines").map chars
      if (← bool b "multi") then
        match ls with
        | f :: r => pure (Below.multi q f r)
        | [] => throw "multi docstring without lines"
      else
        match ls with
        | [m] => pure (Below.one q m)
        | _ => throw "one-line docstring needs exactly one line"
  return { above := (← strList j "above").map chars, gap1 := ← nat j "gap1",
           name := chars (← str j "name"), tail := chars (← str j "tail"),
           inline := (← optStr j "inline").map chars, gap2 := ← nat j "gap2",
           below := below, gap3 := ← nat j "gap3" }

/-- op `doc.layout`: {header: [lines], blocks: [...]} ↦ {lines: rendered source lines,
    docs: {name: expected Doc by the layout semantics}, in_grammar: the hypotheses of
    `c19_extract` hold} — the rendered lines are compared with the
    lines `inspect.getsource` returns for the generated class (after `__doc__` removal), the docs
    with the real extractor's answer for the class alone. -/
def opDocLayout (c : Json) : R Json := do
  let hdr := (← strList c "header").map chars
  let blocks ← (← arr c "blocks").toList.mapM parseBlock
  let names := blocks.map (·.name)
  if !(hdr ++ renderBlocks blocks).all (fun l => !containsFieldDef l || lineModelled l) then
    return unmodelledJson
  -- the hypotheses of theorem `c19_extract` (header, well-formed blocks, pairwise distinct names)
  let inGrammar := headerOk hdr && blocks.all Block.wf && (SpVerif.dedup names).length == names.length
  return Json.mkObj [("lines", jstrs (hdr ++ renderBlocks blocks)),
    ("docs", Json.mkObj (blocks.map (fun b => (unchars b.name, docJson (b.doc))))),
    ("in_grammar", Json.bool inGrammar)]

def docScanOps : List (String × (Json → R Json)) :=
  [("doc.scan", opDocScan), ("doc.help", opDocHelp), ("doc.line", opDocLine), ("doc.layout", opDocLayout),
   ("doc.inline", opDocInline), ("doc.history", opDocHistory)]

end SpVerif.Drive
