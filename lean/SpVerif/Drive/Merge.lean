/-
  JSON glue for the C11 model (`SpVerif.Model.Merge`).  Types and values use the vocabulary of
  DESIGN Appendix A (enum values are written without their class: `{"t":"enum","v":"RED"}`).
  Tokens: {"k":"bare","w":s} | {"k":"spaced","ws":[…]} | {"k":"comma","ws":[…]} |
          {"k":"bracket","sq":bool,"ws":[…]}.
  Default source: {"k":"field","v":V|null} | {"k":"parents","vs":[V…]}.
-/
import SpVerif.Drive.Util
import SpVerif.Model.Merge
open Lean

namespace SpVerif.Drive.MergeD
open SpVerif.Drive SpVerif.Merge

def parseItemTy (j : Json) : R ItemTy := do
  match (← str j "k") with
  | "int" => return .int
  | "float" => return .float
  | "str" => return .str
  | "bool" => return .bool
  | "enum" => return .enum ((← strList j "members").map chars)
  | k => throw s!"bad item type {k}"

def parseFieldTy (j : Json) : R FieldTy := do
  match (← str j "k") with
  | "list" => return .list (← parseItemTy (← obj j "item"))
  | "vtuple" => return .vtuple (← parseItemTy (← obj j "item"))
  | "tuple" => return .tuple (← (← arr j "items").toList.mapM parseItemTy)
  | _ => return .scalar (← parseItemTy j)

def parseScalarM (j : Json) : R Scalar := do
  match (← str j "t") with
  | "int" =>
    let s ← str j "v"
    match s.toInt? with
    | some i => return .int i
    | none => throw s!"bad int {s}"
  | "float" => return .float (chars (← str j "v"))
  | "str" => return .str (chars (← str j "v"))
  | "bool" => return .bool (← bool j "v")
  | "enum" => return .enum (chars (← str j "v"))
  | "none" => return .none
  | t => throw s!"bad scalar tag {t}"

def parseValM (j : Json) : R Merge.Val := do
  match (← str j "t") with
  | "list" => return .list (← (← arr j "v").toList.mapM parseScalarM)
  | "tuple" => return .tuple (← (← arr j "v").toList.mapM parseScalarM)
  | _ => return .sc (← parseScalarM j)

def scalarJsonM : Scalar → Json
  | .int i => Json.mkObj [("t", "int"), ("v", Json.str (toString i))]
  | .float r => Json.mkObj [("t", "float"), ("v", jstr r)]
  | .str s => Json.mkObj [("t", "str"), ("v", jstr s)]
  | .bool b => Json.mkObj [("t", "bool"), ("v", Json.bool b)]
  | .enum nm => Json.mkObj [("t", "enum"), ("v", jstr nm)]
  | .none => Json.mkObj [("t", "none")]

def valJsonM : Merge.Val → Json
  | .sc s => scalarJsonM s
  | .list l => Json.mkObj [("t", "list"), ("v", Json.arr (l.map scalarJsonM).toArray)]
  | .tuple l => Json.mkObj [("t", "tuple"), ("v", Json.arr (l.map scalarJsonM).toArray)]

def valsJsonM (l : List Merge.Val) : Json := Json.arr (l.map valJsonM).toArray

def parseTokM (j : Json) : R Tok := do
  match (← str j "k") with
  | "bare" => return .bare (chars (← str j "w"))
  | "spaced" => return .spaced ((← strList j "ws").map chars)
  | "comma" => return .comma ((← strList j "ws").map chars)
  | "bracket" => return .bracket (← bool j "sq") ((← strList j "ws").map chars)
  | k => throw s!"bad token kind {k}"

def parseSrc (j : Json) : R DefaultSrc := do
  match (← str j "k") with
  | "field" =>
    match j.getObjVal? "v" with
    | .ok .null => return .field none
    | .ok v => return .field (some (← parseValM v))
    | .error _ => return .field none
  | "parents" => return .parents (← (← arr j "vs").toList.mapM parseValM)
  | k => throw s!"bad default source {k}"

def excName : Exc → String
  | .inconsistentArgumentError => "InconsistentArgumentError"
  | .typeError => "TypeError"
  | .keyError => "KeyError"
  | .assertionError => "AssertionError"
  | .valueError => "ValueError"

def kindName : ExitKind → String
  | .required => "required"
  | .type => "type"
  | .choice => "choice"
  | .nargs => "nargs"

def errJson : Err → Json
  | .exit2 k => Json.mkObj [("o", "exit"), ("code", Json.num 2), ("kind", kindName k)]
  | .raise e => Json.mkObj [("o", "raise"), ("exc", excName e)]
  | .unmodelled => Json.mkObj [("o", "unmodelled")]

def resJson {α : Type} (f : α → Json) : Res α → Json
  | .ok a => Json.mkObj [("o", "ok"), ("v", f a)]
  | .error e => errJson e

def parseFieldCase (j : Json) : R FieldCase := do
  return { fty := ← parseFieldTy (← obj j "ty"), src := ← parseSrc (← obj j "src") }

/-- op `merge.run`: {n, fields:[{ty, src}], argv:[{f, toks}]} ↦ {o:ok, v:[[V per destination] per field]} | error -/
def opMergeRun (c : Json) : R Json := do
  let n ← nat c "n"
  let fields ← (← arr c "fields").toList.mapM parseFieldCase
  let argv ← (← arr c "argv").toList.mapM (fun a => do
    let toks ← (← arr a "toks").toList.mapM parseTokM
    return ((← nat a "f"), toks))
  return resJson (fun vss => Json.arr (vss.map valsJsonM).toArray) (runCase n fields argv)

/-- op `merge.pack`: {n, ty, src} ↦ {o:ok, v:{default:[V…]|null, required:bool, nargs:"*"|"+"}} | error -/
def opMergePack (c : Json) : R Json := do
  let n ← nat c "n"
  let fty ← parseFieldTy (← obj c "ty")
  let src ← parseSrc (← obj c "src")
  let req := isRequired src
  return resJson (fun d => Json.mkObj [
      ("default", match d with | some l => valsJsonM l | none => Json.null),
      ("required", Json.bool req), ("nargs", if req then "+" else "*")])
    (setupDefault fty n src)

/-- op `merge.tok`: {ty, tok} ↦ {o:ok, v:{rendered, value}} | error -/
def opMergeTok (c : Json) : R Json := do
  let fty ← parseFieldTy (← obj c "ty")
  let tok ← parseTokM (← obj c "tok")
  return resJson (fun v => Json.mkObj [("rendered", jstr tok.render), ("value", valJsonM v)]) (parseTok fty tok)

/-- op `merge.dist`: {n, ty, values:[V…]} ↦ {o:ok, v:[V per destination]} | error -/
def opMergeDist (c : Json) : R Json := do
  let n ← nat c "n"
  let fty ← parseFieldTy (← obj c "ty")
  let vs ← (← arr c "values").toList.mapM parseValM
  return resJson valsJsonM (distribute fty n vs)

partial def parseDW (j : Json) : R DW := do
  let d := (← strList j "dests").map chars
  let f ← (← arr j "defaults").toList.mapM (fun x => (x.getNat? : R Nat))
  let cs ← (← arr j "children").toList.mapM parseDW
  return .mk d f cs

partial def dwJson : DW → Json
  | .mk d f cs => Json.mkObj [("dests", jstrs d), ("defaults", Json.arr (f.map (fun (n : Nat) => (Json.num (JsonNumber.fromNat n)))).toArray),
                              ("children", Json.arr (cs.map dwJson).toArray)]

/-- op `merge.dests`: {root: bool, first: DW, others: [DW…]} ↦ the merged wrapper tree -/
def opMergeDests (c : Json) : R Json := do
  let first ← parseDW (← obj c "first")
  let others ← (← arr c "others").toList.mapM parseDW
  return dwJson (mergeAll (← bool c "root") first others)

end SpVerif.Drive.MergeD

namespace SpVerif.Drive
open MergeD in
def mergeOps : List (String × (Json → R Json)) :=
  [("merge.run", opMergeRun), ("merge.pack", opMergePack), ("merge.tok", opMergeTok),
   ("merge.dist", opMergeDist), ("merge.dests", opMergeDests)]

end SpVerif.Drive
