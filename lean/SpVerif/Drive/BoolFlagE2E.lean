import SpVerif.Drive.Util
import SpVerif.Drive.Naming
import SpVerif.Model.BoolFlagE2E
open Lean

namespace SpVerif.Drive
open SpVerif.BoolE2E

def boolE2EParseTok (j : Json) : R Tok := do
  return { opt := chars (← str j "opt"), val := (← optStr j "val").map chars }

def boolE2EParseSetup (c : Json) : R Setup := do
  return { cfg := ← parseCfg (← obj c "cfg"), fw := ← parseFW (← obj c "fw"),
           negPrefix := chars (← str c "neg_prefix"),
           negOption := (← optStr c "neg_option").map chars }

/-- op `bool.e2e`: {cfg, fw, neg_prefix, neg_option, default: true|false|null, exit_neg, toks:[{opt,val|null}]}
    ↦ {setup:"raise"} | {pos, neg, out: outcome | {o:"foreign"}} -/
def opBoolE2E (c : Json) : R Json := do
  let s ← boolE2EParseSetup c
  let d : Option Bool := match c.getObjVal? "default" with
    | .ok (.bool b) => some b
    | _ => none
  let toks ← (← arr c "toks").toList.mapM boolE2EParseTok
  let e ← nat c "exit_neg"
  match optionsOf s with
  | none => return Json.mkObj [("setup", "raise")]
  | some (pos, negs) =>
    let out := match run e s d toks with
      | .res r => boutJson r
      | .foreign => Json.mkObj [("o", "foreign")]
      | .setupRaise => Json.mkObj [("o", "setup")]
    return Json.mkObj [("pos", jstrs pos), ("neg", jstrs negs), ("out", out)]

def boolE2EOps : List (String × (Json → R Json)) := [("bool.e2e", opBoolE2E)]

end SpVerif.Drive
