/-
  JSON glue shared by the per-property drivers.  Imports `Lean.Data.Json` only (no Mathlib), so
  the driver can be compiled to a native executable.
-/
import Lean.Data.Json
import SpVerif.Model.Core
open Lean

namespace SpVerif.Drive

abbrev R := Except String

def str (j : Json) (k : String) : R String := j.getObjValAs? String k
def nat (j : Json) (k : String) : R Nat := j.getObjValAs? Nat k
def int (j : Json) (k : String) : R Int := j.getObjValAs? Int k
def bool (j : Json) (k : String) : R Bool := j.getObjValAs? Bool k
def arr (j : Json) (k : String) : R (Array Json) := j.getObjValAs? (Array Json) k
def obj (j : Json) (k : String) : R Json := j.getObjVal? k

def optStr (j : Json) (k : String) : R (Option String) :=
  match j.getObjVal? k with
  | .ok .null => .ok none
  | .ok v => (v.getStr?).map some
  | .error _ => .ok none

def strList (j : Json) (k : String) : R (List String) := do
  let a ← arr j k
  a.toList.mapM (fun x => x.getStr?)

def chars (s : String) : Str := s.toList
def unchars (s : Str) : String := String.ofList s

def jstr (s : Str) : Json := Json.str (unchars s)
def jstrs (l : List Str) : Json := Json.arr (l.map jstr).toArray

def parseDash : String → R Dash
  | "UNDERSCORE" => .ok .underscore
  | "AUTO" => .ok .underscore
  | "UNDERSCORE_AND_DASH" => .ok .both
  | "DASH" => .ok .dashOnly
  | s => .error s!"bad dash {s}"

def parseGen : String → R Gen
  | "FLAT" => .ok .flat
  | "NESTED" => .ok .nested
  | "BOTH" => .ok .both
  | s => .error s!"bad gen {s}"

def parseNest : String → R Nest
  | "DEFAULT" => .ok .default
  | "WITHOUT_ROOT" => .ok .withoutRoot
  | s => .error s!"bad nest {s}"

def parseCfg (j : Json) : R Cfg := do
  return { dash := ← parseDash (← str j "dash"), gen := ← parseGen (← str j "gen"),
           nest := ← parseNest (← str j "nest") }

end SpVerif.Drive
