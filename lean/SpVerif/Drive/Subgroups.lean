import SpVerif.Drive.Util
import SpVerif.Drive.Engine
import SpVerif.Drive.Conflicts
import SpVerif.Model.Subgroups
open Lean

namespace SpVerif.Drive
open SpVerif.Subgroups

def sgParseKind : String → R AltKind
  | "type" => .ok .cls
  | "partial" => .ok .part
  | "inst" => .ok .inst
  | s => .error s!"bad alt kind {s}"

def sgParseKw (j : Json) : R Kw := do
  (← arr j "kw").toList.mapM (fun p => do
    let k ← p.getArrVal? 0 >>= (·.getStr?)
    let v ← eParseScalar (← p.getArrVal? 1)
    return (chars k, v))

def sgParseLeafConv : String → R BConv
  | "int" => .ok .int
  | "str" => .ok .str
  | s => .error s!"bad leaf type {s}"

mutual
  partial def sgParseCls (j : Json) : R Cls := do
    let name ← str j "name"
    let fs ← sgParseFlds (← arr j "fields").toList
    return .mk (chars name) fs
  partial def sgParseFlds : List Json → R Flds
    | [] => .ok .nil
    | f :: rest => do
      let restF ← sgParseFlds rest
      let name := chars (← str f "name")
      match (← str f "k") with
      | "leaf" =>
        let conv ← sgParseLeafConv (← str f "ty")
        let d ← match f.getObjVal? "default" with
          | .ok .null => pure none
          | .ok v => pure (some (← eParseScalar v))
          | .error _ => pure none
        return .leaf name conv d restF
      | "hidden" =>
        return .hidden name (← eParseScalar (← obj f "default")) restF
      | "sub" =>
        let d := (← optStr f "default").map chars
        let alts ← sgParseAlts (← arr f "alts").toList
        return .sub name d alts restF
      | k => throw s!"bad field kind {k}"
  partial def sgParseAlts : List Json → R Alts
    | [] => .ok .nil
    | a :: rest => do
      let restA ← sgParseAlts rest
      return .cons (chars (← str a "key")) (← sgParseKind (← str a "kind")) (← sgParseKw a)
        (← sgParseCls (← obj a "cls")) restA
end

def sgParsePairs (c : Json) : R (List (Str × Str)) := do
  (← arr c "argv").toList.mapM (fun p => do
    let o ← p.getArrVal? 0 >>= (·.getStr?)
    let v ← p.getArrVal? 1 >>= (·.getStr?)
    return (chars o, chars v))

def sgExcStr : Exc → String
  | .assertionError => "AssertionError"
  | .argumentError => "ArgumentError"
  | .conflictResolutionError => "ConflictResolutionError"

def sgObj (l : List (Str × Json)) : Json := Json.mkObj (l.map (fun p => (unchars p.1, p.2)))

def sgOutJson : Out → Json
  | .ok r => Json.mkObj [("o", "ok"),
      ("leaves", sgObj ((r.leaves ++ r.hidden).map (fun p => (p.1, eValJson p.2)))),
      ("classes", sgObj (r.classes.map (fun p => (p.1, jstr p.2)))),
      ("subgroups", sgObj (r.subgroups.map (fun p => (p.1, eValJson p.2))))]
  | .exit2 => Json.mkObj [("o", "exit"), ("code", Json.num 2)]
  | .raise e => Json.mkObj [("o", "raise"), ("exc", sgExcStr e)]
  | .unmodelled => Json.mkObj [("o", "unmodelled")]

structure SgIn where
  cfg : Cfg
  mode : CR
  dest : Str
  root : Cls
  argv : List (Str × Str)

def sgParseIn (c : Json) : R SgIn := do
  return { cfg := ← parseCfg (← obj c "cfg"), mode := ← parseCR (← str c "mode"),
           dest := chars (← str c "dest"), root := ← sgParseCls (← obj c "root"),
           argv := ← sgParsePairs c }

/-- op `sg.e2e`: {cfg, mode, dest, root, argv:[[opt,value]…]} ↦ outcome of `parse_args` -/
def opSgE2e (c : Json) : R Json := do
  let i ← sgParseIn c
  return sgOutJson (Subgroups.run i.cfg i.mode i.dest i.root i.argv)

def sgDefaultJson (r : SRec) : Json :=
  match r.kind with
  | .leaf _ (some s) => eScalarJson s
  | .leaf _ none => Json.null
  | .sub _ true _ => Json.mkObj [("t", "forced-instance")]   -- `set_default(getattr(instance, name))`
  | .sub (some k) false _ => Json.mkObj [("t", "str"), ("v", jstr k)]
  | .sub none false _ => Json.null

/-- op `sg.rounds`: same input ↦ what `_resolve_subgroups` returns: the resolved keys and, for every
    field wrapper of the final wrapper tree in `_flatten_wrappers` order, its destination, the set of
    its option strings, and its default -/
def opSgRounds (c : Json) : R Json := do
  let i ← sgParseIn c
  match resolveSubgroups i.cfg i.mode i.dest i.root i.argv with
  | .ok st =>
    return Json.mkObj [("o", "ok"),
      ("resolved", Json.arr (st.resolved.map (fun p => Json.arr #[jstr p.1, jstr p.2])).toArray),
      ("fields", Json.arr (st.recs.map (fun r => Json.arr #[jstr r.dest,
          Json.arr ((sortStrs (r.fr.opts i.cfg)).map Json.str).toArray, sgDefaultJson r])).toArray)]
  | .exit2 => return Json.mkObj [("o", "exit"), ("code", Json.num 2)]
  | .raise e => return Json.mkObj [("o", "raise"), ("exc", sgExcStr e)]
  | .unmodelled => return Json.mkObj [("o", "unmodelled")]

/-- op `sg.parse`: {table:[act…], argv:[[opt,value]…], abbrev, strict} ↦ namespace | exit 2 -/
def opSgParse (c : Json) : R Json := do
  let tbl ← (← arr c "table").toList.mapM eParseAct
  let argv ← sgParsePairs c
  let ab ← bool c "abbrev"
  let strict ← bool c "strict"
  if !tableOk tbl then return Json.mkObj [("o", "unmodelled")]
  match Subgroups.parseOut ab strict tbl argv with
  | .ok ns => return Json.mkObj [("o", "ok"), ("ns", sgObj (ns.map (fun p => (p.1, eValJson p.2))))]
  | .exit2 => return Json.mkObj [("o", "exit"), ("code", Json.num 2)]
  | .unmodelled => return Json.mkObj [("o", "unmodelled")]

def subgroupsOps : List (String × (Json → R Json)) :=
  [("sg.e2e", opSgE2e), ("sg.rounds", opSgRounds), ("sg.parse", opSgParse)]

end SpVerif.Drive
