import SpVerif.Drive.Util
import SpVerif.Model.Annot
open Lean

namespace SpVerif.Drive.AnnotGlue
open SpVerif.Annot SpVerif.Drive

/-! JSON glue for the `annot.*` ops (C17). -/

def parseCls (j : Json) : R Cls := do
  match (← str j "c") with
  | "int" => return .int
  | "float" => return .float
  | "str" => return .str
  | "bool" => return .bool
  | "path" => return .path
  | "none" => return .none
  | "enum" => return .enum (chars (← str j "name"))
  | "dc" => return .dc (chars (← str j "name"))
  | c => throw s!"bad cls {c}"

partial def parseAnn (j : Json) : R Ann := do
  let args : R (List Ann) := do (← arr j "args").toList.mapM parseAnn
  match (← str j "k") with
  | "cls" => return .cls (← parseCls j)
  | "typing" =>
    match (← str j "o") with
    | "list" => return .typing .list (← args)
    | "tuple" => return .typing .tuple (← args)
    | "union" => return .typing .union (← args)
    | o => throw s!"bad typing origin {o}"
  | "builtin" =>
    match (← str j "o") with
    | "list" => return .builtin .list (← args)
    | "tuple" => return .builtin .tuple (← args)
    | o => throw s!"bad builtin origin {o}"
  | "uniontype" => return .unionType (← args)
  | "ellipsis" => return .ellipsis
  | "str" => return .strAnn (chars (← str j "text"))
  | k => throw s!"bad ann kind {k}"

def clsJson : Cls → List (String × Json)
  | .int => [("c", "int")]
  | .float => [("c", "float")]
  | .str => [("c", "str")]
  | .bool => [("c", "bool")]
  | .path => [("c", "path")]
  | .none => [("c", "none")]
  | .enum n => [("c", "enum"), ("name", jstr n)]
  | .dc n => [("c", "dc"), ("name", jstr n)]

def tOriginStr : TOrigin → String
  | .list => "list" | .tuple => "tuple" | .union => "union"
def bOriginStr : BOrigin → String
  | .list => "list" | .tuple => "tuple"

partial def annJson : Ann → Json
  | .cls c => Json.mkObj ((("k", Json.str "cls") :: clsJson c))
  | .typing o xs => Json.mkObj [("k", "typing"), ("o", Json.str (tOriginStr o)), ("args", Json.arr (xs.map annJson).toArray)]
  | .builtin o xs => Json.mkObj [("k", "builtin"), ("o", Json.str (bOriginStr o)), ("args", Json.arr (xs.map annJson).toArray)]
  | .unionType xs => Json.mkObj [("k", "uniontype"), ("args", Json.arr (xs.map annJson).toArray)]
  | .ellipsis => Json.mkObj [("k", "ellipsis")]
  | .strAnn t => Json.mkObj [("k", "str"), ("text", jstr t)]

def excStr : Exc → String
  | .notImplemented => "NotImplementedError"
  | .assertion => "AssertionError"
  | .valueError => "ValueError"
  | .nameError => "NameError"

partial def convJson : Conv → Json
  | .ctor c => Json.mkObj ((("f", Json.str "ctor") :: clsJson c))
  | .str2bool => Json.mkObj [("f", "str2bool")]
  | .enumParse n => Json.mkObj [("f", "enum"), ("name", jstr n)]
  | .tryFns fs => Json.mkObj [("f", "try"), ("fs", Json.arr (fs.map convJson).toArray)]
  | .optWrap f => Json.mkObj [("f", "optwrap"), ("g", convJson f)]
  | .tupleSeq fs => Json.mkObj [("f", "tupleseq"), ("fs", Json.arr (fs.map convJson).toArray)]
  | .ellipsisMark => Json.mkObj [("f", "ellipsis")]
  | .typingAlias o => Json.mkObj [("f", "typing_alias"), ("o", Json.str (tOriginStr o))]
  | .builtinAlias o => Json.mkObj [("f", "builtin_alias"), ("o", Json.str (bOriginStr o))]
  | .unionTypeObj => Json.mkObj [("f", "uniontype")]
  | .strObj => Json.mkObj [("f", "strobj")]

def nargsJson : Nargs → Json
  | .none => Json.null
  | .opt => "?"
  | .star => "*"
  | .n k => Json.num k

def branchStr : Branch → String
  | .nested => "nested" | .optional => "optional" | .union => "union" | .enum => "enum" | .list => "list"
  | .tuple => "tuple" | .bool => "bool" | .plain => "plain"

def postStr : PostK → String
  | .enumLookup => "enum" | .toTuple => "to_tuple" | .same => "same" | .toList => "to_list" | .optTuple => "opt_tuple"
  | .callCls _ => "call_cls" | .callFails => "call_fails"

def kindJson (k : FieldKind) : Json :=
  Json.mkObj [("branch", Json.str (branchStr k.branch)), ("required", Json.bool k.required), ("nargs", nargsJson k.nargs),
              ("conv", match k.conv with | some c => convJson c | Option.none => Json.null),
              ("choices", match k.choices with | some n => jstr n | Option.none => Json.null),
              ("callable", Json.bool (!notCallable k.conv))]

/-- options digest plus the `postprocess` arm -/
def kindJsonA (a : Ann) (d : Dflt) : Json :=
  (kindJson (kind a d)).setObjVal! "post" (Json.str (postStr (postBranch a)))

def parseDflt : String → R Dflt
  | "missing" => .ok .missing
  | "none" => .ok .isNone
  | "value" => .ok .value
  | s => .error s!"bad dflt {s}"

/-- op `annot.classify`: {ann} ↦ the utils.py classifier vector -/
def opClassify (c : Json) : R Json := do
  let a ← parseAnn (← obj c "ann")
  return Json.mkObj [("is_list", Json.bool (isList a)), ("is_tuple", Json.bool (isTuple a)), ("is_bool", Json.bool (isBool a)),
                     ("is_enum", Json.bool (isEnum a)), ("is_union", Json.bool (isUnion a)),
                     ("is_optional", Json.bool (isOptional a)), ("is_dataclass", Json.bool (isDataclass a)),
                     ("n_args", Json.num (getArgs a).length)]

def routJson : ROut → Json
  | .ok a => Json.mkObj [("o", "ok"), ("ann", annJson a)]
  | .raise e => Json.mkObj [("o", "raise"), ("exc", Json.str (excStr e))]

/-- op `annot.replace`: {ann} ↦ `_replace_UnionType_with_typing_Union(ann)` -/
def opReplace (c : Json) : R Json := do
  let a ← parseAnn (← obj c "ann")
  match replaceUnion a with
  | .ok r => return routJson (.ok r)
  | .error e => return routJson (.raise e)

/-- op `annot.rewrite`: {text} ↦ `_get_old_style_annotation(text)` -/
def opRewrite (c : Json) : R Json := do
  match rewrite (chars (← str c "text")) with
  | .ok t => return Json.mkObj [("o", "ok"), ("text", jstr t)]
  | .assertion => return Json.mkObj [("o", "raise"), ("exc", "AssertionError")]
  | .notSupported => return Json.mkObj [("o", "raise"), ("exc", "NotImplementedError")]

def parseEv (tbl : Array Json) : R (List (Str × EvOut)) :=
  tbl.toList.mapM (fun e => do
    let t ← str e "text"
    let r ← obj e "r"
    match (← str r "o") with
    | "ok" => return (chars t, EvOut.ok (← parseAnn (← obj r "ann")))
    | "typeError" => return (chars t, EvOut.typeError)
    | _ => return (chars t, EvOut.otherError))

def evOf (tbl : List (Str × EvOut)) (t : Str) : EvOut :=
  match tbl.lookup t with
  | some r => r
  | Option.none => .otherError

/-- op `annot.resolve`: {text, ev:[{text, r}]} ↦ `get_field_type_from_annotations` on a string field type -/
def opResolve (c : Json) : R Json := do
  let tbl ← parseEv (← arr c "ev")
  return routJson (resolve (evOf tbl) (.strAnn (chars (← str c "text"))))

/-- op `annot.kind`: {ann, dflt} ↦ the `get_arg_options` branch / nargs / type= -/
def opKind (c : Json) : R Json := do
  let a ← parseAnn (← obj c "ann")
  let d ← parseDflt (← str c "dflt")
  return kindJsonA a d

/-- op `annot.fields`: {chain:[[name…]…]} ↦ names and defining-class index of the most derived class's fields -/
def opFields (c : Json) : R Json := do
  let chain ← (← arr c "chain").toList.mapM (fun cl => do
    let names ← (cl.getArr?)
    names.toList.mapM (fun n => n.getStr?))
  let tagged : List (List (Str × Nat)) :=
    (chain.zipIdx).map (fun (cl, i) => cl.map (fun n => (chars n, i)))
  let fs := dcFields tagged
  return Json.mkObj [("fields", Json.arr (fs.map (fun (n, i) => Json.arr #[jstr n, Json.num i])).toArray)]

def parseAtomK : String → Option Atom
  | "int" => some .int | "float" => some .float | "str" => some .str | "bool" => some .bool | "path" => some .path
  | _ => Option.none

partial def parseTy (j : Json) : R TyExpr := do
  let k ← str j "k"
  match parseAtomK k with
  | some a => return .atom a
  | Option.none =>
    match k with
    | "enum" => return .atom (.enum (chars (← str j "cls")))
    | "dc" => return .dc (chars (← str j "cls"))
    | "list" => return .list (← parseTy (← obj j "item"))
    | "vtuple" => return .vtuple (← parseTy (← obj j "item"))
    | "opt" => return .opt (← parseTy (← obj j "inner"))
    | "tuple" => return .tuple (← (← arr j "items").toList.mapM parseTy)
    | "union" => return .union (← (← arr j "alts").toList.mapM parseTy)
    | _ => throw s!"bad type {k}"

def parseStyle : String → R Style
  | "typing" => .ok (.live .typing)
  | "builtin" => .ok (.live .builtin)
  | "pep604" => .ok (.live .pep604)
  | "post_typing" => .ok (.postponed .typing)
  | "post_builtin" => .ok (.postponed .builtin)
  | "post_604" => .ok (.postponed .pep604)
  | s => .error s!"bad style {s}"

def styleLive : Style → Live
  | .live l => l
  | .postponed l => l

/-- one style of op `annot.e2e` -/
def e2eStyle (st : Style) (classes : List (String × List (String × TyExpr × Dflt))) : Json :=
  let l := styleLive st
  let tbl : List (Str × EvOut) :=
    (classes.map (fun (x : String × List (String × TyExpr × Dflt)) =>
      x.2.map (fun (y : String × TyExpr × Dflt) => (render l y.2.1, EvOut.ok (denoteLive l y.2.1))))).flatten
  let ev := evOf tbl
  let results : List (String × List (String × Str × ROut × Dflt)) :=
    classes.map (fun (x : String × List (String × TyExpr × Dflt)) =>
      (x.1, x.2.map (fun (y : String × TyExpr × Dflt) => (y.1, render l y.2.1, resolve ev (denote st y.2.1), y.2.2))))
  let firstRaise : Option Exc := (results.map (fun (x : String × List (String × Str × ROut × Dflt)) =>
    x.2.filterMap (fun (y : String × Str × ROut × Dflt) =>
      match y.2.2.1 with | ROut.raise e => some e | ROut.ok _ => Option.none))).flatten.head?
  let anyNotCallable : Bool := results.any (fun (x : String × List (String × Str × ROut × Dflt)) =>
    x.2.any (fun (y : String × Str × ROut × Dflt) =>
      match y.2.2.1 with | ROut.ok a => notCallable (kind a y.2.2.2).conv | ROut.raise _ => false))
  let setup : String := match firstRaise with
    | some e => "raise:" ++ excStr e
    | Option.none => if anyNotCallable then "raise:ValueError" else "ok"
  let cls := results.map (fun (x : String × List (String × Str × ROut × Dflt)) =>
    Json.mkObj [("name", Json.str x.1), ("fields", Json.arr (x.2.map (fun (y : String × Str × ROut × Dflt) =>
      Json.mkObj [("name", Json.str y.1), ("text", jstr y.2.1), ("type", routJson y.2.2.1),
                  ("kind", match y.2.2.1 with | ROut.ok a => kindJsonA a y.2.2.2 | ROut.raise _ => Json.null)])).toArray)])
  Json.mkObj [("setup", Json.str setup), ("classes", Json.arr cls.toArray)]

/-- op `annot.e2e`: {styles:[…], classes:[{name, fields:[{name, ty, dflt}]}], chain:[[name…]…]} ↦ per style, class and
    field: the annotation text, the resolved `Field.type` and the `get_arg_options` kind, plus the set-up outcome; and
    the field order of the chain rendering.  The evaluator parameter is instantiated by "the text of a well-formed
    annotation evaluates to the object the same text gives when it is not postponed" (a table over the case's fields). -/
def opE2e (c : Json) : R Json := do
  let styles ← strList c "styles"
  let classes ← (← arr c "classes").toList.mapM (fun cj => do
    let fs ← (← arr cj "fields").toList.mapM (fun fj => do
      return ((← str fj "name"), (← parseTy (← obj fj "ty")), (← parseDflt (← str fj "dflt"))))
    return ((← str cj "name"), fs))
  let per ← styles.mapM (fun sn => do
    let st ← parseStyle sn
    return (sn, e2eStyle st classes))
  let chain ← (← arr c "chain").toList.mapM (fun cl => do
    let names ← (cl.getArr?)
    names.toList.mapM (fun n => n.getStr?))
  let tagged : List (List (Str × Nat)) :=
    (chain.zipIdx).map (fun (cl, i) => cl.map (fun n => (chars n, i)))
  let order := (dcFields tagged).map (fun (x : Str × Nat) => jstr x.1)
  return Json.mkObj [("styles", Json.mkObj per), ("order", Json.arr order.toArray)]

def annotOps : List (String × (Json → R Json)) :=
  [("annot.classify", opClassify), ("annot.replace", opReplace), ("annot.rewrite", opRewrite),
   ("annot.resolve", opResolve), ("annot.kind", opKind), ("annot.fields", opFields), ("annot.e2e", opE2e)]

end SpVerif.Drive.AnnotGlue

namespace SpVerif.Drive
def annotOps : List (String × (Json → R Json)) := AnnotGlue.annotOps
end SpVerif.Drive
