import SpVerif.Drive.Util
import SpVerif.Model.Naming
import SpVerif.Model.BoolFlag
open Lean

namespace SpVerif.Drive

def parseFW (j : Json) : R FW := do
  return { name := chars (← str j "name"), pref := chars (← str j "prefix"),
           dest := chars (← str j "dest"),
           aliases := (← strList j "aliases").map chars,
           positional := (← bool j "positional") }

/-- op `naming`: {cfg, fw} ↦ {list: pre-set list in code order, sorted: canonical result} -/
def opNaming (c : Json) : R Json := do
  let cfg ← parseCfg (← obj c "cfg")
  let fw ← parseFW (← obj c "fw")
  return Json.mkObj [("list", jstrs (optionList cfg fw)), ("sorted", jstrs (optionStrings cfg fw))]

def sortStrs (l : List Str) : List String :=
  ((l.map unchars).toArray.qsort (· < ·)).toList

/-- op `naming.many`: {cfg, fws:[fw…]} ↦ {sets: [[sorted distinct option strings]…]} -/
def opNamingMany (c : Json) : R Json := do
  let cfg ← parseCfg (← obj c "cfg")
  let fws ← (← arr c "fws").toList.mapM parseFW
  let sets := fws.map (fun fw => Json.arr ((sortStrs (dedup (optionList cfg fw))).map Json.str).toArray)
  return Json.mkObj [("sets", Json.arr sets.toArray)]

def parseOcc (j : Json) : R Occ := do
  match (← str j "k") with
  | "bare" => return .bare
  | "neg" => return .neg
  | "valued" => return .valued (chars (← str j "w"))
  | "negvalued" => return .negValued (chars (← str j "w"))
  | k => throw s!"bad occ {k}"

def boutJson : BOut → Json
  | .ok b => Json.mkObj [("o", "ok"), ("v", Json.bool b)]
  | .exit c => Json.mkObj [("o", "exit"), ("code", Json.num c)]

/-- op `bool.neg`: {opts, neg_prefix, neg_option, conflict_prefix} ↦ {neg: [...]} | {err} -/
def opBoolNeg (c : Json) : R Json := do
  let opts := (← strList c "opts").map chars
  let np := chars (← str c "neg_prefix")
  let no := (← optStr c "neg_option").map chars
  let cp := chars (← str c "conflict_prefix")
  match negStrings opts np no cp with
  | some l => return Json.mkObj [("neg", jstrs l)]
  | none => return Json.mkObj [("err", "raise")]

/-- op `bool.run`: {default: true|false|null, occs: [...], exit_neg: n} ↦ outcome -/
def opBoolRun (c : Json) : R Json := do
  let d : Option Bool := match c.getObjVal? "default" with
    | .ok (.bool b) => some b
    | _ => none
  let occs ← (← arr c "occs").toList.mapM parseOcc
  let e ← nat c "exit_neg"
  return boutJson (flagResult e d occs)

def opStr2bool (c : Json) : R Json := do
  match str2bool (chars (← str c "s")) with
  | some b => return Json.mkObj [("o", "ok"), ("v", Json.bool b)]
  | none => return Json.mkObj [("o", "err")]

def namingOps : List (String × (Json → R Json)) :=
  [("naming", opNaming), ("naming.many", opNamingMany), ("bool.neg", opBoolNeg), ("bool.run", opBoolRun), ("str2bool", opStr2bool)]

end SpVerif.Drive
