import SpVerif.Drive.Util
import SpVerif.Model.Post
import SpVerif.Lemmas.PostTotal
open Lean

namespace SpVerif.Drive.PostGlue
open SpVerif.Post SpVerif.Drive

/-- canonical value tree (DESIGN Appendix A) → `PVal`; scalars stay opaque (their compressed JSON text) -/
partial def parsePVal (j : Json) : R PVal := do
  match (j.getObjValAs? String "t").toOption with
  | some "none" => return .none
  | some "list" => return .list (← (← arr j "v").toList.mapM parsePVal)
  | some "tuple" => return .tuple (← (← arr j "v").toList.mapM parsePVal)
  | some "dict" =>
    let kvs ← (← arr j "v").toList.mapM (fun kv => do
      let a ← kv.getArr?
      if a.size != 2 then throw "bad dict item"
      let k := match (a[0]!.getObjValAs? String "t").toOption, (a[0]!.getObjValAs? String "v").toOption with
        | some "str", some s => chars s
        | _, _ => chars a[0]!.compress
      return (k, ← parsePVal a[1]!))
    return .dict kvs
  | some "inst" =>
    let cls ← str j "cls"
    let kvs ← (← arr j "v").toList.mapM (fun kv => do
      let a ← kv.getArr?
      if a.size != 2 then throw "bad inst item"
      return (chars (← a[0]!.getStr?), ← parsePVal a[1]!))
    return .inst (chars cls) kvs
  | _ => return .atom (chars j.compress)

def sortKvs (kvs : List (Str × Json)) : List (String × Json) :=
  ((kvs.map (fun kv => (unchars kv.1, kv.2))).toArray.qsort (fun a b => a.1 < b.1)).toList

partial def pvalJson : PVal → Json
  | .none => Json.mkObj [("t", "none")]
  | .atom s => match Json.parse (unchars s) with
    | .ok j => j
    | .error _ => Json.str (unchars s)
  | .list xs => Json.mkObj [("t", "list"), ("v", Json.arr (xs.map pvalJson).toArray)]
  | .tuple xs => Json.mkObj [("t", "tuple"), ("v", Json.arr (xs.map pvalJson).toArray)]
  | .dict kvs => Json.mkObj [("t", "dict"), ("v", Json.mkObj (sortKvs (kvs.map (fun kv => (kv.1, pvalJson kv.2)))))]
  | .inst cls kvs => Json.mkObj [("t", "inst"), ("cls", jstr cls),
      ("v", Json.mkObj (sortKvs (kvs.map (fun kv => (kv.1, pvalJson kv.2)))))]

def parseKvs (a : Array Json) : R (Dict PVal) :=
  a.toList.mapM (fun kv => do
    let p ← kv.getArr?
    if p.size != 2 then throw "bad pair"
    return (chars (← p[0]!.getStr?), ← parsePVal p[1]!))

def parseConv : String → R Conv
  | "id" => .ok .id
  | "tuple" => .ok .toTuple
  | "list" => .ok .toList
  | s => .error s!"bad conv {s}"

def parseFieldW (j : Json) : R (FieldW PVal) := do
  return { name := chars (← str j "name"), dest := chars (← str j "dest"),
           dests := (← strList j "dests").map chars, isSubgroup := ← bool j "is_subgroup",
           init := ← bool j "init", dflt := ← parsePVal (← obj j "dflt"), conv := ← parseConv (← str j "conv") }

partial def parseChildW (j : Json) : R (ChildW PVal) := do
  let cs ← match j.getObjVal? "children" with
    | .ok (Json.arr a) => a.toList.mapM parseChildW
    | _ => pure []
  return .mk (chars (← str j "name")) (← (← arr j "fields").toList.mapM parseFieldW) cs

def parseDcW (j : Json) : R (DcW PVal) := do
  let cs ← match j.getObjVal? "children" with
    | .ok (Json.arr a) => a.toList.mapM parseChildW
    | _ => pure []
  return { dest := chars (← str j "dest"), dests := (← strList j "dests").map chars, level := ← nat j "level",
           hasParent := ← bool j "has_parent", suppress := ← bool j "suppress", optNone := ← bool j "opt_none",
           ctor := chars (← str j "ctor"), fields := ← (← arr j "fields").toList.mapM parseFieldW, children := cs }

def parsePState (j : Json) : R (PState PVal) := do
  let cargs0 ← (← arr j "cargs0").toList.mapM (fun kv => do
    let p ← kv.getArr?
    if p.size != 2 then throw "bad cargs0 pair"
    return (chars (← p[0]!.getStr?), ← parseKvs (← p[1]!.getArr?)))
  return { wrappers := ← (← arr j "wrappers").toList.mapM parseDcW, cargs0 := cargs0,
           defaultsKeys := (← strList j "defaults_keys").map chars, alwaysMerge := ← bool j "always_merge" }

def excName : Exc → String
  | .runtimeError => "RuntimeError"
  | .attributeError => "AttributeError"
  | .assertionError => "AssertionError"
  | .keyError => "KeyError"
  | .ctorError => "ConstructorError"

def dictJson (d : Dict PVal) : Json := Json.mkObj (sortKvs (d.map (fun kv => (kv.1, pvalJson kv.2))))

def nspFields (n : Nsp PVal) : List (String × Json) :=
  [("attrs", dictJson n.attrs),
   ("subgroups", match n.subgroups with | some s => dictJson s | none => Json.null),
   ("keys", Json.arr (((n.keys.map unchars).toArray.qsort (· < ·)).map Json.str)),
   -- attribute names other than `subgroups` in namespace order (`list(vars(ns))`)
   ("order", jstrs (dkeys n.attrs))]

/-- op `post.postprocess`: {ps, raw} ↦ outcome of `_postprocessing(raw)` -/
def opPostprocess (c : Json) : R Json := do
  if let .ok why := str c "skip" then
    return Json.mkObj [("o", "unmodelled"), ("why", Json.str why)]
  let ps ← parsePState (← obj c "ps")
  let raw ← parseKvs (← arr c "raw")
  -- the hypothesis of `c09_postprocess_total`, decided on this input
  let wf := Json.bool (decide (WellFormed ps raw))
  -- classes whose constructor raises (`__post_init__`)
  let fails := ((strList c "ctor_fail").toOption.getD []).map chars
  let alg : Alg PVal := { palg with construct := fun cls kvs => if fails.contains cls then none else some (.inst cls kvs) }
  match postprocess alg ps raw with
  | .ok n => return Json.mkObj (("o", Json.str "ok") :: nspFields n ++ [("well_formed", wf)])
  | .raise e => return Json.mkObj [("o", "raise"), ("exc", excName e), ("well_formed", wf)]
  | .unmodelled w => return Json.mkObj [("o", "unmodelled"), ("why", jstr w)]

/-- the engine of op `post.parse`: the recorded behaviour of the stdlib parser on this argv -/
def parseEngine (j : Json) : R (EOut PVal) := do
  match (← str j "o") with
  | "ok" => return .ok (← parseKvs (← arr j "raw")) ((← strList j "rest").map chars)
  | "exit" => return .exit (← nat j "code")
  | "raise" => return .raise
  | o => throw s!"bad engine outcome {o}"

/-- op `post.parse`: {ps, engine, user_dests, sp_dests, argv} ↦ outcome of `parse_known_args(argv)` -/
def opParse (c : Json) : R Json := do
  if let .ok why := str c "skip" then
    return Json.mkObj [("o", "unmodelled"), ("why", Json.str why)]
  let ps ← parsePState (← obj c "ps")
  let e ← parseEngine (← obj c "engine")
  let ua : Table := (← strList c "user_dests").map (fun d => { dest := chars d })
  let sa : Table := (← strList c "sp_dests").map (fun d => { dest := chars d })
  let argv := (← strList c "argv").map chars
  let api ← str c "api"
  -- exit status of the subgroup pre-parser on this argv (null = it did not exit)
  let preCode : Option Nat := match c.getObjVal? "pre" with
    | .ok j => (j.getNat?).toOption
    | .error _ => none
  let pre : Pre := fun _ => preCode
  let res := if api == "parse_args" then spParseArgs palg pre (fun _ _ => e) ps ua sa argv
             else spParse palg pre (fun _ _ => e) ps ua sa argv
  -- the hypotheses of `c09_frame` / `c09_accept`, decided on what the engine returned for this run
  let hyps : List (String × Json) := match e with
    | .ok raw _ => [("frame_hyps", Json.bool (decide (FrameHyps ps ua sa raw))),
                    ("well_formed", Json.bool (decide (WellFormed ps raw)))]
    | _ => []
  match res with
  | .ok n rest => return Json.mkObj (("o", Json.str "ok") :: nspFields n ++ [("rest", jstrs rest)] ++ hyps)
  | .exit code => return Json.mkObj [("o", "exit"), ("code", Json.num code)]
  | .engineRaise => return Json.mkObj [("o", "engine-raise")]
  | .raise e => return Json.mkObj (("o", Json.str "raise") :: ("exc", Json.str (excName e)) :: hyps)
  | .unmodelled w => return Json.mkObj [("o", "unmodelled"), ("why", jstr w)]

/-- op `post.set_defaults`: {wrapper_dests, kw} ↦ which keywords of `parser.set_defaults(**kw)` reach `_defaults`, and
    whether a file is read -/
def opSetDefaults (c : Json) : R Json := do
  let wd := (← strList c "wrapper_dests").map chars
  let kw := (← strList c "kw").map chars
  let reads := setDefaultsReadsFile kw
  let passed := setDefaultsPassed wd kw
  return Json.mkObj [("passed", Json.arr (((passed.map unchars).toArray.qsort (· < ·)).map Json.str)),
                     ("reads_file", Json.bool reads)]

end SpVerif.Drive.PostGlue

namespace SpVerif.Drive

def postOps : List (String × (Json → R Json)) :=
  [("post.postprocess", PostGlue.opPostprocess), ("post.parse", PostGlue.opParse),
   ("post.set_defaults", PostGlue.opSetDefaults)]

end SpVerif.Drive
