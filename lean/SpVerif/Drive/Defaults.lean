import SpVerif.Drive.Fields
import SpVerif.Model.Defaults
open Lean

namespace SpVerif.Drive

partial def dfParseIVal (j : Json) : R IVal := do
  match j with
  | .null => return .nul
  | _ =>
    let cls := chars (← str j "cls")
    let fs ← arr j "fields"
    let rec go (l : List Json) : R IFields := do
      match l with
      | [] => return .nil
      | f :: rest =>
        let r ← go rest
        let name := chars (← str f "name")
        match (← str f "k") with
        | "leaf" => return .leaf name (← eParseVal (← obj f "v")) r
        | _ => return .sub name (← dfParseIVal ((f.getObjVal? "v").toOption.getD .null)) r
    return .inst cls (← go fs.toList)

partial def dfParseTree (j : Json) : R CTree := do
  let cls := chars (← str j "cls")
  let fs ← arr j "fields"
  let rec go (l : List Json) : R CFields := do
    match l with
    | [] => return .nil
    | f :: rest =>
      let r ← go rest
      match (← str f "kind") with
      | "leaf" => return .leaf (← fParseField (← obj f "f")) r
      | _ =>
        let d ← obj f "dflt"
        let dflt ← match (← str d "kind") with
          | "missing" => pure ChildDflt.missing
          | "none" => pure ChildDflt.noneVal
          | "factory_cls" => pure ChildDflt.factoryCls
          | _ => pure (ChildDflt.factoryInst (← dfParseIVal (← obj d "v")))
        return .child (chars (← str f "name")) (← bool f "optional") dflt (← dfParseTree (← obj f "tree")) r
  return .mk cls (← go fs.toList)

mutual
partial def dfIValJson : IVal → Json
  | .nul => Json.mkObj [("t", "none")]
  | .inst cls fs => Json.mkObj [("t", "inst"), ("cls", jstr cls), ("v", Json.arr (dfFieldsJson fs).toArray)]
partial def dfFieldsJson : IFields → List Json
  | .nil => []
  | .leaf n v rest => Json.arr #[jstr n, eValJson v] :: dfFieldsJson rest
  | .sub n v rest => Json.arr #[jstr n, dfIValJson v] :: dfFieldsJson rest
end

def dfOutJson : DOut IVal → Json
  | .ok v => Json.mkObj [("o", "ok"), ("v", dfIValJson v)]
  | .exit2 => Json.mkObj [("o", "exit"), ("code", Json.num (JsonNumber.fromNat 2))]
  | .raise e => Json.mkObj [("o", "raise"), ("exc", jstr e)]
  | .unmodelled => Json.mkObj [("o", "unmodelled")]

/-- op `defaults.empty`: {tree, caller|null, floats} ↦ instance an empty command line yields;
    op `defaults.construct`: {tree} ↦ what the dataclass constructor yields by itself -/
def opDefaultsEmpty (c : Json) : R Json := do
  let fenv ← eParseFEnv c
  let regs ← arr c "regs"
  let outs ← regs.toList.mapM (fun r => do
    let t ← dfParseTree (← obj r "tree")
    let caller ← match r.getObjVal? "caller" with
      | .ok .null => pure none
      | .ok j => pure (some (← dfParseIVal j))
      | .error _ => pure none
    return dfOutJson (parseEmptyTop fenv t caller))
  return Json.mkObj [("outs", Json.arr outs.toArray)]

def opDefaultsConstruct (c : Json) : R Json := do
  let t ← dfParseTree (← obj c "tree")
  return dfOutJson (construct t)

def defaultsOps : List (String × (Json → R Json)) :=
  [("defaults.empty", opDefaultsEmpty), ("defaults.construct", opDefaultsConstruct)]

end SpVerif.Drive
