/-
  JSON glue for `SpVerif.Model.Serial` (ops `ser.*`, used by C05 and C13).
  Value / type schemas: DESIGN.md Appendix A (`V`, `T`), with `reg` + per-field `meta` on instances.
-/
import SpVerif.Drive.Util
import SpVerif.Model.Serial
open Lean

namespace SpVerif.Drive
open SpVerif.Serial

def serParseMeta (j : Json) : FMeta :=
  let b := match j.getObjVal? "to_dict" with | .ok (.bool b) => b | _ => true
  let e := (j.getObjValAs? Nat "enc").toOption
  let d := (j.getObjValAs? Nat "dec").toOption
  { toDict := b, enc := e, dec := d }

partial def serParseVal (j : Json) : R Val := do
  match (← str j "t") with
  | "none" => return .none
  | "bool" => return .bool (← bool j "v")
  | "int" =>
    let s ← str j "v"
    match s.toInt? with
    | some n => return .int n
    | none => throw s!"bad int {s}"
  | "float" => return .float (chars (← str j "v"))
  | "str" => return .str (chars (← str j "v"))
  | "path" => return .path (chars (← str j "v"))
  | "enum" => return .enum (chars (← str j "cls")) (chars (← str j "v"))
  | "list" => return .list (← (← arr j "v").toList.mapM serParseVal)
  | "tuple" => return .tuple (← (← arr j "v").toList.mapM serParseVal)
  | "set" => return .set (← (← arr j "v").toList.mapM serParseVal)
  | "dict" =>
    let ps ← (← arr j "v").toList.mapM fun p => do
      match p with
      | .arr #[k, v] => return (← serParseVal k, ← serParseVal v)
      | _ => throw "bad dict entry"
    let od := match j.getObjVal? "odict" with | .ok (.bool b) => b | _ => false
    return .dict od ps
  | "inst" =>
    let reg := match j.getObjVal? "reg" with | .ok (.bool b) => b | _ => false
    let fs ← (← arr j "v").toList.mapM fun p => do
      match p with
      | .arr #[n, v] => return ((chars (← n.getStr?)), FMeta.plain, ← serParseVal v)
      | .arr #[n, v, m] => return ((chars (← n.getStr?)), serParseMeta m, ← serParseVal v)
      | _ => throw "bad inst field"
    return .inst (chars (← str j "cls")) reg fs
  | t => throw s!"bad value tag {t}"

partial def serParseTy (j : Json) : R FTy := do
  match (← str j "k") with
  | "int" => return .int
  | "float" => return .float
  | "str" => return .str
  | "bool" => return .bool
  | "path" => return .path
  | "any" => return .any
  | "none" => return .noneT
  | "enum" => return .enum (chars (← str j "cls")) ((← strList j "members").map chars)
  | "literal" => return .literal (← (← arr j "vals").toList.mapM serParseVal)
  | "list" => return .list (← serParseTy (← obj j "item"))
  | "set" => return .set (← serParseTy (← obj j "item"))
  | "vtuple" => return .vtuple (← serParseTy (← obj j "item"))
  | "tuple" => return .tuple (← (← arr j "items").toList.mapM serParseTy)
  | "dict" => return .dict (← serParseTy (← obj j "key")) (← serParseTy (← obj j "val"))
  | "opt" => return .union [← serParseTy (← obj j "inner"), .noneT]
  | "union" => return .union (← (← arr j "alts").toList.mapM serParseTy)
  | "dc" =>
    let reg := match j.getObjVal? "reg" with | .ok (.bool b) => b | _ => false
    let fs ← (← arr j "fields").toList.mapM fun f => do
      let n ← str f "name"
      let t ← serParseTy (← obj f "ty")
      let d ← match f.getObjVal? "default" with
        | .ok .null => pure none
        | .ok dj => pure (some (← serParseVal dj))
        | .error _ => pure none
      return (chars n, serParseMeta f, d, t)
    return .dc (chars (← str j "cls")) reg fs
  | k => throw s!"bad type kind {k}"

/-- code-point lexicographic `<` (Python `str.__lt__`) -/
def strLt : Str → Str → Bool
  | [], [] => false
  | [], _ :: _ => true
  | _ :: _, [] => false
  | a :: as, b :: bs => if a.toNat < b.toNat then true else if a.toNat > b.toNat then false else strLt as bs

def insertBy {α : Type} (key : α → Str) (x : α) : List α → List α
  | [] => [x]
  | y :: ys => if strLt (key x) (key y) then x :: y :: ys else y :: insertBy key x ys

def sortBy {α : Type} (key : α → Str) (xs : List α) : List α := xs.foldl (fun acc x => insertBy key x acc) []

def joinC (parts : List Str) : Str := joinWith ',' parts

/-- sort key of a value (same function in harness/props/c05.py: `skey`) -/
partial def skey : Val → Str
  | .none => ['N']
  | .bool b => if b then ['B', '1'] else ['B', '0']
  | .int n => 'I' :: showInt n
  | .float r => 'F' :: r
  | .str s => 'S' :: s
  | .path s => 'P' :: s
  | .enum c n => 'E' :: c ++ '.' :: n
  | .list xs => 'L' :: '[' :: joinC (xs.map skey) ++ [']']
  | .tuple xs => 'T' :: '[' :: joinC (xs.map skey) ++ [']']
  | .set xs => 'Z' :: '[' :: joinC (sortBy id (xs.map skey)) ++ [']']
  | .dict _ ps => 'D' :: '[' :: joinC (sortBy id (ps.map fun (k, v) => skey k ++ ':' :: skey v)) ++ [']']
  | .inst c _ fs => 'C' :: c ++ '[' :: joinC (fs.map fun (n, _, v) => n ++ '=' :: skey v) ++ [']']

/-- canonical JSON of a value; `norm` additionally sorts dict entries (observables that ignore dict order) -/
partial def serValJson (norm : Bool) : Val → Json
  | .none => Json.mkObj [("t", "none")]
  | .bool b => Json.mkObj [("t", "bool"), ("v", Json.bool b)]
  | .int n => Json.mkObj [("t", "int"), ("v", Json.str (unchars (showInt n)))]
  | .float r => Json.mkObj [("t", "float"), ("v", jstr r)]
  | .str s => Json.mkObj [("t", "str"), ("v", jstr s)]
  | .path s => Json.mkObj [("t", "path"), ("v", jstr s)]
  | .enum c n => Json.mkObj [("t", "enum"), ("cls", jstr c), ("v", jstr n)]
  | .list xs => Json.mkObj [("t", "list"), ("v", Json.arr (xs.map (serValJson norm)).toArray)]
  | .tuple xs => Json.mkObj [("t", "tuple"), ("v", Json.arr (xs.map (serValJson norm)).toArray)]
  | .set xs => Json.mkObj [("t", "set"), ("v", Json.arr ((sortBy skey xs).map (serValJson norm)).toArray)]
  | .dict od ps =>
    let ps' := if norm then sortBy (fun (p : Val × Val) => skey p.1) ps else ps
    Json.mkObj [("t", "dict"), ("odict", Json.bool od),
                ("v", Json.arr (ps'.map fun (k, v) => Json.arr #[serValJson norm k, serValJson norm v]).toArray)]
  | .inst c _ fs =>
    Json.mkObj [("t", "inst"), ("cls", jstr c),
                ("v", Json.arr (fs.map fun (n, _, v) => Json.arr #[jstr n, serValJson norm v]).toArray)]

def serOutJson (norm : Bool) : Out Val → Json
  | .ok v => Json.mkObj [("o", "ok"), ("v", serValJson norm v)]
  | .raise e => Json.mkObj [("o", "raise"), ("exc", jstr e)]
  | .unmodelled w => Json.mkObj [("o", "unmodelled"), ("why", jstr w)]

/-- what the harness' value-dependent hook 13 computes (harness/props/c13.py: `hook_plain`): every field of every
    nested instance (no metadata, no hooks), containers as lists, Enum → name, Path → str -/
partial def serPlainOf : Val → Val
  | .enum _ n => .str n
  | .path s => .str s
  | .list xs => .list (xs.map serPlainOf)
  | .tuple xs => .list (xs.map serPlainOf)
  | .set xs => .list (xs.map serPlainOf)
  | .dict _ ps => .dict false (ps.map fun (k, v) => (serPlainOf k, serPlainOf v))
  | .inst _ _ fs => .dict false (fs.map fun (n, _, v) => (Val.str n, serPlainOf v))
  | v => v

/-- the concrete hooks the harness attaches (same functions in harness/props/c05.py: `HOOKS`, and
    harness/props/c13.py for 13 / 24) -/
def hookEnv : HEnv
  | 14, _ => .ok .none                                                 -- enc: lambda v: None
  | 25, v => match v with                                              -- dec: lambda r: "was-none" if r is None else "not-none"
    | .none => .ok (.str "was-none".toList)
    | _ => .ok (.str "not-none".toList)
  | 13, v => .ok (.dict false [(.str ['w'], serPlainOf v)])            -- enc: lambda v: {"w": hook_plain(v)}
  | 24, v => match v with                                              -- dec: lambda r: deepcopy(r["w"])
    | .dict _ ps => match lookupKey (.str ['w']) ps with
      | some x => .ok x
      | none => .raise "KeyError".toList
    | _ => .raise "TypeError".toList
  | 10, v => .ok (.dict false [(.str ['w'], v)])                      -- enc: lambda v: {"w": v}
  | 11, v => .ok (.list [v, v])                                        -- enc: lambda v: [v, v]
  | 12, _ => .ok (.str ['H'])                                          -- enc: lambda v: "H"
  | 20, v => match v with                                              -- dec: lambda r: r["w"]
    | .dict _ ps => match lookupKey (.str ['w']) ps with
      | some x => .ok x
      | none => .raise "KeyError".toList
    | .list _ => .raise "TypeError".toList
    | .tuple _ => .raise "TypeError".toList
    | .str _ => .raise "TypeError".toList
    | _ => .raise "TypeError".toList
  | 21, v => match v with                                              -- dec: lambda r: r[0]
    | .list (x :: _) => .ok x
    | .tuple (x :: _) => .ok x
    | .list [] => .raise "IndexError".toList
    | .tuple [] => .raise "IndexError".toList
    | .str (c :: _) => .ok (.str [c])
    | .str [] => .raise "IndexError".toList
    | .enum _ _ => .unmodelled "hook on a raw Enum member".toList
    | .dict _ ps => match lookupKey (.int 0) ps with
      | some x => .ok x
      | none => .raise "KeyError".toList
    | _ => .raise "TypeError".toList
  | 22, _ => .ok (.int 7)                                              -- dec: lambda r: 7
  | _, _ => .unmodelled "unknown hook".toList

/-- op `ser.encode`: {v} ↦ outcome of `encode(v)` -/
def opSerEncode (c : Json) : R Json := do
  let v ← serParseVal (← obj c "v")
  return serOutJson false (encode hookEnv v)

/-- op `ser.todict`: {x} ↦ outcome of `to_dict(x)` -/
def opSerToDict (c : Json) : R Json := do
  let v ← serParseVal (← obj c "x")
  return serOutJson false (toDict hookEnv v)

/-- op `ser.decode`: {ty, raw} ↦ outcome of `get_decoding_fn(ty)(raw)` -/
def opSerDecode (c : Json) : R Json := do
  let t ← serParseTy (← obj c "ty")
  let raw ← serParseVal (← obj c "raw")
  return serOutJson false (decode hookEnv t raw)

/-- the in-memory routes and their transports; the four file routes go through the model's own suffix table (`saveLoad`) -/
def routeTr : List (String × Tr) := [("dict", .id), ("json", .json), ("yaml", .yaml)]
def fileRoutes : List String := [".json", ".yaml", ".yml", ".pkl"]

/-- op `ser.route`: {ty, x} ↦ {route: outcome} for the seven real routes -/
def opSerRoute (c : Json) : R Json := do
  let t ← serParseTy (← obj c "ty")
  let x ← serParseVal (← obj c "x")
  let mem := routeTr.map fun (name, tr) => (name, serOutJson true (roundTrip hookEnv tr t x))
  let files := fileRoutes.map fun ext => ("f" ++ ext, serOutJson true (saveLoad hookEnv (chars ext) t x))
  return Json.mkObj (mem ++ files)

def serialOps : List (String × (Json → R Json)) :=
  [("ser.encode", opSerEncode), ("ser.todict", opSerToDict), ("ser.decode", opSerDecode), ("ser.route", opSerRoute)]

end SpVerif.Drive
