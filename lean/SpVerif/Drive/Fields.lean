import SpVerif.Drive.Engine
import SpVerif.Model.Fields
open Lean

namespace SpVerif.Drive

def fParseBTy (j : Json) : R BTy := do
  match (← str j "k") with
  | "int" => return .int
  | "float" => return .float
  | "str" => return .str
  | "bool" => return .bool
  | "path" => return .path
  | "any" => return .any
  | "enum" => return .enum (chars (← str j "cls")) ((← strList j "members").map chars)
  | k => throw s!"bad base type {k}"

def fParseITy (j : Json) : R ITy := do
  match (← str j "k") with
  | "union" => return .union (← (← arr j "alts").toList.mapM fParseBTy)
  | _ => return .base (← fParseBTy j)

def fParseNTy (j : Json) : R NTy := do
  match (← str j "k") with
  | "literal" => return .literal (← (← arr j "vals").toList.mapM eParseScalar)
  | "list" => return .list (← fParseITy (← obj j "item"))
  | "tuple" => return .tuple (← (← arr j "items").toList.mapM fParseITy)
  | "vtuple" => return .vtuple (← fParseITy (← obj j "item"))
  | _ => return .sc (← fParseITy j)

def fParseFTy (j : Json) : R FTy := do
  match (← str j "k") with
  | "opt" => return { inner := ← fParseNTy (← obj j "inner"), optional := true }
  | _ => return { inner := ← fParseNTy j, optional := false }

def fParseField (j : Json) : R FieldSpec := do
  let d ← obj j "default"
  let dv ← match (← str d "kind") with
    | "missing" => pure DefaultV.missing
    | _ => pure (DefaultV.value (← eParseVal (← obj d "v")))
  let aliases := (strList j "alias").toOption.getD []
  return { name := chars (← str j "name"), ty := ← fParseFTy (← obj j "ty"), default := dv,
           aliases := aliases.map chars }

def nargsJson : NArgs → Json
  | .one => .null | .opt => "?" | .star => "*" | .plus => "+" | .num n => Json.num (JsonNumber.fromNat n)

def bconvTag : BConv → String
  | .int => "int" | .float => "float" | .str => "str" | .bool => "bool" | .path => "path" | .noop => "noop"
  | .enumName c _ => "enum:" ++ unchars c

def convTag : Conv → String
  | .base b => bconvTag b
  | .union cs => "union<" ++ ",".intercalate (cs.map bconvTag) ++ ">"
  | .tupleCounter cs => "tuple<" ++ ",".intercalate (cs.map bconvTag) ++ ">"

def poutJson : POut → Json
  | .ok fs => Json.mkObj [("o", "ok"), ("fields", Json.arr (fs.map (fun p => Json.arr #[jstr p.1, eValJson p.2])).toArray)]
  | .exit c k => Json.mkObj [("o", "exit"), ("code", Json.num (JsonNumber.fromNat c)), ("kind", exitKindStr k)]
  | .raise e => Json.mkObj [("o", "raise"), ("exc", jstr e)]
  | .unmodelled w => Json.mkObj [("o", "unmodelled"), ("why", w)]

/-- op `fields.parse`: {cfg, dest, fields, argv, floats} ↦ outcome of the whole flat pipeline -/
def opFieldsParse (c : Json) : R Json := do
  let cfg ← parseCfg (← obj c "cfg")
  let dest := chars (← str c "dest")
  let fs ← (← arr c "fields").toList.mapM fParseField
  let argv := (← strList c "argv").map chars
  let fenv ← eParseFEnv c
  return poutJson (parseFlat fenv cfg dest fs argv)

/-- op `fields.argopts`: {fields} ↦ per field the argparse options the model derives -/
def opFieldsArgopts (c : Json) : R Json := do
  let fs ← (← arr c "fields").toList.mapM fParseField
  let outs := fs.map (fun f => match argOptions f with
    | none => Json.mkObj [("unmodelled", true)]
    | some ao => Json.mkObj [("nargs", nargsJson ao.nargs), ("conv", convTag ao.conv),
        ("choices", match ao.choices with | some ch => jstrs ch | none => .null),
        ("required", ao.required), ("default", eValJson ao.default), ("bool_action", ao.isBool)])
  return Json.mkObj [("opts", Json.arr outs.toArray)]

def fieldsOps : List (String × (Json → R Json)) :=
  [("fields.parse", opFieldsParse), ("fields.argopts", opFieldsArgopts)]

end SpVerif.Drive
