/-
  JSON glue for the C14 model (`SpVerif.Model.Subclass`).  Ops: `sub.resolve`, `sub.load`, `sub.loaddict`.
-/
import SpVerif.Drive.Util
import SpVerif.Model.Subclass
open Lean

namespace SpVerif.Drive
open SpVerif.Sub

/-- class names of the table, in definition order (class id = position) -/
abbrev Names := List String

def clsId (names : Names) (n : String) : R Nat :=
  match names.findIdx? (· == n) with
  | some i => .ok i
  | none => .error s!"unknown class {n}"

def clsName (names : Names) (i : Nat) : String := names.getD i s!"?{i}"

/-- canonical value tree (DESIGN Appendix A) → `Val` -/
partial def subParseVal (names : Names) (j : Json) : R Val := do
  match (← str j "t") with
  | "int" =>
    match (← str j "v").toInt? with
    | some n => return .int n
    | none => throw "bad int"
  | "str" => return .str (chars (← str j "v"))
  | "none" => return .none
  | "list" => return .list (← (← arr j "v").toList.mapM (subParseVal names))
  | "dict" =>
    let items ← (← arr j "v").toList.mapM (fun p => do
      match p with
      | .arr #[k, v] => return (chars (← str k "v"), ← subParseVal names v)
      | _ => throw "bad dict item")
    return .dict items
  | "inst" =>
    let c ← clsId names (← str j "cls")
    let fs ← (← arr j "v").toList.mapM (fun p => do
      match p with
      | .arr #[.str k, v] => return (chars k, ← subParseVal names v)
      | _ => throw "bad inst field")
    return .inst c fs
  | t => throw s!"bad value tag {t}"

partial def subValJson (names : Names) : Val → Json
  | .int n => Json.mkObj [("t", "int"), ("v", Json.str (toString n))]
  | .str s => Json.mkObj [("t", "str"), ("v", jstr s)]
  | .none => Json.mkObj [("t", "none")]
  | .list xs => Json.mkObj [("t", "list"), ("v", Json.arr (xs.map (subValJson names)).toArray)]
  | .dict kv => Json.mkObj [("t", "dict"), ("v", Json.arr (kv.map (fun p =>
      Json.arr #[Json.mkObj [("t", "str"), ("v", jstr p.1)], subValJson names p.2])).toArray)]
  | .inst c fs => Json.mkObj [("t", "inst"), ("cls", Json.str (clsName names c)),
      ("v", Json.arr (fs.map (fun p => Json.arr #[jstr p.1, subValJson names p.2])).toArray)]

/-- tagged raw JSON (keeps key order): {"j":"int","v":n} {"j":"str","v":s} {"j":"null"} {"j":"arr","v":[…]}
    {"j":"obj","v":[[k, J]…]} -/
partial def parseJ (j : Json) : R J := do
  match (← str j "j") with
  | "int" => return .int (← int j "v")
  | "str" => return .str (chars (← str j "v"))
  | "null" => return .null
  | "arr" => return .arr (← (← arr j "v").toList.mapM parseJ)
  | "obj" =>
    let items ← (← arr j "v").toList.mapM (fun p => do
      match p with
      | .arr #[.str k, v] => return (chars k, ← parseJ v)
      | _ => throw "bad obj item")
    return .obj items
  | t => throw s!"bad J tag {t}"

/-- plain JSON rendering of a serialized form (object key order is not significant) -/
partial def jJson : J → Json
  | .int n => Json.num (JsonNumber.fromInt n)
  | .str s => jstr s
  | .null => Json.null
  | .arr xs => Json.arr (xs.map jJson).toArray
  | .obj kv => Json.mkObj (kv.map (fun p => (unchars p.1, jJson p.2)))

def parseTy (names : Names) (j : Json) : R FTy := do
  match (← str j "k") with
  | "int" => return .prim
  | "dc" => return .dc (← clsId names (← str j "cls"))
  | "opt" => return .opt (← clsId names (← str j "cls"))
  | "list" => return .list (← clsId names (← str j "cls"))
  | "dict" => return .dict (← clsId names (← str j "cls"))
  | k => throw s!"bad type {k}"

def parseField (names : Names) (j : Json) : R Field := do
  let d : Option Val ← match j.getObjVal? "default" with
    | .ok .null => pure none
    | .ok v => (subParseVal names v).map some
    | .error _ => pure none
  return { name := chars (← str j "name"), init := (← bool j "init"), ty := ← parseTy names (← obj j "ty"),
           default := d }

def optBool (j : Json) (k : String) : Option Bool :=
  match j.getObjVal? k with
  | .ok (.bool b) => some b
  | _ => none

def parseClasses (c : Json) : R (Names × List Cls) := do
  let cs := (← arr c "classes").toList
  let names ← cs.mapM (fun j => str j "name")
  let cls ← cs.mapM (fun j => do
    let parent ← match (← optStr j "parent") with
      | some p => (clsId names p).map some
      | none => pure none
    let own ← (← arr j "fields").toList.mapM (parseField names)
    return ({ name := chars (← str j "name"), parent := parent, dis := optBool j "dis", own := own,
              frozen := (optBool j "frozen").getD false, mixin := (optBool j "mixin").getD false } : Cls))
  return (names, cls)

def parsePi (names : Names) (c : Json) : R (Nat → List Nat) := do
  let pj ← obj c "pi"
  let table ← names.mapM (fun n => do
    match pj.getObjVal? n with
    | .ok (.arr a) => a.toList.mapM (fun x => do clsId names (← x.getStr?))
    | _ => pure [])
  return fun i => table.getD i []

def subOutJson (names : Names) : Out → Json
  | .ok v => Json.mkObj [("o", "ok"), ("v", subValJson names v)]
  | .raise e => Json.mkObj [("o", "raise"), ("exc", jstr e)]
  | .unmodelled w => Json.mkObj [("o", "unmodelled"), ("why", jstr w)]

def fuelDefault : Nat := 4096

/-- op `sub.resolve`: {classes} ↦ per class: fields, init fields, decode_into_subclasses, all_subclasses (sorted) -/
def opSubResolve (c : Json) : R Json := do
  let (names, cls) ← parseClasses c
  let Rt := resolve cls
  let rows := (List.range Rt.length).map (fun i =>
    let r := Rt.getD i default
    Json.mkObj [("name", Json.str (clsName names i)),
                ("fields", jstrs (r.fields.map (·.name))),
                ("init", jstrs (initNames Rt i)),
                ("dis", Json.bool r.dis),
                ("desc", Json.arr ((descendants Rt i).map (fun d => Json.str (clsName names d))).toArray)])
  return Json.arr rows.toArray

/-- op `sub.load`: {classes, base, inst, save, drop, pi} ↦ {dict, out} -/
def opSubLoad (c : Json) : R Json := do
  let (names, cls) ← parseClasses c
  let Rt := resolve cls
  let base ← clsId names (← str c "base")
  let v ← subParseVal names (← obj c "inst")
  let save ← bool c "save"
  let π ← parsePi names c
  let d := encV Rt save v
  return Json.mkObj [("dict", jJson d), ("out", subOutJson names (fromDict Rt π fuelDefault base d (optBool c "drop")))]

/-- op `sub.loaddict`: {classes, base, dict (tagged), drop, pi} ↦ {out} -/
def opSubLoadDict (c : Json) : R Json := do
  let (names, cls) ← parseClasses c
  let Rt := resolve cls
  let base ← clsId names (← str c "base")
  let d ← parseJ (← obj c "dict")
  let π ← parsePi names c
  return Json.mkObj [("out", subOutJson names (fromDict Rt π fuelDefault base d (optBool c "drop")))]

def subclassOps : List (String × (Json → R Json)) :=
  [("sub.resolve", opSubResolve), ("sub.load", opSubLoad), ("sub.loaddict", opSubLoadDict),
   -- process history (classes defined after earlier loads): the candidates of a load are all subclasses existing at that
   -- time, i.e. the load under test is `sub.load` on the whole table
   ("sub.history", opSubLoad)]

end SpVerif.Drive
