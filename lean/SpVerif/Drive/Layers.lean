/-
  JSON glue for the C06 model (`SpVerif.Model.Layers`).
  Values: null | number | string | {"a": canonical JSON text of a bool/float/list leaf} | {"d": [[key, value]…]} (dicts as pair lists: insertion order is kept).
  Classes: [{"k":"leaf","name":n,"dflt":V|null} | {"k":"nested","name":n,"fac":dict|null,"cls":[…]}].
-/
import SpVerif.Drive.Util
import SpVerif.Model.Layers
open Lean

namespace SpVerif.Drive
open SpVerif.Layers

partial def lyParseJ (j : Json) : R J := do
  match j with
  | .null => return .null
  | .str s => return .str (chars s)
  | .num _ =>
    match j.getInt? with
    | .ok i => return .int i
    | .error e => throw s!"non-integer number: {e}"
  | .obj _ =>
    if let .ok (.str a) := j.getObjVal? "a" then return .atom (chars a)
    let items ← (← arr j "d").toList.mapM (fun kv => do
      let a ← (kv.getArr? : R (Array Json))
      if a.size != 2 then throw "bad dict item"
      let k ← (a[0]!.getStr? : R String)
      let v ← lyParseJ a[1]!
      return (chars k, v))
    return .dict items
  | _ => throw "unsupported JSON value"

def lyParseD (j : Json) : R Dict := do
  match (← lyParseJ j) with
  | .dict d => return d
  | _ => throw "expected a dict"

def lyOptD (j : Json) (k : String) : R (Option Dict) :=
  match j.getObjVal? k with
  | .ok .null => .ok none
  | .ok v => (lyParseD v).map some
  | .error _ => .ok none

def lyDictList (j : Json) (k : String) : R (List Dict) := do
  match j.getObjVal? k with
  | .ok .null => return []
  | .ok (.arr a) => a.toList.mapM lyParseD
  | .ok _ => throw s!"{k}: expected a list"
  | .error _ => return []

partial def lyJOut : J → Json
  | .null => Json.null
  | .int i => Json.num (JsonNumber.fromInt i)
  | .str s => jstr s
  | .atom s => Json.mkObj [("a", jstr s)]
  | .dict kvs => Json.mkObj [("d", Json.arr (kvs.map (fun kv => Json.arr #[jstr kv.1, lyJOut kv.2])).toArray)]

partial def lyParseWT (fields : List Json) : R WT := do
  match fields with
  | [] => return .nil
  | f :: rest =>
    let r ← lyParseWT rest
    let name := chars (← str f "name")
    match (← str f "k") with
    | "leaf" =>
      let df : Option J ← (match f.getObjVal? "dflt" with
        | .ok .null => pure none
        | .ok v => (lyParseJ v).map some
        | .error _ => pure none)
      return .leaf name df .null r
    | "nested" =>
      let sub ← lyParseWT (← arr f "cls").toList
      return .nested name (← lyOptD f "fac") sub r
    | k => throw s!"bad field kind {k}"

def lyExcName : Exc → String
  | .runtimeError => "RuntimeError"
  | .typeError => "TypeError"
  | .valueError => "ValueError"

def lyErrJson : Err → Json
  | .raise e => Json.mkObj [("o", "raise"), ("exc", lyExcName e)]
  | .exit2 => Json.mkObj [("o", "exit"), ("code", Json.num 2)]
  | .unmodelled w => Json.mkObj [("o", "unmodelled"), ("why", jstr w)]

/-- op `layers.dict_union`: {dicts:[dict…]} ↦ {v: dict_union(*dicts)} -/
def lyOpDictUnion (c : Json) : R Json := do
  let ds ← lyDictList c "dicts"
  -- two dicts (the only arity the anchored code uses) go through the binary `unionD` the theorems are about
  let u := match ds with
    | [a, b] => unionD a b
    | _ => unionN ds
  return Json.mkObj [("v", lyJOut (.dict u))]

/-- op `layers.set_default`: {cls, inst: kw|null, values:[V…]} — a fresh `DataclassWrapper(cls, default=inst)`,
    then `set_default(v)` for each value ↦ {o:"ok", slots, defaults} | raise -/
def lyOpSetDefault (c : Json) : R Json := do
  let cls ← lyParseWT (← arr c "cls").toList
  let instKw ← lyOptD c "inst"
  let vals ← (← arr c "values").toList.mapM lyParseJ
  if !facOk cls then return lyErrJson (.unmodelled "factory".toList)
  let inst : Option Dict ← (match instKw with
    | none => pure none
    | some kw => (match construct cls kw with
                  | some i => pure (some i)
                  | none => throw "inst not constructible"))
  let wt0 := match inst with
    | some i => initInst cls i
    | none => cls
  let rec go (wt : WT) : List J → Out WT
    | [] => .ok wt
    | v :: vs => match setDefaultJ wt v with
      | .error e => .error e
      | .ok wt' => go wt' vs
  match go wt0 vals with
  | .error e => return lyErrJson e
  | .ok wt => return Json.mkObj [("o", "ok"), ("slots", lyJOut (.dict (slotsTree wt))),
                                 ("defaults", lyJOut (.dict (defaultsTree wt inst)))]

def lyParseRegIn (j : Json) : R RegIn := do
  return { dest := chars (← str j "dest"), cls := ← lyParseWT (← arr j "cls").toList, instKw := ← lyOptD j "inst" }

def lyParseCase (c : Json) : R Case := do
  let addArg : Option Bool := match c.getObjVal? "add_arg" with
    | .ok (.bool b) => some b
    | _ => none
  let cli : Option (List Dict) ← (match c.getObjVal? "cli_files" with
    | .ok (.arr a) => (a.toList.mapM lyParseD).map some
    | _ => pure none)
  return { withoutRoot := ← bool c "without_root"
           kwBefore := ← lyDictList c "kw_before"
           regs := ← (← arr c "regs").toList.mapM lyParseRegIn
           kwAfter := ← lyDictList c "kw_after"
           parse := { ctorFiles := ← lyDictList c "ctor_files", addArg := addArg, cliFiles := cli,
                      cmd := ← lyParseD (← obj c "cmd") } }

def lyDistinctDests : List RegIn → Bool
  | [] => true
  | r :: rs => !(rs.any (fun r' => r'.dest = r.dest)) && lyDistinctDests rs

/-- op `layers.e2e`: a whole scenario ↦ {o:"ok", v:{dest: instance tree}} | raise | exit | unmodelled -/
def lyOpE2E (c : Json) : R Json := do
  let cs ← lyParseCase c
  if !lyDistinctDests cs.regs then return lyErrJson (.unmodelled "duplicate dest".toList)
  match run cs with
  | .ok out => return Json.mkObj [("o", "ok"), ("v", lyJOut (.dict out))]
  | .error e => return lyErrJson e

partial def lyParseOT (fields : List Json) : R OT := do
  match fields with
  | [] => return .nil
  | f :: rest =>
    let r ← lyParseOT rest
    let name := chars (← str f "name")
    match (← str f "k") with
    | "leaf" =>
      let d ← (match f.getObjVal? "dflt" with
        | .ok v => lyParseJ v
        | .error _ => pure J.null)
      let a : Option J ← (match f.getObjVal? "arg" with
        | .ok v => (lyParseJ v).map some
        | .error _ => pure none)
      return .leaf name d a r
    | "member" => return .member name (← bool f "opt") (← lyParseOT (← arr f "cls").toList) r
    | k => throw s!"bad field kind {k}"

/-- op `layers.collapse`: a class with Optional members that nothing but the command line mentions ↦ the instance tree
    (`null` for a member that stays None) | exit 2 when a required option is missing -/
def lyOpCollapse (c : Json) : R Json := do
  let ot ← lyParseOT (← arr c "cls").toList
  if otMissing ot then return lyErrJson .exit2
  let dest ← str c "dest"
  return Json.mkObj [("o", "ok"), ("v", lyJOut (.dict [(chars dest, .dict (built ot))]))]

def layersOps : List (String × (Json → R Json)) :=
  [("layers.dict_union", lyOpDictUnion), ("layers.set_default", lyOpSetDefault), ("layers.e2e", lyOpE2E),
   ("layers.collapse", lyOpCollapse)]

end SpVerif.Drive
