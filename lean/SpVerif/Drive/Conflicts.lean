import SpVerif.Drive.Util
import SpVerif.Drive.Naming
import SpVerif.Model.Conflicts
open Lean

namespace SpVerif.Drive

def parseCR : String → R CR
  | "NONE" => .ok .none
  | "EXPLICIT" => .ok .explicit
  | "AUTO" => .ok .auto
  | "ALWAYS_MERGE" => .ok .always_merge
  | s => .error s!"bad cr {s}"

def parseRec (j : Json) : R FieldRec := do
  return { name := chars (← str j "name"), parentDest := chars (← str j "parent_dest"),
           level := ← nat j "level", aliases := (← strList j "aliases").map chars,
           pref := chars (← str j "prefix") }

/-- op `conflicts.resolve`: {cfg, mode, recs} ↦ {o:ok, sets, prefixes} | {o:raise, exc} -/
def opConflictsResolve (c : Json) : R Json := do
  let cfg ← parseCfg (← obj c "cfg")
  let mode ← parseCR (← str c "mode")
  let recs ← (← arr c "recs").toList.mapM parseRec
  let reserved := (← strList c "reserved").map chars
  match setup cfg mode reserved recs with
  | .ok recs' =>
    let sets := recs'.map (fun r => Json.arr ((sortStrs (dedup (optionList cfg r.toFW))).map Json.str).toArray)
    return Json.mkObj [("o", "ok"), ("sets", Json.arr sets.toArray),
                       ("prefixes", jstrs (recs'.map (·.pref)))]
  | .conflictResolutionError => return Json.mkObj [("o", "raise"), ("exc", "ConflictResolutionError")]
  | .assertionError => return Json.mkObj [("o", "raise"), ("exc", "AssertionError")]
  | .argumentError => return Json.mkObj [("o", "raise"), ("exc", "ArgumentError")]

def conflictsOps : List (String × (Json → R Json)) :=
  [("conflicts.resolve", opConflictsResolve)]

end SpVerif.Drive
