/-
  SpVerif.Lemmas.BoolFlag — string lemmas behind the C12 theorems about the negative-option surgery
  (`negOne` / `negLoop` / `negExplicit`) and about `str2bool` (`stripWs`, `lower`).
  Only core `List` reasoning; no Mathlib.
-/
import SpVerif.Model.BoolFlag
namespace SpVerif.BoolFlagL
open SpVerif

/-! ### `lstripDash` / `leadingDashes` -/

@[simp] theorem lstripDash_nil : lstripDash [] = [] := rfl
@[simp] theorem lstripDash_dash (cs : Str) : lstripDash ('-' :: cs) = lstripDash cs := rfl

theorem lstripDash_cons_ne (c : Char) (cs : Str) (h : c ≠ '-') : lstripDash (c :: cs) = c :: cs := by
  unfold lstripDash
  split
  · rename_i heq; cases heq; exact absurd rfl h
  · rfl

@[simp] theorem leadingDashes_nil : leadingDashes [] = 0 := rfl
@[simp] theorem leadingDashes_dash (cs : Str) : leadingDashes ('-' :: cs) = leadingDashes cs + 1 := rfl

theorem leadingDashes_cons_ne (c : Char) (cs : Str) (h : c ≠ '-') : leadingDashes (c :: cs) = 0 := by
  unfold leadingDashes
  split
  · rename_i heq; cases heq; exact absurd rfl h
  · rfl

/-- every string is its leading dashes followed by the rest -/
theorem dashes_append_lstripDash (s : Str) :
    List.replicate (leadingDashes s) '-' ++ lstripDash s = s := by
  induction s with
  | nil => rfl
  | cons c cs ih =>
    by_cases h : c = '-'
    · subst h; simp [List.replicate_succ, ih]
    · simp [lstripDash_cons_ne c cs h, leadingDashes_cons_ne c cs h]

/-- what remains after stripping does not start with a dash -/
theorem lstripDash_head (s : Str) : (lstripDash s).head? ≠ some '-' := by
  induction s with
  | nil => simp
  | cons c cs ih =>
    by_cases h : c = '-'
    · subst h; simpa using ih
    · rw [lstripDash_cons_ne c cs h]; simpa using h

theorem lstripDash_of_head (s : Str) (h : s.head? ≠ some '-') : lstripDash s = s := by
  cases s with
  | nil => rfl
  | cons c cs => exact lstripDash_cons_ne c cs (by simpa using h)

theorem leadingDashes_of_head (s : Str) (h : s.head? ≠ some '-') : leadingDashes s = 0 := by
  cases s with
  | nil => rfl
  | cons c cs => exact leadingDashes_cons_ne c cs (by simpa using h)

@[simp] theorem lstripDash_replicate (k : Nat) (s : Str) :
    lstripDash (List.replicate k '-' ++ s) = lstripDash s := by
  induction k with
  | zero => rfl
  | succ k ih => simpa [List.replicate_succ] using ih

@[simp] theorem leadingDashes_replicate (k : Nat) (s : Str) :
    leadingDashes (List.replicate k '-' ++ s) = k + leadingDashes s := by
  induction k with
  | zero => simp
  | succ k ih => simp [List.replicate_succ, ih]; omega

/-- stripping stops at the first non-dash character -/
theorem lstripDash_append_ne (f : Str) (c : Char) (r : Str) (h : c ≠ '-') :
    lstripDash (f ++ c :: r) = lstripDash f ++ c :: r := by
  induction f with
  | nil => simpa using lstripDash_cons_ne c r h
  | cons d ds ih =>
    by_cases hd : d = '-'
    · subst hd; simpa using ih
    · simp [lstripDash_cons_ne d _ hd]

theorem leadingDashes_append_ne (f : Str) (c : Char) (r : Str) (h : c ≠ '-') :
    leadingDashes (f ++ c :: r) = leadingDashes f := by
  induction f with
  | nil => simpa using leadingDashes_cons_ne c r h
  | cons d ds ih =>
    by_cases hd : d = '-'
    · subst hd; simpa using ih
    · simp [leadingDashes_cons_ne d _ hd]

/-- a string is determined by its number of leading dashes and what follows them -/
theorem eq_of_dashes_of_body (s t : Str) (hd : leadingDashes s = leadingDashes t)
    (hb : lstripDash s = lstripDash t) : s = t := by
  rw [← dashes_append_lstripDash s, ← dashes_append_lstripDash t, hd, hb]

/-! ### `splitOnChar` / `joinWith` -/

theorem splitOnChar_ne_nil (sep : Char) (s : Str) : splitOnChar sep s ≠ [] := by
  induction s with
  | nil => simp [splitOnChar]
  | cons c cs ih =>
    simp only [splitOnChar]
    split
    · simp
    · split <;> simp

theorem splitOnChar_of_not_mem (sep : Char) (s : Str) (h : sep ∉ s) : splitOnChar sep s = [s] := by
  induction s with
  | nil => rfl
  | cons c cs ih =>
    simp only [List.mem_cons, not_or] at h
    have : c ≠ sep := fun hh => h.1 hh.symm
    simp [splitOnChar, this, ih h.2]

/-- `(s + sep + t).split(sep) == s.split(sep) + t.split(sep)` -/
theorem splitOnChar_append_sep (sep : Char) (s t : Str) :
    splitOnChar sep (s ++ sep :: t) = splitOnChar sep s ++ splitOnChar sep t := by
  induction s with
  | nil => simp [splitOnChar]
  | cons c cs ih =>
    by_cases hc : c = sep
    · subst hc; simp [splitOnChar, ih]
    · simp only [List.cons_append, splitOnChar, hc, ↓reduceIte, ih]
      cases hs : splitOnChar sep cs with
      | nil => exact absurd hs (splitOnChar_ne_nil _ _)
      | cons p ps => simp

theorem joinWith_splitOnChar (sep : Char) (s : Str) : joinWith sep (splitOnChar sep s) = s := by
  induction s with
  | nil => rfl
  | cons c cs ih =>
    simp only [splitOnChar]
    split
    · rename_i h; subst h
      cases hs : splitOnChar c cs with
      | nil => exact absurd hs (splitOnChar_ne_nil _ _)
      | cons p ps => rw [hs] at ih; simp [joinWith, ih]
    · cases hs : splitOnChar sep cs with
      | nil => exact absurd hs (splitOnChar_ne_nil _ _)
      | cons p ps =>
        rw [hs] at ih
        cases ps with
        | nil => simp only [joinWith] at ih ⊢; rw [ih]
        | cons q qs => simp only [joinWith, List.cons_append] at ih ⊢; rw [ih]

theorem joinWith_cons_cons (sep : Char) (p q : Str) (r : List Str) :
    joinWith sep (p :: q :: r) = p ++ sep :: joinWith sep (q :: r) := rfl

/-- `sep.join(xs + [y]) == sep.join(xs) + sep + y` for non-empty `xs` -/
theorem joinWith_append_singleton (sep : Char) (x : Str) (xs : List Str) (y : Str) :
    joinWith sep (x :: (xs ++ [y])) = joinWith sep (x :: xs) ++ sep :: y := by
  induction xs generalizing x with
  | nil => simp [joinWith]
  | cons q r ih =>
    simp only [List.cons_append] at ih ⊢
    rw [joinWith_cons_cons, ih q, joinWith_cons_cons]
    simp

/-- a prefix glued to the first component stays in front of the joined string -/
theorem joinWith_head_append (sep : Char) (a p : Str) (ps : List Str) :
    joinWith sep ((a ++ p) :: ps) = a ++ joinWith sep (p :: ps) := by
  cases ps with
  | nil => rfl
  | cons q r => simp [joinWith_cons_cons]

/-- dashes are only stripped from the first component of a dotted path -/
theorem lstripDash_joinWith (f : Str) (mid : List Str) :
    joinWith '.' (lstripDash f :: mid) = lstripDash (joinWith '.' (f :: mid)) := by
  cases mid with
  | nil => rfl
  | cons q r =>
    rw [joinWith_cons_cons, joinWith_cons_cons, lstripDash_append_ne f '.' _ (by decide)]

/-- `rpartition('.')`: a string with a dot is `P + "." + leaf` with a dot-free `leaf` -/
theorem exists_rpartition (s : Str) (h : '.' ∈ s) :
    ∃ P leaf, s = P ++ '.' :: leaf ∧ '.' ∉ leaf := by
  induction s with
  | nil => cases h
  | cons c cs ih =>
    by_cases hcs : '.' ∈ cs
    · obtain ⟨P, leaf, he, hl⟩ := ih hcs
      exact ⟨c :: P, leaf, by rw [he]; rfl, hl⟩
    · have hc : c = '.' := by
        rcases List.mem_cons.mp h with h | h
        · exact h.symm
        · exact absurd h hcs
      exact ⟨[], cs, by rw [hc]; rfl, hcs⟩

/-! ### the last dot-free segment of a string (what follows the last dot) -/

/-- `s.rpartition('.')[2]` -/
def lastSeg (s : Str) : Str := (s.reverse.takeWhile (fun c => c != '.')).reverse

theorem takeWhile_append_of_all {α} (p : α → Bool) (l r : List α) (h : ∀ x ∈ l, p x = true) :
    (l ++ r).takeWhile p = l ++ r.takeWhile p := by
  induction l with
  | nil => rfl
  | cons x xs ih =>
    simp only [List.cons_append, List.takeWhile_cons, h x (by simp), ↓reduceIte]
    rw [ih (fun y hy => h y (by simp [hy]))]

/-- the last segment of `P ++ "." ++ m ++ leaf` (dot-free `leaf`) does not depend on `P` -/
theorem lastSeg_dot (P m leaf : Str) (hl : '.' ∉ leaf) :
    lastSeg (P ++ '.' :: (m ++ leaf)) = lastSeg ('.' :: m) ++ leaf := by
  unfold lastSeg
  have hall : ∀ x ∈ leaf.reverse, (x != '.') = true := by
    intro x hx
    have : x ∈ leaf := by simpa using hx
    simp only [bne_iff_ne, ne_eq]
    intro hh; subst hh; exact hl this
  have e1 : (P ++ '.' :: (m ++ leaf)).reverse = leaf.reverse ++ (m.reverse ++ '.' :: P.reverse) := by
    simp
  have e2 : ('.' :: m : Str).reverse = m.reverse ++ ['.'] := by simp
  rw [e1, e2, takeWhile_append_of_all _ _ _ hall]
  have e3 : ∀ (a b : Str), (a ++ '.' :: b).takeWhile (fun c => c != '.') = a.takeWhile (fun c => c != '.') := by
    intro a b
    induction a with
    | nil => simp
    | cons x xs ih =>
      simp only [List.cons_append, List.takeWhile_cons]
      split
      · rw [ih]
      · rfl
  rw [e3 m.reverse P.reverse, e3 m.reverse []]
  simp

/-! ### `count '.'` -/

theorem count_dot_of_not_mem (s : Str) (h : '.' ∉ s) : s.count '.' = 0 :=
  List.count_eq_zero.mpr h

/-! ### `stripWs` and `lower` commute -/

theorem lowerChar_of_not_upper (c : Char) (h : ¬ (65 ≤ c.toNat ∧ c.toNat ≤ 90)) : lowerChar c = c := by
  unfold lowerChar
  rw [if_neg]
  intro hh
  have h1 : 'A'.toNat = 65 := by decide
  have h2 : 'Z'.toNat = 90 := by decide
  omega

/-- the lower-case image of an upper-case ASCII letter is an ASCII lower-case letter -/
theorem lowerChar_upper_toNat (c : Char) (h : 65 ≤ c.toNat ∧ c.toNat ≤ 90) :
    (lowerChar c).toNat = c.toNat + 32 := by
  unfold lowerChar
  have h1 : 'A'.toNat = 65 := by decide
  have h2 : 'Z'.toNat = 90 := by decide
  rw [if_pos (by omega)]
  have : ∀ n, 65 ≤ n → n ≤ 90 → (Char.ofNat (n + 32)).toNat = n + 32 := by
    intro n h65 h90
    have hv : (n + 32).isValidChar := by
      left; omega
    simp [Char.ofNat, hv, Char.toNat, Char.ofNatAux]
    omega
  exact this c.toNat h.1 h.2

/-- every character `str.strip()` removes (in the modelled ASCII fragment) is below `'A'` -/
theorem isSpace_toNat (c : Char) (h : isSpace c = true) : c.toNat < 33 := by
  simp only [isSpace, Bool.or_eq_true, decide_eq_true_eq, or_assoc] at h
  rcases h with h | h | h | h | h | h | h | h | h | h <;> subst h <;> decide

theorem isSpace_lowerChar (c : Char) : isSpace (lowerChar c) = isSpace c := by
  by_cases hu : 65 ≤ c.toNat ∧ c.toNat ≤ 90
  · have e1 : isSpace c = false := by
      cases hs : isSpace c with
      | false => rfl
      | true => have := isSpace_toNat c hs; omega
    have e2 : isSpace (lowerChar c) = false := by
      cases hs : isSpace (lowerChar c) with
      | false => rfl
      | true =>
        have := isSpace_toNat _ hs
        rw [lowerChar_upper_toNat c hu] at this; omega
    rw [e1, e2]
  · rw [lowerChar_of_not_upper c hu]

theorem lowerChar_idem (c : Char) : lowerChar (lowerChar c) = lowerChar c := by
  by_cases hu : 65 ≤ c.toNat ∧ c.toNat ≤ 90
  · apply lowerChar_of_not_upper
    rw [lowerChar_upper_toNat c hu]; omega
  · rw [lowerChar_of_not_upper c hu, lowerChar_of_not_upper c hu]

theorem lower_idem (s : Str) : lower (lower s) = lower s := by
  simp [lower, List.map_map, Function.comp_def, lowerChar_idem]

theorem lstripWs_lower (s : Str) : lstripWs (lower s) = lower (lstripWs s) := by
  induction s with
  | nil => rfl
  | cons c cs ih =>
    simp only [lower, List.map_cons, lstripWs, isSpace_lowerChar]
    split
    · exact ih
    · rfl

/-- `s.lower().strip() == s.strip().lower()` -/
theorem stripWs_lower (s : Str) : stripWs (lower s) = lower (stripWs s) := by
  have hrev : ∀ t : Str, (lower t).reverse = lower t.reverse := by
    intro t; simp [lower, List.map_reverse]
  unfold stripWs
  rw [lstripWs_lower, hrev, lstripWs_lower, hrev]

end SpVerif.BoolFlagL
