/-
  Helper lemmas about `SpVerif.Model.Serial`, shared by Props/C05 and Props/C13.
-/
import SpVerif.Model.Serial
namespace SpVerif.Serial
open SpVerif

/-! ### the outcome monad -/

@[simp] theorem Out.ok_bind {α β : Type} (v : α) (f : α → Out β) : (Out.ok v).bind f = f v := rfl
@[simp] theorem Out.raise_bind {α β : Type} (e : Str) (f : α → Out β) : (Out.raise e : Out α).bind f = .raise e := rfl
@[simp] theorem Out.unmodelled_bind {α β : Type} (e : Str) (f : α → Out β) :
    (Out.unmodelled e : Out α).bind f = .unmodelled e := rfl

theorem Out.bind_eq_ok {α β : Type} {x : Out α} {f : α → Out β} {b : β} (h : x.bind f = .ok b) :
    ∃ a, x = .ok a ∧ f a = .ok b := by
  cases x with
  | ok a => exact ⟨a, rfl, h⟩
  | raise e => simp at h
  | unmodelled e => simp at h

@[simp] theorem mapOut_nil {α β : Type} (f : α → Out β) : mapOut f [] = .ok [] := rfl
@[simp] theorem mapOut_cons {α β : Type} (f : α → Out β) (x : α) (xs : List α) :
    mapOut f (x :: xs) = (f x).bind fun y => (mapOut f xs).bind fun ys => .ok (y :: ys) := rfl

/-- pointwise success gives success of the whole comprehension -/
theorem mapOut_ok_of_forall {α β : Type} (f : α → Out β) (g : α → β) (xs : List α)
    (h : ∀ x ∈ xs, f x = .ok (g x)) : mapOut f xs = .ok (xs.map g) := by
  induction xs with
  | nil => rfl
  | cons x xs ih =>
    simp only [mapOut_cons, List.map_cons]
    rw [h x (by simp), ih (fun y hy => h y (by simp [hy]))]
    rfl

/-- a comprehension that succeeded has one result per element -/
theorem mapOut_ok_length {α β : Type} (f : α → Out β) (xs : List α) (ys : List β)
    (h : mapOut f xs = .ok ys) : ys.length = xs.length := by
  induction xs generalizing ys with
  | nil => simp at h; cases h; rfl
  | cons x xs ih =>
    simp only [mapOut_cons] at h
    obtain ⟨y, _, h2⟩ := Out.bind_eq_ok h
    obtain ⟨ys', h3, h4⟩ := Out.bind_eq_ok h2
    cases h4
    simp [ih ys' h3]

/-! ### dict insertion on pairwise-distinct keys -/

/-- earlier keys are not `==` to later keys -/
def keysDistinct : List (Val × Val) → Bool
  | [] => true
  | (k, _) :: ps => ps.all (fun p => !pyEq k p.1) && keysDistinct ps

theorem dictInsert_fresh (k v : Val) (acc : List (Val × Val))
    (h : ∀ p ∈ acc, pyEq p.1 k = false) : dictInsert k v acc = acc ++ [(k, v)] := by
  induction acc with
  | nil => rfl
  | cons p ps ih =>
    obtain ⟨k', v'⟩ := p
    have h1 : pyEq k' k = false := h (k', v') (by simp)
    simp only [dictInsert, h1, Bool.false_eq_true, ↓reduceIte, List.cons_append]
    rw [ih (fun q hq => h q (by simp [hq]))]

/-- `acc` followed by `ps`, all keys pairwise distinct in insertion direction -/
def distinctFrom (acc ps : List (Val × Val)) : Prop :=
  (∀ p ∈ acc, ∀ q ∈ ps, pyEq p.1 q.1 = false) ∧ keysDistinct ps = true

theorem distinctFrom_step {acc : List (Val × Val)} {k v : Val} {ps : List (Val × Val)}
    (h : distinctFrom acc ((k, v) :: ps)) :
    (∀ p ∈ acc, pyEq p.1 k = false) ∧ distinctFrom (acc ++ [(k, v)]) ps := by
  obtain ⟨h1, h2⟩ := h
  simp only [keysDistinct, Bool.and_eq_true, List.all_eq_true, Bool.not_eq_eq_eq_not, Bool.not_true] at h2
  refine ⟨fun p hp => h1 p hp (k, v) (by simp), ?_, h2.2⟩
  intro p hp q hq
  rcases List.mem_append.mp hp with hp | hp
  · exact h1 p hp q (by simp [hq])
  · simp only [List.mem_singleton] at hp
    subst hp
    exact h2.1 q hq

theorem foldl_dictInsert_distinct (ps acc : List (Val × Val)) (h : distinctFrom acc ps) :
    ps.foldl (fun a (p : Val × Val) => dictInsert p.1 p.2 a) acc = acc ++ ps := by
  induction ps generalizing acc with
  | nil => simp
  | cons p ps ih =>
    obtain ⟨k, v⟩ := p
    obtain ⟨h1, h2⟩ := distinctFrom_step h
    simp only [List.foldl_cons]
    rw [dictInsert_fresh k v acc h1, ih _ h2]
    simp

theorem distinctFrom_nil (ps : List (Val × Val)) (h : keysDistinct ps = true) : distinctFrom [] ps :=
  ⟨fun _ hp => (nomatch hp), h⟩

/-! ### printing and parsing ints: `int(str(n)) == n` -/

theorem digitVal_digitChar : ∀ d, d < 10 → digitVal (digitChar d) = some d := by decide
theorem digitChar_ne_underscore : ∀ d, d < 10 → digitChar d ≠ '_' := by decide
theorem digitChar_ne_minus : ∀ d, d < 10 → digitChar d ≠ '-' := by decide
theorem digitChar_ne_plus : ∀ d, d < 10 → digitChar d ≠ '+' := by decide
theorem digitChar_ascii : ∀ d, d < 10 → (digitChar d).toNat < 128 := by decide

theorem parseDigits_digitsAux (f n : Nat) (rest : List Char) (h : n < f) :
    parseDigits (digitsAux f n rest) 0 false = parseDigits rest n true := by
  induction f generalizing n rest with
  | zero => omega
  | succ f ih =>
    unfold digitsAux
    by_cases h10 : n < 10
    · simp only [h10, ↓reduceIte]
      simp [parseDigits, digitChar_ne_underscore n h10, digitVal_digitChar n h10]
    · simp only [h10, ↓reduceIte]
      rw [ih (n / 10) _ (by omega)]
      have hm : n % 10 < 10 := Nat.mod_lt _ (by omega)
      simp only [parseDigits, digitChar_ne_underscore _ hm, ↓reduceIte, digitVal_digitChar _ hm]
      congr 1
      omega

theorem parseDigits_showNat (n : Nat) : parseDigits (showNat n) 0 false = some n := by
  unfold showNat
  rw [parseDigits_digitsAux (n + 1) n [] (by omega)]
  simp [parseDigits]

theorem digitsAux_head (f n : Nat) (rest : List Char) (h : n < f) :
    ∃ d tl, d < 10 ∧ digitsAux f n rest = digitChar d :: tl := by
  induction f generalizing n rest with
  | zero => omega
  | succ f ih =>
    unfold digitsAux
    by_cases h10 : n < 10
    · exact ⟨n, rest, h10, by simp [h10]⟩
    · simp only [h10, ↓reduceIte]
      exact ih (n / 10) _ (by omega)

theorem digitsAux_ascii (f n : Nat) (rest : List Char) (hr : isAscii rest = true) :
    isAscii (digitsAux f n rest) = true := by
  induction f generalizing n rest with
  | zero => simpa [digitsAux] using hr
  | succ f ih =>
    unfold digitsAux
    by_cases h10 : n < 10
    · simp only [h10, ↓reduceIte]
      simp only [isAscii, List.all_cons, Bool.and_eq_true, decide_eq_true_eq]
      exact ⟨digitChar_ascii n h10, hr⟩
    · simp only [h10, ↓reduceIte]
      apply ih
      have hm : n % 10 < 10 := Nat.mod_lt _ (by omega)
      simp only [isAscii, List.all_cons, Bool.and_eq_true, decide_eq_true_eq]
      exact ⟨digitChar_ascii _ hm, hr⟩

theorem parseSigned_showNat (n : Nat) : parseSigned (showNat n) = some (Int.ofNat n) := by
  obtain ⟨d, tl, hd, he⟩ := digitsAux_head (n + 1) n [] (by omega)
  have hp := parseDigits_showNat n
  unfold showNat at hp ⊢
  rw [he] at hp ⊢
  unfold parseSigned
  split
  · next h => exact absurd (List.cons.inj h).1 (digitChar_ne_minus d hd)
  · next h => exact absurd (List.cons.inj h).1 (digitChar_ne_plus d hd)
  · simp [hp]

/-! whitespace around a number text -/

def noSpace (s : Str) : Bool := s.all fun c => !isSpace c

theorem lstripWs_spaces (ws s : Str) (h : ws.all isSpace = true) : lstripWs (ws ++ s) = lstripWs s := by
  induction ws with
  | nil => rfl
  | cons c cs ih =>
    simp only [List.all_cons, Bool.and_eq_true] at h
    simp only [List.cons_append, lstripWs, h.1, ↓reduceIte]
    exact ih h.2

theorem lstripWs_head (c : Char) (s : Str) (h : isSpace c = false) : lstripWs (c :: s) = c :: s := by
  simp [lstripWs, h]

/-- `(ws + s + ws').strip() == s` when `s` is non-empty and holds no whitespace -/
theorem stripWs_pad (ws ws' s : Str) (hw : ws.all isSpace = true) (hw' : ws'.all isSpace = true) (hs : s ≠ [])
    (hn : noSpace s = true) : stripWs (ws ++ s ++ ws') = s := by
  have hmem : ∀ c ∈ s, isSpace c = false := by
    intro c hc
    have := (List.all_eq_true.mp hn) c hc
    simpa using this
  unfold stripWs
  rw [List.append_assoc, lstripWs_spaces ws _ hw]
  cases s with
  | nil => exact absurd rfl hs
  | cons c cs =>
    rw [List.cons_append, lstripWs_head c _ (hmem c (by simp))]
    rw [← List.cons_append, List.reverse_append]
    have hwr : ws'.reverse.all isSpace = true := by simpa using hw'
    rw [lstripWs_spaces _ _ hwr]
    cases hr : (c :: cs).reverse with
    | nil => simp at hr
    | cons d ds =>
      have hd : d ∈ c :: cs := by
        have : d ∈ (c :: cs).reverse := by rw [hr]; simp
        exact List.mem_reverse.mp this
      rw [lstripWs_head d ds (hmem d hd), ← hr, List.reverse_reverse]

theorem digitChar_noSpace : ∀ d, d < 10 → isSpace (digitChar d) = false := by decide

theorem digitsAux_noSpace (f n : Nat) (rest : List Char) (hr : noSpace rest = true) :
    noSpace (digitsAux f n rest) = true := by
  induction f generalizing n rest with
  | zero => simpa [digitsAux] using hr
  | succ f ih =>
    unfold digitsAux
    by_cases h10 : n < 10
    · simp only [h10, ↓reduceIte]
      simp only [noSpace, List.all_cons, Bool.and_eq_true, Bool.not_eq_eq_eq_not, Bool.not_true]
      exact ⟨digitChar_noSpace n h10, hr⟩
    · simp only [h10, ↓reduceIte]
      apply ih
      have hm : n % 10 < 10 := Nat.mod_lt _ (by omega)
      simp only [noSpace, List.all_cons, Bool.and_eq_true, Bool.not_eq_eq_eq_not, Bool.not_true]
      exact ⟨digitChar_noSpace _ hm, hr⟩

theorem showNat_ne_nil (n : Nat) : showNat n ≠ [] := by
  obtain ⟨d, tl, _, he⟩ := digitsAux_head (n + 1) n [] (by omega)
  unfold showNat; rw [he]; simp

theorem noSpace_showInt (n : Int) : noSpace (showInt n) = true := by
  cases n with
  | ofNat m => exact digitsAux_noSpace _ _ _ rfl
  | negSucc m =>
    simp only [showInt, noSpace, List.all_cons, Bool.and_eq_true, Bool.not_eq_eq_eq_not, Bool.not_true]
    exact ⟨by decide, digitsAux_noSpace _ _ _ rfl⟩

theorem showInt_ne_nil (n : Int) : showInt n ≠ [] := by
  cases n with
  | ofNat m => exact showNat_ne_nil m
  | negSucc m => simp [showInt]

theorem parseSigned_showInt (n : Int) : parseSigned (showInt n) = some n := by
  cases n with
  | ofNat m => simp [showInt, parseSigned_showNat]
  | negSucc m =>
    simp only [showInt, parseSigned, parseDigits_showNat, Option.map_some]
    rfl

/-- `int(ws + str(n) + ws') == n` for any surrounding whitespace -/
theorem parseInt_padded (n : Int) (ws ws' : Str) (hw : ws.all isSpace = true) (hw' : ws'.all isSpace = true) :
    parseInt (ws ++ showInt n ++ ws') = some n := by
  unfold parseInt
  rw [stripWs_pad ws ws' _ hw hw' (showInt_ne_nil n) (noSpace_showInt n), parseSigned_showInt]

/-- `int(str(n)) == n` -/
theorem parseInt_showInt (n : Int) : parseInt (showInt n) = some n := by
  have := parseInt_padded n [] [] rfl rfl
  simpa using this

/-- `int("+" + str(n)) == n` for a non-negative n -/
theorem parseInt_plus (m : Nat) : parseInt ('+' :: showNat m) = some (Int.ofNat m) := by
  unfold parseInt
  have hs : stripWs ('+' :: showNat m) = '+' :: showNat m := by
    have := stripWs_pad [] [] ('+' :: showNat m) rfl rfl (by simp) (by
      simp only [noSpace, List.all_cons, Bool.and_eq_true, Bool.not_eq_eq_eq_not, Bool.not_true]
      exact ⟨by decide, digitsAux_noSpace _ _ _ rfl⟩)
    simpa using this
  rw [hs]
  simp [parseSigned, parseDigits_showNat]

theorem isSpace_ascii (c : Char) (h : isSpace c = true) : c.toNat < 128 := by
  simp only [isSpace, Bool.or_eq_true, decide_eq_true_eq] at h
  rcases h with ((((((((h | h) | h) | h) | h) | h) | h) | h) | h) | h <;> subst h <;> decide

theorem isAscii_showInt (n : Int) : isAscii (showInt n) = true := by
  cases n with
  | ofNat m => exact digitsAux_ascii _ _ _ rfl
  | negSucc m =>
    simp only [showInt, isAscii, List.all_cons, Bool.and_eq_true, decide_eq_true_eq]
    exact ⟨by decide, digitsAux_ascii _ _ _ rfl⟩

/-- `str` of ints is injective (from the parse-back lemma) -/
theorem showInt_injective {a b : Int} (h : showInt a = showInt b) : a = b := by
  have := parseInt_showInt a
  rw [h, parseInt_showInt b] at this
  exact (Option.some.inj this).symm

/-! ### `decode` on each type constructor (the dispatch of get_decoding_fn) -/

section
variable (henv : HEnv)
theorem decode_int (v : Val) : decode henv .int v = decodeInt v := by rw [decode]
theorem decode_float (v : Val) : decode henv .float v = decodeFloat v := by rw [decode]
theorem decode_str (v : Val) : decode henv .str v = decodeStr v := by rw [decode]
theorem decode_bool (v : Val) : decode henv .bool v = decodeBool v := by rw [decode]
theorem decode_path (v : Val) : decode henv .path v = decodePath v := by rw [decode]
theorem decode_enum (c : Str) (ms : List Str) (v : Val) : decode henv (.enum c ms) v = decodeEnum c ms v := by
  rw [decode]
theorem decode_literal (vals : List Val) (v : Val) : decode henv (.literal vals) v = decodeLiteral vals v := by
  rw [decode]
theorem decode_list (t : FTy) (raw : Val) : decode henv (.list t) raw =
    (iterOf raw).bind fun xs => (mapOut (decode henv t) xs).bind fun ys => .ok (.list ys) := by rw [decode]
theorem decode_vtuple (t : FTy) (raw : Val) : decode henv (.vtuple t) raw =
    (iterOf raw).bind fun xs => (mapOut (decode henv t) xs).bind fun ys => .ok (.tuple ys) := by rw [decode]
theorem decode_tuple (ts : List FTy) (raw : Val) : decode henv (.tuple ts) raw =
    (iterOf raw).bind fun xs => (decodeT henv ts xs).bind fun ys => .ok (.tuple ys) := by rw [decode]
theorem decode_set (t : FTy) (raw : Val) : decode henv (.set t) raw =
    (iterOf raw).bind fun xs => (mapOut (decode henv t) xs).bind fun ys =>
      if ys.all hashable then .ok (.set (setOfList [] ys)) else tyErr := by rw [decode]
theorem decode_dict (k v : FTy) (raw : Val) : decode henv (.dict k v) raw =
    (dictItems raw).bind fun (ordered, ps) =>
      (decodeItems (decode henv k) (decode henv v) ps []).bind fun qs => .ok (.dict ordered qs) := by rw [decode]
theorem decode_union (alts : List FTy) (raw : Val) :
    decode henv (.union alts) raw =
      if unionOfPrims alts && alts.any (primMember raw) then .ok raw
      else decodeU henv (alts.any FTy.isNoneT) alts raw := by rw [decode]
theorem decode_dc (cls : Str) (reg : Bool) (fs : List (Str × FMeta × Option Val × FTy)) (v : Val) :
    decode henv (.dc cls reg fs) v = fromDictWith cls reg (fun d => decodeFields henv d fs false) v := by rw [decode]
end

theorem decodeInt_int (n : Int) : decodeInt (.int n) = .ok (.int n) := rfl
theorem decodeEnum_ok (c : Str) (ms : List Str) (n : Str) (h : ms.contains n = true) :
    decodeEnum c ms (.str n) = .ok (.enum c n) := by
  simp only [decodeEnum, h, ↓reduceIte]
theorem decodePath_str (s : Str) : decodePath (.str s) = .ok (.path (normPath s)) := rfl
theorem decodeInt_str_showInt (n : Int) : decodeInt (.str (showInt n)) = .ok (.int n) := by
  simp only [decodeInt, isAscii_showInt, Bool.not_true, Bool.false_eq_true, ↓reduceIte, parseInt_showInt]

end SpVerif.Serial
