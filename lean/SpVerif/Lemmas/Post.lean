/-
  SpVerif.Lemmas.Post — invariants of the loops of `SpVerif.Model.Post` (what each phase of
  `_postprocessing` can touch in the namespace).  Used by `Props/C09.lean`.
-/
import SpVerif.Model.Post
namespace SpVerif.Post
open SpVerif

variable {V : Type}

/-! ### insertion-ordered dict facts -/

theorem dget_ddel_ne (d : Dict V) {k k' : Str} (h : k ≠ k') : dget (ddel d k') k = dget d k := by
  induction d with
  | nil => rfl
  | cons kv r ih =>
    obtain ⟨a, v⟩ := kv
    by_cases ha : a = k'
    · subst ha
      have : dget ((a, v) :: r) k = dget r k := by simp [dget, Ne.symm h]
      simp [ddel] at ih ⊢
      rw [this]; exact ih
    · have hf : ddel ((a, v) :: r) k' = (a, v) :: ddel r k' := by simp [ddel, ha]
      rw [hf]
      simp only [dget]
      split
      · rfl
      · exact ih

theorem dget_dset_ne (d : Dict V) {k k' : Str} (v : V) (h : k ≠ k') : dget (dset d k' v) k = dget d k := by
  induction d with
  | nil => simp [dset, dget, Ne.symm h]
  | cons kv r ih =>
    obtain ⟨a, w⟩ := kv
    simp only [dset]
    split
    · rename_i hak; subst hak; simp [dget, Ne.symm h]
    · simp only [dget]; split
      · rfl
      · exact ih

theorem mem_dkeys_ddel (d : Dict V) (k k' : Str) : k ∈ dkeys (ddel d k') ↔ k ∈ dkeys d ∧ k ≠ k' := by
  induction d with
  | nil => simp [ddel, dkeys]
  | cons kv r ih =>
    obtain ⟨a, w⟩ := kv
    by_cases ha : a = k'
    · subst ha
      have hf : ddel ((a, w) :: r) a = ddel r a := by simp [ddel]
      rw [hf, ih]
      simp only [dkeys, List.map_cons, List.mem_cons]
      constructor
      · rintro ⟨h1, h2⟩; exact ⟨Or.inr h1, h2⟩
      · rintro ⟨h1 | h1, h2⟩
        · exact absurd h1 h2
        · exact ⟨h1, h2⟩
    · have hf : ddel ((a, w) :: r) k' = (a, w) :: ddel r k' := by simp [ddel, ha]
      rw [hf]
      have ih' : k ∈ dkeys (ddel r k') ↔ k ∈ dkeys r ∧ k ≠ k' := ih
      simp only [dkeys, List.map_cons, List.mem_cons] at ih' ⊢
      rw [ih']
      constructor
      · rintro (h1 | ⟨h1, h2⟩)
        · exact ⟨Or.inl h1, by rw [h1]; exact ha⟩
        · exact ⟨Or.inr h1, h2⟩
      · rintro ⟨h1 | h1, h2⟩
        · exact Or.inl h1
        · exact Or.inr ⟨h1, h2⟩

theorem mem_dkeys_dset (d : Dict V) (k k' : Str) (v : V) : k ∈ dkeys (dset d k' v) ↔ k ∈ dkeys d ∨ k = k' := by
  induction d with
  | nil => simp [dset, dkeys]
  | cons kv r ih =>
    obtain ⟨a, w⟩ := kv
    simp only [dset]
    split
    · rename_i hak; subst hak
      simp only [dkeys, List.map_cons, List.mem_cons]
      constructor
      · intro h; exact Or.inl h
      · rintro (h | h)
        · exact h
        · exact Or.inl h
    · have ih' : k ∈ dkeys (dset r k' v) ↔ k ∈ dkeys r ∨ k = k' := ih
      simp only [dkeys, List.map_cons, List.mem_cons] at ih' ⊢
      rw [ih']
      constructor
      · rintro (h | h | h)
        · exact Or.inl (Or.inl h)
        · exact Or.inl (Or.inr h)
        · exact Or.inr h
      · rintro ((h | h) | h)
        · exact Or.inl h
        · exact Or.inr (Or.inl h)
        · exact Or.inr (Or.inr h)

theorem dhas_iff (d : Dict V) (k : Str) : dhas d k = true ↔ k ∈ dkeys d := by
  simp [dhas]

theorem mem_dedup (l : List Str) (x : Str) : x ∈ dedup l ↔ x ∈ l := by
  induction l with
  | nil => simp [dedup]
  | cons a r ih =>
    simp only [dedup, List.mem_cons, List.mem_filter, ih]
    constructor
    · rintro (h | ⟨h, _⟩)
      · exact Or.inl h
      · exact Or.inr h
    · rintro (h | h)
      · exact Or.inl h
      · by_cases hx : x = a
        · exact Or.inl hx
        · exact Or.inr ⟨h, by simp [hx]⟩


/-! ### destinations -/

/-- every `FieldWrapper` of the flattened wrapper list -/
def allFields (ws : List (DcW V)) : List (FieldW V) := ws.flatMap (·.fields)

/-- the namespace keys argparse writes the dataclass options to -/
def fieldDests (ws : List (DcW V)) : List Str := (allFields ws).map (·.dest)

/-- the destinations given to `add_arguments` (wrappers without a parent) -/
def rootDests (ws : List (DcW V)) : List Str := ws.flatMap (fun w => if w.hasParent then [] else w.dests)

theorem subgroupDests_sub (ws : List (DcW V)) {k : Str} (h : k ∈ subgroupDests ws) : k ∈ fieldDests ws := by
  simp only [subgroupDests] at h
  rw [mem_dedup] at h
  simp only [List.mem_map, List.mem_filter] at h
  obtain ⟨f, ⟨hf, _⟩, rfl⟩ := h
  exact List.mem_map.mpr ⟨f, hf, rfl⟩

theorem mem_subgroupDests (ws : List (DcW V)) {f : FieldW V} (hf : f ∈ allFields ws) (hs : f.isSubgroup = true) :
    f.dest ∈ subgroupDests ws := by
  simp only [subgroupDests]
  rw [mem_dedup]
  exact List.mem_map.mpr ⟨f, List.mem_filter.mpr ⟨hf, hs⟩, rfl⟩

/-! ### `_remove_subgroups_from_namespace` -/

theorem moveSubgroups_spec (ds : List Str) : ∀ (ns sub ns' sub' : Dict V),
    moveSubgroups ds ns sub = .ok (ns', sub') →
    (∀ k, k ∉ ds → dget ns' k = dget ns k) ∧ (∀ k, k ∈ dkeys ns' ↔ k ∈ dkeys ns ∧ k ∉ ds) := by
  induction ds with
  | nil =>
    intro ns sub ns' sub' h
    simp only [moveSubgroups, Out.ok.injEq, Prod.mk.injEq] at h
    obtain ⟨rfl, rfl⟩ := h
    simp
  | cons d ds ih =>
    intro ns sub ns' sub' h
    simp only [moveSubgroups] at h
    split at h
    · exact absurd h (by simp)
    · rename_i v _
      obtain ⟨h1, h2⟩ := ih _ _ _ _ h
      constructor
      · intro k hk
        have hkd : k ≠ d := fun e => hk (by simp [e])
        have hkds : k ∉ ds := fun e => hk (by simp [e])
        rw [h1 k hkds, dget_ddel_ne _ hkd]
      · intro k
        rw [h2 k, mem_dkeys_ddel]
        simp only [List.mem_cons, not_or]
        constructor
        · rintro ⟨⟨a, b⟩, c⟩; exact ⟨a, b, c⟩
        · rintro ⟨a, b, c⟩; exact ⟨⟨a, b⟩, c⟩

theorem removeSubgroups_spec (ws : List (DcW V)) (ns ns' : Dict V) (sub : Option (Dict V))
    (h : removeSubgroups ws ns = .ok (ns', sub)) :
    (∀ k, k ∉ subgroupDests ws → dget ns' k = dget ns k) ∧
    (∀ k, k ∈ dkeys ns' ↔ k ∈ dkeys ns ∧ k ∉ subgroupDests ws) := by
  simp only [removeSubgroups] at h
  split at h
  · rename_i he
    simp only [Out.ok.injEq, Prod.mk.injEq] at h
    obtain ⟨rfl, _⟩ := h
    rw [he]; simp
  · rename_i d ds he
    split at h
    · exact absurd h (by simp)
    · split at h
      · exact absurd h (by simp)
      · split at h
        · rename_i ns1 sub1 hm
          simp only [Out.ok.injEq, Prod.mk.injEq] at h
          obtain ⟨rfl, _⟩ := h
          rw [he]
          exact moveSubgroups_spec _ _ _ _ _ hm
        · exact absurd h (by simp)
        · exact absurd h (by simp)

/-! ### `_fill_constructor_arguments_with_fields` -/

theorem fillField_spec (A : Alg V) (s : Bool) (f : FieldW V) (st st' : Dict V × CArgs V)
    (h : fillField A s f st = .ok st') :
    (∀ k, k ≠ f.dest → dget st'.1 k = dget st.1 k) ∧ (∀ k, k ∈ dkeys st'.1 → k ∈ dkeys st.1) ∧
    (f.isSubgroup = false → f.init = true → f.dest ∉ dkeys st'.1) := by
  simp only [fillField] at h
  split at h
  · rename_i hc
    simp only [Out.ok.injEq] at h; subst h
    refine ⟨fun _ _ => rfl, fun _ hk => hk, fun _ _ => ?_⟩
    simp only [Bool.and_eq_true, Bool.not_eq_true'] at hc
    intro hm
    have := (dhas_iff st.1 f.dest).mpr hm
    rw [this] at hc; exact absurd hc.2 (by simp)
  · split at h
    · rename_i hs
      simp only [Out.ok.injEq] at h; subst h
      exact ⟨fun _ _ => rfl, fun _ hk => hk, fun h1 _ => by rw [hs] at h1; exact absurd h1 (by simp)⟩
    · split at h
      · rename_i hi
        simp only [Out.ok.injEq] at h; subst h
        refine ⟨fun _ _ => rfl, fun _ hk => hk, fun _ h2 => ?_⟩
        rw [h2] at hi; exact absurd hi (by simp)
      · split at h
        · rename_i c _
          simp only [Out.ok.injEq] at h; subst h
          refine ⟨fun k hk => dget_ddel_ne _ hk, fun k hk => ((mem_dkeys_ddel _ _ _).mp hk).1, fun _ _ hm => ?_⟩
          exact ((mem_dkeys_ddel _ _ _).mp hm).2 rfl
        · exact absurd h (by simp)
        · exact absurd h (by simp)

theorem fillFields_spec (A : Alg V) (s : Bool) (fs : List (FieldW V)) : ∀ (st st' : Dict V × CArgs V),
    fillFields A s fs st = .ok st' →
    (∀ k, k ∉ fs.map (·.dest) → dget st'.1 k = dget st.1 k) ∧ (∀ k, k ∈ dkeys st'.1 → k ∈ dkeys st.1) ∧
    (∀ f ∈ fs, f.isSubgroup = false → f.init = true → f.dest ∉ dkeys st'.1) := by
  induction fs with
  | nil =>
    intro st st' h
    simp only [fillFields, Out.ok.injEq] at h; subst h
    exact ⟨fun _ _ => rfl, fun _ hk => hk, fun f hf => absurd hf (by simp)⟩
  | cons f fs ih =>
    intro st st' h
    simp only [fillFields] at h
    split at h
    · rename_i st1 h1
      obtain ⟨a1, a2, a3⟩ := fillField_spec A s f st st1 h1
      obtain ⟨b1, b2, b3⟩ := ih st1 st' h
      refine ⟨fun k hk => ?_, fun k hk => a2 k (b2 k hk), fun g hg hs hi => ?_⟩
      · simp only [List.map_cons, List.mem_cons, not_or] at hk
        rw [b1 k hk.2, a1 k hk.1]
      · rcases List.mem_cons.mp hg with rfl | hg
        · exact fun hm => a3 hs hi (b2 _ hm)
        · exact b3 g hg hs hi
    · exact absurd h (by simp)
    · exact absurd h (by simp)

theorem fillWrappers_spec (A : Alg V) (ws : List (DcW V)) : ∀ (st st' : Dict V × CArgs V),
    fillWrappers A ws st = .ok st' →
    (∀ k, k ∉ fieldDests ws → dget st'.1 k = dget st.1 k) ∧ (∀ k, k ∈ dkeys st'.1 → k ∈ dkeys st.1) ∧
    (∀ f ∈ allFields ws, f.isSubgroup = false → f.init = true → f.dest ∉ dkeys st'.1) := by
  induction ws with
  | nil =>
    intro st st' h
    simp only [fillWrappers, Out.ok.injEq] at h; subst h
    exact ⟨fun _ _ => rfl, fun _ hk => hk, fun f hf => absurd hf (by simp [allFields])⟩
  | cons w ws ih =>
    intro st st' h
    simp only [fillWrappers] at h
    split at h
    · rename_i st1 h1
      obtain ⟨a1, a2, a3⟩ := fillFields_spec A w.suppress w.fields st st1 h1
      obtain ⟨b1, b2, b3⟩ := ih st1 st' h
      refine ⟨fun k hk => ?_, fun k hk => a2 k (b2 k hk), fun g hg hs hi => ?_⟩
      · have hk1 : k ∉ w.fields.map (·.dest) := fun e => hk (by
          simp only [fieldDests, allFields, List.flatMap_cons, List.map_append, List.mem_append]; exact Or.inl e)
        have hk2 : k ∉ fieldDests ws := fun e => hk (by
          simp only [fieldDests, allFields, List.flatMap_cons, List.map_append, List.mem_append] at e ⊢; exact Or.inr e)
        rw [b1 k hk2, a1 k hk1]
      · simp only [allFields, List.flatMap_cons, List.mem_append] at hg
        rcases hg with hg | hg
        · exact fun hm => a3 g hg hs hi (b2 _ hm)
        · exact b3 g hg hs hi
    · exact absurd h (by simp)
    · exact absurd h (by simp)

/-! ### `_instantiate_dataclasses` -/

theorem instDest_spec (A : Alg V) (dk : List Str) (w : DcW V) (d : Str) (st st' : Dict V × CArgs V)
    (h : instDest A dk w d st = .ok st') :
    (st'.1 = st.1 ∨ (w.hasParent = false ∧ ∃ v, st'.1 = dset st.1 d v)) ∧
    (w.hasParent = false → w.suppress = false → d ∈ dkeys st'.1) := by
  simp only [instDest] at h
  split at h
  · exact absurd h (by simp)
  · rename_i args _
    split at h
    · exact absurd h (by simp)
    · exact absurd h (by simp)
    · rename_i hv
      simp only [Out.ok.injEq] at h; subst h
      refine ⟨Or.inl rfl, fun _ hs => ?_⟩
      rw [hs] at hv
      simp only [Bool.false_eq_true, ↓reduceIte] at hv
      split at hv <;> simp at hv
    · rename_i v hv
      split at h
      · rename_i hp
        simp only [Out.ok.injEq] at h; subst h
        exact ⟨Or.inl rfl, fun h1 _ => by rw [hp] at h1; exact absurd h1 (by simp)⟩
      · rename_i hp
        have hp' : w.hasParent = false := by simpa using hp
        split at h
        · simp only [Out.ok.injEq] at h; subst h
          exact ⟨Or.inr ⟨hp', v, rfl⟩, fun _ _ => (mem_dkeys_dset _ _ _ _).mpr (Or.inr rfl)⟩
        · split at h
          · simp only [Out.ok.injEq] at h; subst h
            exact ⟨Or.inr ⟨hp', v, rfl⟩, fun _ _ => (mem_dkeys_dset _ _ _ _).mpr (Or.inr rfl)⟩
          · exact absurd h (by simp)

theorem createInstance_ne_runtimeError (A : Alg V) (w : DcW V) (args : Dict V) :
    createInstance A w args ≠ .raise .runtimeError := by
  simp only [createInstance]
  split
  · split
    · simp
    · split
      · simp
      · split <;> simp
    · split <;> simp
  · split <;> simp

/-- a `RuntimeError` needs a parentless wrapper whose destination is already in the namespace -/
theorem instDest_runtimeError (A : Alg V) (dk : List Str) (w : DcW V) (d : Str) (st : Dict V × CArgs V)
    (h : instDest A dk w d st = .raise .runtimeError) : w.hasParent = false ∧ d ∈ dkeys st.1 := by
  simp only [instDest] at h
  split at h
  · exact absurd h (by simp)
  · split at h
    · rename_i e hv
      simp only [Out.raise.injEq] at h; subst h
      exfalso
      split at hv
      · simp at hv
      · split at hv
        · simp at hv
        · rename_i e' hc
          simp only [Out.raise.injEq] at hv; subst hv
          exact createInstance_ne_runtimeError A w _ hc
        · simp at hv
    · exact absurd h (by simp)
    · exact absurd h (by simp)
    · split at h
      · exact absurd h (by simp)
      · rename_i hp
        split at h
        · exact absurd h (by simp)
        · rename_i hh
          exact ⟨by simpa using hp, (dhas_iff _ _).mp (by simpa using hh)⟩


theorem instDest_frame (A : Alg V) (dk : List Str) (w : DcW V) (d : Str) (st st' : Dict V × CArgs V)
    (h : instDest A dk w d st = .ok st') :
    (∀ k, (w.hasParent = true ∨ k ≠ d) → dget st'.1 k = dget st.1 k) ∧
    (∀ k, k ∈ dkeys st'.1 → k ∈ dkeys st.1 ∨ (w.hasParent = false ∧ k = d)) ∧
    (∀ k, k ∈ dkeys st.1 → k ∈ dkeys st'.1) ∧
    (w.hasParent = false → w.suppress = false → d ∈ dkeys st'.1) := by
  obtain ⟨h1, h2⟩ := instDest_spec A dk w d st st' h
  refine ⟨?_, ?_, ?_, h2⟩
  · intro k hk
    rcases h1 with e | ⟨hp, v, e⟩
    · rw [e]
    · rw [e]
      rcases hk with hk | hk
      · rw [hp] at hk; exact absurd hk (by simp)
      · exact dget_dset_ne _ _ hk
  · intro k hk
    rcases h1 with e | ⟨hp, v, e⟩
    · rw [e] at hk; exact Or.inl hk
    · rw [e] at hk
      rcases (mem_dkeys_dset _ _ _ _).mp hk with a | a
      · exact Or.inl a
      · exact Or.inr ⟨hp, a⟩
  · intro k hk
    rcases h1 with e | ⟨_, v, e⟩
    · rw [e]; exact hk
    · rw [e]; exact (mem_dkeys_dset _ _ _ _).mpr (Or.inl hk)

theorem instDests_spec (A : Alg V) (dk : List Str) (w : DcW V) (ds : List Str) : ∀ (st st' : Dict V × CArgs V),
    instDests A dk w ds st = .ok st' →
    (∀ k, (w.hasParent = true ∨ k ∉ ds) → dget st'.1 k = dget st.1 k) ∧
    (∀ k, k ∈ dkeys st'.1 → k ∈ dkeys st.1 ∨ (w.hasParent = false ∧ k ∈ ds)) ∧
    (∀ k, k ∈ dkeys st.1 → k ∈ dkeys st'.1) ∧
    (w.hasParent = false → w.suppress = false → ∀ d ∈ ds, d ∈ dkeys st'.1) := by
  induction ds with
  | nil =>
    intro st st' h
    simp only [instDests, Out.ok.injEq] at h; subst h
    exact ⟨fun _ _ => rfl, fun _ hk => Or.inl hk, fun _ hk => hk, fun _ _ d hd => absurd hd (by simp)⟩
  | cons d ds ih =>
    intro st st' h
    simp only [instDests] at h
    split at h
    · rename_i st1 h1
      obtain ⟨a1, a2, a3, a4⟩ := instDest_frame A dk w d st st1 h1
      obtain ⟨b1, b2, b3, b4⟩ := ih st1 st' h
      refine ⟨?_, ?_, fun k hk => b3 k (a3 k hk), ?_⟩
      · intro k hk
        have hk1 : w.hasParent = true ∨ k ≠ d := hk.imp id (fun e c => e (by simp [c]))
        have hk2 : w.hasParent = true ∨ k ∉ ds := hk.imp id (fun e c => e (by simp [c]))
        rw [b1 k hk2, a1 k hk1]
      · intro k hk
        rcases b2 k hk with c | ⟨hp, c⟩
        · rcases a2 k c with e | ⟨hp, e⟩
          · exact Or.inl e
          · exact Or.inr ⟨hp, by simp [e]⟩
        · exact Or.inr ⟨hp, by simp [c]⟩
      · intro hp hs d' hd'
        rcases List.mem_cons.mp hd' with rfl | hd'
        · exact b3 _ (a4 hp hs)
        · exact b4 hp hs d' hd'
    · exact absurd h (by simp)
    · exact absurd h (by simp)

theorem mem_rootDests {ws : List (DcW V)} {k : Str} :
    k ∈ rootDests ws ↔ ∃ w ∈ ws, w.hasParent = false ∧ k ∈ w.dests := by
  simp only [rootDests, List.mem_flatMap]
  constructor
  · rintro ⟨w, hw, hk⟩
    by_cases hp : w.hasParent = true
    · simp [hp] at hk
    · simp only [hp] at hk
      exact ⟨w, hw, by simpa using hp, by simpa using hk⟩
  · rintro ⟨w, hw, hp, hk⟩
    exact ⟨w, hw, by simp [hp, hk]⟩

theorem instWrappers_spec (A : Alg V) (dk : List Str) (ws : List (DcW V)) : ∀ (st st' : Dict V × CArgs V),
    instWrappers A dk ws st = .ok st' →
    (∀ k, k ∉ rootDests ws → dget st'.1 k = dget st.1 k) ∧
    (∀ k, k ∈ dkeys st'.1 → k ∈ dkeys st.1 ∨ k ∈ rootDests ws) ∧
    (∀ k, k ∈ dkeys st.1 → k ∈ dkeys st'.1) ∧
    (∀ w ∈ ws, w.hasParent = false → w.suppress = false → ∀ d ∈ w.dests, d ∈ dkeys st'.1) := by
  induction ws with
  | nil =>
    intro st st' h
    simp only [instWrappers, Out.ok.injEq] at h; subst h
    exact ⟨fun _ _ => rfl, fun _ hk => Or.inl hk, fun _ hk => hk, fun w hw => absurd hw (by simp)⟩
  | cons w ws ih =>
    intro st st' h
    simp only [instWrappers] at h
    split at h
    · rename_i st1 h1
      obtain ⟨a1, a2, a3, a4⟩ := instDests_spec A dk w w.dests st st1 h1
      obtain ⟨b1, b2, b3, b4⟩ := ih st1 st' h
      refine ⟨?_, ?_, fun k hk => b3 k (a3 k hk), ?_⟩
      · intro k hk
        have hk2 : k ∉ rootDests ws := fun e => hk (by
          obtain ⟨x, hx, hp, hd⟩ := mem_rootDests.mp e
          exact mem_rootDests.mpr ⟨x, List.mem_cons_of_mem _ hx, hp, hd⟩)
        have hk1 : w.hasParent = true ∨ k ∉ w.dests := by
          by_cases hp : w.hasParent = true
          · exact Or.inl hp
          · exact Or.inr (fun e => hk (mem_rootDests.mpr ⟨w, List.mem_cons_self, by simpa using hp, e⟩))
        rw [b1 k hk2, a1 k hk1]
      · intro k hk
        rcases b2 k hk with c | c
        · rcases a2 k c with e | ⟨hp, e⟩
          · exact Or.inl e
          · exact Or.inr (mem_rootDests.mpr ⟨w, List.mem_cons_self, hp, e⟩)
        · obtain ⟨x, hx, hp, hd⟩ := mem_rootDests.mp c
          exact Or.inr (mem_rootDests.mpr ⟨x, List.mem_cons_of_mem _ hx, hp, hd⟩)
      · intro x hx hp hs d hd
        rcases List.mem_cons.mp hx with rfl | hx
        · exact b3 _ (a4 hp hs d hd)
        · exact b4 x hx hp hs d hd
    · exact absurd h (by simp)
    · exact absurd h (by simp)

/-! ### no `RuntimeError` without a collision -/

theorem instDests_noRuntimeError (A : Alg V) (dk : List Str) (w : DcW V) (ds : List Str) :
    ∀ (st : Dict V × CArgs V), (w.hasParent = false → (∀ d ∈ ds, d ∉ dkeys st.1) ∧ ds.Nodup) →
    instDests A dk w ds st ≠ .raise .runtimeError := by
  induction ds with
  | nil => intro st _; simp [instDests]
  | cons d ds ih =>
    intro st hyp h
    simp only [instDests] at h
    split at h
    · rename_i st1 h1
      refine ih st1 (fun hp => ?_) h
      obtain ⟨hk, hn⟩ := hyp hp
      obtain ⟨_, a2, _, _⟩ := instDest_frame A dk w d st st1 h1
      have hn' := List.nodup_cons.mp hn
      refine ⟨fun d' hd' hm => ?_, hn'.2⟩
      rcases a2 d' hm with c | ⟨_, c⟩
      · exact hk d' (by simp [hd']) c
      · exact hn'.1 (c ▸ hd')
    · rename_i e h1
      simp only [Out.raise.injEq] at h; subst h
      obtain ⟨hp, hm⟩ := instDest_runtimeError A dk w d st h1
      exact (hyp hp).1 d (by simp) hm
    · exact absurd h (by simp)

theorem rootDests_cons (w : DcW V) (ws : List (DcW V)) :
    rootDests (w :: ws) = (if w.hasParent then [] else w.dests) ++ rootDests ws := by
  simp [rootDests]

theorem instWrappers_noRuntimeError (A : Alg V) (dk : List Str) (ws : List (DcW V)) :
    ∀ (st : Dict V × CArgs V), (∀ d ∈ rootDests ws, d ∉ dkeys st.1) → (rootDests ws).Nodup →
    instWrappers A dk ws st ≠ .raise .runtimeError := by
  induction ws with
  | nil => intro st _ _; simp [instWrappers]
  | cons w ws ih =>
    intro st hk hn h
    rw [rootDests_cons] at hk hn
    obtain ⟨n1, n2, n3⟩ := List.nodup_append.mp hn
    simp only [instWrappers] at h
    split at h
    · rename_i st1 h1
      obtain ⟨_, a2, _, _⟩ := instDests_spec A dk w w.dests st st1 h1
      refine ih st1 (fun d hd hm => ?_) n2 h
      rcases a2 d hm with c | ⟨hp, c⟩
      · exact hk d (List.mem_append.mpr (Or.inr hd)) c
      · exact n3 d (by simp [hp, c]) d hd rfl
    · rename_i e h1
      simp only [Out.raise.injEq] at h; subst h
      refine instDests_noRuntimeError A dk w w.dests st (fun hp => ?_) h1
      simp only [hp, Bool.false_eq_true, ↓reduceIte] at hk n1
      exact ⟨fun d hd => hk d (List.mem_append.mpr (Or.inl hd)), n1⟩
    · exact absurd h (by simp)

/-! ### the stable sort is a permutation -/

theorem insertDesc_perm (w : DcW V) (l : List (DcW V)) : (insertDesc w l).Perm (w :: l) := by
  induction l with
  | nil => exact List.Perm.refl _
  | cons x xs ih =>
    simp only [insertDesc]
    split
    · exact List.Perm.refl _
    · exact (List.Perm.cons x ih).trans (List.Perm.swap w x xs)

theorem sortDesc_perm (l : List (DcW V)) : (sortDesc l).Perm l := by
  induction l with
  | nil => exact List.Perm.refl _
  | cons w ws ih => exact (insertDesc_perm w (sortDesc ws)).trans (List.Perm.cons w ih)

theorem rootDests_sortDesc_perm (l : List (DcW V)) : (rootDests (sortDesc l)).Perm (rootDests l) :=
  List.Perm.flatMap_right _ (sortDesc_perm l)

/-! ### the `Optional[dataclass]` rule after fixes 3f531df / f635f07 (`_is_at_default`) -/

def constructOut (A : Alg V) (w : DcW V) (args : Dict V) : Out V :=
  match A.construct w.ctor args with
  | some v => .ok v
  | none => .raise .ctorError

/-- `createInstance` with the `let` unfolded -/
theorem createInstance_eq (A : Alg V) (w : DcW V) (args : Dict V) :
    createInstance A w args =
      if w.optNone then
        match allAtDefault A args w.fields with
        | none => .raise .keyError
        | some true =>
          if w.children.all (fun c => match dget args c.name with
                                      | some x => c.atDefault A x
                                      | none => true)
          then .ok A.none else constructOut A w args
        | some false => constructOut A w args
      else constructOut A w args := by
  rfl

theorem createInstance_not_optNone (A : Alg V) (w : DcW V) (args : Dict V) (h : w.optNone = false) :
    createInstance A w args = constructOut A w args := by
  rw [createInstance_eq]; simp [h]

theorem createInstance_field_changed (A : Alg V) (w : DcW V) (args : Dict V)
    (h : allAtDefault A args w.fields = some false) :
    createInstance A w args = constructOut A w args := by
  rw [createInstance_eq, h]; split <;> rfl

theorem createInstance_child_changed (A : Alg V) (w : DcW V) (args : Dict V)
    (hf : allAtDefault A args w.fields = some true)
    (c : ChildW V) (hc : c ∈ w.children) (x : V) (hx : dget args c.name = some x)
    (hnd : c.atDefault A x = false) :
    createInstance A w args = constructOut A w args := by
  have hall : (w.children.all (fun c => match dget args c.name with
                                        | some x => c.atDefault A x
                                        | none => true)) = false := by
    rw [List.all_eq_false]
    exact ⟨c, hc, by simp [hx, hnd]⟩
  rw [createInstance_eq, hf, hall]; split <;> simp

theorem createInstance_all_default (A : Alg V) (w : DcW V) (args : Dict V) (ho : w.optNone = true)
    (hf : allAtDefault A args w.fields = some true)
    (hc : ∀ c ∈ w.children, ∀ x, dget args c.name = some x → c.atDefault A x = true) :
    createInstance A w args = .ok A.none := by
  have hall : (w.children.all (fun c => match dget args c.name with
                                        | some x => c.atDefault A x
                                        | none => true)) = true := by
    rw [List.all_eq_true]
    intro c hcm
    cases hx : dget args c.name with
    | none => rfl
    | some x => simpa using hc c hcm x hx
  rw [createInstance_eq, hf, hall]; simp [ho]

theorem atDefault_false_of_field (A : Alg V) (n : Str) (fs : List (FieldW V)) (cs : List (ChildW V)) (v : V) (d : Dict V)
    (hn : A.isNone v = false) (ha : A.attrs v = some d) (hfd : fieldsAtDefault A d fs = false) :
    (ChildW.mk n fs cs).atDefault A v = false := by
  simp [ChildW.atDefault, hn, ha, hfd]

/-- a change anywhere below: the nested member of a nested member is not at default ⇒ neither is the nested member -/
theorem atDefault_false_of_child (A : Alg V) (n : Str) (fs : List (FieldW V)) (cs : List (ChildW V)) (v : V) (d : Dict V)
    (hn : A.isNone v = false) (ha : A.attrs v = some d) (hcd : ChildW.allAtDefault A d cs = false) :
    (ChildW.mk n fs cs).atDefault A v = false := by
  simp [ChildW.atDefault, hn, ha, hcd]

def createInstanceOld (A : Alg V) (w : DcW V) (args : Dict V) : Out V :=
  if w.optNone then
    match allAtDefault A args w.fields with
    | none => .raise .keyError
    | some true => .ok A.none
    | some false => constructOut A w args
  else constructOut A w args

/-- the rule before the fixes never looked at the nested members: whatever was built below, the member is dropped -/
theorem createInstanceOld_ignores_children (A : Alg V) (w : DcW V) (args : Dict V) (ho : w.optNone = true)
    (hf : allAtDefault A args w.fields = some true) :
    createInstanceOld A w args = .ok A.none := by
  simp [createInstanceOld, ho, hf]

/-! a concrete instance of the hypotheses (non-vacuity) on a small value algebra whose `==` the kernel can evaluate
    (`PVal`'s derived `BEq` is not kernel-reducible): `inner: Optional[Inner] = None`, `Inner{x = 2, deep: Deep}`,
    `Deep{y = 1}`, command line `--y 15` -/

inductive TV
  | none
  | num (n : Nat)
  /-- an instance with one attribute -/
  | inst1 (attr : Str) (v : TV)

def TV.beq : TV → TV → Bool
  | .none, .none => true
  | .num a, .num b => a == b
  | .inst1 n v, .inst1 m u => n == m && TV.beq v u
  | _, _ => false

def talg : Alg TV :=
  { none := .none, dict := fun _ => .none, construct := fun _ _ => some (.inst1 [] .none), conv := fun _ v => v,
    eq := TV.beq,
    isNone := fun v => match v with | .none => true | _ => false,
    attrs := fun v => match v with | .inst1 n u => some [(n, u)] | _ => Option.none }

def fY : FieldW TV :=
  { name := ['y'], dest := ['c', '.', 'i', '.', 'd', '.', 'y'], dests := [], isSubgroup := false, init := true,
    dflt := .num 1, conv := .id }
def cDeep : ChildW TV := .mk ['d'] [fY] []
def wInner : DcW TV :=
  { dest := ['c', '.', 'i'], dests := [['c', '.', 'i']], level := 1, hasParent := true, suppress := false,
    optNone := true, ctor := ['I'],
    fields := [{ name := ['x'], dest := ['c', '.', 'i', '.', 'x'], dests := [], isSubgroup := false, init := true,
                 dflt := .num 2, conv := .id }],
    children := [cDeep] }
/-- `constructor_args["c.i"]` after `--y 15`: x at its default, deep built with y = 15 -/
def wInnerArgs : Dict TV := [(['x'], .num 2), (['d'], .inst1 ['y'] (.num 15))]

example : allAtDefault talg wInnerArgs wInner.fields = some true := by decide
example : cDeep ∈ wInner.children := by simp [wInner]
example : dget wInnerArgs cDeep.name = some (.inst1 ['y'] (.num 15)) := by rfl
example : cDeep.atDefault talg (.inst1 ['y'] (.num 15)) = false := by decide
/-- the repaired rule builds the member … -/
example : createInstance talg wInner wInnerArgs = constructOut talg wInner wInnerArgs :=
  createInstance_child_changed talg wInner wInnerArgs (by decide) cDeep (by simp [wInner]) (.inst1 ['y'] (.num 15)) (by rfl) (by decide)
/-- … the old one dropped it -/
example : createInstanceOld talg wInner wInnerArgs = .ok .none :=
  createInstanceOld_ignores_children talg wInner wInnerArgs rfl (by decide)
/-- and with `y` left at 1 the member stays `None` under the repaired rule too -/
example : createInstance talg wInner [(['x'], .num 2), (['d'], .inst1 ['y'] (.num 1))] = .ok .none := by rfl

end SpVerif.Post
