/-
  Helper lemmas about `SpVerif.Model.Engine`: lexing and consuming a *rendered* command line
  (a list of segments `--opt tok₁ … tokₖ`) — used by the C02 / C04 property theorems.
-/
import SpVerif.Model.Engine
namespace SpVerif

/-- one option occurrence with its value tokens -/
structure Seg where
  idx : Nat            -- index of the action in the table
  opt : Str            -- the option string used
  toks : List Str      -- the value tokens
  deriving Repr

def renderSeg (s : Seg) : List Str := s.opt :: s.toks
def render (segs : List Seg) : List Str := segs.flatMap renderSeg
def segToks (s : Seg) : List Tok := Tok.O (some s.idx) s.opt none :: s.toks.map (fun _ => Tok.A)
def renderToks (segs : List Seg) : List Tok := segs.flatMap segToks

/-- a value token that argparse cannot mistake for an option: it does not start with `-` -/
def NoDash (t : Str) : Prop := t.head? ≠ some '-'

structure LexOk (tbl : List Act) (s : Seg) : Prop where
  lookup : (optTable tbl).lookup s.opt = some s.idx
  optdash : ∃ r, s.opt = '-' :: r
  notdd : s.opt ≠ ['-', '-']
  nodash : ∀ t ∈ s.toks, NoDash t

theorem classify_nodash (tbl : List Act) (t : Str) (h : NoDash t) : classify tbl t = .ok .A := by
  unfold classify
  cases t with
  | nil => rfl
  | cons c cs =>
    simp only [NoDash, List.head?_cons, ne_eq, Option.some.injEq] at h
    simp [h]

theorem classify_opt (tbl : List Act) (s : Seg) (h : LexOk tbl s) :
    classify tbl s.opt = .ok (.O (some s.idx) s.opt none) := by
  obtain ⟨r, hr⟩ := h.optdash
  unfold classify
  rw [hr]
  simp only [ne_eq, not_true_eq_false, ↓reduceIte]
  rw [← hr, h.lookup]

theorem nodash_ne_dd (t : Str) (h : NoDash t) : t ≠ ['-', '-'] := by
  intro hh; subst hh; simp [NoDash] at h

theorem lexAll_toks (tbl : List Act) (toks : List Str) (rest : List Str) (restToks : List Tok)
    (hn : ∀ t ∈ toks, NoDash t) (hrest : lexAll tbl rest = .ok restToks) :
    lexAll tbl (toks ++ rest) = .ok (toks.map (fun _ => Tok.A) ++ restToks) := by
  induction toks with
  | nil => simpa using hrest
  | cons t ts ih =>
    have ht : NoDash t := hn t (by simp)
    simp only [List.cons_append, lexAll, nodash_ne_dd t ht, ↓reduceIte, classify_nodash tbl t ht,
      List.map_cons]
    rw [ih (fun x hx => hn x (by simp [hx]))]

/-- **Lexing a rendered command line**: options are exact table hits, values are arguments. -/
theorem lexAll_render (tbl : List Act) (segs : List Seg) (h : ∀ s ∈ segs, LexOk tbl s) :
    lexAll tbl (render segs) = .ok (renderToks segs) := by
  induction segs with
  | nil => rfl
  | cons s ss ih =>
    have hs := h s (by simp)
    have ih' := ih (fun x hx => h x (by simp [hx]))
    simp only [render, List.flatMap_cons, renderSeg, List.cons_append, lexAll, hs.notdd, ↓reduceIte,
      classify_opt tbl s hs, renderToks, segToks]
    have := lexAll_toks tbl s.toks (render ss) (renderToks ss) hs.nodash ih'
    simp only [render, renderToks] at this
    rw [this]

theorem render_length (segs : List Seg) : (render segs).length = (renderToks segs).length := by
  induction segs with
  | nil => rfl
  | cons s ss ih =>
    simp only [render, renderToks, List.flatMap_cons, List.length_append, renderSeg, segToks,
      List.length_cons, List.length_map] at ih ⊢
    omega

/-! ### consuming -/

theorem countA_map_A (toks : List Str) (rest : List Tok) (hrest : rest.head? ≠ some .A) :
    countA (toks.map (fun _ => Tok.A) ++ rest) = toks.length := by
  induction toks with
  | nil =>
    cases rest with
    | nil => rfl
    | cons t ts =>
      cases t with
      | A => simp at hrest
      | dd => rfl
      | O a o e => rfl
  | cons t ts ih => simp [countA, ih]

theorem renderToks_head (segs : List Seg) : (renderToks segs).head? ≠ some .A := by
  cases segs with
  | nil => simp [renderToks]
  | cons s ss => simp [renderToks, segToks]

/-- the arity of a segment fits the action's `nargs` -/
def arityOk : NArgs → Nat → Prop
  | .one, k => k = 1
  | .opt, k => k ≤ 1
  | .star, _ => True
  | .plus, k => k ≥ 1
  | .num m, k => k = m

theorem matchCount_exact (n : NArgs) (toks : List Str) (rest : List Tok)
    (hrest : rest.head? ≠ some .A) (ha : arityOk n toks.length) :
    matchCount n (toks.map (fun _ => Tok.A) ++ rest) = some toks.length := by
  unfold matchCount
  rw [countA_map_A toks rest hrest]
  cases n with
  | one => simp only [arityOk] at ha; simp [ha]
  | opt => simp only [arityOk] at ha; simp; omega
  | star => rfl
  | plus =>
    simp only [arityOk] at ha
    have : toks.length ≥ 1 := ha
    simp [this]
  | num m => simp only [arityOk] at ha; simp [ha]

structure ConsumeOk (tbl : List Act) (s : Seg) : Prop where
  act : ∃ a, tbl[s.idx]? = some a ∧ a.kind ≠ .help ∧ arityOk a.nargs s.toks.length

/-- what the loop does for a list of segments: one `take_action` per segment, left to right -/
def applySegs (fenv : FEnv) (tbl : List Act) : St → List Seg → Except EOut St
  | st, [] => .ok st
  | st, s :: ss => match takeAction fenv tbl st s.idx s.opt s.toks with
    | .error e => .error e
    | .ok st' => applySegs fenv tbl st' ss

theorem zip_seg (s : Seg) (r1 : List Str) (r2 : List Tok) :
    (renderSeg s ++ r1).zip (segToks s ++ r2) =
      (s.opt, Tok.O (some s.idx) s.opt none) :: ((s.toks.map (fun t => (t, Tok.A))) ++ r1.zip r2) := by
  simp only [renderSeg, segToks, List.cons_append, List.zip_cons_cons, List.cons.injEq, true_and]
  induction s.toks with
  | nil => rfl
  | cons t ts ih => simp [ih]

/-- **The main loop on a rendered command line** takes exactly one action per segment with
    exactly that segment's tokens (greedy matching stops at the next option). -/
theorem consume_render (fenv : FEnv) (tbl : List Act) (segs : List Seg) (fuel : Nat) (st : St)
    (hfuel : segs.length < fuel + 1) (hc : ∀ s ∈ segs, ConsumeOk tbl s) :
    consume fenv tbl fuel st ((render segs).zip (renderToks segs)) = applySegs fenv tbl st segs := by
  induction segs generalizing fuel st with
  | nil => cases fuel <;> rfl
  | cons s ss ih =>
    obtain ⟨a, ha, hk, har⟩ := (hc s (by simp)).act
    cases fuel with
    | zero => simp at hfuel
    | succ n =>
      have hz : (render (s :: ss)).zip (renderToks (s :: ss)) =
          (s.opt, Tok.O (some s.idx) s.opt none) ::
            ((s.toks.map (fun t => (t, Tok.A))) ++ (render ss).zip (renderToks ss)) := by
        simp only [render, renderToks, List.flatMap_cons]
        exact zip_seg s _ _
      rw [hz]
      simp only [consume, ha, hk, ↓reduceIte]
      have hmap : (List.map (fun x => x.2)
          (List.map (fun t => (t, Tok.A)) s.toks ++ (render ss).zip (renderToks ss))) =
          s.toks.map (fun _ => Tok.A) ++ renderToks ss := by
        simp only [List.map_append, List.map_map, Function.comp_def]
        congr 1
        rw [List.map_snd_zip]
        rw [render_length]
        exact Nat.le_refl _
      rw [hmap, matchCount_exact a.nargs s.toks (renderToks ss) (renderToks_head ss) har]
      simp only
      have htake : (List.take s.toks.length
          (List.map (fun t => (t, Tok.A)) s.toks ++ (render ss).zip (renderToks ss))).map (·.1) = s.toks := by
        rw [List.take_append_of_le_length (by simp)]
        simp [List.take_of_length_le, List.map_map, Function.comp_def]
      have hdrop : List.drop s.toks.length
          (List.map (fun t => (t, Tok.A)) s.toks ++ (render ss).zip (renderToks ss)) =
          (render ss).zip (renderToks ss) := by
        rw [List.drop_append_of_le_length (by simp)]
        simp
      rw [htake, hdrop]
      simp only [applySegs]
      cases takeAction fenv tbl st s.idx s.opt s.toks with
      | error e => rfl
      | ok st' =>
        simp only
        exact ih n st' (by simp at hfuel; omega) (fun x hx => hc x (by simp [hx]))

/-! ### `_get_values` in terms of the per-token converter -/

/-- the value argparse hands to an action for converted items `vs` (`_get_values`) -/
def segVal (n : NArgs) (vs : List Scalar) : Val :=
  match vs, n with
  | [], .opt => .sc .none
  | [v], .one => .sc v
  | [v], .opt => .sc v
  | _, _ => .list vs

theorem getValuesList_length (fenv : FEnv) (act : Act) (i : Nat) (cs cs' : List Nat)
    (toks : List Str) (vs : List Scalar) (h : getValuesList fenv act i cs toks = .ok (vs, cs')) :
    vs.length = toks.length := by
  induction toks generalizing cs cs' vs with
  | nil => simp only [getValuesList, Except.ok.injEq, Prod.mk.injEq] at h; simp [← h.1]
  | cons t ts ih =>
    simp only [getValuesList] at h
    cases h1 : getValue fenv act i cs t with
    | error e => rw [h1] at h; cases h
    | ok p =>
      obtain ⟨v, c1⟩ := p
      rw [h1] at h
      simp only at h
      cases h2 : getValuesList fenv act i c1 ts with
      | error e => rw [h2] at h; cases h
      | ok q =>
        obtain ⟨vs2, c2⟩ := q
        rw [h2] at h
        simp only [Except.ok.injEq, Prod.mk.injEq] at h
        rw [← h.1]
        simp [ih c1 c2 vs2 h2]

theorem getValuesList_single (fenv : FEnv) (act : Act) (i : Nat) (cs : List Nat) (s : Str) :
    getValuesList fenv act i cs [s] =
      (match getValue fenv act i cs s with
       | .error e => .error e
       | .ok (v, c1) => .ok ([v], c1)) := by
  simp only [getValuesList]
  cases hg : getValue fenv act i cs s with
  | error e => rfl
  | ok p => obtain ⟨v, c1⟩ := p; rfl

/-- `_get_values` succeeds exactly when the per-token conversion does, with the packaged value -/
theorem getValues_ok_iff (fenv : FEnv) (act : Act) (i : Nat) (cs : List Nat) (toks : List Str) :
    getValues fenv act i cs toks =
      (match getValuesList fenv act i cs toks with
       | .error e => .error e
       | .ok (vs, c1) => .ok (segVal act.nargs vs, c1)) := by
  unfold getValues
  match toks, act.nargs with
  | [], .opt => simp [getValuesList, segVal]
  | [s], .one =>
    rw [getValuesList_single]
    cases hg : getValue fenv act i cs s with
    | error e => simp [Except.map, hg]
    | ok p => obtain ⟨v, c1⟩ := p; simp [Except.map, segVal, hg]
  | [s], .opt =>
    rw [getValuesList_single]
    cases hg : getValue fenv act i cs s with
    | error e => simp [Except.map, hg]
    | ok p => obtain ⟨v, c1⟩ := p; simp [Except.map, segVal, hg]
  | [], .one => simp [getValuesList, segVal, Except.map]
  | [], .star => simp [getValuesList, segVal, Except.map]
  | [], .plus => simp [getValuesList, segVal, Except.map]
  | [], .num _ => simp [getValuesList, segVal, Except.map]
  | [s], .star =>
    cases h : getValuesList fenv act i cs [s] with
    | error e => simp [Except.map]
    | ok p =>
      obtain ⟨vs, c1⟩ := p
      have := getValuesList_length fenv act i cs c1 [s] vs h
      match vs, this with
      | [v], _ => simp [Except.map, segVal]
  | [s], .plus =>
    cases h : getValuesList fenv act i cs [s] with
    | error e => simp [Except.map]
    | ok p =>
      obtain ⟨vs, c1⟩ := p
      have := getValuesList_length fenv act i cs c1 [s] vs h
      match vs, this with
      | [v], _ => simp [Except.map, segVal]
  | [s], .num _ =>
    cases h : getValuesList fenv act i cs [s] with
    | error e => simp [Except.map]
    | ok p =>
      obtain ⟨vs, c1⟩ := p
      have := getValuesList_length fenv act i cs c1 [s] vs h
      match vs, this with
      | [v], _ => simp [Except.map, segVal]
  | s1 :: s2 :: ss, n =>
    cases h : getValuesList fenv act i cs (s1 :: s2 :: ss) with
    | error e => cases n <;> simp [Except.map]
    | ok p =>
      obtain ⟨vs, c1⟩ := p
      have := getValuesList_length fenv act i cs c1 (s1 :: s2 :: ss) vs h
      match vs, this with
      | v1 :: v2 :: vv, _ => cases n <;> simp [Except.map, segVal]


/-! ### closure counters -/

theorem bump_getD (cs : List Nat) (i : Nat) (hi : i < cs.length) :
    (bump cs i).getD i 0 = cs.getD i 0 + 1 := by
  unfold bump
  simp [List.getD_eq_getElem?_getD, hi]

theorem bump_getD_ne (cs : List Nat) (i j : Nat) (h : j ≠ i) : (bump cs i).getD j 0 = cs.getD j 0 := by
  unfold bump
  simp [List.getD_eq_getElem?_getD, h.symm]

theorem bump_length (cs : List Nat) (i : Nat) : (bump cs i).length = cs.length := by
  simp [bump]

end SpVerif
