/-
  Helper lemmas about `SpVerif.Model.Layers`: lookups through `dict_union`, and the per-path view of a wrapper tree
  (`slotAt`, `baseAt`) under `set_default` and the final resolution.
-/
import SpVerif.Model.Layers
namespace SpVerif.Layers
open SpVerif

/-! ### lookups through sorting and union -/

theorem strLe_refl : ∀ s : Str, strLe s s = true
  | [] => rfl
  | a :: as => by simp [strLe, strLe_refl as]

theorem dget_insertKey (k : Str) (v : J) (l : Dict) (k' : Str) :
    dget (insertKey k v l) k' = if k = k' then some v else dget l k' := by
  induction l with
  | nil => simp [insertKey, dget]
  | cons e r ih =>
    obtain ⟨k1, v1⟩ := e
    unfold insertKey
    by_cases h : strLe k k1 = true
    · rw [if_pos h]; simp [dget]
    · rw [if_neg h]
      by_cases h1 : k1 = k'
      · have : k ≠ k' := by
          intro hk; apply h; rw [h1, hk]; exact strLe_refl _
        simp [dget, h1, this]
      · simp [dget, h1, ih]

theorem dget_sortKeys (l : Dict) (k : Str) : dget (sortKeys l) k = dget l k := by
  induction l with
  | nil => rfl
  | cons e r ih =>
    obtain ⟨k1, v1⟩ := e
    simp only [sortKeys, dget_insertKey, ih, dget]

theorem dget_append (a b : Dict) (k : Str) :
    dget (a ++ b) k = match dget a k with | some v => some v | none => dget b k := by
  induction a with
  | nil => simp [dget]
  | cons e r ih =>
    obtain ⟨k1, v1⟩ := e
    by_cases h : k1 = k <;> simp [dget, h, ih]

theorem dget_normL (l : Dict) (k : Str) : dget (normL l) k = (dget l k).map norm := by
  induction l with
  | nil => simp [normL, dget]
  | cons e r ih =>
    obtain ⟨k1, v1⟩ := e
    by_cases h : k1 = k <;> simp [normL, dget, h, ih]

theorem dget_mergeL (xs ys : Dict) (k : Str) :
    dget (mergeL xs ys) k = (dget xs k).map (fun x => match dget ys k with
      | none => norm x
      | some y => mergeVal x y) := by
  induction xs with
  | nil => simp [mergeL, dget]
  | cons e r ih =>
    obtain ⟨k1, v1⟩ := e
    by_cases h : k1 = k
    · subst h
      cases h2 : dget ys k1 <;> simp [mergeL, dget, h2]
    · simp [mergeL, dget, h, ih]

theorem dget_filter_notin (xs ys : Dict) (k : Str) :
    dget (ys.filter (fun kv => !hasKey xs kv.1)) k = if hasKey xs k then none else dget ys k := by
  induction ys with
  | nil => simp [dget]
  | cons e r ih =>
    obtain ⟨k1, v1⟩ := e
    by_cases hk : hasKey xs k1 = true
    · simp only [List.filter, hk, Bool.not_true]
      rw [ih]
      by_cases h : k1 = k
      · subst h; simp [hk]
      · simp [dget, h]
    · simp only [Bool.not_eq_true] at hk
      simp only [List.filter, hk, Bool.not_false]
      by_cases h : k1 = k
      · subst h; simp [dget, hk]
      · simp [dget, h, ih]

/-- lookup in `dict_union(xs, ys)` -/
theorem dget_unionD (xs ys : Dict) (k : Str) :
    dget (unionD xs ys) k =
      match dget xs k, dget ys k with
      | none, none => none
      | some x, none => some (norm x)
      | none, some y => some (norm y)
      | some x, some y => some (mergeVal x y) := by
  unfold unionD
  rw [dget_sortKeys, dget_append, dget_mergeL, dget_normL, dget_filter_notin]
  unfold hasKey
  cases hx : dget xs k <;> cases hy : dget ys k <;> simp

/-- `dict_union(v)` keeps every path; the values found are themselves re-sorted copies -/
theorem getPath_norm : ∀ (p : List Str) (j : J), getPath p (norm j) = (getPath p j).map norm
  | [], j => by simp [getPath]
  | k :: q, .dict kvs => by
    simp only [norm, getPath, dget_sortKeys, dget_normL]
    cases h : dget kvs k with
    | none => simp
    | some v => simpa using getPath_norm q v
  | k :: q, .null => by simp [norm, getPath]
  | k :: q, .int _ => by simp [norm, getPath]
  | k :: q, .str _ => by simp [norm, getPath]
  | k :: q, .atom _ => by simp [norm, getPath]

/-! ### the per-path view of a wrapper tree -/

/-- what a source does to a slot: a source that contains the path overwrites it (even with `null`) -/
def assign : Option J → J → J
  | some v, _ => v
  | none, m => m

/-- the `FieldWrapper._default` slot of the leaf at a path of field names (first field with each name) -/
def slotAt : WT → List Str → Option J
  | .nil, _ => none
  | .leaf _ _ _ _, [] => none
  | .nested _ _ _ _, [] => none
  | .leaf n _ m rest, k :: q => if k = n then (if q = [] then some m else none) else slotAt rest (k :: q)
  | .nested n _ sub rest, k :: q => if k = n then slotAt sub q else slotAt rest (k :: q)

/-- what the leaf at a path falls back to when its slot is None: the attribute of the default instance its
    wrapper sees, else its definition default (`null` when there is none) -/
def baseAt : WT → Option Dict → List Str → Option J
  | .nil, _, _ => none
  | .leaf _ _ _ _, _, [] => none
  | .nested _ _ _ _, _, [] => none
  | .leaf n df _ rest, ctx, k :: q =>
    if k = n then (if q = [] then some (match ctx with
                                         | some i => (dget i n).getD .null
                                         | none => df.getD .null) else none)
    else baseAt rest ctx (k :: q)
  | .nested n fac sub rest, ctx, k :: q =>
    if k = n then baseAt sub (childCtx n fac sub ctx) q else baseAt rest ctx (k :: q)

theorem slotAt_nil_path (wt : WT) : slotAt wt [] = none := by cases wt <;> rfl

/-- same class, possibly different slots -/
inductive Upd : WT → WT → Prop
  | nil : Upd .nil .nil
  | leaf {n df m m' rest rest'} : Upd rest rest' → Upd (.leaf n df m rest) (.leaf n df m' rest')
  | nested {n fac sub sub' rest rest'} : Upd sub sub' → Upd rest rest' →
      Upd (.nested n fac sub rest) (.nested n fac sub' rest')

theorem Upd.refl : ∀ wt : WT, Upd wt wt
  | .nil => .nil
  | .leaf _ _ _ rest => .leaf (Upd.refl rest)
  | .nested _ _ sub rest => .nested (Upd.refl sub) (Upd.refl rest)

theorem Upd.trans {a b c : WT} (h1 : Upd a b) (h2 : Upd b c) : Upd a c := by
  induction h1 generalizing c with
  | nil => exact h2
  | leaf _ ih => cases h2 with | leaf h => exact .leaf (ih h)
  | nested _ _ ih1 ih2 => cases h2 with | nested ha hb => exact .nested (ih1 ha) (ih2 hb)

theorem setFields_upd : ∀ (wt : WT) (d : Dict) (wt' : WT), setFields wt d = .ok wt' → Upd wt wt'
  | .nil, d, wt', h => by simp [setFields] at h; subst h; exact .nil
  | .leaf n df m rest, d, wt', h => by
    simp only [setFields] at h
    cases hr : setFields rest d with
    | error e => simp [hr] at h
    | ok rest' =>
      have ih := setFields_upd rest d rest' hr
      cases hd : dget d n <;> simp [hr, hd] at h <;> subst h <;> exact .leaf ih
  | .nested n fac sub rest, d, wt', h => by
    simp only [setFields] at h
    cases hd : dget d n with
    | none =>
      cases hr : setFields rest d with
      | error e => simp [hd, hr] at h
      | ok rest' => simp [hd, hr] at h; subst h; exact .nested (Upd.refl _) (setFields_upd rest d rest' hr)
    | some v =>
      cases v with
      | null =>
        cases hr : setFields rest d with
        | error e => simp [hd, hr] at h
        | ok rest' => simp [hd, hr] at h; subst h; exact .nested (Upd.refl _) (setFields_upd rest d rest' hr)
      | int i => simp [hd] at h
      | str s => simp [hd] at h
      | atom s => simp [hd] at h
      | dict d' =>
        cases hs : setFields sub d' with
        | error e => simp [hd, hs] at h
        | ok sub' =>
          by_cases hu : unknownKeys sub d' = true
          · simp [hd, hs, hu] at h
          · cases hr : setFields rest d with
            | error e => simp [hd, hs, hu, hr] at h
            | ok rest' =>
              simp [hd, hs, hu, hr] at h; subst h
              exact .nested (setFields_upd sub d' sub' hs) (setFields_upd rest d rest' hr)

theorem construct_upd {wt wt' : WT} (h : Upd wt wt') : ∀ kw, construct wt' kw = construct wt kw := by
  induction h with
  | nil => intro kw; rfl
  | leaf _ ih => intro kw; simp [construct, ih]
  | nested _ _ ih1 ih2 => intro kw; simp [construct, ih1, ih2]

theorem baseAt_upd {wt wt' : WT} (h : Upd wt wt') : ∀ ctx p, baseAt wt' ctx p = baseAt wt ctx p := by
  induction h with
  | nil => intro ctx p; rfl
  | leaf _ ih => intro ctx p; cases p <;> simp [baseAt, ih]
  | nested hs _ ih1 ih2 =>
    intro ctx p
    cases p with
    | nil => rfl
    | cons k q =>
      simp only [baseAt, childCtx, construct_upd hs, ih1, ih2]

theorem names_upd {wt wt' : WT} (h : Upd wt wt') : wt'.names = wt.names := by
  induction h with
  | nil => rfl
  | leaf _ ih => simp [WT.names, ih]
  | nested _ _ _ ih2 => simp [WT.names, ih2]

/-- **one source, one leaf**: after a successful `set_default(d)` the slot of every leaf is the value `d` holds at
    the leaf's path if `d` contains that path, and is unchanged otherwise -/
theorem slotAt_setFields : ∀ (wt : WT) (d : Dict) (wt' : WT) (p : List Str) (m : J),
    setFields wt d = .ok wt' → slotAt wt p = some m →
    slotAt wt' p = some (assign (getPath p (.dict d)) m)
  | .nil, d, wt', p, m, h, hp => by simp [slotAt] at hp
  | .leaf n df m0 rest, d, wt', p, m, h, hp => by
    simp only [setFields] at h
    cases hr : setFields rest d with
    | error e => simp [hr] at h
    | ok rest' =>
      cases p with
      | nil => simp [slotAt] at hp
      | cons k q =>
        by_cases hk : k = n
        · subst hk
          by_cases hq : q = []
          · subst hq
            simp [slotAt] at hp; subst hp
            cases hd : dget d k <;> simp [hr, hd] at h <;> subst h <;> simp [slotAt, getPath, hd, assign]
          · simp [slotAt, hq] at hp
        · simp only [slotAt, hk, if_false] at hp
          have ih := slotAt_setFields rest d rest' (k :: q) m hr hp
          cases hd : dget d n <;> simp [hr, hd] at h <;> subst h <;> simpa [slotAt, hk] using ih
  | .nested n fac sub rest, d, wt', p, m, h, hp => by
    simp only [setFields] at h
    cases p with
    | nil => simp [slotAt] at hp
    | cons k q =>
      by_cases hk : k = n
      · subst hk
        simp only [slotAt, if_true] at hp
        have hq : q ≠ [] := by intro hq; subst hq; simp [slotAt_nil_path] at hp
        cases hd : dget d k with
        | none =>
          cases hr : setFields rest d with
          | error e => simp [hd, hr] at h
          | ok rest' => simp [hd, hr] at h; subst h; simp [slotAt, getPath, hd, assign, hp]
        | some v =>
          cases v with
          | null =>
            cases hr : setFields rest d with
            | error e => simp [hd, hr] at h
            | ok rest' =>
              simp [hd, hr] at h; subst h
              cases q with
              | nil => exact absurd rfl hq
              | cons k2 q2 => simp [slotAt, getPath, hd, assign, hp]
          | int i => simp [hd] at h
          | str s => simp [hd] at h
          | atom s => simp [hd] at h
          | dict d' =>
            cases hs : setFields sub d' with
            | error e => simp [hd, hs] at h
            | ok sub' =>
              by_cases hu : unknownKeys sub d' = true
              · simp [hd, hs, hu] at h
              · cases hr : setFields rest d with
                | error e => simp [hd, hs, hu, hr] at h
                | ok rest' =>
                  simp [hd, hs, hu, hr] at h; subst h
                  have ih := slotAt_setFields sub d' sub' q m hs hp
                  simpa [slotAt, getPath, hd] using ih
      · simp only [slotAt, hk, if_false] at hp
        have hrest : ∀ rest', setFields rest d = .ok rest' →
            slotAt rest' (k :: q) = some (assign (getPath (k :: q) (.dict d)) m) :=
          fun rest' hr => slotAt_setFields rest d rest' (k :: q) m hr hp
        cases hd : dget d n with
        | none =>
          cases hr : setFields rest d with
          | error e => simp [hd, hr] at h
          | ok rest' => simp [hd, hr] at h; subst h; simpa [slotAt, hk] using hrest rest' hr
        | some v =>
          cases v with
          | null =>
            cases hr : setFields rest d with
            | error e => simp [hd, hr] at h
            | ok rest' => simp [hd, hr] at h; subst h; simpa [slotAt, hk] using hrest rest' hr
          | int i => simp [hd] at h
          | str s => simp [hd] at h
          | atom s => simp [hd] at h
          | dict d' =>
            cases hs : setFields sub d' with
            | error e => simp [hd, hs] at h
            | ok sub' =>
              by_cases hu : unknownKeys sub d' = true
              · simp [hd, hs, hu] at h
              · cases hr : setFields rest d with
                | error e => simp [hd, hs, hu, hr] at h
                | ok rest' =>
                  simp [hd, hs, hu, hr] at h; subst h; simpa [slotAt, hk] using hrest rest' hr

/-- the value a leaf ends up with: the command-line value if one was given, else the slot if it is not None,
    else the fallback -/
def pick (c : Option J) (m b : J) : J :=
  match c with
  | some v => v
  | none => if !m.isNull then m else b

theorem getPath_nonempty_nondict {k : Str} {q : List Str} {v : J} (hv : v.isDict = false) :
    getPath (k :: q) v = none := by
  cases v <;> simp_all [getPath, J.isDict]

/-- the fallback of a direct leaf -/
def leafBase (n : Str) (df : Option J) (ctx : Option Dict) : J :=
  match ctx with
  | some i => (dget i n).getD .null
  | none => df.getD .null

theorem resolve_leaf (n : Str) (df : Option J) (m0 : J) (rest : WT) (ctx : Option Dict) (cmd : Dict) :
    resolve (.leaf n df m0 rest) ctx cmd =
      if (pick (dget cmd n) m0 (leafBase n df ctx)).isNull then .error .exit2 else
      match resolve rest ctx cmd with
      | .error e => .error e
      | .ok r => .ok ((n, pick (dget cmd n) m0 (leafBase n df ctx)) :: r) := by
  cases ctx <;> cases hc : dget cmd n <;> cases hr : resolve rest _ cmd <;>
    simp [resolve, hc, hr, pick, leafDefault, leafBase] <;>
    (first | rfl | (split <;> simp_all))

/-- **resolution of one leaf**: a successful `resolve` puts, at every leaf path, the command-line value, else the
    slot, else the instance attribute / definition default — and that value is not None -/
theorem getPath_resolve : ∀ (wt : WT) (ctx : Option Dict) (cmd out : Dict) (p : List Str) (m : J),
    resolve wt ctx cmd = .ok out → slotAt wt p = some m →
    ∃ b, baseAt wt ctx p = some b ∧
      getPath p (.dict out) = some (pick (getPath p (.dict cmd)) m b) ∧
      (pick (getPath p (.dict cmd)) m b).isNull = false
  | .nil, ctx, cmd, out, p, m, h, hp => by simp [slotAt] at hp
  | .leaf n df m0 rest, ctx, cmd, out, p, m, h, hp => by
    rw [resolve_leaf] at h
    generalize hv : pick (dget cmd n) m0 (leafBase n df ctx) = v at h
    by_cases hnull : v.isNull = true
    · simp [hnull] at h
    · cases hr : resolve rest ctx cmd with
      | error e => simp [hnull, hr] at h
      | ok r =>
        simp [hnull, hr] at h; subst h
        cases p with
        | nil => simp [slotAt] at hp
        | cons k q =>
          by_cases hk : k = n
          · subst hk
            by_cases hq : q = []
            · subst hq
              simp [slotAt] at hp; subst hp
              have hpick : pick (getPath [k] (.dict cmd)) m0 (leafBase k df ctx) = v := by
                rw [← hv]
                cases hc : dget cmd k <;> simp [getPath, hc, pick]
              refine ⟨leafBase k df ctx, by simp [baseAt, leafBase], ?_, ?_⟩
              · rw [hpick]; simp [getPath, dget]
              · rw [hpick]; simpa using hnull
            · simp [slotAt, hq] at hp
          · simp only [slotAt, hk, if_false] at hp
            obtain ⟨b, hb, hg, hn⟩ := getPath_resolve rest ctx cmd r (k :: q) m hr hp
            refine ⟨b, by simpa [baseAt, hk] using hb, ?_, hn⟩
            have hk' : ¬ n = k := fun e => hk e.symm
            simpa [getPath, dget, hk'] using hg
  | .nested n fac sub rest, ctx, cmd, out, p, m, h, hp => by
    simp only [resolve] at h
    cases hs : resolve sub (childCtx n fac sub ctx) (sectionOf (dget cmd n)) with
    | error e => simp [hs] at h
    | ok i =>
      cases hr : resolve rest ctx cmd with
      | error e => simp [hs, hr] at h
      | ok r =>
        simp [hs, hr] at h; subst h
        cases p with
        | nil => simp [slotAt] at hp
        | cons k q =>
          by_cases hk : k = n
          · subst hk
            simp only [slotAt, if_true] at hp
            obtain ⟨b, hb, hg, hn⟩ := getPath_resolve sub _ _ i q m hs hp
            cases q with
            | nil => simp [slotAt_nil_path] at hp
            | cons k2 q2 =>
              have hcmd : getPath (k :: k2 :: q2) (.dict cmd) = getPath (k2 :: q2) (.dict (sectionOf (dget cmd k))) := by
                cases hc : dget cmd k with
                | none => simp [getPath, hc, dget, sectionOf]
                | some v => cases v <;> simp [getPath, hc, dget, sectionOf]
              refine ⟨b, by simpa [baseAt] using hb, ?_, ?_⟩
              · rw [hcmd]; simpa [getPath, dget] using hg
              · rw [hcmd]; exact hn
          · simp only [slotAt, hk, if_false] at hp
            obtain ⟨b, hb, hg, hn⟩ := getPath_resolve rest ctx cmd r (k :: q) m hr hp
            refine ⟨b, by simpa [baseAt, hk] using hb, ?_, hn⟩
            have hk' : ¬ n = k := fun e => hk e.symm
            simpa [getPath, dget, hk'] using hg

end SpVerif.Layers
