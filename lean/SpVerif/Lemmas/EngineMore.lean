/-
  Generalisations of `Lemmas/Engine.lean` (lexing / consuming a rendered command line) used by C02:

  * value tokens are characterised by what argparse itself does with them (`ArgTok`: the token is
    lexed as an argument) instead of by `NoDash`, so that plain negative numbers are covered
    (`classify_neg`);
  * a segment may be written in the `--opt=value` spelling (`ESeg.eq`): `classify_eq`,
    `lexAll_render'`, `consume_render'` — both spellings end in the same `applySegs`.
-/
import SpVerif.Lemmas.Engine
namespace SpVerif

/-! ### value tokens: what argparse lexes as an argument -/

/-- the property's own exclusion, stated with the lexer: `_parse_optional` classifies the token as
    an argument (`'A'`), and it is not the literal `--` -/
def ArgTok (tbl : List Act) (t : Str) : Prop := classify tbl t = .ok .A ∧ t ≠ ['-', '-']

theorem argTok_of_nodash (tbl : List Act) (t : Str) (h : NoDash t) : ArgTok tbl t :=
  ⟨classify_nodash tbl t h, nodash_ne_dd t h⟩

theorem lookup_some_mem {β : Type} (l : List (Str × β)) (k : Str) (v : β) (h : l.lookup k = some v) :
    (k, v) ∈ l := by
  induction l with
  | nil => simp [List.lookup] at h
  | cons p ps ih =>
    obtain ⟨pk, pv⟩ := p
    simp only [List.lookup] at h
    split at h
    · rename_i hk
      simp only [beq_iff_eq] at hk
      simp only [Option.some.injEq] at h
      subst hk h
      simp
    · exact List.mem_cons_of_mem _ (ih h)

theorem lookup_none_of_not_mem {β : Type} (l : List (Str × β)) (k : Str)
    (h : ∀ p ∈ l, p.1 ≠ k) : l.lookup k = none := by
  cases hl : l.lookup k with
  | none => rfl
  | some v => exact absurd rfl (h _ (lookup_some_mem l k v hl))

/-- no option string has a digit or a dot right after its first dash (true of every table
    simple-parsing generates from Python identifiers) -/
def OptsNonNumeric (tbl : List Act) : Prop :=
  ∀ p ∈ optTable tbl, ∀ c r, p.1 = '-' :: c :: r → isDigit c = false ∧ c ≠ '.'

theorem splitOnChar_cons_cases (sep c : Char) (cs p : Str) (ps : List Str)
    (h : splitOnChar sep (c :: cs) = p :: ps) :
    (c = sep ∧ p = []) ∨ (c ≠ sep ∧ ∃ p', p = c :: p') := by
  unfold splitOnChar at h
  by_cases hc : c = sep
  · simp only [hc, ↓reduceIte, List.cons.injEq] at h
    exact Or.inl ⟨hc, h.1.symm⟩
  · simp only [hc, ↓reduceIte] at h
    right
    refine ⟨hc, ?_⟩
    split at h
    · simp only [List.cons.injEq] at h; exact ⟨[], h.1.symm⟩
    · simp only [List.cons.injEq] at h; exact ⟨_, h.1.symm⟩

/-- a string that matches the negative-number pattern has a digit or a dot after the dash -/
theorem looksNeg_second (t : Str) (h : looksNegNumber t = true) :
    ∃ d r, t = '-' :: d :: r ∧ (isDigit d = true ∨ d = '.') := by
  cases t with
  | nil => simp [looksNegNumber] at h
  | cons c cs =>
    by_cases hc : c = '-'
    · subst hc
      cases cs with
      | nil => exact absurd h (by decide)
      | cons d r =>
        refine ⟨d, r, rfl, ?_⟩
        simp only [looksNegNumber, List.isEmpty_cons, Bool.not_false, Bool.true_and, Bool.or_eq_true] at h
        rcases h with h | h
        · left
          simp only [allDigits, List.all_cons, Bool.and_eq_true] at h
          exact h.1
        · split at h
          · rename_i a b hab
            rcases splitOnChar_cons_cases '.' d r a [b] hab with ⟨hd, _⟩ | ⟨_, p', hp'⟩
            · exact Or.inr hd
            · left
              subst hp'
              simp only [allDigits, List.all_cons, Bool.and_eq_true] at h
              exact h.1.1.1
          · cases h
    · unfold looksNegNumber at h
      split at h
      · rename_i r heq
        simp only [List.cons.injEq] at heq
        exact absurd heq.1 hc
      · cases h

theorem optsNonNumeric_noNeg (tbl : List Act) (h : OptsNonNumeric tbl) : hasNegNumberOpts tbl = false := by
  unfold hasNegNumberOpts
  rw [List.any_eq_false]
  intro p hp hneg
  obtain ⟨d, r, hpr, hd⟩ := looksNeg_second p.1 (by simpa using hneg)
  obtain ⟨h1, h2⟩ := h p hp d r hpr
  rcases hd with hd | hd
  · rw [h1] at hd; cases hd
  · exact h2 hd

theorem startsWith_cons2 (s : Str) (a b : Char) (r : Str) (h : startsWith s (a :: b :: r) = true) :
    ∃ r', s = a :: b :: r' := by
  match s, h with
  | c :: d :: cs, h =>
    simp only [startsWith, Bool.and_eq_true, beq_iff_eq] at h
    exact ⟨cs, by rw [h.1, h.2.1]⟩
  | [c], h => simp [startsWith] at h

/-- **plain negative numbers are arguments** (`_negative_number_matcher`, with no option string
    that looks like a negative number): a token matching `-\d+` / `-\d*\.\d+` that contains no `=`
    is lexed as an argument, whatever the rest of the table is -/
theorem classify_neg (tbl : List Act) (t : Str) (hneg : looksNegNumber t = true)
    (heq : splitEq t = none) (htbl : OptsNonNumeric tbl) : classify tbl t = .ok .A := by
  obtain ⟨d, r, rfl, hd⟩ := looksNeg_second t hneg
  have hnot : ∀ p ∈ optTable tbl, ∀ r', p.1 ≠ '-' :: d :: r' := by
    intro p hp r' hpr
    obtain ⟨h1, h2⟩ := htbl p hp d r' hpr
    rcases hd with hd | hd
    · rw [h1] at hd; cases hd
    · exact h2 hd
  have hlook : (optTable tbl).lookup ('-' :: d :: r) = none :=
    lookup_none_of_not_mem _ _ (fun p hp => hnot p hp r)
  have hdd : d ≠ '-' := by
    rcases hd with hd | hd
    · intro hh; subst hh; simp [isDigit] at hd
    · intro hh; subst hh; cases hd
  have htup : optionTuples (optTable tbl) ('-' :: d :: r) = [] := by
    unfold optionTuples
    split
    · rename_i x heq'
      simp only [List.cons.injEq, true_and] at heq'
      exact absurd heq'.1 hdd
    · rw [List.filterMap_eq_nil_iff]
      intro p hp
      rename_i c1 c2 hh
      have hp1 : ¬ p.1 = List.take 2 ('-' :: d :: r) := by
        simp only [List.take_succ_cons, List.take_zero]
        exact hnot p hp []
      have hp2 : ¬ startsWith p.1 ('-' :: d :: r) = true := by
        intro hs
        obtain ⟨r', hr'⟩ := startsWith_cons2 p.1 '-' d r hs
        exact hnot p hp r' hr'
      cases hh
      simp only [hp1, ↓reduceIte, hp2, Bool.false_eq_true]
    · rfl
  unfold classify
  simp [hlook, heq, htup, hneg, optsNonNumeric_noNeg tbl htbl]

theorem looksNeg_ne_dd (t : Str) (h : looksNegNumber t = true) : t ≠ ['-', '-'] := by
  intro hh; subst hh; revert h; decide

theorem argTok_of_neg (tbl : List Act) (t : Str) (hneg : looksNegNumber t = true)
    (heq : splitEq t = none) (htbl : OptsNonNumeric tbl) : ArgTok tbl t :=
  ⟨classify_neg tbl t hneg heq htbl, looksNeg_ne_dd t hneg⟩

theorem splitEq_none_of_not_mem (s : Str) (h : '=' ∉ s) : splitEq s = none := by
  induction s with
  | nil => rfl
  | cons c cs ih =>
    simp only [List.mem_cons, not_or] at h
    have hc : ¬ c = '=' := fun hh => h.1 hh.symm
    simp only [splitEq, hc, ↓reduceIte, ih h.2]

theorem splitEq_append (o t : Str) (h : '=' ∉ o) : splitEq (o ++ '=' :: t) = some (o, t) := by
  induction o with
  | nil => simp [splitEq]
  | cons c cs ih =>
    simp only [List.mem_cons, not_or] at h
    have hc : ¬ c = '=' := fun hh => h.1 hh.symm
    simp only [List.cons_append, splitEq, hc, ↓reduceIte, ih h.2]

/-! ### segments in either spelling -/

/-- a segment together with the spelling used for it -/
structure ESeg where
  seg : Seg
  eq : Bool            -- `--opt=value` requested (only possible with exactly one value token)
  deriving Repr

/-- the value of an `=`-spelled segment; `none` = the segment is written `--opt tok₁ … tokₖ` -/
def ESeg.eqTok (s : ESeg) : Option Str :=
  match s.eq, s.seg.toks with
  | true, [t] => some t
  | _, _ => none

def renderESeg (s : ESeg) : List Str :=
  match s.eqTok with
  | some t => [s.seg.opt ++ '=' :: t]
  | none => renderSeg s.seg

def render' (segs : List ESeg) : List Str := segs.flatMap renderESeg

def esegToks (s : ESeg) : List Tok :=
  match s.eqTok with
  | some t => [Tok.O (some s.seg.idx) s.seg.opt (some t)]
  | none => segToks s.seg

def renderToks' (segs : List ESeg) : List Tok := segs.flatMap esegToks

theorem render'_cons (s : ESeg) (ss : List ESeg) : render' (s :: ss) = renderESeg s ++ render' ss := by
  simp [render']

theorem renderToks'_cons (s : ESeg) (ss : List ESeg) :
    renderToks' (s :: ss) = esegToks s ++ renderToks' ss := by
  simp [renderToks']

theorem eqTok_some (s : ESeg) (t : Str) (h : s.eqTok = some t) : s.seg.toks = [t] := by
  unfold ESeg.eqTok at h
  split at h
  · rename_i t' _ ht; simp only [Option.some.injEq] at h; rw [ht, h]
  · cases h

/-- no option string of the table contains `=` (true of every table simple-parsing generates) -/
def OptsNoEq (tbl : List Act) : Prop := ∀ p ∈ optTable tbl, '=' ∉ p.1

structure LexOk' (tbl : List Act) (s : ESeg) : Prop where
  lookup : (optTable tbl).lookup s.seg.opt = some s.seg.idx
  optdash : ∃ r, s.seg.opt = '-' :: r
  notdd : s.seg.opt ≠ ['-', '-']
  /-- spaced spelling: every value token is one argparse lexes as an argument -/
  args : s.eqTok = none → ∀ t ∈ s.seg.toks, ArgTok tbl t
  /-- `=` spelling: ANY value goes (even one starting with `-`); the option string has no `=` -/
  eqok : ∀ t, s.eqTok = some t →
    '=' ∉ s.seg.opt ∧ (optTable tbl).lookup (s.seg.opt ++ '=' :: t) = none

/-- the `=`-spelling side condition follows from the table-level `OptsNoEq` -/
theorem eqok_of_optsNoEq (tbl : List Act) (s : ESeg) (h : OptsNoEq tbl)
    (hl : (optTable tbl).lookup s.seg.opt = some s.seg.idx) (t : Str) :
    '=' ∉ s.seg.opt ∧ (optTable tbl).lookup (s.seg.opt ++ '=' :: t) = none := by
  refine ⟨h _ (lookup_some_mem _ _ _ hl), lookup_none_of_not_mem _ _ ?_⟩
  intro p hp hpe
  exact h p hp (by rw [hpe]; simp)

/-- the old `LexOk` (no-dash tokens, spaced spelling) is an instance -/
theorem lexOk'_of_lexOk (tbl : List Act) (s : Seg) (h : LexOk tbl s) : LexOk' tbl ⟨s, false⟩ :=
  ⟨h.lookup, h.optdash, h.notdd, fun _ t ht => argTok_of_nodash tbl t (h.nodash t ht),
   fun t ht => by simp [ESeg.eqTok] at ht⟩

theorem classify_opt' (tbl : List Act) (s : ESeg) (h : LexOk' tbl s) :
    classify tbl s.seg.opt = .ok (.O (some s.seg.idx) s.seg.opt none) := by
  obtain ⟨r, hr⟩ := h.optdash
  unfold classify
  rw [hr]
  simp only [ne_eq, not_true_eq_false, ↓reduceIte]
  rw [← hr, h.lookup]

/-- **`--opt=value`** is lexed as that option with the explicit argument `value` -/
theorem classify_eq (tbl : List Act) (s : ESeg) (h : LexOk' tbl s) (t : Str) (ht : s.eqTok = some t) :
    classify tbl (s.seg.opt ++ '=' :: t) = .ok (.O (some s.seg.idx) s.seg.opt (some t)) := by
  obtain ⟨r, hr⟩ := h.optdash
  obtain ⟨hne, hnl⟩ := h.eqok t ht
  have hsp := splitEq_append s.seg.opt t hne
  unfold classify
  have hform : s.seg.opt ++ '=' :: t = '-' :: (r ++ '=' :: t) := by rw [hr]; rfl
  rw [hform]
  simp only [ne_eq, not_true_eq_false, ↓reduceIte]
  rw [← hform, hnl]
  have hlen : ¬ (s.seg.opt ++ '=' :: t).length = 1 := by
    rw [hr]; simp
  simp only [hlen, ↓reduceIte, hsp, h.lookup]

theorem eq_arg_ne_dd (o t : Str) : o ++ '=' :: t ≠ ['-', '-'] := by
  intro h
  have : '=' ∈ o ++ '=' :: t := by simp
  rw [h] at this
  simp at this

theorem lexAll_toks' (tbl : List Act) (toks : List Str) (rest : List Str) (restToks : List Tok)
    (hn : ∀ t ∈ toks, ArgTok tbl t) (hrest : lexAll tbl rest = .ok restToks) :
    lexAll tbl (toks ++ rest) = .ok (toks.map (fun _ => Tok.A) ++ restToks) := by
  induction toks with
  | nil => simpa using hrest
  | cons t ts ih =>
    obtain ⟨h1, h2⟩ := hn t (by simp)
    simp only [List.cons_append, lexAll, h2, ↓reduceIte, h1, List.map_cons]
    rw [ih (fun x hx => hn x (by simp [hx]))]

/-- **Lexing a rendered command line (either spelling)** -/
theorem lexAll_render' (tbl : List Act) (segs : List ESeg) (h : ∀ s ∈ segs, LexOk' tbl s) :
    lexAll tbl (render' segs) = .ok (renderToks' segs) := by
  induction segs with
  | nil => rfl
  | cons s ss ih =>
    have hs := h s (by simp)
    have ih' := ih (fun x hx => h x (by simp [hx]))
    simp only [render', renderToks', List.flatMap_cons] at ih' ⊢
    cases he : s.eqTok with
    | some t =>
      simp only [renderESeg, esegToks, he, List.cons_append, List.nil_append, lexAll,
        eq_arg_ne_dd, ↓reduceIte, classify_eq tbl s hs t he, ih']
    | none =>
      simp only [renderESeg, esegToks, he, renderSeg, segToks, List.cons_append, lexAll, hs.notdd,
        ↓reduceIte, classify_opt' tbl s hs]
      rw [lexAll_toks' tbl s.seg.toks _ _ (hs.args he) ih']

theorem render'_length (segs : List ESeg) : (render' segs).length = (renderToks' segs).length := by
  induction segs with
  | nil => rfl
  | cons s ss ih =>
    simp only [render', renderToks', List.flatMap_cons, List.length_append] at ih ⊢
    rw [ih]
    congr 1
    unfold renderESeg esegToks
    cases s.eqTok <;> simp [renderSeg, segToks]

theorem renderToks'_head (segs : List ESeg) : (renderToks' segs).head? ≠ some .A := by
  cases segs with
  | nil => simp [renderToks']
  | cons s ss =>
    simp only [renderToks', List.flatMap_cons, esegToks]
    cases s.eqTok <;> simp [segToks]

theorem segs_le_render' (segs : List ESeg) : segs.length ≤ (render' segs).length := by
  induction segs with
  | nil => simp
  | cons s ss ih =>
    simp only [render', List.flatMap_cons, List.length_append, List.length_cons] at ih ⊢
    have : 1 ≤ (renderESeg s).length := by
      unfold renderESeg
      cases s.eqTok <;> simp [renderSeg]
    omega

/-! ### consuming -/

/-- one spaced segment in front of any already-lexed rest -/
theorem consume_step_plain (fenv : FEnv) (tbl : List Act) (s : Seg) (a : Act) (n : Nat) (st : St)
    (r1 : List Str) (r2 : List Tok) (hlen : r1.length = r2.length) (hhead : r2.head? ≠ some .A)
    (ha : tbl[s.idx]? = some a) (hk : a.kind ≠ .help) (har : arityOk a.nargs s.toks.length) :
    consume fenv tbl (n + 1) st ((renderSeg s ++ r1).zip (segToks s ++ r2)) =
      (match takeAction fenv tbl st s.idx s.opt s.toks with
       | .error e => .error e
       | .ok st' => consume fenv tbl n st' (r1.zip r2)) := by
  rw [zip_seg]
  simp only [consume, ha, hk, ↓reduceIte]
  have hmap : (List.map (fun x => x.2) (List.map (fun t => (t, Tok.A)) s.toks ++ r1.zip r2)) =
      s.toks.map (fun _ => Tok.A) ++ r2 := by
    simp only [List.map_append, List.map_map, Function.comp_def]
    congr 1
    rw [List.map_snd_zip]
    omega
  rw [hmap, matchCount_exact a.nargs s.toks r2 hhead har]
  simp only
  have htake : (List.take s.toks.length
      (List.map (fun t => (t, Tok.A)) s.toks ++ r1.zip r2)).map (·.1) = s.toks := by
    rw [List.take_append_of_le_length (by simp)]
    simp [List.take_of_length_le, List.map_map, Function.comp_def]
  have hdrop : List.drop s.toks.length
      (List.map (fun t => (t, Tok.A)) s.toks ++ r1.zip r2) = r1.zip r2 := by
    rw [List.drop_append_of_le_length (by simp)]
    simp
  rw [htake, hdrop]
  cases takeAction fenv tbl st s.idx s.opt s.toks <;> rfl

/-- **one `--opt=value` token**: the explicit argument is the single value of the action -/
theorem consume_step_eq (fenv : FEnv) (tbl : List Act) (i : Nat) (o arg t : Str) (a : Act) (n : Nat)
    (st : St) (rest : List (Str × Tok))
    (ha : tbl[i]? = some a) (hk : a.kind ≠ .help) (har : arityOk a.nargs 1) :
    consume fenv tbl (n + 1) st ((arg, Tok.O (some i) o (some t)) :: rest) =
      (match takeAction fenv tbl st i o [t] with
       | .error e => .error e
       | .ok st' => consume fenv tbl n st' rest) := by
  simp only [consume, ha, hk, ↓reduceIte]
  cases hn : a.nargs with
  | num m =>
    rw [hn] at har
    simp only [arityOk] at har
    subst har
    simp only [↓reduceIte]
    cases takeAction fenv tbl st i o [t] <;> rfl
  | one => rfl
  | opt => rfl
  | star => rfl
  | plus => rfl

/-- **The main loop on a rendered command line, either spelling**: exactly one `take_action` per
    segment with exactly that segment's tokens — the same `applySegs` for `--opt v` and `--opt=v`. -/
theorem consume_render' (fenv : FEnv) (tbl : List Act) (segs : List ESeg) (fuel : Nat) (st : St)
    (hfuel : segs.length < fuel + 1) (hc : ∀ s ∈ segs, ConsumeOk tbl s.seg) :
    consume fenv tbl fuel st ((render' segs).zip (renderToks' segs)) =
      applySegs fenv tbl st (segs.map (·.seg)) := by
  induction segs generalizing fuel st with
  | nil => cases fuel <;> rfl
  | cons s ss ih =>
    obtain ⟨a, ha, hk, har⟩ := (hc s (by simp)).act
    cases fuel with
    | zero => simp at hfuel
    | succ n =>
      have hrec : ∀ st', consume fenv tbl n st' ((render' ss).zip (renderToks' ss)) =
          applySegs fenv tbl st' (ss.map (·.seg)) :=
        fun st' => ih n st' (by simp at hfuel; omega) (fun x hx => hc x (by simp [hx]))
      rw [render'_cons, renderToks'_cons]
      simp only [List.map_cons, applySegs]
      cases he : s.eqTok with
      | some t =>
        have htoks := eqTok_some s t he
        simp only [renderESeg, esegToks, he, List.cons_append, List.nil_append, List.zip_cons_cons]
        rw [consume_step_eq fenv tbl s.seg.idx s.seg.opt _ t a n st _ ha hk (by rw [htoks] at har; exact har),
          htoks]
        cases takeAction fenv tbl st s.seg.idx s.seg.opt [t] with
        | error e => rfl
        | ok st' => exact hrec st'
      | none =>
        simp only [renderESeg, esegToks, he]
        rw [consume_step_plain fenv tbl s.seg a n st _ _ (render'_length ss) (renderToks'_head ss) ha hk har]
        cases takeAction fenv tbl st s.seg.idx s.seg.opt s.seg.toks with
        | error e => rfl
        | ok st' => exact hrec st'

end SpVerif
