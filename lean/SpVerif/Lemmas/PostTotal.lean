/-
  SpVerif.Lemmas.PostTotal — on a well-formed wrapper forest `_postprocessing` RETURNS a namespace: none of the
  AttributeError / AssertionError / KeyError / RuntimeError arms of `SpVerif.Model.Post.postprocess` is taken and the
  input stays inside the modelled fragment.  Used by `Props/C09.lean` (`c09_accept`).
-/
import SpVerif.Lemmas.Post
namespace SpVerif.Post
open SpVerif

variable {V : Type}

/-! ### well-formed inputs (all decidable) -/

/-- the field wrapper `f` of dataclass wrapper `w` is not reused and writes into `w`'s constructor arguments:
    `field.destinations == [field.dest]` and `split_dest(field.dest)[0] == wrapper.dest` -/
def FieldOk (w : DcW V) (f : FieldW V) : Prop := f.dests = [f.dest] ∧ (splitDest f.dest).1 = w.dest

instance (w : DcW V) (f : FieldW V) : Decidable (FieldOk w f) := by unfold FieldOk; exact inferInstance

/-- in instantiation order every child comes before its parent (`split_dest(dest)[0]` is the parent's destination) -/
def ParentsLater : List (DcW V) → Prop
  | [] => True
  | w :: t => (w.hasParent = true → (splitDest w.dest).1 ∈ t.map (·.dest)) ∧ ParentsLater t

instance decParentsLater : (l : List (DcW V)) → Decidable (ParentsLater l)
  | [] => isTrue trivial
  | w :: t => by
    unfold ParentsLater
    have := decParentsLater t
    exact inferInstance

/-- What a real parser without ALWAYS_MERGE, without `set_defaults(<dataclass dest>=…)`, without `Optional[Dataclass]`
    fields hands to `_postprocessing` after an accepted parse whose user destinations are disjoint from simple-parsing's:
      * `self.constructor_arguments` is empty;
      * every wrapper has its one destination, destinations are pairwise distinct;
      * every field wrapper is `FieldOk`;
      * children are instantiated before their parents (`ParentsLater` of the level-sorted list);
      * no `Optional[Dataclass] = None` wrapper (their `for … else` needs every field name: not covered here);
      * the subgroup destinations are in the raw namespace, nothing (attribute or destination) is called `subgroups`
        when there are subgroup fields;
      * no `add_arguments` destination is already an attribute of the raw namespace. -/
def WellFormed (ps : PState V) (raw : Dict V) : Prop :=
  ps.cargs0 = [] ∧
  (∀ w ∈ ps.wrappers, w.dests = [w.dest]) ∧
  (ps.wrappers.map (·.dest)).Nodup ∧
  (∀ w ∈ ps.wrappers, ∀ f ∈ w.fields, FieldOk w f) ∧
  ParentsLater (sortDesc ps.wrappers) ∧
  (∀ w ∈ ps.wrappers, w.optNone = false) ∧
  (∀ d ∈ subgroupDests ps.wrappers, d ∈ dkeys raw) ∧
  dhas raw "subgroups".toList = false ∧
  subgroupsIsRootDest ps.wrappers = false ∧
  (∀ d ∈ rootDests ps.wrappers, d ∉ dkeys raw)

instance (ps : PState V) (raw : Dict V) : Decidable (WellFormed ps raw) := by unfold WellFormed; exact inferInstance

/-- every `FieldWrapper` belongs to an `init=True` field (dataclass_wrapper.py:77 creates no other) -/
def AllInit (ps : PState V) : Prop := ∀ f ∈ allFields ps.wrappers, f.init = true

/-- no wrapper was registered with `default=argparse.SUPPRESS` -/
def NoSuppress (ps : PState V) : Prop := ∀ w ∈ ps.wrappers, w.suppress = false

instance (ps : PState V) : Decidable (AllInit ps) := by unfold AllInit; exact inferInstance
instance (ps : PState V) : Decidable (NoSuppress ps) := by unfold NoSuppress; exact inferInstance

/-- the hypotheses of the frame theorem `c09_frame` about one accepted parse: the engine wrote only destinations of
    its table and parser-level defaults; the simple-parsing actions write field destinations; the user's destinations
    and the parser-level defaults are disjoint from the field and `add_arguments` destinations; those two are disjoint
    from each other; `AllInit`; pairwise distinct `add_arguments` destinations.  Decidable: the driver evaluates it
    on every accepted real run (`frame_hyps`). -/
def FrameHyps (ps : PState V) (ua sa : Table) (raw : Dict V) : Prop :=
  (∀ k ∈ dkeys raw, k ∈ (ua ++ sa).map (·.dest) ∨ k ∈ ps.defaultsKeys) ∧
  (∀ a ∈ sa, a.dest ∈ fieldDests ps.wrappers) ∧
  (∀ a ∈ ua, a.dest ∉ fieldDests ps.wrappers ∧ a.dest ∉ rootDests ps.wrappers) ∧
  (∀ k ∈ ps.defaultsKeys, k ∉ fieldDests ps.wrappers ∧ k ∉ rootDests ps.wrappers) ∧
  (∀ d ∈ rootDests ps.wrappers, d ∉ fieldDests ps.wrappers) ∧
  AllInit ps ∧ (rootDests ps.wrappers).Nodup

instance (ps : PState V) (ua sa : Table) (raw : Dict V) : Decidable (FrameHyps ps ua sa raw) := by
  unfold FrameHyps; exact inferInstance

/-- the dataclass constructors never raise -/
def ConstructTotal (A : Alg V) : Prop := ∀ ctor args, A.construct ctor args ≠ none

/-! ### small facts -/

theorem nodup_dedup (l : List Str) : (dedup l).Nodup := by
  induction l with
  | nil => simp [dedup]
  | cons a r ih =>
    simp only [dedup, List.nodup_cons, List.mem_filter, not_and]
    exact ⟨fun _ => by simp, ih.filter _⟩

theorem mem_dkeys_iff_dget (d : Dict V) (k : Str) : k ∈ dkeys d ↔ dget d k ≠ none := by
  induction d with
  | nil => simp [dkeys, dget]
  | cons kv r ih =>
    obtain ⟨a, v⟩ := kv
    simp only [dkeys, List.map_cons, List.mem_cons, dget]
    by_cases ha : a = k
    · simp [ha]
    · simp only [ha, ↓reduceIte]
      have ih' : k ∈ dkeys r ↔ dget r k ≠ none := ih
      simp only [dkeys] at ih'
      rw [← ih']
      constructor
      · rintro (e | e)
        · exact absurd e.symm ha
        · exact e
      · exact Or.inr

theorem dget_some_of_mem {d : Dict V} {k : Str} (h : k ∈ dkeys d) : ∃ v, dget d k = some v := by
  have := (mem_dkeys_iff_dget d k).mp h
  cases hd : dget d k with
  | none => exact absurd hd this
  | some v => exact ⟨v, rfl⟩

theorem dkeys_dset_of_mem (c : Dict V) (k : Str) (y : V) (h : k ∈ dkeys c) : dkeys (dset c k y) = dkeys c := by
  induction c with
  | nil => simp [dkeys] at h
  | cons kv r ih =>
    obtain ⟨a, w⟩ := kv
    simp only [dset]
    split
    · rename_i hak; subst hak; simp [dkeys]
    · rename_i hak
      have hr : k ∈ dkeys r := by
        simp only [dkeys, List.map_cons, List.mem_cons] at h
        rcases h with e | e
        · exact absurd e.symm hak
        · exact e
      have := ih hr
      simp only [dkeys, List.map_cons] at this ⊢
      rw [this]

theorem dkeys_csetIn_of_mem (c : CArgs V) (p a : Str) (v : V) (h : p ∈ dkeys c) : dkeys (csetIn c p a v) = dkeys c := by
  simp only [csetIn]
  split
  · exact dkeys_dset_of_mem c p _ h
  · exact dkeys_dset_of_mem c p _ h

/-! ### `_remove_subgroups_from_namespace` returns -/

theorem moveSubgroups_ok (ds : List Str) : ∀ (ns sub : Dict V), ds.Nodup → (∀ d ∈ ds, d ∈ dkeys ns) →
    ∃ r, moveSubgroups ds ns sub = .ok r := by
  induction ds with
  | nil => intro ns sub _ _; exact ⟨_, rfl⟩
  | cons d ds ih =>
    intro ns sub hn hm
    obtain ⟨v, hv⟩ := dget_some_of_mem (hm d (by simp))
    simp only [moveSubgroups, hv]
    have hn' := List.nodup_cons.mp hn
    refine ih _ _ hn'.2 (fun d' hd' => ?_)
    exact (mem_dkeys_ddel _ _ _).mpr ⟨hm d' (by simp [hd']), fun e => hn'.1 (e ▸ hd')⟩

theorem removeSubgroups_ok (ws : List (DcW V)) (raw : Dict V)
    (hp : ∀ d ∈ subgroupDests ws, d ∈ dkeys raw) (ha : dhas raw "subgroups".toList = false)
    (hr : subgroupsIsRootDest ws = false) : ∃ r, removeSubgroups ws raw = .ok r := by
  simp only [removeSubgroups]
  split
  · exact ⟨_, rfl⟩
  · rename_i d ds he
    simp only [ha, hr, Bool.false_eq_true, ↓reduceIte]
    obtain ⟨r, hr'⟩ := moveSubgroups_ok (d :: ds) raw [] (he ▸ nodup_dedup _) (he ▸ hp)
    rw [hr']
    exact ⟨_, rfl⟩

/-! ### the initial constructor arguments -/

theorem dkeys_foldl_csetdefault (l : List Str) : ∀ (c : CArgs V), (dkeys c ++ l).Nodup →
    dkeys (l.foldl csetdefault c) = dkeys c ++ l := by
  induction l with
  | nil => intro c _; simp
  | cons d l ih =>
    intro c hn
    have hd : d ∉ dkeys c := by
      intro e
      have := (List.nodup_append.mp hn).2.2 d e d (by simp)
      exact this rfl
    have hh : dhas c d = false := by
      cases h : dhas c d with
      | false => rfl
      | true => exact absurd ((dhas_iff c d).mp h) hd
    simp only [List.foldl_cons, csetdefault, hh, Bool.false_eq_true, ↓reduceIte]
    have hk : dkeys (c ++ [(d, ([] : Dict V))]) = dkeys c ++ [d] := by simp [dkeys]
    rw [ih _ (by rw [hk, List.append_assoc]; exact hn), hk, List.append_assoc]; rfl

theorem flatMap_dests (ws : List (DcW V)) (h : ∀ w ∈ ws, w.dests = [w.dest]) :
    ws.flatMap (·.dests) = ws.map (·.dest) := by
  induction ws with
  | nil => rfl
  | cons w ws ih =>
    simp only [List.flatMap_cons, List.map_cons, h w (by simp)]
    rw [ih (fun x hx => h x (by simp [hx]))]; rfl

theorem dkeys_initCArgs (ps : PState V) (h0 : ps.cargs0 = []) (hd : ∀ w ∈ ps.wrappers, w.dests = [w.dest])
    (hn : (ps.wrappers.map (·.dest)).Nodup) : dkeys (initCArgs ps) = ps.wrappers.map (·.dest) := by
  simp only [initCArgs, h0, flatMap_dests _ hd]
  have := dkeys_foldl_csetdefault (ps.wrappers.map (·.dest)) ([] : CArgs V) (by simpa [dkeys] using hn)
  simpa [dkeys] using this

/-! ### `_fill_constructor_arguments_with_fields` returns and keeps the keys of the constructor arguments -/

theorem fillField_ok (A : Alg V) (s : Bool) (w : DcW V) (f : FieldW V) (st : Dict V × CArgs V)
    (hf : FieldOk w f) (hw : w.dest ∈ dkeys st.2) :
    ∃ st', fillField A s f st = .ok st' ∧ dkeys st'.2 = dkeys st.2 := by
  simp only [fillField]
  split
  · exact ⟨st, rfl, rfl⟩
  · split
    · exact ⟨st, rfl, rfl⟩
    · split
      · exact ⟨st, rfl, rfl⟩
      · rename_i hs _
        simp only [fieldCall, hf.1]
        have hs' : f.isSubgroup = false := by simpa using hs
        simp only [hs', Bool.false_eq_true, ↓reduceIte]
        exact ⟨_, rfl, by simp only; rw [hf.2]; exact dkeys_csetIn_of_mem _ _ _ _ hw⟩

theorem fillFields_ok (A : Alg V) (s : Bool) (w : DcW V) (fs : List (FieldW V)) : ∀ (st : Dict V × CArgs V),
    (∀ f ∈ fs, FieldOk w f) → w.dest ∈ dkeys st.2 →
    ∃ st', fillFields A s fs st = .ok st' ∧ dkeys st'.2 = dkeys st.2 := by
  induction fs with
  | nil => intro st _ _; exact ⟨st, rfl, rfl⟩
  | cons f fs ih =>
    intro st hf hw
    obtain ⟨st1, h1, k1⟩ := fillField_ok A s w f st (hf f (by simp)) hw
    obtain ⟨st2, h2, k2⟩ := ih st1 (fun g hg => hf g (by simp [hg])) (k1 ▸ hw)
    exact ⟨st2, by simp only [fillFields, h1]; exact h2, k2.trans k1⟩

theorem fillWrappers_ok (A : Alg V) (ws : List (DcW V)) : ∀ (st : Dict V × CArgs V),
    (∀ w ∈ ws, ∀ f ∈ w.fields, FieldOk w f) → (∀ w ∈ ws, w.dest ∈ dkeys st.2) →
    ∃ st', fillWrappers A ws st = .ok st' ∧ dkeys st'.2 = dkeys st.2 := by
  induction ws with
  | nil => intro st _ _; exact ⟨st, rfl, rfl⟩
  | cons w ws ih =>
    intro st hf hw
    obtain ⟨st1, h1, k1⟩ := fillFields_ok A w.suppress w w.fields st (hf w (by simp)) (hw w (by simp))
    obtain ⟨st2, h2, k2⟩ := ih st1 (fun x hx => hf x (by simp [hx])) (fun x hx => k1 ▸ hw x (by simp [hx]))
    exact ⟨st2, by simp only [fillWrappers, h1]; exact h2, k2.trans k1⟩

/-! ### `_instantiate_dataclasses` returns and consumes every constructor-argument dict -/

theorem createInstance_ok (A : Alg V) (hA : ConstructTotal A) (w : DcW V) (args : Dict V) (ho : w.optNone = false) :
    ∃ v, createInstance A w args = .ok v := by
  simp only [createInstance, ho, Bool.false_eq_true, ↓reduceIte]
  cases hc : A.construct w.ctor args with
  | none => exact absurd hc (hA _ _)
  | some v => exact ⟨v, rfl⟩

theorem instDest_ok (A : Alg V) (hA : ConstructTotal A) (dk : List Str) (w : DcW V) (d : Str) (st : Dict V × CArgs V)
    (ho : w.optNone = false) (hd : d ∈ dkeys st.2)
    (hp : w.hasParent = true → (splitDest d).1 ∈ dkeys (ddel st.2 d))
    (hc : w.hasParent = false → d ∉ dkeys st.1) :
    ∃ st', instDest A dk w d st = .ok st' ∧ dkeys st'.2 = dkeys (ddel st.2 d) := by
  obtain ⟨args, ha⟩ := dget_some_of_mem hd
  simp only [instDest, ha]
  by_cases hs : w.suppress = true
  · simp only [hs, ↓reduceIte]
    by_cases he : args.isEmpty = true
    · simp only [he, ↓reduceIte]; exact ⟨_, rfl, rfl⟩
    · simp only [he, Bool.false_eq_true, ↓reduceIte]
      by_cases hpar : w.hasParent = true
      · simp only [hpar, ↓reduceIte]
        exact ⟨_, rfl, dkeys_csetIn_of_mem _ _ _ _ (hp hpar)⟩
      · have hpar' : w.hasParent = false := by simpa using hpar
        have hn : dhas st.1 d = false := by
          cases h : dhas st.1 d with
          | false => rfl
          | true => exact absurd ((dhas_iff _ _).mp h) (hc hpar')
        simp only [hpar', Bool.false_eq_true, ↓reduceIte, hn, Bool.not_false]
        exact ⟨_, rfl, rfl⟩
  · have hs' : w.suppress = false := by simpa using hs
    obtain ⟨v, hv⟩ := createInstance_ok A hA w args ho
    simp only [hs', Bool.false_eq_true, ↓reduceIte, hv]
    by_cases hpar : w.hasParent = true
    · simp only [hpar, ↓reduceIte]
      exact ⟨_, rfl, dkeys_csetIn_of_mem _ _ _ _ (hp hpar)⟩
    · have hpar' : w.hasParent = false := by simpa using hpar
      have hn : dhas st.1 d = false := by
        cases h : dhas st.1 d with
        | false => rfl
        | true => exact absurd ((dhas_iff _ _).mp h) (hc hpar')
      simp only [hpar', Bool.false_eq_true, ↓reduceIte, hn, Bool.not_false]
      exact ⟨_, rfl, rfl⟩

theorem instWrappers_ok (A : Alg V) (hA : ConstructTotal A) (dk : List Str) (L : List (DcW V)) :
    ∀ (st : Dict V × CArgs V), ParentsLater L → (L.map (·.dest)).Nodup → (∀ w ∈ L, w.dests = [w.dest]) →
    (∀ w ∈ L, w.optNone = false) → (∀ k, k ∈ dkeys st.2 ↔ k ∈ L.map (·.dest)) →
    (∀ d ∈ rootDests L, d ∉ dkeys st.1) →
    ∃ st', instWrappers A dk L st = .ok st' ∧ dkeys st'.2 = [] := by
  induction L with
  | nil =>
    intro st _ _ _ _ hk _
    exact ⟨st, rfl, List.eq_nil_iff_forall_not_mem.mpr (fun k hk' => by simpa using (hk k).mp hk')⟩
  | cons w t ih =>
    intro st hpl hn hd ho hk hr
    have hn' := List.nodup_cons.mp (by simpa using hn : (w.dest :: t.map (·.dest)).Nodup)
    have hdel : ∀ k, k ∈ dkeys (ddel st.2 w.dest) ↔ k ∈ t.map (·.dest) := by
      intro k
      rw [mem_dkeys_ddel, hk k]
      simp only [List.map_cons, List.mem_cons]
      constructor
      · rintro ⟨e | e, ne⟩
        · exact absurd e ne
        · exact e
      · intro e; exact ⟨Or.inr e, fun c => hn'.1 (c ▸ e)⟩
    have hwd := hd w (by simp)
    have hroot : w.hasParent = false → w.dest ∉ dkeys st.1 := fun hp =>
      hr _ (mem_rootDests.mpr ⟨w, by simp, hp, by simp [hwd]⟩)
    obtain ⟨st1, h1, k1⟩ := instDest_ok A hA dk w w.dest st (ho w (by simp)) ((hk _).mpr (by simp))
      (fun hp => (hdel _).mpr (hpl.1 hp)) hroot
    obtain ⟨_, a2, _, _⟩ := instDest_frame A dk w w.dest st st1 h1
    have hr1 : ∀ d ∈ rootDests t, d ∉ dkeys st1.1 := by
      intro d hdt hm
      obtain ⟨x, hx, hxp, hxd⟩ := mem_rootDests.mp hdt
      rcases a2 d hm with c | ⟨_, c⟩
      · exact hr d (mem_rootDests.mpr ⟨x, by simp [hx], hxp, hxd⟩) c
      · have : d = x.dest := by simpa [hd x (by simp [hx])] using hxd
        exact hn'.1 (by rw [← c, this]; exact List.mem_map.mpr ⟨x, hx, rfl⟩)
    obtain ⟨st2, h2, k2⟩ := ih st1 hpl.2 hn'.2 (fun x hx => hd x (by simp [hx])) (fun x hx => ho x (by simp [hx]))
      (fun k => by rw [k1]; exact hdel k) hr1
    refine ⟨st2, ?_, k2⟩
    simp only [instWrappers, hwd, instDests, h1]
    exact h2


/-! ### `_postprocessing` returns -/

theorem length_eq_of_dkeys {α : Type} (c : Dict α) (l : List Str) (h : dkeys c = l) : c.length = l.length := by
  rw [← h]; simp [dkeys]

theorem postprocess_total (A : Alg V) (hA : ConstructTotal A) (ps : PState V) (raw : Dict V)
    (h : WellFormed ps raw) : ∃ n, postprocess A ps raw = .ok n := by
  obtain ⟨h0, hd, hn, hf, hpl, ho, hsp, hsa, hsr, hroot⟩ := h
  obtain ⟨⟨ns1, sub⟩, h1⟩ := removeSubgroups_ok ps.wrappers raw hsp hsa hsr
  have k1 := (removeSubgroups_spec _ _ _ _ h1).2
  have hki := dkeys_initCArgs ps h0 hd hn
  obtain ⟨st2, h2, k2⟩ := fillWrappers_ok A ps.wrappers (ns1, initCArgs ps) hf
    (fun w hw => by simp only; rw [hki]; exact List.mem_map.mpr ⟨w, hw, rfl⟩)
  have k2' : dkeys st2.2 = ps.wrappers.map (·.dest) := k2.trans hki
  have hfill : fill A ps ns1 (initCArgs ps) = .ok st2 := by
    have hl : (initCArgs ps).length = ps.wrappers.length := by
      rw [length_eq_of_dkeys _ _ hki]; simp
    simp only [fill, hl, bne_self_eq_false, Bool.and_false, Bool.false_eq_true, ↓reduceIte]
    exact h2
  have hperm := sortDesc_perm ps.wrappers
  obtain ⟨st3, h3, k3⟩ := instWrappers_ok A hA ps.defaultsKeys (sortDesc ps.wrappers) st2 hpl
    ((hperm.map (·.dest)).nodup_iff.mpr hn) (fun w hw => hd w (hperm.mem_iff.mp hw))
    (fun w hw => ho w (hperm.mem_iff.mp hw))
    (fun k => by rw [k2']; exact ((hperm.map (·.dest)).mem_iff).symm)
    (fun d hdr hm => by
      have hdr' := (rootDests_sortDesc_perm ps.wrappers).mem_iff.mp hdr
      have m1 := (fillWrappers_spec A _ _ _ h2).2.1 d hm
      exact hroot d hdr' ((k1 d).mp m1).1)
  have hinst : instantiate A ps st2.1 st2.2 = .ok st3.1 := by
    have hl : st2.2.length = ps.wrappers.length := by
      rw [length_eq_of_dkeys _ _ k2']; simp
    have he : st3.2 = [] := by
      have : st3.2.map (·.1) = [] := k3
      simpa using this
    simp only [instantiate, hl, bne_self_eq_false, Bool.and_false, Bool.false_eq_true, ↓reduceIte]
    have : instWrappers A ps.defaultsKeys (sortDesc ps.wrappers) (st2.1, st2.2) = .ok (st3.1, st3.2) := h3
    rw [this]
    simp [he]
  refine ⟨{ attrs := st3.1, subgroups := sub }, ?_⟩
  simp only [postprocess, h1]
  have : fill A ps ns1 (initCArgs ps) = .ok (st2.1, st2.2) := hfill
  rw [this]
  simp only [hinst]

/-! ### `ParentsLater` of the level-sorted list follows from the level structure -/

theorem insertDesc_sorted (w : DcW V) (l : List (DcW V)) (h : l.Pairwise (fun a b => b.level ≤ a.level)) :
    (insertDesc w l).Pairwise (fun a b => b.level ≤ a.level) := by
  induction l with
  | nil => simp [insertDesc]
  | cons x xs ih =>
    simp only [insertDesc]
    have hx := List.pairwise_cons.mp h
    split
    · rename_i hle
      refine List.pairwise_cons.mpr ⟨fun b hb => ?_, h⟩
      rcases List.mem_cons.mp hb with rfl | hb
      · exact hle
      · exact Nat.le_trans (hx.1 b hb) hle
    · rename_i hle
      refine List.pairwise_cons.mpr ⟨fun b hb => ?_, ih hx.2⟩
      rcases List.mem_cons.mp ((insertDesc_perm w xs).mem_iff.mp hb) with rfl | hb
      · exact Nat.le_of_lt (Nat.lt_of_not_le hle)
      · exact hx.1 b hb

theorem sortDesc_sorted (l : List (DcW V)) : (sortDesc l).Pairwise (fun a b => b.level ≤ a.level) := by
  induction l with
  | nil => simp [sortDesc]
  | cons w ws ih => exact insertDesc_sorted w _ ih

theorem parentsLater_of_sorted (L : List (DcW V)) : ∀ (pre : List (DcW V)),
    (pre ++ L).Pairwise (fun a b => b.level ≤ a.level) →
    (∀ w ∈ L, w.hasParent = true → ∃ p ∈ pre ++ L, p.dest = (splitDest w.dest).1 ∧ p.level < w.level) →
    ParentsLater L := by
  induction L with
  | nil => intro _ _ _; trivial
  | cons w t ih =>
    intro pre hs hp
    refine ⟨fun hpar => ?_, ih (pre ++ [w]) (by simpa using hs) (fun x hx hxp => ?_)⟩
    · obtain ⟨p, hpm, hpd, hpl⟩ := hp w (by simp) hpar
      rcases List.mem_append.mp hpm with hpre | hrest
      · have := (List.pairwise_append.mp hs).2.2 p hpre w (by simp)
        exact absurd hpl (Nat.not_lt.mpr this)
      · rcases List.mem_cons.mp hrest with rfl | ht
        · exact absurd hpl (Nat.lt_irrefl _)
        · exact hpd ▸ List.mem_map.mpr ⟨p, ht, rfl⟩
    · obtain ⟨p, hpm, hpd, hpl⟩ := hp x (by simp [hx]) hxp
      exact ⟨p, by simpa using hpm, hpd, hpl⟩

/-- every wrapper with a parent has that parent (the wrapper at `split_dest(dest)[0]`) strictly higher up -/
def ParentsAbove (ws : List (DcW V)) : Prop :=
  ∀ w ∈ ws, w.hasParent = true → ∃ p ∈ ws, p.dest = (splitDest w.dest).1 ∧ p.level < w.level

theorem parentsLater_sortDesc (ws : List (DcW V)) (h : ParentsAbove ws) : ParentsLater (sortDesc ws) :=
  parentsLater_of_sorted (sortDesc ws) [] (by simpa using sortDesc_sorted ws)
    (fun w hw hp => by
      obtain ⟨p, hpm, hpd, hpl⟩ := h w ((sortDesc_perm ws).mem_iff.mp hw) hp
      exact ⟨p, by simpa using (sortDesc_perm ws).mem_iff.mpr hpm, hpd, hpl⟩)

end SpVerif.Post
