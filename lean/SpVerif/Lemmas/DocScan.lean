/-
  Lemmas about the string primitives and line classifiers of `SpVerif.Model.DocScan`
  (used by Props/C19.lean).
-/
import SpVerif.Model.DocScan
namespace SpVerif.DocScan
open SpVerif

/-! ### before / after -/

theorem mem_before {x c : Char} {s : Str} (h : c ∈ before x s) : c ∈ s := by
  induction s with
  | nil => simp [before] at h
  | cons y ys ih =>
    simp only [before] at h
    split at h
    · simp at h
    · rcases List.mem_cons.mp h with h | h
      · simp [h]
      · exact List.mem_cons_of_mem _ (ih h)

theorem before_append_left {x : Char} {a : Str} (b : Str) (h : x ∉ a) :
    before x (a ++ b) = a ++ before x b := by
  induction a with
  | nil => rfl
  | cons y ys ih =>
    have hy : y ≠ x := fun e => h (by simp [e])
    have hys : x ∉ ys := fun e => h (List.mem_cons_of_mem _ e)
    simp [before, hy, ih hys]

theorem before_cons_self (x : Char) (b : Str) : before x (x :: b) = [] := by simp [before]

theorem before_stop {x : Char} {a : Str} (b : Str) (h : x ∉ a) : before x (a ++ x :: b) = a := by
  rw [before_append_left _ h, before_cons_self]; simp

theorem before_of_not_mem {x : Char} {a : Str} (h : x ∉ a) : before x a = a := by
  have := before_append_left (x := x) [] h
  simpa [before] using this

theorem after_stop {x : Char} {a : Str} (b : Str) (h : x ∉ a) : after x (a ++ x :: b) = b := by
  induction a with
  | nil => simp [after]
  | cons y ys ih =>
    have hy : y ≠ x := fun e => h (by simp [e])
    have hys : x ∉ ys := fun e => h (List.mem_cons_of_mem _ e)
    simp [after, hy, ih hys]

theorem contains_false_iff {c : Char} {s : Str} : s.contains c = false ↔ c ∉ s := by
  rw [← Bool.not_eq_true, List.contains_iff_mem]

/-! ### whitespace stripping -/

def allSpace (s : Str) : Prop := ∀ c ∈ s, isSpace c = true

theorem lstripWs_space {ws : Str} (s : Str) (h : allSpace ws) : lstripWs (ws ++ s) = lstripWs s := by
  induction ws with
  | nil => rfl
  | cons y ys ih =>
    have hy : isSpace y = true := h y (by simp)
    have hys : allSpace ys := fun c hc => h c (List.mem_cons_of_mem _ hc)
    simp [lstripWs, hy, ih hys]

theorem lstripWs_cons {c : Char} (s : Str) (h : isSpace c = false) : lstripWs (c :: s) = c :: s := by
  simp [lstripWs, h]

theorem lstripWs_mid {c : Char} (u v : Str) (h : isSpace c = false) :
    lstripWs (u ++ c :: v) = lstripWs u ++ c :: v := by
  induction u with
  | nil => simp [lstripWs, h]
  | cons y ys ih =>
    by_cases hy : isSpace y = true
    · simp [lstripWs, hy, ih]
    · simp [lstripWs, hy]

theorem mem_lstripWs {c : Char} {s : Str} (h : c ∈ lstripWs s) : c ∈ s := by
  induction s with
  | nil => simp [lstripWs] at h
  | cons y ys ih =>
    simp only [lstripWs] at h
    split at h
    · exact List.mem_cons_of_mem _ (ih h)
    · exact h

/-- right strip -/
def rstripWs (s : Str) : Str := (lstripWs s.reverse).reverse

theorem stripWs_eq (s : Str) : stripWs s = rstripWs (lstripWs s) := rfl

theorem mem_rstripWs {c : Char} {s : Str} (h : c ∈ rstripWs s) : c ∈ s := by
  unfold rstripWs at h
  have := mem_lstripWs (List.mem_reverse.mp h)
  exact List.mem_reverse.mp this

theorem mem_stripWs {c : Char} {s : Str} (h : c ∈ stripWs s) : c ∈ s :=
  mem_lstripWs (mem_rstripWs h)

theorem rstripWs_mid {c : Char} (p z : Str) (h : isSpace c = false) :
    rstripWs (p ++ c :: z) = p ++ c :: rstripWs z := by
  unfold rstripWs
  rw [List.reverse_append, List.reverse_cons, List.append_assoc]
  simp only [List.singleton_append]
  rw [lstripWs_mid _ _ h]
  simp

theorem stripWs_space_left {ws : Str} (s : Str) (h : allSpace ws) : stripWs (ws ++ s) = stripWs s := by
  rw [stripWs_eq, stripWs_eq, lstripWs_space _ h]

theorem lstripWs_allSpace {ws : Str} (h : allSpace ws) : lstripWs ws = [] := by
  have := lstripWs_space [] h
  simpa [lstripWs] using this

theorem stripWs_allSpace {ws : Str} (h : allSpace ws) : stripWs ws = [] := by
  rw [stripWs_eq, lstripWs_allSpace h]; rfl

theorem lstripWs_noSpace {s : Str} (h : ∀ c ∈ s, isSpace c = false) : lstripWs s = s := by
  cases s with
  | nil => rfl
  | cons y ys => exact lstripWs_cons _ (h y (by simp))

theorem stripWs_noSpace {s : Str} (h : ∀ c ∈ s, isSpace c = false) : stripWs s = s := by
  rw [stripWs_eq, lstripWs_noSpace h]
  unfold rstripWs
  rw [lstripWs_noSpace (fun c hc => h c (List.mem_reverse.mp hc))]
  simp

theorem indent_allSpace : allSpace indent := by
  intro c hc
  simp only [indent, List.mem_cons, List.not_mem_nil, or_false] at hc
  rcases hc with h | h | h | h <;> subst h <;> decide

/-! ### identifiers -/

theorem idChar_props (c : Char) (h : (isIdStart c || isIdCont c) = true) :
    isSpace c = false ∧ c ≠ ':' ∧ c ≠ '#' ∧ c ≠ '=' := by
  refine ⟨?_, ?_, ?_, ?_⟩
  · cases hs : isSpace c with
    | false => rfl
    | true =>
      exfalso
      simp only [isSpace, Bool.or_eq_true, decide_eq_true_eq] at hs
      rcases hs with (((((((((hs | hs) | hs) | hs) | hs) | hs) | hs) | hs) | hs) | hs) <;> subst hs <;> revert h <;> decide
  · intro e; subst e; revert h; decide
  · intro e; subst e; revert h; decide
  · intro e; subst e; revert h; decide

theorem ident_chars {n : Str} (h : isIdentifier n = true) :
    ∀ c ∈ n, isSpace c = false ∧ c ≠ ':' ∧ c ≠ '#' ∧ c ≠ '=' := by
  cases n with
  | nil => simp [isIdentifier] at h
  | cons y ys =>
    simp only [isIdentifier, Bool.and_eq_true, List.all_eq_true] at h
    intro c hc
    rcases List.mem_cons.mp hc with e | e
    · subst e; exact idChar_props _ (by simp [h.1])
    · exact idChar_props _ (by simp [h.2 c e])

theorem ident_ne_nil {n : Str} (h : isIdentifier n = true) : n ≠ [] := by
  intro e; subst e; simp [isIdentifier] at h

theorem ident_strip {n : Str} (h : isIdentifier n = true) : stripWs n = n :=
  stripWs_noSpace (fun c hc => (ident_chars h c hc).1)

theorem ident_not_mem {n : Str} (h : isIdentifier n = true) : ':' ∉ n ∧ '#' ∉ n ∧ '=' ∉ n :=
  ⟨fun hc => (ident_chars h _ hc).2.1 rfl, fun hc => (ident_chars h _ hc).2.2.1 rfl,
   fun hc => (ident_chars h _ hc).2.2.2 rfl⟩

/-! ### substring search for the triple-quote tokens -/

theorem breakOn_absent (q : Char) {s : Str} (h : q ∉ s) : breakOn [q, q, q] s = none := by
  induction s with
  | nil => simp [breakOn]
  | cons y ys ih =>
    have hy : y ≠ q := fun e => h (by simp [e])
    have hys : q ∉ ys := fun e => h (List.mem_cons_of_mem _ e)
    simp [breakOn, startsWith, hy, ih hys]

theorem breakOn_first (q : Char) {a : Str} (r : Str) (h : q ∉ a) :
    breakOn [q, q, q] (a ++ q :: q :: q :: r) = some (a, r) := by
  induction a with
  | nil => simp [breakOn, startsWith]
  | cons y ys ih =>
    have hy : y ≠ q := fun e => h (by simp [e])
    have hys : q ∉ ys := fun e => h (List.mem_cons_of_mem _ e)
    simp [breakOn, startsWith, hy, ih hys]

theorem before_append_of_mem {x : Char} {P : Str} (S : Str) (h : x ∈ P) :
    before x (P ++ S) = before x P := by
  induction P with
  | nil => simp at h
  | cons y ys ih =>
    by_cases hy : y = x
    · simp [before, hy]
    · have : x ∈ ys := by
        rcases List.mem_cons.mp h with e | e
        · exact absurd e.symm hy
        · exact e
      simp [before, hy, ih this]

/-- what precedes the first `x` of a prefix also precedes the first `x` of the whole -/
theorem mem_before_prefix {x c : Char} {P : Str} (S : Str) (h : c ∈ before x P) :
    c ∈ before x (P ++ S) := by
  by_cases hx : x ∈ P
  · rw [before_append_of_mem _ hx]; exact h
  · rw [before_append_left _ hx]
    exact List.mem_append_left _ (mem_before h)

theorem mem_before_append {x c : Char} {A B : Str} (h : c ∈ before x (A ++ B)) :
    c ∈ A ∨ c ∈ before x B := by
  by_cases hx : x ∈ A
  · rw [before_append_of_mem _ hx] at h; exact Or.inl (mem_before h)
  · rw [before_append_left _ hx] at h; exact List.mem_append.mp h

theorem lstripWs_decomp (s : Str) : ∃ ws, s = ws ++ lstripWs s := by
  induction s with
  | nil => exact ⟨[], rfl⟩
  | cons y ys ih =>
    by_cases hy : isSpace y = true
    · obtain ⟨ws, hws⟩ := ih
      refine ⟨y :: ws, ?_⟩
      simp only [lstripWs, hy, ↓reduceIte, List.cons_append]
      rw [← hws]
    · exact ⟨[], by simp [lstripWs, hy]⟩

theorem rstripWs_decomp (s : Str) : ∃ ws, s = rstripWs s ++ ws := by
  obtain ⟨ws, hws⟩ := lstripWs_decomp s.reverse
  refine ⟨ws.reverse, ?_⟩
  have := congrArg List.reverse hws
  simpa [rstripWs] using this

theorem mem_before_rstripWs {x c : Char} {Z : Str} (h : c ∈ before x (rstripWs Z)) : c ∈ before x Z := by
  obtain ⟨ws, hws⟩ := rstripWs_decomp Z
  have := mem_before_prefix ws h
  rwa [← hws] at this

theorem breakOn_skip_prefix (o : Char) {A : Str} (w : Str) (h : o ∉ A) (hw : breakOn [o, o, o] w = none) :
    breakOn [o, o, o] (A ++ w) = none := by
  induction A with
  | nil => simpa using hw
  | cons y ys ih =>
    have hy : y ≠ o := fun e => h (by simp [e])
    have hys : o ∉ ys := fun e => h (List.mem_cons_of_mem _ e)
    simp [breakOn, startsWith, hy, ih hys]

/-! ### the field-definition classifier -/

theorem cfd_no_colon {l : Str} (h : ':' ∉ before '#' l) : containsFieldDef l = false := by
  simp only [containsFieldDef, contains_false_iff.mpr h]
  simp

theorem cfd_no_colon' {l : Str} (h : ':' ∉ l) : containsFieldDef l = false :=
  cfd_no_colon (fun hc => h (mem_before hc))

/-- a line whose first non-blank character cannot start an identifier (a quote, `#`, `)`, …) is
    not a field definition, whatever follows -/
theorem cfd_nonident_start {ws : Str} (c : Char) (rest : Str) (hws : allSpace ws)
    (hs : isSpace c = false) (hi : isIdStart c = false) (h1 : c ≠ '#') (h2 : c ≠ '=') (h3 : c ≠ ':') :
    containsFieldDef (ws ++ c :: rest) = false := by
  have hsp : ∀ x : Char, isSpace x = false → x ∉ ws := by
    intro x hx hc; rw [hws x hc] at hx; cases hx
  have key : ∀ (x : Char), isSpace x = false → x ≠ c → ∀ r : Str, before x (ws ++ c :: r) = ws ++ c :: before x r := by
    intro x hx hxc r
    rw [before_append_left _ (hsp x hx)]
    simp [before, Ne.symm hxc]
  have hfn : ∀ r : Str, isIdentifier (stripWs (ws ++ c :: r)) = false := by
    intro r
    rw [stripWs_eq, lstripWs_space _ hws, lstripWs_cons _ hs]
    have := rstripWs_mid [] r hs
    simp only [List.nil_append] at this
    rw [this]
    simp [isIdentifier, hi]
  unfold containsFieldDef
  simp only [key '#' (by decide) (Ne.symm h1)]
  split
  · rfl
  · split
    · simp only [key '=' (by decide) (Ne.symm h2), key ':' (by decide) (Ne.symm h3), hfn]
      split <;> simp
    · simp only [key ':' (by decide) (Ne.symm h3), hfn]
      split <;> simp

theorem before_prefix {x : Char} {P : Str} (Z : Str) (hP : x ∉ P) (hx : x ≠ ':') :
    before x (P ++ ':' :: Z) = P ++ ':' :: before x Z := by
  have h : x ∉ P ++ [':'] := by
    intro hc
    rcases List.mem_append.mp hc with h | h
    · exact hP h
    · simp at h; exact hx h
  have := before_append_left (x := x) Z h
  simpa [List.append_assoc] using this

/-- a line `<blanks><identifier>:<rest without ':'>` is a field definition -/
theorem cfd_def {ws n Z : Str} (hws : allSpace ws) (hn : isIdentifier n = true)
    (hZ1 : ':' ∉ before '#' Z) : containsFieldDef (ws ++ n ++ ':' :: Z) = true := by
  obtain ⟨hnc, hnh, hne⟩ := ident_not_mem hn
  have hsp : ∀ x : Char, isSpace x = false → x ∉ ws := by
    intro x hx hc; rw [hws x hc] at hx; cases hx
  have hP : ∀ x : Char, isSpace x = false → x ∉ n → x ∉ ws ++ n := by
    intro x hx hxn hc
    rcases List.mem_append.mp hc with h | h
    · exact hsp x hx h
    · exact hxn h
  have hPc : ':' ∉ ws ++ n := hP ':' (by decide) hnc
  have hPh : '#' ∉ ws ++ n := hP '#' (by decide) hnh
  have hPe : '=' ∉ ws ++ n := hP '=' (by decide) hne
  have hZ2 : ':' ∉ before '=' (before '#' Z) := fun hc => hZ1 (mem_before hc)
  have hstrip : stripWs (ws ++ n) = n := by rw [stripWs_space_left _ hws, ident_strip hn]
  have hnn : n ≠ [] := ident_ne_nil hn
  unfold containsFieldDef
  simp only [before_prefix Z hPh (by decide)]
  have hcol : (ws ++ n ++ ':' :: before '#' Z).contains ':' = true := by
    rw [List.contains_iff_mem]; simp
  simp only [hcol, Bool.not_true, Bool.false_eq_true, ↓reduceIte]
  split
  · rw [before_prefix _ hPe (by decide), before_stop _ hPc, after_stop _ hPc, hstrip]
    simp [hZ2, hnn, hn]
  · rw [before_stop _ hPc, after_stop _ hPc, hstrip]
    simp [hZ1, hnn, hn]

/-- exact identifier comparison: such a line defines `m` iff `m` is the identifier written there -/
theorem lineDefines_def {ws n Z : Str} (m : Str) (hws : allSpace ws) (hn : isIdentifier n = true)
    (hZ' : ':' ∉ before '#' (rstripWs Z)) : lineDefines (ws ++ n ++ ':' :: Z) m = (n == m) := by
  obtain ⟨hnc, _, _⟩ := ident_not_mem hn
  have hstrip : stripWs (ws ++ n ++ ':' :: Z) = n ++ ':' :: rstripWs Z := by
    rw [stripWs_eq, List.append_assoc, lstripWs_space _ hws]
    cases n with
    | nil => simp [isIdentifier] at hn
    | cons c cs =>
      have hc : isSpace c = false := (ident_chars hn c (by simp)).1
      rw [List.cons_append, lstripWs_cons _ hc, ← List.cons_append, rstripWs_mid _ _ (by decide)]
  have hcfd : containsFieldDef (n ++ ':' :: rstripWs Z) = true := by
    have := cfd_def (ws := []) (fun _ h => by simp at h) hn hZ'
    simpa using this
  unfold lineDefines
  simp only [hstrip, hcfd, Bool.not_true, Bool.false_eq_true, ↓reduceIte, before_stop _ hnc,
    ident_strip hn, hn, Bool.true_and]

/-! ### well-formed blocks, unpacked -/

structure WF (b : Block) : Prop where
  name : isIdentifier b.name = true
  tailC : ':' ∉ b.tail
  tailOk : tailOk b.tail = true
  above : ∀ m ∈ b.above, hasTriple (commentLine m) = false
  below : match b.below with
    | .none => True
    | .one q m => q.ch ∉ m ∧ breakOn q.other.tok (m ++ q.tok) = none
    | .multi q f r => q.ch ∉ f ∧ breakOn q.other.tok f = none ∧
        ∀ m ∈ r, q.ch ∉ m ∧ containsFieldDef (indent ++ m) = false

theorem wf_of {b : Block} (h : b.wf = true) : WF b := by
  simp only [Block.wf, Block.wfLoose, Block.docLooksLikeDef, Bool.and_eq_true, Bool.not_eq_eq_eq_not,
    Bool.not_true, contains_false_iff, List.all_eq_true] at h
  obtain ⟨⟨⟨⟨⟨h1, h2⟩, h3⟩, h4⟩, h5⟩, h6⟩ := h
  refine ⟨h1, h2, h3, ?_, ?_⟩
  · intro m hm
    have := h4 m hm
    simpa [aboveOk] using this
  · cases hb : b.below with
    | none => trivial
    | one q m =>
      rw [hb] at h5
      simp only [docLineOk, openOk, Bool.and_eq_true, Bool.not_eq_eq_eq_not, Bool.not_true,
        contains_false_iff, Option.isNone_iff_eq_none] at h5
      exact h5
    | multi q f r =>
      rw [hb] at h5 h6
      simp only [docLineOk, openOk, Bool.and_eq_true, Bool.not_eq_eq_eq_not, Bool.not_true,
        contains_false_iff, Option.isNone_iff_eq_none, List.all_eq_true] at h5
      simp only [List.any_eq_false, looksLikeDef] at h6
      refine ⟨h5.1.1, h5.1.2, fun m hm => ⟨h5.2 m hm, ?_⟩⟩
      have := h6 m hm
      simpa using this

/-! ### facts about rendered lines -/

theorem not_mem_indent {c : Char} (h : isSpace c = false) : c ∉ indent := by
  intro hc; rw [indent_allSpace c hc] at h; cases h

theorem tok_eq (q : Quote) : q.tok = [q.ch, q.ch, q.ch] := by cases q <;> rfl

theorem blank_facts : containsFieldDef [] = false ∧ hasTriple [] = false ∧ isEmptyLine [] = true := by
  decide

theorem isStop_blank : isStop [] = false := by decide

theorem comment_facts {m : Str} (h : hasTriple (commentLine m) = false) :
    containsFieldDef (commentLine m) = false ∧ hasTriple (commentLine m) = false ∧
    isEmptyLine (commentLine m) = false ∧ isComment (commentLine m) = true ∧
    commentAt (commentLine m) = stripWs m := by
  have hi : '#' ∉ indent := not_mem_indent (by decide)
  refine ⟨?_, h, ?_, ?_, ?_⟩
  · apply cfd_no_colon
    unfold commentLine
    rw [before_stop _ hi]
    exact not_mem_indent (by decide)
  · unfold isEmptyLine commentLine
    rw [lstripWs_space _ indent_allSpace, lstripWs_cons _ (by decide)]; rfl
  · unfold isComment commentLine
    rw [lstripWs_space _ indent_allSpace, lstripWs_cons _ (by decide)]; rfl
  · unfold commentAt commentLine
    have hc : (indent ++ '#' :: ' ' :: m).contains '#' = true := by
      rw [List.contains_iff_mem]; simp
    rw [hc, after_stop _ hi]
    have : allSpace [' '] := by intro c hc; simp at hc; subst hc; decide
    simpa using stripWs_space_left m this

theorem isHeaderLine_comment (m : Str) : isHeaderLine (commentLine m) = false := by
  unfold isHeaderLine commentLine
  rw [lstripWs_space _ indent_allSpace, lstripWs_cons _ (by decide)]
  simp [startsWith]

theorem isStop_comment {m : Str} (h : hasTriple (commentLine m) = false) : isStop (commentLine m) = false := by
  have := comment_facts h
  simp [isStop, this.1, this.2.1, isHeaderLine_comment]

/-- the inline-comment part of a definition line -/
def inlPart (b : Block) : Str :=
  match b.inline with
  | some m => ' ' :: ' ' :: '#' :: ' ' :: m
  | none => []

theorem defLine_eq (b : Block) : defLine b = indent ++ b.name ++ ':' :: (b.tail ++ inlPart b) := by
  unfold defLine inlPart
  cases b.inline <;> simp [List.append_assoc]

theorem before_inlPart (b : Block) : ':' ∉ before '#' (inlPart b) := by
  unfold inlPart
  cases b.inline with
  | none => simp [before]
  | some m => simp [before]

/-- the part of a definition line before its comment has no second `:` — whatever the inline
    comment says -/
theorem def_rest_ok {b : Block} (h : WF b) :
    ':' ∉ before '#' (b.tail ++ inlPart b) ∧ ':' ∉ before '#' (rstripWs (b.tail ++ inlPart b)) := by
  have h1 : ':' ∉ before '#' (b.tail ++ inlPart b) := by
    intro hc
    rcases mem_before_append hc with e | e
    · exact h.tailC e
    · exact before_inlPart b e
  exact ⟨h1, fun hc => h1 (mem_before_rstripWs hc)⟩

/-! ### the inline comment: first `#` outside a string literal -/

theorem tokScan_run {s s' : TokSt} {A : Str} (R : Str) (h : runTok s A = some s') :
    tokScan s (A ++ R) = tokScan s' R := by
  induction A generalizing s with
  | nil => simp [runTok] at h; subst h; rfl
  | cons c cs ih =>
    simp only [runTok] at h
    simp only [List.cons_append, tokScan]
    cases hs : step s c with
    | next s1 => rw [hs] at h; exact ih h
    | comment => rw [hs] at h; cases h
    | unmodelled => rw [hs] at h; cases h

def identSt : TokSt := ⟨none, [], .ident⟩

theorem step_identCont (c : Char) (h : isIdCont c = true) : step identSt c = .next identSt := by
  have h1 : c ≠ '#' := by intro e; subst e; revert h; decide
  have h2 : c ≠ '"' := by intro e; subst e; revert h; decide
  have h3 : c ≠ '\'' := by intro e; subst e; revert h; decide
  by_cases ha : c.isAlpha = true
  · simp [step, identSt, h1, h2, h3, ha]
  · by_cases hu : c = '_'
    · subst hu; rfl
    · have hd : c.isDigit = true := by
        simp only [isIdCont, Char.isAlphanum, Bool.or_eq_true, decide_eq_true_eq] at h
        rcases h with (h | h) | h
        · exact absurd h ha
        · exact h
        · exact absurd h hu
      simp [step, identSt, h1, h2, h3, ha, hu, hd]

theorem runTok_identCont (cs : Str) (h : cs.all isIdCont = true) : runTok identSt cs = some identSt := by
  induction cs with
  | nil => rfl
  | cons c cs ih =>
    simp only [List.all_cons, Bool.and_eq_true] at h
    simp only [runTok, step_identCont c h.1]
    exact ih h.2

theorem runTok_ident {n : Str} (h : isIdentifier n = true) : runTok st0 n = some identSt := by
  cases n with
  | nil => simp [isIdentifier] at h
  | cons c cs =>
    simp only [isIdentifier, Bool.and_eq_true] at h
    have h1 : c ≠ '#' := by intro e; subst e; exact absurd h.1 (by decide)
    have h2 : c ≠ '"' := by intro e; subst e; exact absurd h.1 (by decide)
    have h3 : c ≠ '\'' := by intro e; subst e; exact absurd h.1 (by decide)
    have hs : step st0 c = .next identSt := by
      have := h.1
      simp only [isIdStart] at this
      simp [step, st0, identSt, h1, h2, h3, this]
    simp only [runTok, hs]
    exact runTok_identCont cs h.2

theorem lstrip_defLine {b : Block} (h : WF b) :
    lstripWs (defLine b) = b.name ++ (':' :: b.tail) ++ inlPart b := by
  rw [defLine_eq, List.append_assoc, lstripWs_space _ indent_allSpace]
  cases hn : b.name with
  | nil => exact absurd hn (ident_ne_nil h.name)
  | cons c cs =>
    have hc : isSpace c = false := (ident_chars h.name c (by simp [hn])).1
    rw [List.cons_append, lstripWs_cons _ hc]
    simp [List.append_assoc]

/-- **the inline comment of a definition line is its own comment**, also when the default value
    contains `#` inside string literals -/
theorem inline_def {b : Block} (h : WF b) : inlineComment (defLine b) = b.doc.inline := by
  have hto := h.tailOk
  unfold tailOk at hto
  cases hr : runTok ⟨none, [], .ident⟩ (':' :: b.tail) with
  | none => rw [hr] at hto; cases hto
  | some s' =>
    rw [hr] at hto
    simp only [Bool.and_eq_true, Option.isNone_iff_eq_none, List.isEmpty_iff] at hto
    obtain ⟨hin, hdep⟩ := hto
    have hrun : runTok st0 (b.name ++ (':' :: b.tail)) = some s' := by
      have h1 := runTok_ident h.name
      have : ∀ (A B : Str) (s t : TokSt), runTok s A = some t → runTok s (A ++ B) = runTok t B := by
        intro A B
        induction A with
        | nil => intro s t ht; simp [runTok] at ht; subst ht; rfl
        | cons c cs ih =>
          intro s t ht
          simp only [runTok] at ht
          simp only [List.cons_append, runTok]
          cases hs : step s c with
          | next s1 => rw [hs] at ht; exact ih s1 t ht
          | comment => rw [hs] at ht; cases ht
          | unmodelled => rw [hs] at ht; cases ht
      rw [this _ _ _ _ h1]; exact hr
    have htok : inlineTok (defLine b) = tokScan s' (inlPart b) := by
      unfold inlineTok
      rw [lstrip_defLine h, tokScan_run _ hrun]
    unfold inlineComment Block.doc
    cases hi : b.inline with
    | none =>
      have hp : inlPart b = [] := by simp [inlPart, hi]
      rw [htok, hp]
      have : tokScan s' [] = .noComment := by simp [tokScan, hin, hdep]
      rw [this]
      cases (defLine b).contains '#' <;> rfl
    | some m =>
      have hp : inlPart b = ' ' :: ' ' :: '#' :: ' ' :: m := by simp [inlPart, hi]
      have hc : (defLine b).contains '#' = true := by
        rw [List.contains_iff_mem, defLine_eq, hp]; simp
      have hsp : step s' ' ' = .next { s' with prev := .other } := by
        simp [step, hin, isSpace]
      have hsp2 : step { s' with prev := .other } ' ' = .next { s' with prev := .other } := by
        simp [step, hin, isSpace]
      have hh : step { s' with prev := .other } '#' = .comment := by
        simp [step, hin]
      have : tokScan s' (' ' :: ' ' :: '#' :: ' ' :: m) = .comment (' ' :: m) := by
        simp only [tokScan, hsp, hsp2, hh]
      rw [htok, hp, this, hc]
      have hs : allSpace [' '] := by intro c hc; simp at hc; subst hc; decide
      simpa using stripWs_space_left m hs

theorem def_facts {b : Block} (h : WF b) :
    containsFieldDef (defLine b) = true ∧ (∀ n, lineDefines (defLine b) n = (b.name == n)) ∧
    inlineComment (defLine b) = b.doc.inline := by
  refine ⟨?_, ?_, inline_def h⟩
  · rw [defLine_eq]; exact cfd_def indent_allSpace h.name (def_rest_ok h).1
  · intro n; rw [defLine_eq]; exact lineDefines_def n indent_allSpace h.name (def_rest_ok h).2

theorem isStop_def {b : Block} (h : WF b) : isStop (defLine b) = true := by
  simp [isStop, (def_facts h).1]

theorem quote_props (q : Quote) : isSpace q.ch = false ∧ isIdStart q.ch = false ∧ q.ch ≠ '#' ∧ q.ch ≠ '=' ∧ q.ch ≠ ':' := by
  cases q <;> decide

/-- a line that starts (after the indent) with a triple quote is not a field definition, whatever
    text follows -/
theorem cfd_tok_line (q : Quote) (w : Str) : containsFieldDef (indent ++ q.tok ++ w) = false := by
  obtain ⟨h1, h2, h3, h4, h5⟩ := quote_props q
  have e : indent ++ q.tok ++ w = indent ++ q.ch :: (q.ch :: q.ch :: w) := by
    rw [tok_eq]; simp [List.append_assoc]
  rw [e]
  exact cfd_nonident_start q.ch _ indent_allSpace h1 h2 h3 h4 h5

theorem below_no_def {b : Block} (h : WF b) : ∀ l ∈ belowLines b.below, containsFieldDef l = false := by
  have hw := h.below
  intro l hl
  cases hb : b.below with
  | none => rw [hb] at hl; simp [belowLines] at hl
  | one q m =>
    rw [hb] at hl
    simp only [belowLines, List.mem_singleton] at hl
    subst hl
    rw [List.append_assoc]
    exact cfd_tok_line q _
  | multi q f r =>
    rw [hb] at hl hw
    simp only [belowLines, List.cons_append, List.mem_cons, List.mem_append, List.mem_map,
      List.mem_nil_iff, or_false] at hl
    rcases hl with e | ⟨m, hm, e⟩ | e
    · subst e; exact cfd_tok_line q f
    · subst e; exact (hw.2.2 m hm).2
    · subst e
      have := cfd_tok_line q []
      simpa using this

end SpVerif.DocScan
