/-
  One-step characterisation of the main loop `consume` of `Model/Engine` (used by Props/C04):
  a successful run is a chain of `Step`s, a failing run is a chain of `Step`s followed by a failure
  AT one option token (`ErrAt`).  Every invariant / rejection theorem of C04 about arbitrary command
  lines is a short induction over these two lemmas instead of a case analysis of `consume`.
-/
import SpVerif.Lemmas.Engine
namespace SpVerif

/-- tokens the loop moves to the leftovers: arguments, `--`, and option-looking tokens no action owns -/
def Tok.isSkip : Tok → Bool
  | .A => true
  | .dd => true
  | .O none _ _ => true
  | .O (some _) _ _ => false

theorem Tok.isSkip_false {t : Tok} (h : t.isSkip = false) : ∃ i o ex, t = .O (some i) o ex := by
  cases t with
  | A => cases h
  | dd => cases h
  | O a o ex =>
    cases a with
    | none => cases h
    | some i => exact ⟨i, o, ex, rfl⟩

end SpVerif

namespace SpVerif.Loop
open SpVerif

/-- how an option occurrence takes its arguments: the explicit `=value` (then the action's `nargs`
    must admit exactly one argument), or the `k` following argument tokens `_match_argument` grants -/
def Taken (n : NArgs) (ex : Option Str) (rest : List (Str × Tok)) (args : List Str)
    (rest2 : List (Str × Tok)) : Prop :=
  match ex with
  | some e => args = [e] ∧ rest2 = rest ∧ arityOk n 1
  | none => ∃ k, matchCount n (rest.map (·.2)) = some k ∧ args = (rest.take k).map (·.1) ∧
      rest2 = rest.drop k

/-- one successful iteration of the loop: state and remaining input before → after -/
inductive Step (fenv : FEnv) (tbl : List Act) :
    St → (Str × Tok) → List (Str × Tok) → St → List (Str × Tok) → Prop
  | skip (st : St) (a : Str) (t : Tok) (rest : List (Str × Tok)) : t.isSkip = true →
      Step fenv tbl st (a, t) rest { st with extras := st.extras ++ [a] } rest
  | act (st : St) (a : Str) (i : Nat) (o : Str) (ex : Option Str) (rest : List (Str × Tok))
      (act : Act) (args : List Str) (st2 : St) (rest2 : List (Str × Tok)) :
      tbl[i]? = some act → act.kind ≠ .help → Taken act.nargs ex rest args rest2 →
      takeAction fenv tbl st i o args = .ok st2 →
      Step fenv tbl st (a, .O (some i) o ex) rest st2 rest2

theorem countA_le_len (l : List Tok) : countA l ≤ l.length := by
  induction l with
  | nil => simp [countA]
  | cons t ts ih => cases t <;> simp [countA] <;> omega

/-- `_match_argument` grants a number of arguments that fits `nargs`, all of them argument tokens -/
theorem matchCount_arity (n : NArgs) (f : List Tok) (k : Nat) (h : matchCount n f = some k) :
    arityOk n k ∧ k ≤ countA f := by
  unfold matchCount at h
  cases n with
  | one =>
    simp only at h
    split at h
    · simp only [Option.some.injEq] at h; subst h; exact ⟨rfl, by omega⟩
    · cases h
  | opt =>
    simp only [Option.some.injEq] at h; subst h
    exact ⟨by simp only [arityOk]; omega, by omega⟩
  | star => simp only [Option.some.injEq] at h; subst h; exact ⟨trivial, Nat.le_refl _⟩
  | plus =>
    simp only at h
    split at h
    · simp only [Option.some.injEq] at h; subst h; rename_i hge; exact ⟨hge, Nat.le_refl _⟩
    · cases h
  | num m =>
    simp only at h
    split at h
    · simp only [Option.some.injEq] at h; subst h; rename_i hge; exact ⟨rfl, hge⟩
    · cases h

theorem Taken.facts {n : NArgs} {ex : Option Str} {rest : List (Str × Tok)} {args : List Str}
    {rest2 : List (Str × Tok)} (h : Taken n ex rest args rest2) :
    arityOk n args.length ∧ ∃ k, rest2 = rest.drop k ∧ k ≤ countA (rest.map (·.2)) := by
  cases ex with
  | some e =>
    obtain ⟨ha, hr, hn⟩ := h
    subst ha; subst hr
    exact ⟨hn, 0, rfl, Nat.zero_le _⟩
  | none =>
    obtain ⟨k, hm, ha, hr⟩ := h
    obtain ⟨h1, h2⟩ := matchCount_arity n _ k hm
    subst ha; subst hr
    refine ⟨?_, k, rfl, h2⟩
    have : k ≤ rest.length := by
      have := countA_le_len (rest.map (·.2))
      simp only [List.length_map] at this
      omega
    simpa [List.length_take, Nat.min_eq_left this] using h1

/-- after a step the remaining input is a suffix of the previous remaining input, and only
    argument tokens were dropped -/
theorem Step.rest_drop {fenv : FEnv} {tbl : List Act} {st : St} {p : Str × Tok}
    {rest : List (Str × Tok)} {st2 : St} {rest2 : List (Str × Tok)}
    (h : Step fenv tbl st p rest st2 rest2) :
    ∃ k, rest2 = rest.drop k ∧ k ≤ countA (rest.map (·.2)) := by
  cases h with
  | skip => exact ⟨0, rfl, Nat.zero_le _⟩
  | act => exact Taken.facts (by assumption) |>.2

theorem countA_append_stop (ps : List (Str × Tok)) (x : Str × Tok) (post : List (Str × Tok))
    (hx : x.2 ≠ .A) : countA ((ps ++ x :: post).map (·.2)) ≤ ps.length := by
  induction ps with
  | nil =>
    obtain ⟨a, t⟩ := x
    cases t with
    | A => exact absurd rfl hx
    | dd => simp [countA]
    | O _ _ _ => simp [countA]
  | cons q qs ih =>
    obtain ⟨a, t⟩ := q
    cases t with
    | A => simp only [List.cons_append, List.map_cons, countA, List.length_cons]; omega
    | dd => simp [countA]
    | O _ _ _ => simp [countA]

/-- an option token further right is never swallowed as an argument of an earlier option -/
theorem Step.keeps_option {fenv : FEnv} {tbl : List Act} {st : St} {p : Str × Tok}
    {ps : List (Str × Tok)} {x : Str × Tok} {post : List (Str × Tok)} {st2 : St}
    {rest2 : List (Str × Tok)} (h : Step fenv tbl st p (ps ++ x :: post) st2 rest2) (hx : x.2 ≠ .A) :
    ∃ ps', rest2 = ps' ++ x :: post := by
  obtain ⟨k, hk, hle⟩ := h.rest_drop
  have := countA_append_stop ps x post hx
  refine ⟨ps.drop k, ?_⟩
  rw [hk, List.drop_append_of_le_length (by omega)]

/-- **success side**: a successful run of the loop on a non-empty input is one `Step` followed by a
    successful run on what the step left -/
theorem consume_ok_step (fenv : FEnv) (tbl : List Act) (fuel : Nat) (st st' : St)
    (p : Str × Tok) (rest : List (Str × Tok))
    (h : consume fenv tbl (fuel + 1) st (p :: rest) = .ok st') :
    ∃ st2 rest2, Step fenv tbl st p rest st2 rest2 ∧ consume fenv tbl fuel st2 rest2 = .ok st' := by
  obtain ⟨a, t⟩ := p
  cases t with
  | A => simp only [consume] at h; exact ⟨_, _, .skip st a .A rest rfl, h⟩
  | dd => simp only [consume] at h; exact ⟨_, _, .skip st a .dd rest rfl, h⟩
  | O ai o ex =>
    cases ai with
    | none => simp only [consume] at h; exact ⟨_, _, .skip st a (.O none o ex) rest rfl, h⟩
    | some i =>
      cases ex with
      | some x =>
        simp only [consume] at h
        cases hact : tbl[i]? with
        | none => rw [hact] at h; cases h
        | some act =>
          rw [hact] at h
          simp only at h
          by_cases hkind : act.kind = .help
          · simp only [hkind, ↓reduceIte] at h
            split at h <;> cases h
          · simp only [hkind, ↓reduceIte] at h
            have fin : arityOk act.nargs 1 →
                (match takeAction fenv tbl st i o [x] with
                  | .error e => (.error e : Except EOut St)
                  | .ok st2 => consume fenv tbl fuel st2 rest) = .ok st' →
                ∃ st2 rest2, Step fenv tbl st (a, .O (some i) o (some x)) rest st2 rest2 ∧
                  consume fenv tbl fuel st2 rest2 = .ok st' := by
              intro har hh
              cases ht : takeAction fenv tbl st i o [x] with
              | error e => rw [ht] at hh; cases hh
              | ok st2 =>
                rw [ht] at hh
                exact ⟨st2, rest, .act st a i o (some x) rest act [x] st2 rest hact hkind
                  ⟨rfl, rfl, har⟩ ht, hh⟩
            cases hn : act.nargs with
            | num m =>
              rw [hn] at h
              simp only at h
              split at h
              · rename_i hm1
                exact fin (by rw [hn]; simp only [arityOk]; exact hm1.symm) h
              · cases h
            | one => rw [hn] at h; exact fin (by rw [hn]; rfl) h
            | opt => rw [hn] at h; exact fin (by rw [hn]; simp [arityOk]) h
            | star => rw [hn] at h; exact fin (by rw [hn]; trivial) h
            | plus => rw [hn] at h; exact fin (by rw [hn]; simp [arityOk]) h
      | none =>
        simp only [consume] at h
        cases hact : tbl[i]? with
        | none => rw [hact] at h; cases h
        | some act =>
          rw [hact] at h
          simp only at h
          by_cases hkind : act.kind = .help
          · simp only [hkind, ↓reduceIte] at h; cases h
          · simp only [hkind, ↓reduceIte] at h
            cases hm : matchCount act.nargs (rest.map (·.2)) with
            | none => rw [hm] at h; cases h
            | some k =>
              rw [hm] at h
              simp only at h
              cases ht : takeAction fenv tbl st i o ((rest.take k).map (·.1)) with
              | error e => rw [ht] at h; cases h
              | ok st2 =>
                rw [ht] at h
                exact ⟨st2, rest.drop k, .act st a i o none rest act _ st2 _ hact hkind
                  ⟨k, hm, rfl, rfl⟩ ht, h⟩

/-- the ways the loop can fail AT an option token owned by action `i` -/
def ErrAt (fenv : FEnv) (tbl : List Act) (i : Nat) (o : Str) (e : EOut) : Prop :=
  (tbl[i]? = none ∧ e = .unmodelled "bad action index") ∨
  ∃ act, tbl[i]? = some act ∧
    ((act.kind = .help ∧
        (e = .exit 0 .help ∨ e = .exit 2 .explicit ∨ e = .unmodelled "single-dash cluster")) ∨
     (act.kind ≠ .help ∧
        (e = .exit 2 .nargs ∨ ∃ st1 args, takeAction fenv tbl st1 i o args = .error e)))

/-- **failure side**: a failing run on a non-empty input either takes one `Step` and fails later,
    or fails at the head token, which then is an option token owned by an action -/
theorem consume_err_step (fenv : FEnv) (tbl : List Act) (fuel : Nat) (st : St) (e : EOut)
    (p : Str × Tok) (rest : List (Str × Tok))
    (h : consume fenv tbl (fuel + 1) st (p :: rest) = .error e) :
    (∃ st2 rest2, Step fenv tbl st p rest st2 rest2 ∧ consume fenv tbl fuel st2 rest2 = .error e) ∨
    (∃ i o ex, p.2 = .O (some i) o ex ∧ ErrAt fenv tbl i o e) := by
  obtain ⟨a, t⟩ := p
  cases t with
  | A => simp only [consume] at h; exact Or.inl ⟨_, _, .skip st a .A rest rfl, h⟩
  | dd => simp only [consume] at h; exact Or.inl ⟨_, _, .skip st a .dd rest rfl, h⟩
  | O ai o ex =>
    cases ai with
    | none => simp only [consume] at h; exact Or.inl ⟨_, _, .skip st a (.O none o ex) rest rfl, h⟩
    | some i =>
      cases ex with
      | some x =>
        simp only [consume] at h
        cases hact : tbl[i]? with
        | none =>
          rw [hact] at h; cases h
          exact Or.inr ⟨i, o, some x, rfl, Or.inl ⟨hact, rfl⟩⟩
        | some act =>
          rw [hact] at h
          simp only at h
          by_cases hkind : act.kind = .help
          · simp only [hkind, ↓reduceIte] at h
            split at h
            · cases h; exact Or.inr ⟨i, _, some x, rfl, Or.inr ⟨act, hact, Or.inl ⟨hkind, Or.inr (Or.inl rfl)⟩⟩⟩
            · cases h; exact Or.inr ⟨i, o, some x, rfl, Or.inr ⟨act, hact, Or.inl ⟨hkind, Or.inr (Or.inr rfl)⟩⟩⟩
          · simp only [hkind, ↓reduceIte] at h
            have fin : arityOk act.nargs 1 →
                (match takeAction fenv tbl st i o [x] with
                  | .error e => (.error e : Except EOut St)
                  | .ok st2 => consume fenv tbl fuel st2 rest) = .error e →
                (∃ st2 rest2, Step fenv tbl st (a, .O (some i) o (some x)) rest st2 rest2 ∧
                  consume fenv tbl fuel st2 rest2 = .error e) ∨
                (∃ i' o' ex', (a, Tok.O (some i) o (some x)).2 = .O (some i') o' ex' ∧
                  ErrAt fenv tbl i' o' e) := by
              intro har hh
              cases ht : takeAction fenv tbl st i o [x] with
              | error e1 =>
                rw [ht] at hh
                simp only [Except.error.injEq] at hh
                subst hh
                exact Or.inr ⟨i, o, some x, rfl, Or.inr ⟨act, hact, Or.inr ⟨hkind, Or.inr ⟨st, [x], ht⟩⟩⟩⟩
              | ok st2 =>
                rw [ht] at hh
                exact Or.inl ⟨st2, rest, .act st a i o (some x) rest act [x] st2 rest hact hkind
                  ⟨rfl, rfl, har⟩ ht, hh⟩
            cases hn : act.nargs with
            | num m =>
              rw [hn] at h
              simp only at h
              split at h
              · rename_i hm1
                exact fin (by rw [hn]; simp only [arityOk]; exact hm1.symm) h
              · cases h
                exact Or.inr ⟨i, o, some x, rfl, Or.inr ⟨act, hact, Or.inr ⟨hkind, Or.inl rfl⟩⟩⟩
            | one => rw [hn] at h; exact fin (by rw [hn]; rfl) h
            | opt => rw [hn] at h; exact fin (by rw [hn]; simp [arityOk]) h
            | star => rw [hn] at h; exact fin (by rw [hn]; trivial) h
            | plus => rw [hn] at h; exact fin (by rw [hn]; simp [arityOk]) h
      | none =>
        simp only [consume] at h
        cases hact : tbl[i]? with
        | none =>
          rw [hact] at h; cases h
          exact Or.inr ⟨i, o, none, rfl, Or.inl ⟨hact, rfl⟩⟩
        | some act =>
          rw [hact] at h
          simp only at h
          by_cases hkind : act.kind = .help
          · simp only [hkind, ↓reduceIte] at h; cases h
            exact Or.inr ⟨i, o, none, rfl, Or.inr ⟨act, hact, Or.inl ⟨hkind, Or.inl rfl⟩⟩⟩
          · simp only [hkind, ↓reduceIte] at h
            cases hm : matchCount act.nargs (rest.map (·.2)) with
            | none =>
              rw [hm] at h; cases h
              exact Or.inr ⟨i, o, none, rfl, Or.inr ⟨act, hact, Or.inr ⟨hkind, Or.inl rfl⟩⟩⟩
            | some k =>
              rw [hm] at h
              simp only at h
              cases ht : takeAction fenv tbl st i o ((rest.take k).map (·.1)) with
              | error e1 =>
                rw [ht] at h
                simp only [Except.error.injEq] at h
                subst h
                exact Or.inr ⟨i, o, none, rfl, Or.inr ⟨act, hact, Or.inr ⟨hkind, Or.inr ⟨st, _, ht⟩⟩⟩⟩
              | ok st2 =>
                rw [ht] at h
                exact Or.inl ⟨st2, rest.drop k, .act st a i o none rest act _ st2 _ hact hkind
                  ⟨k, hm, rfl, rfl⟩ ht, h⟩

/-- **invariants**: a property of the state that every step (at a token of the input `L`) preserves
    holds after any successful run of the loop -/
theorem consume_inv (fenv : FEnv) (tbl : List Act) (L : List (Str × Tok)) (P : St → Prop)
    (hP : ∀ st p rest st2 rest2, p ∈ L → P st → Step fenv tbl st p rest st2 rest2 → P st2) :
    ∀ (fuel : Nat) (st st' : St) (l : List (Str × Tok)), (∀ p ∈ l, p ∈ L) →
      consume fenv tbl fuel st l = .ok st' → P st → P st' := by
  intro fuel
  induction fuel with
  | zero =>
    intro st st' l _ h hp
    cases l with
    | nil => simp only [consume, Except.ok.injEq] at h; subst h; exact hp
    | cons p ps => simp [consume] at h
  | succ n ih =>
    intro st st' l hsub h hp
    cases l with
    | nil => simp only [consume, Except.ok.injEq] at h; subst h; exact hp
    | cons p ps =>
      obtain ⟨st2, rest2, hstep, hc⟩ := consume_ok_step fenv tbl n st st' p ps h
      obtain ⟨k, hk, _⟩ := hstep.rest_drop
      refine ih st2 st' rest2 ?_ hc (hP st p ps st2 rest2 (hsub p (by simp)) hp hstep)
      intro q hq
      rw [hk] at hq
      exact hsub q (List.mem_cons_of_mem _ (List.mem_of_mem_drop hq))

/-- **every owned option token is reached**: in a successful run, the loop arrives at each option
    token that an action owns with that token at the head of the remaining input (it is never
    swallowed as an argument), in a state satisfying every step-invariant of the start state -/
theorem consume_reaches (fenv : FEnv) (tbl : List Act) (P : St → Prop)
    (hP : ∀ st p rest st2 rest2, P st → Step fenv tbl st p rest st2 rest2 → P st2) :
    ∀ (fuel : Nat) (st st' : St) (pre : List (Str × Tok)) (x : Str × Tok) (post : List (Str × Tok)),
      x.2 ≠ .A → consume fenv tbl fuel st (pre ++ x :: post) = .ok st' → P st →
      ∃ fuel1 st1, P st1 ∧ consume fenv tbl (fuel1 + 1) st1 (x :: post) = .ok st' := by
  intro fuel
  induction fuel with
  | zero =>
    intro st st' pre x post _ h _
    cases pre <;> simp [consume] at h
  | succ n ih =>
    intro st st' pre x post hx h hp
    cases pre with
    | nil => exact ⟨n, st, hp, h⟩
    | cons p ps =>
      obtain ⟨st2, rest2, hstep, hc⟩ := consume_ok_step fenv tbl n st st' p (ps ++ x :: post) h
      obtain ⟨ps', hps⟩ := hstep.keeps_option hx
      rw [hps] at hc
      exact ih st2 st' ps' x post hx hc (hP st p _ st2 rest2 hp hstep)

/-- **where a failure comes from**: a failing run with enough fuel fails at an owned option token -/
theorem consume_err_trace (fenv : FEnv) (tbl : List Act) :
    ∀ (fuel : Nat) (st : St) (l : List (Str × Tok)) (e : EOut), l.length ≤ fuel →
      consume fenv tbl fuel st l = .error e →
      ∃ a i o ex, (a, Tok.O (some i) o ex) ∈ l ∧ ErrAt fenv tbl i o e := by
  intro fuel
  induction fuel with
  | zero =>
    intro st l e hl h
    cases l with
    | nil => simp [consume] at h
    | cons p ps => simp at hl
  | succ n ih =>
    intro st l e hl h
    cases l with
    | nil => simp [consume] at h
    | cons p ps =>
      rcases consume_err_step fenv tbl n st e p ps h with ⟨st2, rest2, hstep, hc⟩ | ⟨i, o, ex, hp, herr⟩
      · obtain ⟨k, hk, _⟩ := hstep.rest_drop
        have hlen : rest2.length ≤ n := by
          rw [hk, List.length_drop]
          simp only [List.length_cons] at hl
          omega
        obtain ⟨a, i, o, ex, hm, herr⟩ := ih st2 rest2 e hlen hc
        rw [hk] at hm
        exact ⟨a, i, o, ex, List.mem_cons_of_mem _ (List.mem_of_mem_drop hm), herr⟩
      · obtain ⟨a, t⟩ := p
        simp only at hp
        subst hp
        exact ⟨a, i, o, ex, by simp, herr⟩

/-- inversion: a step at an owned option token with an explicit `=value` -/
theorem Step.inv_some {fenv : FEnv} {tbl : List Act} {st : St} {a : Str} {i : Nat} {o e : Str}
    {rest : List (Str × Tok)} {st2 : St} {rest2 : List (Str × Tok)}
    (h : Step fenv tbl st (a, .O (some i) o (some e)) rest st2 rest2) :
    ∃ act, tbl[i]? = some act ∧ act.kind ≠ .help ∧ arityOk act.nargs 1 ∧
      takeAction fenv tbl st i o [e] = .ok st2 ∧ rest2 = rest := by
  match h with
  | .skip _ _ _ _ hs => cases hs
  | .act _ _ _ _ _ _ ac args _ _ hact hk ht htake =>
    obtain ⟨ha, hr, hn⟩ := ht
    subst ha; subst hr
    exact ⟨ac, hact, hk, hn, htake, rfl⟩

/-- inversion: a step at an owned option token without explicit value -/
theorem Step.inv_none {fenv : FEnv} {tbl : List Act} {st : St} {a : Str} {i : Nat} {o : Str}
    {rest : List (Str × Tok)} {st2 : St} {rest2 : List (Str × Tok)}
    (h : Step fenv tbl st (a, .O (some i) o none) rest st2 rest2) :
    ∃ act k, tbl[i]? = some act ∧ act.kind ≠ .help ∧
      matchCount act.nargs (rest.map (·.2)) = some k ∧
      takeAction fenv tbl st i o ((rest.take k).map (·.1)) = .ok st2 ∧ rest2 = rest.drop k := by
  match h with
  | .skip _ _ _ _ hs => cases hs
  | .act _ _ _ _ _ _ ac args _ _ hact hk ht htake =>
    obtain ⟨k, hm, ha, hr⟩ := ht
    subst ha; subst hr
    exact ⟨ac, k, hact, hk, hm, htake, rfl⟩

/-- inversion: a step at a skipped token only extends the leftovers -/
theorem Step.inv_skip {fenv : FEnv} {tbl : List Act} {st : St} {a : Str} {t : Tok}
    {rest : List (Str × Tok)} {st2 : St} {rest2 : List (Str × Tok)}
    (h : Step fenv tbl st (a, t) rest st2 rest2) (hs : t.isSkip = true) :
    st2 = { st with extras := st.extras ++ [a] } ∧ rest2 = rest := by
  match h with
  | .skip _ _ _ _ _ => exact ⟨rfl, rfl⟩
  | .act _ _ _ _ _ _ _ _ _ _ _ _ _ _ => cases hs

/-- inversion: a step at ANY owned option token is one successful `take_action` with a number of
    arguments that fits the action's `nargs` -/
theorem Step.inv_act {fenv : FEnv} {tbl : List Act} {st : St} {a : Str} {i : Nat} {o : Str}
    {ex : Option Str} {rest : List (Str × Tok)} {st2 : St} {rest2 : List (Str × Tok)}
    (h : Step fenv tbl st (a, .O (some i) o ex) rest st2 rest2) :
    ∃ ac args, tbl[i]? = some ac ∧ ac.kind ≠ .help ∧ arityOk ac.nargs args.length ∧
      takeAction fenv tbl st i o args = .ok st2 := by
  match h with
  | .skip _ _ _ _ hs => cases hs
  | .act _ _ _ _ _ _ ac args _ _ hact hk ht htake => exact ⟨ac, args, hact, hk, ht.facts.1, htake⟩

/-- a step either skips a token (only the leftovers grow) or is one `take_action` -/
theorem Step.cases' {fenv : FEnv} {tbl : List Act} {st : St} {p : Str × Tok}
    {rest : List (Str × Tok)} {st2 : St} {rest2 : List (Str × Tok)}
    (h : Step fenv tbl st p rest st2 rest2) :
    (st2 = { st with extras := st.extras ++ [p.1] }) ∨
    (∃ i o ex ac args, p.2 = .O (some i) o ex ∧ tbl[i]? = some ac ∧ ac.kind ≠ .help ∧
      arityOk ac.nargs args.length ∧ takeAction fenv tbl st i o args = .ok st2) := by
  match h with
  | .skip _ _ _ _ _ => exact Or.inl rfl
  | .act _ _ i o ex _ ac args _ _ hact hk ht htake =>
    exact Or.inr ⟨i, o, ex, ac, args, rfl, hact, hk, ht.facts.1, htake⟩

end SpVerif.Loop
