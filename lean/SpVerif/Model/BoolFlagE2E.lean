/-
  SpVerif.Model.BoolFlagE2E — the whole path of one boolean field through the code, composed from the
  existing models:

    FieldWrapper.option_strings                      (field_wrapper.py:565-655)   = `optionStrings` (Model/Naming)
    FieldWrapper.get_arg_options, bool branch        (field_wrapper.py:377-393)   : action = BooleanOptionalAction,
                                                                                    `_conflict_prefix` = `conflictPrefix` (here)
    BooleanOptionalAction.__init__                   (custom_actions.py:61-131)   = `negStrings` (Model/BoolFlag)
    BooleanOptionalAction.__call__, which spelling   (custom_actions.py:152-168)  = `classify` (here)
    BooleanOptionalAction.__call__, value semantics  (custom_actions.py:158-172)  = `callOne`/`flagResult` (Model/BoolFlag)

  argparse's lexing (which token is an option string of this action, `--opt=value` splitting and the
  `nargs='?'` consumption of the next token) is trusted stdlib: the model receives the command line as
  the list of (option string as typed, explicit value or none) pairs that argparse hands to `__call__`.
-/
import SpVerif.Model.Naming
import SpVerif.Model.BoolFlag
namespace SpVerif.BoolE2E
open SpVerif

/-- one `__call__`: the option string used and the value argparse attached to it (`None` = no value) -/
structure Tok where
  opt : Str
  val : Option Str
  deriving Repr, DecidableEq

/-- custom_actions.py:154-168: `used_negative_flag = option_string in self.negative_option_strings` is
    tested FIRST (a string that is both a positive and a negative spelling counts as negative);
    `none` = the string is no option string of this action (`assert option_string in self.option_strings`,
    unreachable through argparse, which dispatches by option string). -/
def classify (pos negs : List Str) (t : Tok) : Option Occ :=
  if t.opt ∈ negs then
    some (match t.val with | none => .neg | some w => .negValued w)
  else if t.opt ∈ pos then
    some (match t.val with | none => .bare | some w => .valued w)
  else none

/-- how a bool field is declared and registered -/
structure Setup where
  cfg : Cfg                   -- the parser's dash variant / generation mode / nested mode
  fw : FW                     -- name, prefix (conflict prefix + user prefix), dest, aliases
  negPrefix : Str             -- `negative_prefix` (default "--no")
  negOption : Option Str      -- `negative_option`
  deriving Repr

/-- `_conflict_prefix` handed to the action (field_wrapper.py:388-393, repo fix c681aea): the
    FieldWrapper's prefix, spelled with dashes only under `DashVariant.DASH` like the positive option -/
def conflictPrefix (cfg : Cfg) (fw : FW) : Str :=
  if cfg.dash = .dashOnly then dashify fw.pref else fw.pref

/-- the option strings of the action: `(positive, negative)`; `none` = set-up raises
    (NotImplementedError in `BooleanOptionalAction.__init__`: a positional-looking spelling). -/
def optionsOf (s : Setup) : Option (List Str × List Str) :=
  let pos := optionStrings s.cfg s.fw
  match negStrings pos s.negPrefix s.negOption (conflictPrefix s.cfg s.fw) with
  | some negs => some (pos, negs)
  | none => none

inductive Out
  | setupRaise            -- the parser cannot be built
  | foreign               -- a token that is no option string of this field (outside the model)
  | res (r : BOut)
  deriving Repr, DecidableEq

/-- set-up, then every token classified, then the occurrence algebra -/
def run (e : Nat) (s : Setup) (default : Option Bool) (toks : List Tok) : Out :=
  match optionsOf s with
  | none => .setupRaise
  | some (pos, negs) =>
    match toks.mapM (classify pos negs) with
    | none => .foreign
    | some occs => .res (flagResult e default occs)

end SpVerif.BoolE2E
