/-
  SpVerif.Model.Post — executable model of the post-parse half of `simple_parsing.ArgumentParser`
  (simple_parsing/parsing.py): `parse_known_args` 281-363 (the part after `_preprocessing`),
  `_postprocessing` 556-597, `_remove_subgroups_from_namespace` 775-792,
  `_fill_constructor_arguments_with_fields` 911-991, `FieldWrapper.__call__`
  (wrappers/field_wrapper.py:168-229), `_instantiate_dataclasses` 794-909 and
  `_create_dataclass_instance` 1135-1161.

  The argparse engine is a PARAMETER (`Engine`), and so is the algebra of Python values (`Alg`): the
  post-processing only moves values around, calls the dataclass constructors, the per-field
  `postprocess` conversion and `==`.  Namespaces and dicts are insertion-ordered association lists.
  Everything the real code raises on is a distinct constructor of `Out`.
-/
import SpVerif.Model.Core
namespace SpVerif.Post
open SpVerif

/-- exceptions that can escape `_postprocessing` -/
inductive Exc
  | runtimeError      -- parsing.py:898 "Namespace should not already have a '…' attribute!"
  | attributeError    -- parsing.py:790 `getattr(parsed_args, dest)` on an absent subgroup destination
  | assertionError    -- parsing.py:836/944 "should have one dict per wrapper", :907 `assert not constructor_arguments`
  | keyError          -- parsing.py:852 `constructor_arguments.pop(destination)`, :1147 `constructor_args[name]`
  | ctorError         -- the dataclass constructor itself raised (parsing.py:1161)
  deriving DecidableEq, Repr

inductive Out (α : Type)
  | ok (a : α)
  | raise (e : Exc)
  /-- outside the modelled fragment (reused fields of ALWAYS_MERGE — C11; a user attribute called `subgroups`) -/
  | unmodelled (why : Str)
  deriving Repr

/-- `FieldWrapper.postprocess` conversions that can occur for the field kinds of the fragment
    (field_wrapper.py:460-533): identity, `tuple(list)` and `list(tuple)`. -/
inductive Conv | id | toTuple | toList
  deriving DecidableEq, Repr

/-- insertion-ordered dict (`vars(namespace)`, `constructor_arguments[dest]`, the attributes of an instance) -/
abbrev Dict (V : Type) := List (Str × V)

/-- The operations on Python values the post-processing uses. -/
structure Alg (V : Type) where
  /-- `None` -/
  none : V
  /-- a plain `dict` (constructor arguments kept as a dict under `default=SUPPRESS`) -/
  dict : List (Str × V) → V
  /-- `dataclass_fn(**kwargs)` for the wrapper with constructor id `ctor`; `Option.none` = it raised -/
  construct : Str → List (Str × V) → Option V
  /-- `FieldWrapper.postprocess` -/
  conv : Conv → V → V
  /-- `==` -/
  eq : V → V → Bool
  /-- `value is None` (read by `_is_at_default`, parsing.py, fix d1d203e) -/
  isNone : V → Bool := fun _ => false
  /-- the attributes of a dataclass instance; `Option.none` = `dataclasses.is_dataclass(value)` is False -/
  attrs : V → Option (Dict V) := fun _ => Option.none

/-! ### insertion-ordered dicts (`vars(namespace)`, `constructor_arguments[dest]`) -/

/-- `d.get(k)` -/
def dget {V} : Dict V → Str → Option V
  | [], _ => none
  | (k', v) :: r, k => if k' = k then some v else dget r k

/-- `d[k] = v` : in place when the key exists, appended otherwise -/
def dset {V} : Dict V → Str → V → Dict V
  | [], k, v => [(k, v)]
  | (k', v') :: r, k, v => if k' = k then (k', v) :: r else (k', v') :: dset r k v

/-- `del d[k]` / the dict left by `d.pop(k, …)` -/
def ddel {V} (d : Dict V) (k : Str) : Dict V := d.filter (fun kv => !(kv.1 == k))

def dkeys {V} (d : Dict V) : List Str := d.map (·.1)

def dhas {V} (d : Dict V) (k : Str) : Bool := (dkeys d).contains k

/-- `destination.rpartition(".")` → (parent, attribute)  (utils.py:712-714) -/
def splitDest (dest : Str) : Str × Str :=
  match (splitOnChar '.' dest).reverse with
  | [] => ([], dest)                       -- unreachable: `splitOnChar` never returns `[]`
  | last :: restRev => (joinWith '.' restRev.reverse, last)

/-- `"." in s` -/
def dotted (s : Str) : Bool := s.contains '.'

/-! ### wrappers as the post-processing sees them -/

/-- one `FieldWrapper` -/
structure FieldW (V : Type) where
  /-- `field.name` -/
  name : Str
  /-- `field.dest`: the namespace key argparse stored the raw value under -/
  dest : Str
  /-- `field.destinations` (one per destination of the parent; > 1 only under ALWAYS_MERGE) -/
  dests : List Str
  /-- `field.is_subgroup` -/
  isSubgroup : Bool
  /-- `field.field.init` (always true for real wrappers: dataclass_wrapper.py:77 skips the others) -/
  init : Bool
  /-- `field.default` (what `pop(field.dest, field.default)` falls back to) -/
  dflt : V
  conv : Conv

/-- what `_is_at_default` reads of a nested member's wrapper (`wrapper._children`, recursively): the attribute name
    (`child.name`), its field wrappers and its own children -/
inductive ChildW (V : Type) where
  | mk (name : Str) (fields : List (FieldW V)) (children : List (ChildW V))

def ChildW.name {V} : ChildW V → Str
  | .mk n _ _ => n

/-- `all(getattr(value, fw.name) == fw.default for fw in wrapper.fields if not fw.is_subgroup)`; a missing attribute
    (AttributeError in the code, impossible for a built instance) counts as "not at default" -/
def fieldsAtDefault {V} (A : Alg V) (d : Dict V) : List (FieldW V) → Bool
  | [] => true
  | f :: fs =>
    (f.isSubgroup ||
     (match dget d f.name with
      | some x => A.eq x f.dflt
      | none => false)) && fieldsAtDefault A d fs

mutual
/-- `_is_at_default(child, value)` (parsing.py, fix d1d203e): `None` is at default; something that is not a dataclass
    instance (a dict kept under SUPPRESS) is not; an instance is when all its fields and, recursively, all its nested
    members are -/
def ChildW.atDefault {V} (A : Alg V) : ChildW V → V → Bool
  | .mk _ fields children, v =>
    if A.isNone v then true
    else match A.attrs v with
      | none => false
      | some d => fieldsAtDefault A d fields && ChildW.allAtDefault A d children
/-- `all(_is_at_default(child, getattr(value, child.name)) for child in wrapper._children)` -/
def ChildW.allAtDefault {V} (A : Alg V) (d : Dict V) : List (ChildW V) → Bool
  | [] => true
  | .mk n fs cs :: rest =>
    (match dget d n with
     | some x => ChildW.atDefault A (.mk n fs cs) x
     | none => false) && ChildW.allAtDefault A d rest
end

/-- one `DataclassWrapper` -/
structure DcW (V : Type) where
  /-- `wrapper.dest` -/
  dest : Str
  /-- `wrapper.destinations` -/
  dests : List Str
  /-- `wrapper.nesting_level` -/
  level : Nat
  /-- `wrapper.parent is not None` -/
  hasParent : Bool
  /-- `argparse.SUPPRESS in wrapper.defaults` -/
  suppress : Bool
  /-- `wrapper.optional and wrapper.default is None` -/
  optNone : Bool
  /-- identifies `wrapper.dataclass_fn` -/
  ctor : Str
  fields : List (FieldW V)
  /-- `wrapper._children` as `_is_at_default` reads them (only consulted when `optNone`) -/
  children : List (ChildW V) := []

/-- what `_postprocessing` reads off `self` -/
structure PState (V : Type) where
  /-- `_flatten_wrappers(self._wrappers)` -/
  wrappers : List (DcW V)
  /-- `self.constructor_arguments` (filled by `set_defaults` / config files) -/
  cargs0 : Dict (Dict V)
  /-- keys of `self._defaults` (argparse-level `set_defaults`) -/
  defaultsKeys : List Str
  /-- `self.conflict_resolution == ALWAYS_MERGE` -/
  alwaysMerge : Bool

/-! ### `_remove_subgroups_from_namespace` (parsing.py:775-792) -/

/-- keys of `_get_subgroup_fields(self._wrappers)` (parsing.py:1095-1103) in insertion order -/
def subgroupDests {V} (ws : List (DcW V)) : List Str :=
  dedup ((ws.flatMap (fun w => w.fields)).filter (·.isSubgroup) |>.map (·.dest))

/-- some `add_arguments` destination is literally `subgroups` -/
def subgroupsIsRootDest {V} (ws : List (DcW V)) : Bool :=
  ws.any (fun w => !w.hasParent && w.dests.contains "subgroups".toList)

/-- the loop at :789-792 (`sub` is `parsed_args.subgroups`) -/
def moveSubgroups {V} : List Str → Dict V → Dict V → Out (Dict V × Dict V)
  | [], ns, sub => .ok (ns, sub)
  | d :: ds, ns, sub =>
    match dget ns d with
    | none => .raise .attributeError                                     -- :790
    | some v => moveSubgroups ds (ddel ns d) (dset sub d v)                -- :791-792

/-- result: the namespace attributes other than `subgroups`, and the `subgroups` dict if it exists -/
def removeSubgroups {V} (ws : List (DcW V)) (ns : Dict V) : Out (Dict V × Option (Dict V)) :=
  match subgroupDests ws with
  | [] => .ok (ns, none)                                                 -- :783-784
  | d :: ds =>
    -- a user attribute called `subgroups` (the code then does item assignment on that value: TypeError for a str /
    -- None) or an `add_arguments` destination called `subgroups` (the dict is an attribute when :881 `hasattr` runs:
    -- RuntimeError) — both outside the modelled fragment, where `subgroups` is kept apart from the attributes
    if dhas ns "subgroups".toList then .unmodelled "user attribute named subgroups".toList
    else if subgroupsIsRootDest ws then .unmodelled "add_arguments destination named subgroups".toList
    else match moveSubgroups (d :: ds) ns [] with                        -- :786-787
      | .ok (ns', sub) => .ok (ns', some sub)
      | .raise e => .raise e
      | .unmodelled w => .unmodelled w

/-! ### constructor arguments -/

abbrev CArgs (V : Type) := Dict (Dict V)

/-- `constructor_arguments.setdefault(destination, {})` (parsing.py:589) -/
def csetdefault {V} (c : CArgs V) (d : Str) : CArgs V :=
  if dhas c d then c else c ++ [(d, [])]

/-- parsing.py:586-589 -/
def initCArgs {V} (ps : PState V) : CArgs V :=
  (ps.wrappers.flatMap (·.dests)).foldl csetdefault ps.cargs0

/-- `constructor_arguments[parent][attr] = value` on a `defaultdict(dict)` -/
def csetIn {V} (c : CArgs V) (parent attr : Str) (v : V) : CArgs V :=
  match dget c parent with
  | some d => dset c parent (dset d attr v)
  | none => dset c parent [(attr, v)]

/-! ### `_fill_constructor_arguments_with_fields` (parsing.py:911-991) -/

/-- `FieldWrapper.__call__` (field_wrapper.py:168-229) for a field that is not reused -/
def fieldCall {V} (A : Alg V) (f : FieldW V) (value : V) (c : CArgs V) : Out (CArgs V) :=
  match f.dests with
  | [] => .ok c                                      -- `zip(self.destinations, [values])` is empty
  | [d] =>
    if f.isSubgroup then .ok c                       -- :199-201
    else
      let (parent, attr) := splitDest d              -- :203
      .ok (csetIn c parent attr (A.conv f.conv value))   -- :204, :214
  | _ :: _ :: _ => .unmodelled "reused field (ALWAYS_MERGE)".toList   -- :191-193 `duplicate_if_needed`

/-- one iteration of the inner loop :955-982 -/
def fillField {V} (A : Alg V) (suppress : Bool) (f : FieldW V) (st : Dict V × CArgs V) :
    Out (Dict V × CArgs V) :=
  if suppress && !(dhas st.1 f.dest) then .ok st      -- :956-957
  else if f.isSubgroup then .ok st                    -- :959-962
  else if !f.init then .ok st                         -- :964-966
  else
    let value := (dget st.1 f.dest).getD f.dflt       -- :972 `pop(field.dest, field.default)`
    match fieldCall A f value st.2 with               -- :977-982
    | .ok c => .ok (ddel st.1 f.dest, c)
    | .raise e => .raise e
    | .unmodelled w => .unmodelled w

def fillFields {V} (A : Alg V) (suppress : Bool) : List (FieldW V) → Dict V × CArgs V → Out (Dict V × CArgs V)
  | [], st => .ok st
  | f :: fs, st =>
    match fillField A suppress f st with
    | .ok st' => fillFields A suppress fs st'
    | .raise e => .raise e
    | .unmodelled w => .unmodelled w

def fillWrappers {V} (A : Alg V) : List (DcW V) → Dict V × CArgs V → Out (Dict V × CArgs V)
  | [], st => .ok st
  | w :: ws, st =>
    match fillFields A w.suppress w.fields st with
    | .ok st' => fillWrappers A ws st'
    | .raise e => .raise e
    | .unmodelled w => .unmodelled w

/-- :943-946, :954-991 -/
def fill {V} (A : Alg V) (ps : PState V) (ns : Dict V) (c : CArgs V) : Out (Dict V × CArgs V) :=
  if !ps.alwaysMerge && ps.wrappers.length != c.length then .raise .assertionError
  else fillWrappers A ps.wrappers (ns, c)

/-! ### `_instantiate_dataclasses` (parsing.py:794-909) -/

/-- stable insertion into a list sorted by decreasing level: `w` (which precedes every element of the list in the
    original order) goes before the elements of the same level -/
def insertDesc {V} (w : DcW V) : List (DcW V) → List (DcW V)
  | [] => [w]
  | x :: xs => if x.level ≤ w.level then w :: x :: xs else x :: insertDesc w xs

/-- `sorted(wrappers, key=lambda w: w.nesting_level, reverse=True)` (stable) -/
def sortDesc {V} : List (DcW V) → List (DcW V)
  | [] => []
  | w :: ws => insertDesc w (sortDesc ws)

/-- the `for … else` of `_create_dataclass_instance` (:1146-1159): `some true` = every field is at
    its default, `some false` = a `break` happened, `none` = KeyError -/
def allAtDefault {V} (A : Alg V) (args : Dict V) : List (FieldW V) → Option Bool
  | [] => some true
  | f :: fs =>
    match dget args f.name with
    | none => none                                        -- :1147
    | some v => if A.eq v f.dflt then allAtDefault A args fs else some false   -- :1153

/-- `_create_dataclass_instance` (parsing.py:1135-1161) -/
def createInstance {V} (A : Alg V) (w : DcW V) (args : Dict V) : Out V :=
  let construct : Out V := match A.construct w.ctor args with
    | some v => .ok v
    | none => .raise .ctorError
  if w.optNone then
    match allAtDefault A args w.fields with
    | none => .raise .keyError
    | some true =>
      -- the `else` of the loop (fix 3f531df / d1d203e): the nested members built so far must be at their defaults too;
      -- `constructor_args.get(child.name)`: a missing entry is `None`, which is "at default"
      if w.children.all (fun c => match dget args c.name with
                                  | some x => c.atDefault A x
                                  | none => true)
      then .ok A.none else construct
    | some false => construct
  else construct

/-- the body of the loop over `dc_wrapper.destinations` (:847-904) -/
def instDest {V} (A : Alg V) (defaultsKeys : List Str) (w : DcW V) (d : Str)
    (st : Dict V × CArgs V) : Out (Dict V × CArgs V) :=
  match dget st.2 d with
  | none => .raise .keyError                              -- :852
  | some args =>
    let c := ddel st.2 d
    -- `Option.none` = the destination is dropped (:867-871)
    let value : Out (Option V) :=
      if w.suppress then
        .ok (if args.isEmpty then none else some (A.dict args))       -- :856-861
      else match createInstance A w args with                       -- :863-865
        | .ok v => .ok (some v)
        | .raise e => .raise e
        | .unmodelled y => .unmodelled y
    match value with
    | .raise e => .raise e
    | .unmodelled y => .unmodelled y
    | .ok none => .ok (st.1, c)
    | .ok (some v) =>
      if w.hasParent then                                 -- :873-879
        let (pk, attr) := splitDest d
        .ok (st.1, csetIn c pk attr v)
      else if !(dhas st.1 d) then .ok (dset st.1 d v, c)  -- :881-886
      else if defaultsKeys.contains w.dest then .ok (dset st.1 d v, c)    -- :891-896
      else .raise .runtimeError                           -- :898

def instDests {V} (A : Alg V) (dk : List Str) (w : DcW V) : List Str → Dict V × CArgs V → Out (Dict V × CArgs V)
  | [], st => .ok st
  | d :: ds, st =>
    match instDest A dk w d st with
    | .ok st' => instDests A dk w ds st'
    | .raise e => .raise e
    | .unmodelled y => .unmodelled y

def instWrappers {V} (A : Alg V) (dk : List Str) : List (DcW V) → Dict V × CArgs V → Out (Dict V × CArgs V)
  | [], st => .ok st
  | w :: ws, st =>
    match instDests A dk w w.dests st with
    | .ok st' => instWrappers A dk ws st'
    | .raise e => .raise e
    | .unmodelled y => .unmodelled y

/-- :835-836, :839-909 -/
def instantiate {V} (A : Alg V) (ps : PState V) (ns : Dict V) (c : CArgs V) : Out (Dict V) :=
  if !ps.alwaysMerge && ps.wrappers.length != c.length then .raise .assertionError
  else match instWrappers A ps.defaultsKeys (sortDesc ps.wrappers) (ns, c) with
    | .ok (ns', c') => if c'.isEmpty then .ok ns' else .raise .assertionError     -- :907
    | .raise e => .raise e
    | .unmodelled y => .unmodelled y

/-! ### `_postprocessing` (parsing.py:556-597) -/

/-- the returned namespace: its attributes other than `subgroups`, and `subgroups` when it was created -/
structure Nsp (V : Type) where
  attrs : Dict V
  subgroups : Option (Dict V)

/-- every attribute name of the returned namespace -/
def Nsp.keys {V} (n : Nsp V) : List Str :=
  dkeys n.attrs ++ (match n.subgroups with | some _ => ["subgroups".toList] | none => [])

def postprocess {V} (A : Alg V) (ps : PState V) (raw : Dict V) : Out (Nsp V) :=
  match removeSubgroups ps.wrappers raw with                       -- :581
  | .raise e => .raise e
  | .unmodelled y => .unmodelled y
  | .ok (ns1, sub) =>
    match fill A ps ns1 (initCArgs ps) with                         -- :586-593
    | .raise e => .raise e
    | .unmodelled y => .unmodelled y
    | .ok (ns2, c) =>
      match instantiate A ps ns2 c with                             -- :594-596
      | .raise e => .raise e
      | .unmodelled y => .unmodelled y
      | .ok ns3 => .ok { attrs := ns3, subgroups := sub }

/-! ### `parse_known_args` (parsing.py:281-363) around an arbitrary argparse engine -/

/-- an argparse action as far as the frame theorem cares: where it writes -/
structure Act where
  dest : Str
  deriving Repr

abbrev Table := List Act
abbrev Argv := List Str

/-- what `argparse.ArgumentParser.parse_known_args` can do -/
inductive EOut (V : Type)
  | ok (raw : Dict V) (rest : Argv)
  | exit (code : Nat)
  /-- an exception escaping argparse (e.g. from a user `type=` callable) -/
  | raise

/-- the argparse engine: `super().parse_known_args(args, namespace)` -/
abbrev Engine (V : Type) := Table → Argv → EOut V

inductive POut (V : Type)
  | ok (ns : Nsp V) (rest : Argv)
  | exit (code : Nat)
  | engineRaise
  | raise (e : Exc)
  | unmodelled (why : Str)

/-- `_preprocessing` (parsing.py:346, 523-554) as far as the accept/reject decision goes: `_resolve_subgroups`
    (:599-773) runs a pre-parser (`add_help=False`, `allow_abbrev=False`) carrying only the subgroup options over the
    whole argv BEFORE the main parse; `some code` = that pre-parser exited with `code` -/
abbrev Pre := Argv → Option Nat

/-- parsing.py:346 + :349 + :362-363 (without config files, without `attempt_to_reorder`) -/
def spParse {V} (A : Alg V) (pre : Pre) (E : Engine V) (ps : PState V) (userActs spActs : Table) (argv : Argv) : POut V :=
  match pre argv with
  | some c => .exit c                                  -- :346 the subgroup pre-parser rejected the command line
  | none =>
    match E (userActs ++ spActs) argv with             -- :349
    | .exit c => .exit c
    | .raise => .engineRaise
    | .ok raw rest =>
      match postprocess A ps raw with                  -- :362
      | .ok ns => .ok ns rest
      | .raise e => .raise e
      | .unmodelled y => .unmodelled y

/-- `argparse.ArgumentParser.parse_args` (CPython 3.12 argparse.py:1871-1877) on top of the overridden
    `parse_known_args`: leftovers are an error (status 2) — raised only AFTER the post-processing ran -/
def spParseArgs {V} (A : Alg V) (pre : Pre) (E : Engine V) (ps : PState V) (userActs spActs : Table) (argv : Argv) : POut V :=
  match spParse A pre E ps userActs spActs argv with
  | .ok ns rest => if rest.isEmpty then .ok ns [] else .exit 2
  | o => o

/-! ### `ArgumentParser.set_defaults(self, config_path=None, /, **kwargs)` (parsing.py:385-438): which keywords reach argparse -/

/-- the keyword names that end up in `self._defaults` (`super().set_defaults(**kwargs)`, :438): the keywords naming a
    registered dataclass destination are popped into the wrappers (:402-429); every other keyword — one called
    `config_path` included, the method's own first parameter being positional-only — is passed on -/
def setDefaultsPassed (wrapperDests : List Str) (kw : List Str) : List Str :=
  kw.filter (fun k => !(wrapperDests.contains k))

/-- keyword arguments never make `set_defaults` read a file (only the positional `config_path` does, :387-388) -/
def setDefaultsReadsFile (_kw : List Str) : Bool := false

/-! ### a concrete value algebra (used by the driver and by the examples) -/

inductive PVal
  /-- an opaque scalar, identified by its canonical JSON text -/
  | atom (s : Str)
  | none
  | list (xs : List PVal)
  | tuple (xs : List PVal)
  | dict (kvs : List (Str × PVal))
  | inst (cls : Str) (kvs : List (Str × PVal))
  deriving BEq, Repr

def pconv : Conv → PVal → PVal
  | .id, v => v
  | .toTuple, .list xs => .tuple xs          -- field_wrapper.py:493-494
  | .toTuple, v => v
  | .toList, .tuple xs => .list xs           -- field_wrapper.py:500-501
  | .toList, v => v

def palg : Alg PVal :=
  { none := .none, dict := .dict, construct := fun cls kvs => some (.inst cls kvs), conv := pconv,
    eq := fun a b => a == b,
    isNone := fun v => match v with | .none => true | _ => false,
    attrs := fun v => match v with | .inst _ kvs => some kvs | _ => Option.none }

end SpVerif.Post
