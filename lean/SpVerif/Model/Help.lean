/-
  SpVerif.Model.Help — what `--help` lists: one entry per command-line-exposed field of every
  destination.

  Mirrors
    * `DataclassWrapper.__init__`  (wrappers/dataclass_wrapper.py:72-179): one `FieldWrapper` per field with
      `init` and `cmd` (76-79: the others are skipped before anything is created), one child wrapper per
      nested dataclass member, field defaults taken from the parent default (94-116, 176-177);
    * `_flatten_wrappers`          (parsing.py:1118-1122): roots in registration order, each followed by
      its descendants in pre-order;
    * `_preprocessing`             (parsing.py:523-554): conflict resolution (Model/Conflicts), then one
      argument group per dataclass wrapper (`DataclassWrapper.add_arguments`, dataclass_wrapper.py:183-214,
      title at 318-321) and one `add_argument(*option_strings, **arg_options)` per field wrapper;
    * `FieldWrapper.option_strings` (field_wrapper.py:565-659) through Model/Naming: the generated list in code
      order is `optionList`; since fix 4849cc7 it is de-duplicated in that order and stably sorted by length
      (`optionStrings`).  Before the fix it went through a Python `set`, so the order among equal-length
      strings was the set's iteration order — the explicit parameter `π` of `positivesSet` / `entriesSetOrder`;
    * `FieldWrapper.default`       (field_wrapper.py:711-790) and `DataclassWrapper.set_default`
      (dataclass_wrapper.py:288-315, called by `ArgumentParser.set_defaults`, parsing.py:385-438): the
      effective default — field default < default of the enclosing member's factory instance < default
      instance given to `add_arguments` < config files in the order they are applied;
    * `FieldWrapper.help`          (field_wrapper.py:888-905) and the TEMPORARY_TOKEN trick (250-258) with
      `SimpleHelpFormatter._get_help_string` (help_formatter.py:81-85);
    * `get_metavar` / `SimpleHelpFormatter._format_args` (field_metavar.py, help_formatter.py:29-55) for the
      handful of leaf types the generators use;
    * `BooleanOptionalAction.__init__` (custom_actions.py:96-126, Model/BoolFlag): the negative flags a
      `bool` field registers in addition to its own option strings;
    * `ArgumentParser.print_help`  (parsing.py:381-383) and the `_preprocessing_done` latch (527-528, 554) as
      a two-operation state machine.

  NOT modelled: the layout of `argparse.HelpFormatter` (the harness parses the real text back into
  entries), group descriptions, ALWAYS_MERGE, subgroups, positional fields, `desc_from_cls_docstring`.
-/
import SpVerif.Model.Naming
import SpVerif.Model.Conflicts
import SpVerif.Model.BoolFlag
namespace SpVerif.Help

/-- the leaf annotations of the modelled fragment -/
inductive Ty
  | int | float | str | bool
  | listInt                 -- `List[int]`
  | optInt | optStr | optFloat   -- `Optional[…]`
  | enum (cls : Str)
  deriving DecidableEq, Repr

/-- the text argparse prints after each option string (`get_metavar`, field_metavar.py:29-80, as
    used by `SimpleHelpFormatter._format_args`, help_formatter.py:29-37; `bool`: the `metavar="bool"`
    default of `BooleanOptionalAction`, custom_actions.py:32). -/
def metavar : Ty → Str
  | .int => "int".toList
  | .float => "float".toList
  | .str => "str".toList
  | .bool => "bool".toList
  | .listInt => "List".toList
  | .optInt => "[int]".toList
  | .optStr => "[str]".toList
  | .optFloat => "[float]".toList
  | .enum cls => cls

/-- one declared (non-dataclass) field.  Values are carried as the text `str(value)` prints;
    `none` = Python `None` / no default at all. -/
structure Leaf where
  name : Str
  ty : Ty
  dflt : Option Str
  aliases : List Str
  cmd : Bool := true        -- `field(cmd=…)`
  init : Bool := true       -- `field(init=…)`
  helpExplicit : Str := []  -- `field(help=…)`, `[]` = absent
  below : Str := []         -- docstring below the field
  above : Str := []         -- comment above
  inline : Str := []        -- inline comment
  deriving Repr, DecidableEq

/-- a dataclass placed at a destination: class name, own name (destination of a root / field name of
    a member), its non-dataclass fields in declaration order, the keyword overrides of the member's
    `default_factory` (`functools.partial(Cls, x=…)`; a root has none), its dataclass members, and
    whether the member field itself is command-line exposed (`init` and `cmd`, dataclass_wrapper.py:76-79:
    a `cmd=False` member is skipped together with everything below it; ignored for a root). -/
inductive Tree where
  | node (cls : Str) (name : Str) (leaves : List Leaf) (over : List (Str × Option Str))
      (kids : List Tree) (cmd : Bool := true)
  deriving Repr

/-- `field.init and field.metadata.get("cmd", True)` of the member field -/
def Tree.exposed : Tree → Bool
  | .node _ _ _ _ _ cmd => cmd

/-- one `DataclassWrapper` = one argument group -/
structure Group where
  cls : Str
  dest : Str                -- `DataclassWrapper.dest` (dotted)
  level : Nat               -- nesting level handed to the conflict resolver
  pref : Str                -- `DataclassWrapper.prefix` (user prefix of a root, "" below)
  leaves : List Leaf
  over : List (Str × Option Str)
  deriving Repr, DecidableEq

mutual
/-- `[w] + list(w.descendants)` (parsing.py:1122, dataclass_wrapper.py:390-394) -/
def flat (parent : Str) (level : Nat) (pref : Str) : Tree → List Group
  | .node cls name leaves over kids _ =>
    let dest := if parent.isEmpty then name else parent ++ '.' :: name
    { cls := cls, dest := dest, level := level, pref := pref, leaves := leaves, over := over }
      :: flatKids dest (level + 1) kids
/-- children get `prefix=""` (dataclass_wrapper.py:143-149); a `cmd=False` / `init=False` member gets no
    wrapper at all (dataclass_wrapper.py:76-79) -/
def flatKids (parent : Str) (level : Nat) : List Tree → List Group
  | [] => []
  | t :: ts => (if t.exposed then flat parent level [] t else []) ++ flatKids parent level ts
end

/-- the registrations `parser.add_arguments(cls, dest, prefix=…)`, in order -/
abbrev Forest := List (Tree × Str)

def flatForest (f : Forest) : List Group := f.flatMap (fun r => flat [] 1 r.2 r.1)

/-- dataclass_wrapper.py:76-79 -/
def Leaf.exposed (l : Leaf) : Bool := l.cmd && l.init

/-- one `FieldWrapper`: the field plus what it reads of its dataclass wrapper -/
structure XLeaf where
  cls : Str                 -- `parent.dataclass.__qualname__`
  gdest : Str               -- `parent.dest`
  level : Nat
  gpref : Str               -- prefix handed down by the wrapper (before conflict resolution)
  over : List (Str × Option Str)
  leaf : Leaf
  deriving Repr, DecidableEq

def Group.xleaves (g : Group) : List XLeaf :=
  (g.leaves.filter Leaf.exposed).map (fun l =>
    { cls := g.cls, gdest := g.dest, level := g.level, gpref := g.pref, over := g.over, leaf := l })

/-- all field wrappers in `_flatten_wrappers` order -/
def xleaves (gs : List Group) : List XLeaf := gs.flatMap Group.xleaves

def XLeaf.dest (x : XLeaf) : Str := x.gdest ++ '.' :: x.leaf.name

/-- what the conflict resolver reads of a field wrapper -/
def XLeaf.rec0 (x : XLeaf) : FieldRec :=
  { name := x.leaf.name, parentDest := x.gdest, level := x.level, aliases := x.leaf.aliases,
    pref := x.gpref }

/-- where defaults come from besides the class definitions -/
structure Sources where
  inst : List (Str × Option Str)      -- leaf dest ↦ value in the `default=` instance of its root
  files : List (List (Str × Str))     -- config files in the order they are applied: leaf dest ↦ value
  deriving Repr, DecidableEq

/-- the last applied file that mentions the leaf wins (`for config_file in config_paths:
    self.set_defaults(config_file)`, parsing.py:300-306,336-340) -/
def fileDefault : List (List (Str × Str)) → Str → Option Str
  | [], _ => none
  | f :: fs, d => match fileDefault fs d with
    | some v => some v
    | none => f.lookup d

/-- `FieldWrapper.default` for a non-reused field: `_default` set from outside (config file over
    default instance) else the parent default's attribute else the field's own default. -/
def effDefault (src : Sources) (x : XLeaf) : Option Str :=
  match fileDefault src.files x.dest with
  | some v => some v
  | none => match src.inst.lookup x.dest with
    | some v => v
    | none => match x.over.lookup x.leaf.name with
      | some v => v
      | none => x.leaf.dflt

/-- `FieldWrapper.help` (field_wrapper.py:888-905) -/
def helpOf (l : Leaf) : Str :=
  if !l.helpExplicit.isEmpty then l.helpExplicit
  else if !l.below.isEmpty then l.below
  else if !l.above.isEmpty then l.above
  else l.inline

def defaultOpen : Str := "(default: ".toList

/-- the help column: `help` + `" (default: %(default)s)"` (ArgumentDefaultsHelpFormatter /
    `BooleanOptionalAction`), the TEMPORARY_TOKEN standing in for an absent help when there is a
    default (field_wrapper.py:253-258), removed again by the formatter (help_formatter.py:81-85);
    no help and no default: no help column at all. -/
def shownHelp (h : Str) (d : Option Str) : Str :=
  if !h.isEmpty then h ++ ' ' :: defaultOpen ++ d.getD "None".toList ++ [')']
  else match d with
    | some v => defaultOpen ++ v ++ [')']
    | none => []

structure Entry where
  cls : Str               -- group title is `cls ['gdest']`
  gdest : Str
  dest : Str              -- destination of the field
  opts : List Str         -- the option strings handed to `add_argument`, in order, plus the negative flags
  metavar : Str
  dflt : Option Str       -- effective default
  help : Str              -- the field's help text, `[]` = none
  shown : Str             -- the help column
  deriving Repr, DecidableEq

def negPrefix : Str := "--no".toList

/-- the field wrapper after conflict resolution (only the prefix changed) -/
def XLeaf.fw (x : XLeaf) (pref : Str) : FW :=
  { name := x.leaf.name, pref := pref, dest := x.dest, aliases := x.leaf.aliases }

/-- `FieldWrapper.option_strings` (field_wrapper.py:565-659) as of fix 4849cc7: the generated strings are
    de-duplicated in generation order (`dict.fromkeys`) and stably sorted by length -/
def positives (cfg : Cfg) (x : XLeaf) (pref : Str) : List Str := optionStrings cfg (x.fw pref)

/-- the same BEFORE that fix: `list(sorted(set(…), key=len))`, with `π` = iteration order of the set
    (kept so that the theorems can say what a reintroduced `set` would do) -/
def positivesSet (cfg : Cfg) (π : List Str → List Str) (x : XLeaf) (pref : Str) : List Str :=
  optionStringsFrom (π (dedup (optionList cfg (x.fw pref))))

/-- one `add_argument` call; `pos` = the field's own option strings. `none` = `NotImplementedError`
    of `BooleanOptionalAction`. -/
def mkEntry (src : Sources) (pos : XLeaf → Str → List Str) (x : XLeaf) (pref : Str) :
    Option Entry :=
  let p := pos x pref
  let d := effDefault src x
  let h := helpOf x.leaf
  let mk (opts : List Str) : Entry :=
    { cls := x.cls, gdest := x.gdest, dest := x.dest, opts := opts, metavar := metavar x.leaf.ty,
      dflt := d, help := h, shown := shownHelp h d }
  if x.leaf.ty = .bool then
    match negStrings p negPrefix none pref with
    | some neg => some (mk (p ++ neg))
    | none => none
  else some (mk p)

/-- the loop over wrappers and fields in `_preprocessing` / `add_arguments`; `recs` are the resolved
    records, position by position -/
def mkAll (src : Sources) (pos : XLeaf → Str → List Str) :
    List XLeaf → List FieldRec → Option (List Entry)
  | x :: xs, r :: rs =>
    match mkEntry src pos x r.pref, mkAll src pos xs rs with
    | some e, some es => some (e :: es)
    | _, _ => none
  | _, _ => some []

inductive Out
  | ok (es : List Entry)
  | conflictResolutionError
  | assertionError
  | argumentError          -- clash with `-h/--help` (conflicts.py:144 TODO #49)
  | notImplementedError
  deriving Repr, DecidableEq

/-- option strings already on the parser when the dataclass arguments are added -/
def reserved : List Str := ["-h".toList, "--help".toList]

/-- `add_argument` refuses an option string that is already on the parser (argparse `_check_conflict`
    with `conflict_handler="error"`): `seen` are the strings registered so far.  The conflict resolver
    only ever looked at the fields' own option strings, not at the negative flags `BooleanOptionalAction`
    adds (nor at `-h`, `--help`: conflicts.py:144 TODO #49), so such a clash surfaces here, as
    `argparse.ArgumentError`, in the middle of `_preprocessing`. -/
def argClash : List Str → List Entry → Bool
  | _, [] => false
  | seen, e :: es => e.opts.any (fun s => seen.contains s) || argClash (seen ++ e.opts) es

/-- the outcome of the `add_argument` loop -/
def finish : Option (List Entry) → Out
  | some es => if argClash reserved es then .argumentError else .ok es
  | none => .notImplementedError

def entriesOfGroups (cfg : Cfg) (mode : CR) (gs : List Group) (src : Sources)
    (pos : XLeaf → Str → List Str) : Out :=
  let xs := xleaves gs
  match setup cfg mode reserved (xs.map XLeaf.rec0) with
  | .ok recs =>
    finish (mkAll src pos xs recs)
  | .conflictResolutionError => .conflictResolutionError
  | .assertionError => .assertionError
  | .argumentError => .argumentError

/-- the entries for a given way `pos` of ordering a field's option strings -/
def entriesWith (cfg : Cfg) (mode : CR) (forest : Forest) (src : Sources)
    (pos : XLeaf → Str → List Str) : Out :=
  entriesOfGroups cfg mode (flatForest forest) src pos

/-- **what `--help` lists** for a parser configuration, registrations and default sources -/
def entries (cfg : Cfg) (mode : CR) (forest : Forest) (src : Sources) : Out :=
  entriesWith cfg mode forest src (positives cfg)

/-- what it listed before fix 4849cc7, when the option strings went through a `set` iterated in
    order `π` -/
def entriesSetOrder (cfg : Cfg) (mode : CR) (forest : Forest) (src : Sources)
    (π : List Str → List Str) : Out :=
  entriesWith cfg mode forest src (positivesSet cfg π)

/-! ### hidden fields -/

def Group.eraseHidden (g : Group) : Group := { g with leaves := g.leaves.filter Leaf.exposed }

mutual
/-- the same class tree with every `cmd=False` / `init=False` field deleted -/
def Tree.eraseHidden : Tree → Tree
  | .node cls name leaves over kids cmd =>
    .node cls name (leaves.filter Leaf.exposed) over (eraseKids kids) cmd
def eraseKids : List Tree → List Tree
  | [] => []
  | t :: ts => if t.exposed then t.eraseHidden :: eraseKids ts else eraseKids ts
end

/-! ### `print_help` as an operation on a parser (parsing.py:396-406, 540-580) -/

/-- a parser: `build ctor argv args` is the table `_preprocessing(args)` builds on a parser whose
    constructor config files (`config_path=`) have (`ctor = true`) or have not been pushed into the
    wrappers, and likewise (`argv`) for the files named by `--config_path` on the command line
    (`set_defaults`, parsing.py:306-346); `table` is `none` until `_preprocessing_done`.
    The table depends on `args` only when some field is a subgroup choice (`_resolve_subgroups`). -/
structure Parser (T : Type) where
  build : Bool → Bool → List Str → T
  hasCtorFiles : Bool                 -- `ArgumentParser(config_path=...)`
  namesFiles : List Str → Bool        -- does this command line carry `--config_path <file>`?
  ctorApplied : Bool := false
  argvApplied : Bool := false
  table : Option T := none

/-- `_preprocessing(args)` (parsing.py:540-580) -/
def Parser.prep {T : Type} (p : Parser T) (args : List Str) : Parser T :=
  match p.table with
  | some _ => p
  | none => { p with table := some (p.build p.ctorApplied p.argvApplied args) }

/-- `print_help()`: since fix e83a7f8 the constructor's config files are applied first (when the
    arguments have not been generated yet), then `_preprocessing(args=[])`, then the table is
    formatted (parsing.py:396-406) -/
def Parser.printHelp {T : Type} (p : Parser T) : Parser T :=
  match p.table with
  | some _ => p
  | none => ({ p with ctorApplied := p.ctorApplied || p.hasCtorFiles }).prep []

/-- `print_help()` before fix e83a7f8: no file was applied -/
def Parser.printHelpOld {T : Type} (p : Parser T) : Parser T := p.prep []

/-- `parse_args(args)` where `args` contains `--help`: everything `parse_known_args` does up to and
    including `_preprocessing(args)` (the constructor's files, the files named on this command line),
    then argparse's help action formats the table and exits (parsing.py:281-380) -/
def Parser.dashHelp {T : Type} (p : Parser T) (args : List Str) : Parser T :=
  ({ p with ctorApplied := p.ctorApplied || p.hasCtorFiles,
            argvApplied := p.argvApplied || p.namesFiles args }).prep args

/-- `parse_known_args(args)`: apply the constructor's files, then those named on the command line,
    `_preprocessing(args)`, run argparse on the table (parsing.py:281-380) -/
def Parser.parse {T R : Type} (run : T → List Str → R) (p : Parser T) (args : List Str) :
    R × Parser T :=
  let p1 := { p with ctorApplied := p.ctorApplied || p.hasCtorFiles,
                     argvApplied := p.argvApplied || p.namesFiles args }
  let p2 := p1.prep args
  match p2.table with
  | some t => (run t args, p2)
  | none => (run (p1.build p1.ctorApplied p1.argvApplied args) args, p2)   -- unreachable

/-- the parser of the entries model: no subgroup fields, so `args` is not consulted for the table.
    `src.files` are the constructor's files; `argvFiles` (applied after them) are the ones a command
    line names when `names` says it does. -/
def helpParser (cfg : Cfg) (mode : CR) (forest : Forest) (src : Sources)
    (argvFiles : List (List (Str × Str)) := []) (names : List Str → Bool := fun _ => false) :
    Parser Out :=
  { build := fun ctor argv _ =>
      entries cfg mode forest
        { src with files := (if ctor then src.files else []) ++ (if argv then argvFiles else []) },
    hasCtorFiles := !src.files.isEmpty,
    namesFiles := names }

end SpVerif.Help
