/-
  SpVerif.Model.ConfigLoop — the loop  `save(x, file)` → `parse(cls, config_path=file, args=[])`.

  What is modelled (branch by branch):
  * `helpers/serialization/serializable.py:707-774` `to_dict` + `encoding.py:61-141` `encode` on the
    command-line value grammar: Enum → its *name*, Path → `str`, tuple/list → list, None → null, nested
    dataclass → dict (`fileOf`).  The four file formats are a parameter: json / yaml / pickle are assumed to
    read back the tree they were given (checked on every real case by the harness, not modelled).
  * `parsing.py:385-438` `ArgumentParser.set_defaults(config_path)`: root-less files are wrapped in
    `{dest: …}` when `nested_mode == WITHOUT_ROOT` and one dataclass is registered (that is `parse()`),
    otherwise the file must be keyed by destination; a non-dict entry for the destination is a `ValueError`,
    a string is another file name (outside the model).
  * `wrappers/dataclass_wrapper.py:288-315` `DataclassWrapper.set_default` recursion (`checkDefaults`: the
    `RuntimeError` for unknown names, `asdict(non-dataclass)` `TypeError`) — raw file values become
    `FieldWrapper._default`.
  * `wrappers/field_wrapper.py:711-794` the default cascade: `_default is not None` → the raw file value,
    else the attribute of the enclosing wrapper's default instance (`DataclassWrapper.defaults`,
    dataclass_wrapper.py:256-274), else the field's own default / default_factory, else None
    (`cascade`): a null in the file is indistinguishable from an absent key.
  * the empty-argv parse of argparse (DESIGN Appendix D rules 1 and 6) per action: required check, the
    action default is stored, a *string* default is converted by `type=`; nothing else is converted.  The
    action (`default=`, `type=`, `required=`) comes from `Fields.argOptions` (field_wrapper.py:231-406,
    incl. 335-352 enum default → name).
  * `parsing.py:911-991` / `field_wrapper.py:168-217,460-533`: the namespace value goes through
    `Fields.postprocess` into the constructor arguments.
  * `parsing.py:794-909,1135-1167`: instances are built bottom-up; an `Optional[Dataclass]` wrapper whose
    own default is None, whose `defaults` (field default / enclosing default instance) are None too, whose
    (leaf) constructor arguments all equal their defaults and whose nested members are None or at their defaults
    themselves (`_is_at_default`, recursively) yields None.

  Outside the model (`unmodelled`): Union *item* types (`List[Union[…]]`), a dict given for a leaf field, `_type_`
  keys, a file entry naming another file, paths the shared `parsePath` does not keep literally.  Reused fields (ALWAYS_MERGE), subgroups, `default=` instances and several
  config files are not part of this property (C06/C07/C11).
-/
import SpVerif.Model.Fields
namespace SpVerif.ConfigLoop
open SpVerif

/-- a dataclass instance: its fields in declaration order (the class name of the root is kept outside) -/
inductive Inst
  | nil
  | leaf (name : Str) (v : Val) (rest : Inst)
  /-- a nested dataclass field holding an instance of `cls` -/
  | sub (name : Str) (cls : Str) (child : Inst) (rest : Inst)
  /-- an `Optional[Dataclass]` field holding None -/
  | subNone (name : Str) (rest : Inst)
  deriving DecidableEq, Repr

/-- definition default of a nested dataclass field: none given / `= None` / `default_factory()` result -/
inductive SubDflt
  | missing
  | none
  | inst (t : Inst)
  deriving DecidableEq, Repr

/-- a dataclass definition: fields in declaration order; `FieldSpec.default` is the *definition* default -/
inductive Spec
  | nil
  | leaf (f : FieldSpec) (rest : Spec)
  | sub (name : Str) (cls : Str) (optional : Bool) (dflt : SubDflt) (child : Spec) (rest : Spec)
  deriving DecidableEq, Repr

/-- what `read_file` returns: a dict whose values are raw Python values (null = `Val.sc .none`) or dicts -/
inductive File
  | nil
  | leaf (name : Str) (v : Val) (rest : File)
  | sub (name : Str) (child : File) (rest : File)
  deriving DecidableEq, Repr

inductive Entry
  | val (v : Val)
  | obj (f : File)
  deriving DecidableEq, Repr

inductive Out (α : Type)
  | ok (a : α)
  | exit2                          -- argparse error (required / invalid value), status 2
  /-- `own` = raised while post-processing a leaf field of the wrapper currently being combined (the real code
      post-processes all fields of a wrapper before those of its descendants, parsing.py:954-982) -/
  | raise (exc : Str) (own : Bool)
  | unmodelled (why : String)
  deriving Repr

/-! ### `to_dict` / `encode` (serializable.py:743-774, encoding.py:61-141) -/

/-- `encode` of a scalar: `encode_enum` → name, `encode_path` → `__fspath__()`, everything else a deepcopy -/
def encScalar : Scalar → Scalar
  | .enum _ n => .str n
  | .path s => .str s
  | s => s

/-- `encode`: `encode_list` maps `encode` over lists *and tuples* and returns a list -/
def encode : Val → Val
  | .sc s => .sc (encScalar s)
  | .list l => .list (l.map encScalar)
  | .tuple l => .list (l.map encScalar)

/-- `to_dict(x)`: nested dataclasses recurse, `None` for an Optional dataclass is `encode(None)` = null -/
def fileOf : Inst → File
  | .nil => .nil
  | .leaf n v r => .leaf n (encode v) (fileOf r)
  | .sub n _ c r => .sub n (fileOf c) (fileOf r)
  | .subNone n r => .leaf n (.sc .none) (fileOf r)

/-! ### dict access -/

/-- `d.get(k)` (keys of a dict are unique; the first hit is the only one) -/
def File.get : File → Str → Option Entry
  | .nil, _ => none
  | .leaf n v r, k => if n = k then some (.val v) else r.get k
  | .sub n c r, k => if n = k then some (.obj c) else r.get k

def File.keys : File → List Str
  | .nil => []
  | .leaf n _ r => n :: r.keys
  | .sub n _ r => n :: r.keys

def Spec.names : Spec → List Str
  | .nil => []
  | .leaf f r => f.name :: r.names
  | .sub n _ _ _ _ r => n :: r.names

inductive Attr
  | leaf (v : Val)
  | sub (t : Inst)
  | subNone
  deriving DecidableEq, Repr

/-- `getattr(instance, name)` -/
def Inst.attr : Inst → Str → Option Attr
  | .nil, _ => none
  | .leaf n v r, k => if n = k then some (.leaf v) else r.attr k
  | .sub n _ c r, k => if n = k then some (.sub c) else r.attr k
  | .subNone n r, k => if n = k then some .subNone else r.attr k

/-! ### `DataclassWrapper.defaults` (dataclass_wrapper.py:256-274) -/

/-- the `defaults` list of a wrapper (one destination): `[]`, `[None]` or `[instance]` -/
inductive PD
  | empty
  | none
  | inst (t : Inst)
  deriving DecidableEq, Repr

/-- `defaults` of the child wrapper for field `name`: the parent's default instance's attribute when the
    parent has defaults (a `None` stays `None`), else the field's own default / default_factory result.
    `none` (Option) = the attribute is not a dataclass instance (outside the model). -/
def childPD (pd : PD) (name : Str) (dflt : SubDflt) : Option PD :=
  match pd with
  | .empty => some (match dflt with
      | .missing => .empty
      | .none => .none
      | .inst t => .inst t)
  | .none => some .none
  | .inst t => match t.attr name with
    | some (.sub c) => some (.inst c)
    | some .subNone => some .none
    | _ => none

/-- `all(default in (None, SUPPRESS) for default in wrapper.defaults)` (parsing.py:1148-1150) -/
def PD.isNone : PD → Bool
  | .inst _ => false
  | _ => true

/-! ### `FieldWrapper.default` (field_wrapper.py:711-794), not reused -/

/-- `raw` = what `set_default` stored in `_default` (absent key = nothing stored).  `none` = outside the model. -/
def cascade (pd : PD) (f : FieldSpec) (raw : Option Val) : Option DefaultV :=
  let fromDefinition : Option DefaultV :=
    match pd with
    | .inst t => match t.attr f.name with
      | some (.leaf v) => some (.value v)      -- `getattr(parent_default, name)` — a None here stays None
      | _ => none
    | _ => some f.default                      -- `field.default`, `default_factory()`, else None
  match raw with
  | some v => if v = .sc .none then fromDefinition else some (.value v)   -- `if self._default is not None`
  | none => fromDefinition

/-! ### one leaf field through the empty-argv parse -/

def Out.map {α β : Type} (f : α → β) : Out α → Out β
  | .ok a => .ok (f a)
  | .exit2 => .exit2
  | .raise e o => .raise e o
  | .unmodelled w => .unmodelled w

/-- an exception of a descendant wrapper, seen from its parent -/
def Out.demote {α : Type} : Out α → Out α
  | .raise e _ => .raise e false
  | o => o

/-- combination of two parts of one parse, the first one earlier in declaration order.  argparse errors
    (exit 2) are raised before any post-processing exception; among exceptions the wrapper's own fields come
    before its descendants', otherwise the earlier one; anything outside the model wins over everything. -/
def Out.both {α β γ : Type} (f : α → β → γ) : Out α → Out β → Out γ
  | .unmodelled w, _ => .unmodelled w
  | _, .unmodelled w => .unmodelled w
  | .exit2, _ => .exit2
  | _, .exit2 => .exit2
  | .raise e true, _ => .raise e true
  | .raise _ false, .raise e true => .raise e true
  | .raise e false, _ => .raise e false
  | .ok _, .raise e o => .raise e o
  | .ok a, .ok b => .ok (f a b)

/-- argparse with an empty command line, one action (Appendix D rules 1, 6): the default is stored; a string
    default is converted by `type=` (an `ArgumentTypeError`/`TypeError`/`ValueError` is an argparse error). -/
def emptyArgvValue (fenv : FEnv) (ao : ArgOpts) : Out Val :=
  match ao.default with
  | .sc (.str s) =>
    match ao.conv.apply fenv 0 s with
    | .ok v => .ok (.sc v)
    | .typeErr => .exit2
    | .raise _ => .unmodelled "type= raised something else than a value error"
    | .unmodelled => .unmodelled "type= conversion outside the modelled fragment"
  | v => .ok v

/-- `tuple(raw)` for a raw value that is not a list/tuple (field_wrapper.py:489-496): None is left alone
    (`raw_parsed_value is not None and …`), a str is iterated character by character, numbers / bools / paths /
    enum members are not iterable -/
def tupleOfScalar : Scalar → PostOut
  | .none => .ok (.sc .none)
  | .str s => .ok (.tuple (s.map (fun c => Scalar.str [c])))
  | _ => .raise "TypeError".toList

/-- `FieldWrapper.postprocess` (field_wrapper.py:460-533): `Fields.postprocess`, plus the non-Optional tuple
    branch on a scalar, which `Fields.postprocess` (built for values coming from argparse lists) leaves alone -/
def postprocessC (f : FieldSpec) (nsv : Val) : PostOut :=
  match f.ty.optional, f.ty.inner, nsv with
  | false, .tuple _, .sc s => tupleOfScalar s
  | false, .vtuple _, .sc s => tupleOfScalar s
  | _, _, _ => postprocess f nsv

/-- `get_arg_options` when the field's definition default (`field.default`) and its effective default
    (`FieldWrapper.default`, the cascade) are told apart.  `Fields.argOptions` has one default and reads both
    `field.default is None` (branch 2 of `get_arg_options`, field_wrapper.py:274) and `self.default is None`
    (`required`, 815) off it; they differ for a non-Optional annotation in two ways:
    * `a: int = None` with a value from the file: branch 2 is taken as for `Optional[int]` (wrapped type = the
      annotation itself, never required), with the file value as the action default;
    * a definition default that is not None, but a None from the enclosing default instance: the ordinary branch with
      no default at all (`required` unless forced off). -/
def argOptionsEff (f : FieldSpec) (eff : DefaultV) : Option ArgOpts :=
  let defNone := decide (f.default = .value (.sc .none))
  let effNone := decide (eff = .value (.sc .none))
  if f.ty.optional || defNone == effNone then argOptions { f with default := eff }
  else if defNone then
    match f.ty.inner with
    | .literal _ => argOptions { f with default := eff }          -- `is_choice` comes first
    | _ => argOptions { f with ty := { f.ty with optional := true }, default := eff }
  else argOptions { f with default := .missing }

/-- one leaf field whose effective default (`FieldWrapper.default`) is `eff`:
    `get_arg_options` → empty-argv argparse → `postprocess`.
    `force` = the field's `required` was forced to False (`child_wrapper.required = False` under an Optional
    dataclass, dataclass_wrapper.py:166 / 378-384).
    Returns the constructor argument and whether it equals the field's default (`arg_value != default_value`
    in `_create_dataclass_instance`). -/
def leafWithDefault (fenv : FEnv) (force : Bool) (f : FieldSpec) (eff : DefaultV) : Out (Val × Bool) :=
  match argOptionsEff f eff with
  | none => .unmodelled "annotation outside the modelled fragment"
  | some ao =>
    if ao.required && !force then .exit2
    else
      match emptyArgvValue fenv ao with
      | .ok nsv =>
        (match postprocessC f nsv with
         | .ok v => .ok (v, decide (v = defaultVal eff))
         | .raise exc => .raise exc true)
      | .exit2 => .exit2
      | .raise exc o => .raise exc o
      | .unmodelled w => .unmodelled w

/-- one leaf field: what `set_default` stored → cascade → `leafWithDefault` -/
def parseLeaf (fenv : FEnv) (force : Bool) (pd : PD) (f : FieldSpec) (e : Option Entry) : Out (Val × Bool) :=
  match e with
  | some (.obj _) => .unmodelled "a dict given for a leaf field"
  | some (.val v) =>
    (match cascade pd f (some v) with
     | none => .unmodelled "parent default has no such leaf attribute"
     | some eff => leafWithDefault fenv force f eff)
  | none =>
    (match cascade pd f none with
     | none => .unmodelled "parent default has no such leaf attribute"
     | some eff => leafWithDefault fenv force f eff)

/-! ### the whole class tree -/

/-- `_fill_constructor_arguments_with_fields` + `_instantiate_dataclasses` for the wrapper of `spec`, whose
    `defaults` are `pd` and whose file defaults are `file`.  Result: the constructor arguments as an instance
    tree, and whether the wrapper is *at its defaults* in the sense of `_create_dataclass_instance` /
    `_is_at_default` (parsing.py): every leaf argument equals its field wrapper's default, and every nested member
    is None or is itself at its defaults (recursively). -/
def parseSpec (fenv : FEnv) (force : Bool) : Spec → PD → File → Out (Inst × Bool)
  | .nil, _, _ => .ok (.nil, true)
  | .leaf f rest, pd, file =>
    Out.both (fun (p : Val × Bool) (r : Inst × Bool) => (Inst.leaf f.name p.1 r.1, p.2 && r.2))
      (parseLeaf fenv force pd f (file.get f.name)) (parseSpec fenv force rest pd file)
  | .sub name cls opt dflt child rest, pd, file =>
    -- the member (None or an instance) and whether it is at its defaults (`_is_at_default`: None is)
    let here : Out (Option Inst × Bool) :=
      match childPD pd name dflt with
      | none => .unmodelled "parent default attribute is not a dataclass instance"
      | some cpd =>
        match file.get name with
        | some (.obj cf) =>
          -- `wrapper.default` is the dict: the instance is always created
          (parseSpec fenv (force || opt) child cpd cf).map (fun r => (some r.1, r.2))
        | some (.val (.sc .none)) =>
          -- `set_default(None)`: `wrapper.default is None`; an Optional wrapper whose `defaults` are all None
          -- and which is at its defaults gives None (`_create_dataclass_instance`)
          (parseSpec fenv (force || opt) child cpd .nil).map
            (fun r => if opt && cpd.isNone && r.2 then (none, true) else (some r.1, r.2))
        | none =>
          (parseSpec fenv (force || opt) child cpd .nil).map
            (fun r => if opt && cpd.isNone && r.2 then (none, true) else (some r.1, r.2))
        | some (.val _) => .unmodelled "unreachable: rejected by checkDefaults"
    Out.both (fun (h : Option Inst × Bool) (r : Inst × Bool) =>
        (match h.1 with
         | some i => Inst.sub name cls i r.1
         | none => Inst.subNone name r.1, h.2 && r.2))
      here.demote (parseSpec fenv force rest pd file)

/-- `DataclassWrapper.set_default(dict)` — only what it can raise.  `names` = all field names of the class
    whose wrapper is being visited (`unknown_names` starts as the file's keys). -/
def checkDefaults : Spec → List Str → File → Option Str
  | .nil, names, file =>
    if file.keys.any (fun k => !names.contains k) then some "RuntimeError".toList else none
  | .leaf _ rest, names, file => checkDefaults rest names file
  | .sub name _ _ _ child rest, names, file =>
    match file.get name with
    | some (.obj cf) =>
      (match checkDefaults child child.names cf with
       | some e => some e
       | none => checkDefaults rest names file)
    | some (.val (.sc .none)) => checkDefaults rest names file
    | none => checkDefaults rest names file
    | some (.val _) => some "TypeError".toList          -- `dataclasses.asdict(value)` on a non-dataclass

/-- which front end: `parse()` uses `NestedMode.WITHOUT_ROOT`, `ArgumentParser()` defaults to `DEFAULT` -/
inductive Api | parse | parser
  deriving DecidableEq, Repr

/-- `set_defaults(config_path)` then the empty-argv parse, for one registered dataclass at `dest`;
    both `config_path=` and `--config_path` end in this call (parsing.py:300-334). -/
def run (fenv : FEnv) (api : Api) (dest : Str) (spec : Spec) (top : File) : Out Inst :=
  let defaults := match api with
    | .parse => File.sub dest top .nil        -- `defaults = {self._wrappers[0].dest: defaults}`
    | .parser => top
  match defaults.get dest with
  | none =>
    -- `wrapper.dest not in kwargs`: the keys become plain argparse defaults on the namespace
    (parseSpec fenv false spec .empty .nil).map (·.1)
  | some (.obj f) =>
    (match checkDefaults spec spec.names f with
     | some e => .raise e true
     | none => (parseSpec fenv false spec .empty f).map (·.1))
  | some (.val (.sc (.str _))) => .unmodelled "the entry names another file"
  | some (.val _) => .raise "ValueError".toList true

/-- the layout of the file each front end expects -/
def layoutFile (api : Api) (dest : Str) (f : File) : File :=
  match api with
  | .parse => f
  | .parser => .sub dest f .nil

/-- the loop of the property: save `x`, use the file as the config file, parse an empty command line -/
def loop (fenv : FEnv) (api : Api) (dest : Str) (spec : Spec) (x : Inst) : Out Inst :=
  run fenv api dest spec (layoutFile api dest (fileOf x))

/-! ### the decidable domain predicates

  Used by the theorems of `Props/C15.lean` and evaluated by the driver op `cl.filesafe` (the harness checks on real loops
  that `fileSafe` is true exactly when the real result equals `x`). -/

/-- item types of containers: a base type that is not `Any` (a Union item type is a typing object, not callable) -/
def itemOk : ITy → Bool
  | .base .any => false
  | .base _ => true
  | .union _ => false

def unionAltOk : BTy → Bool
  | .int => true
  | .float => true
  | .str => true
  | .bool => true
  | _ => false

/-- scalar annotations: a base type that is not `Any`, or a Union of int / float / str / bool -/
def scalarTyOk : ITy → Bool
  | .base .any => false
  | .base _ => true
  | .union alts => !alts.isEmpty && alts.all unionAltOk

/-- a Literal value of the modelled kind (no Enum-member values: never generated, so never compared with the code) -/
def litValOk : Scalar → Bool
  | .str _ => true
  | .int _ => true
  | .bool _ => true
  | _ => false

/-- `InCliGrammar`: the annotation is one the command-line model covers and whose values `to_dict` writes -/
def InCliGrammar (t : FTy) : Bool :=
  match t.inner with
  | .sc i => scalarTyOk i
  | .literal vals => !t.optional && vals.all litValOk && (vals.mapM literalName).isSome
  | .list i => itemOk i && (containerConv i).isSome
  | .tuple items => items.all itemOk && (tupleConv items).isSome
  | .vtuple i => itemOk i

/-- the model's `Path(s)` keeps `s` (the shared `parsePath` does no normalisation: other strings are `unmodelled`) -/
def pathGood (s : Str) : Bool := parsePath s == .ok (.path s)

def scalarPathGood : Scalar → Bool
  | .path s => pathGood s
  | _ => true

def pathsGood : Val → Bool
  | .sc s => scalarPathGood s
  | .list l => l.all scalarPathGood
  | .tuple l => l.all scalarPathGood

/-- **`inModel`**: everything that keeps a leaf outside the *model* (not a defect of the code, a limit of what is
    modelled and compared): `Any`, container items of Union type, Unions with non-primitive members, `Optional[Literal]`,
    Enum-valued Literals, and path strings the shared `parsePath` would have to normalise. -/
def inModel (f : FieldSpec) (v : Val) : Bool := InCliGrammar f.ty && pathsGood v

def hasBTy : BTy → Scalar → Bool
  | .int, .int _ => true
  | .float, .float _ => true
  | .str, .str _ => true
  | .bool, .bool _ => true
  | .path, .path _ => true
  | .enum c ms, .enum c' n => c == c' && ms.contains n
  | _, _ => false

def hasITy : ITy → Scalar → Bool
  | .base b, s => hasBTy b s
  | .union alts, s => alts.any (fun b => hasBTy b s)

def hasItems : List ITy → List Scalar → Bool
  | [], [] => true
  | t :: ts, s :: ss => hasITy t s && hasItems ts ss
  | _, _ => false

/-- a value a `Literal[…]` annotation admits -/
def litMember (vals : List Scalar) (s : Scalar) : Bool := litValOk s && vals.contains s

def hasNTy : NTy → Val → Bool
  | .sc i, .sc s => hasITy i s
  | .literal vals, .sc s => litMember vals s
  | .list i, .list l => l.all (hasITy i)
  | .tuple items, .tuple l => hasItems items l
  | .vtuple i, .tuple l => l.all (hasITy i)
  | _, _ => false

/-- `HasType t v`: `v` is a value of annotation `t` -/
def HasType (t : FTy) (v : Val) : Bool :=
  (t.optional && v == .sc .none) || hasNTy t.inner v

/-- an item that `encode` leaves unchanged (today Enum members and Paths are written as `str` and the items of a
    list default are never converted back: finding C15-D17a) -/
def safeItem : Scalar → Bool
  | .enum _ _ => false
  | .path _ => false
  | _ => true

def itemsSafe : Val → Bool
  | .sc _ => true
  | .list l => l.all safeItem
  | .tuple l => l.all safeItem

/-- a string literal value is found back by its name: `choice_dict = {str(v): v for v in values}` keeps the LAST value of
    each name (field_wrapper.py:891), so a str value shadowed by a later value with the same `str()` is lost (finding
    C15-literal-name-collision); non-str values are never looked up -/
def litSafe (vals : List Scalar) (s : Scalar) : Bool :=
  match s with
  | .str n => vals.reverse.find? (fun v => literalName v = some n) == some s
  | _ => true

def literalSafe (t : FTy) (v : Val) : Bool :=
  match t.inner, v with
  | .literal vals, .sc s => litSafe vals s
  | _, _ => true

/-- a str held by a Union field is written as that string and, being a string default, is parsed again by the Union's
    `type=` (members tried in order): safe only when that gives the same string back (finding C15-union-str-reparsed).
    Conservative where a member's parser is outside the modelled fragment (non-ASCII text for `int`): then it is false
    although the code may be fine — the loop model is `unmodelled` there and op `cl.filesafe` does not compare. -/
def unionSafe (fenv : FEnv) (t : FTy) (v : Val) : Bool :=
  match t.inner, v with
  | .sc (.union alts), .sc (.str s) => unionApply fenv (alts.map bconvOf) s == .ok (.str s)
  | _, _ => true

/-- what the cascade yields for a leaf that the file does not mention is None (finding C15-D17b excludes the rest) -/
def noneDefault (pd : PD) (f : FieldSpec) : Bool :=
  match cascade pd f none with
  | some .missing => true
  | some (.value (.sc .none)) => true
  | _ => false

/-- `leafSafe`: the named exclusions for one leaf -/
def leafSafe (fenv : FEnv) (pd : PD) (f : FieldSpec) (v : Val) : Bool :=
  itemsSafe v && literalSafe f.ty v && unionSafe fenv f.ty v && (!(v == .sc .none) || noneDefault pd f)

/-- an `Optional[Dataclass]` holding None comes back as None when every leaf default of the class passes through the
    pipeline unchanged and without error (a syntactic sufficient condition is `defaultsQuiet`, Props/C15) -/
def quietNone (fenv : FEnv) (child : Spec) (cpd : PD) : Bool :=
  match parseSpec fenv true child cpd .nil with
  | .ok (_, true) => true
  | _ => false

/-- **`fileSafe`**: the decidable predicate naming what today's code does not reproduce (the open findings) -/
def fileSafe (fenv : FEnv) : Spec → PD → Inst → Bool
  | .nil, _, .nil => true
  | .leaf f rest, pd, .leaf _ v xr => leafSafe fenv pd f v && fileSafe fenv rest pd xr
  | .sub name _ _ dflt child rest, pd, .sub _ _ xc xr =>
    (match childPD pd name dflt with
     | some cpd => fileSafe fenv child cpd xc
     | none => false) && fileSafe fenv rest pd xr
  | .sub name _ _ dflt child rest, pd, .subNone _ xr =>
    (match childPD pd name dflt with
     | some cpd => cpd.isNone && quietNone fenv child cpd     -- `isNone`: finding C15-none-class-is-absent
     | none => false) && fileSafe fenv rest pd xr
  | _, _, _ => false

/-- `x` is an instance of the class tree (executable form of `C15.Conforms`) -/
def conformsB : Spec → Inst → Bool
  | .nil, .nil => true
  | .leaf f rest, .leaf n v xr => n == f.name && inModel f v && HasType f.ty v && conformsB rest xr
  | .sub name cls _ _ child rest, .sub n c xc xr => n == name && c == cls && conformsB child xc && conformsB rest xr
  | .sub name _ opt _ _ rest, .subNone n xr => n == name && opt && conformsB rest xr
  | _, _ => false

def wfB : Spec → Bool
  | .nil => true
  | .leaf f rest => !rest.names.contains f.name && wfB rest
  | .sub name _ _ _ child rest => !rest.names.contains name && wfB child && wfB rest

end SpVerif.ConfigLoop
