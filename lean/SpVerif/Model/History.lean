/-
  SpVerif.Model.History — a pool of `simple_parsing.ArgumentParser`s as a state machine.

  What lives where in the code (anchors: /repo at 2abd945):
    * process-global spelling settings `G` = the three `FieldWrapper` class attributes
      (wrappers/field_wrapper.py:97-103), overwritten by EVERY constructor (parsing.py:149-151) and READ
      when option strings are generated (field_wrapper.py:599-604) — i.e. during `_preprocessing`, which
      (since the D5 repair 7b430cf) first WRITES the parser's own settings to the class (parsing.py:556-561).
      The model threads `G` through `preprocess` exactly like that (write, then read what was written); the
      pre-repair variant (`Env.reassert = false`: read whatever is there) is kept so that `Props/C08` can show
      the statement is sensitive to those lines;
    * per parser: its own settings (`spec.cfg`, parsing.py:145-147), the registered dataclasses (`_wrappers`,
      parsing.py:284), the `_preprocessing_done` latch (parsing.py:144,553-586), the argparse actions added so
      far (`table`), the defaults pushed into the wrappers by `set_defaults` (parsing.py:408-464) and the ones
      that fell through to argparse's parser-level `_defaults` (`stray`, parsing.py:464), whether `--config_path`
      was already added to the parser itself (parsing.py:348-358) and the subgroup choices resolved by the
      first `_preprocessing` (parsing.py:562-564, 632-806).

  The call counters of the `parse_tuple` closures hanging off the actions (field_parsing.py:223-256) are NOT part
  of the state: since the D8 repair (b1a5942) the item type is chosen modulo the tuple length, a rejected value
  resets the counter, and an accepted command line leaves every counter a multiple of its arity — the last fact is
  a theorem about `Model/Engine` (`C04.c04_counters_aligned`: `Aligned tbl cs → run … cs … = .ok … cs' → Aligned
  tbl cs'`; `C02.c02_tuple_occurrence`: an aligned counter converts an occurrence exactly as counter 0 does), the
  reset is checked on the real closures after every call (observable `closures_at_tuple_start` of the plug-in).
  Every call therefore starts `Model/Engine` with all counters at 0.

  Fragment: flat dataclasses (fields of `Model/Fields`) with at most one `subgroups(...)` field whose
  alternatives are flat dataclasses; AUTO conflict resolution with no clashing option strings;
  config files that mention plain fields of registered destinations only.  Anything else is `unmodelled`.
-/
import SpVerif.Model.Fields
namespace SpVerif.History

/-! ### parser definitions -/

/-- one alternative of a `subgroups({...})` field -/
structure Alt where
  key : Str
  cls : Str
  fields : List FieldSpec
  deriving DecidableEq, Repr

/-- `name: A | B = subgroups({key: cls…}, default=key)` (declared after the plain fields) -/
structure SubSpec where
  name : Str
  alts : List Alt
  default : Str
  deriving DecidableEq, Repr

structure ClassSpec where
  name : Str
  fields : List FieldSpec
  sub : Option SubSpec
  custom : List (Str × BConv) := []     -- `field(..., type=fn)`: a custom `type=` kept in the Field's metadata
  deriving DecidableEq, Repr

/-- one `parser.add_arguments(cls, dest)` -/
structure Reg where
  dest : Str
  cls : ClassSpec
  deriving DecidableEq, Repr

/-- everything that defines a parser: constructor arguments + registrations -/
structure Spec where
  cfg : Cfg
  cfgPath : Bool            -- `add_config_path_arg=True`
  cfgFiles : List Str       -- `config_path=[…]` of the constructor (re-applied by every parse, parsing.py:306-312)
  regs : List Reg
  deriving DecidableEq, Repr

/-- pushed defaults: dest ↦ field ↦ value -/
abbrev FileC := List (Str × List (Str × Val))

/-- content of a config file: `{dest: {field: value}}`, or — the layout `set_defaults` expects from a
    WITHOUT_ROOT parser with a single dataclass (parsing.py:412-422) — `{field: value}` -/
inductive FileJ
  | rooted (c : FileC)
  | rootless (kv : List (Str × Val))
  deriving DecidableEq, Repr

/-- the world outside the process: float parsing table and the files on disk (`none` = no such file) -/
structure Env where
  fenv : FEnv
  files : List (Str × Option FileJ)
  /-- code variant: `true` = the current tree (`_preprocessing` re-asserts the parser's own settings on the
      FieldWrapper class, 7b430cf); `false` = the tree before that repair, kept for `C08.d5_old_witness` only -/
  reassert : Bool := true

/-- a registration after `_resolve_subgroups`: the chosen key of its subgroup field, if it has one -/
structure FReg where
  reg : Reg
  key : Option Str
  deriving DecidableEq, Repr

/-! ### observations -/

/-- a dataclass instance: plain fields, and the chosen alternative's instance under the subgroup field -/
structure Inst where
  dest : Str
  cls : Str
  fields : List (Str × Val)
  sub : Option (Str × Str × List (Str × Val))      -- (field name, class of the alternative, its fields)
  deriving DecidableEq, Repr

inductive Out
  | ok (insts : List Inst) (subgroups : List (Str × Val)) (cfg : Option Val) (extras : List Str)
       (other : List (Str × Val))    -- any other attribute of the namespace (argparse parser-level defaults)
  | exit (code : Nat) (kind : ExitKind)
  | raise (exc : Str)
  | unit                          -- print_help / format_help / construct / add_arguments returned
  | unmodelled (why : String)
  deriving DecidableEq, Repr

/-! ### the per-parser state -/

structure PState where
  spec : Spec
  preDone : Bool := false                   -- `_preprocessing_done`
  table : List Act := [helpAct]             -- `parser._actions`
  frozen : List FReg := []                  -- `_wrappers` as rewritten by `_preprocessing`
  late : List Reg := []                     -- registrations appended after `_preprocessing` ran
  fileDefs : FileC := []                    -- defaults pushed into the wrappers by `set_defaults`
  cfgDefault : Option Val := none           -- `--config_path` already added to this parser, with this default
  stray : List (Str × Val) := []            -- argparse `parser._defaults`: file keys that matched no wrapper
  broken : Bool := false                    -- left the modelled fragment
  deriving DecidableEq, Repr

/-- the parser right after its constructor and its `add_arguments` calls -/
def newP (spec : Spec) : PState := { spec := spec }

/-! ### `_preprocessing` (parsing.py:549-586) -/

def fieldDest (dest name : Str) : Str := dest ++ '.' :: name

/-- `DataclassWrapper.set_default` → `FieldWrapper.set_default`: a pushed value replaces the field's
    own default (field_wrapper.py:726-729) -/
def applyDef (defs : FileC) (dest : Str) (f : FieldSpec) : FieldSpec :=
  match defs.lookup dest with
  | none => f
  | some kv => match kv.lookup f.name with
    | none => f
    | some v => { f with default := .value v }

/-- the argparse action of a subgroup field (field_wrapper.py `get_arg_options`, subgroup branch):
    `type=str, choices=keys, default=default key`; spelling from the globals like every field -/
def subAct (G : Cfg) (dest : Str) (s : SubSpec) : Act :=
  { opts := optionStrings G { name := s.name, pref := [], dest := fieldDest dest s.name, aliases := [] },
    dest := fieldDest dest s.name, kind := .store, nargs := .one, conv := .base .str,
    choices := some (s.alts.map (·.key)), required := false, default := some (.sc (.str s.default)) }

/-- `--m` with a strict `--`-prefix of one of its spellings: the subgroup-choice parser is built with
    `allow_abbrev=False` (parsing.py:678) while `Model/Engine` always abbreviates — outside the fragment -/
def abbrevRisk (acts : List Act) (argv : List Str) : Bool :=
  argv.any (fun t =>
    match t with
    | '-' :: '-' :: _ :: _ =>
      let pre := match splitEq t with | some (a, _) => a | none => t
      acts.any (fun a => a.opts.any (fun o => startsWith o pre && o != pre))
    | _ => false)

/-- `_resolve_subgroups` (parsing.py:632-806) for flat alternatives: one round of
    `argparse.ArgumentParser(add_help=False, allow_abbrev=False).parse_known_args(args)` over the
    subgroup flags of all registrations; no subgroup field ⇒ no parse at all (parsing.py:659-661) -/
def chooseAll (env : Env) (G : Cfg) (regs : List Reg) (args : List Str) : Except Out (List FReg) :=
  let acts := regs.filterMap (fun r => r.cls.sub.map (subAct G r.dest))
  if acts.isEmpty then .ok (regs.map (fun r => { reg := r, key := none }))
  else if abbrevRisk acts args then .error (.unmodelled "abbreviated subgroup flag")
  else
    match run env.fenv acts (acts.map (fun _ => 0)) args with
    | .exit c k => .error (.exit c k)
    | .raise e => .error (.raise e)
    | .unmodelled w => .error (.unmodelled w)
    | .ok ns _ _ =>
      .ok (regs.map (fun r => match r.cls.sub with
        | none => { reg := r, key := none }
        | some s => { reg := r, key := match ns.lookup (fieldDest r.dest s.name) with
            | some (.sc (.str k)) => some k
            | _ => none }))

/-- `DataclassWrapper.add_arguments` (dataclass_wrapper.py:183-214) for one registration and, right
    after it, for the child wrapper of the chosen alternative (`_flatten_wrappers`, parsing.py:1151-1155) -/
def customAct (custom : List (Str × BConv)) (f : FieldSpec) (a : Act) : Act :=
  match custom.lookup f.name with
  | some c => { a with conv := .base c }       -- `custom_arg_options.get("type", …)` (field_wrapper.py:398)
  | none => a

def regActs (G : Cfg) (defs : FileC) (fr : FReg) : Option (List Act) :=
  match fr.reg.cls.fields.mapM (fun f =>
      (fieldAct G fr.reg.dest (applyDef defs fr.reg.dest f)).map (customAct fr.reg.cls.custom f)) with
  | none => none
  | some plain =>
    match fr.reg.cls.sub, fr.key with
    | none, _ => some plain
    | some s, some k =>
      (match s.alts.find? (fun a => a.key = k) with
       | none => none
       | some alt =>
         (alt.fields.mapM (fieldAct G (fieldDest fr.reg.dest s.name))).map
           (fun child => plain ++ [subAct G fr.reg.dest s] ++ child))
    | some _, none => none

def buildActs (G : Cfg) (defs : FileC) : List FReg → Option (List Act)
  | [] => some []
  | fr :: rest =>
    match regActs G defs fr, buildActs G defs rest with
    | some a, some b => some (a ++ b)
    | _, _ => none

def nodupStr : List Str → Bool
  | [] => true
  | x :: xs => !xs.contains x && nodupStr xs

/-- clashing option strings (conflict resolution would rename them) are outside the fragment -/
def tableOk (tbl : List Act) : Bool := nodupStr (tbl.flatMap (·.opts))

/-- the action table after `_preprocessing`: what was there + one action per field, spelled with `G` -/
def tableFor (G : Cfg) (defs : FileC) (pre : List Act) (fregs : List FReg) : Option (List Act) :=
  match buildActs G defs fregs with
  | none => none
  | some acts => if tableOk (pre ++ acts) then some (pre ++ acts) else none

inductive PreOut
  | ok (p : PState)
  | stop (p : PState) (o : Out)

/-- the body of `_preprocessing(args)` (parsing.py:549-586) while the FieldWrapper class attributes are `Gr`:
    early return once done; otherwise resolve the subgroups FROM THIS argv, add one action per field — every
    option string READS the class attributes — and latch -/
def preprocessAt (env : Env) (Gr : Cfg) (p : PState) (args : List Str) : PreOut :=
  if p.preDone then .ok p
  else
    match chooseAll env Gr p.spec.regs args with
    | .error (.unmodelled w) => .stop { p with broken := true } (.unmodelled w)
    | .error o => .stop p o
    | .ok fregs =>
      match tableFor Gr p.fileDefs p.table fregs with
      | none => .stop { p with broken := true } (.unmodelled "field outside the fragment / clashing options")
      | some tbl =>
        .ok { p with preDone := true, table := tbl, frozen := fregs }

/-- `_preprocessing(args)` with the class attributes threaded: after the early-return check the parser WRITES its
    own settings to the class (parsing.py:556-561, the D5 repair), then everything below READS the class -/
def preprocess (env : Env) (G : Cfg) (p : PState) (args : List Str) : PreOut × Cfg :=
  if p.preDone then (.ok p, G)
  else
    let G1 := if env.reassert then p.spec.cfg else G
    (preprocessAt env G1 p args, G1)

/-! ### `_postprocessing` (parsing.py:589-630, 808-1024) -/

def instOf (defs : FileC) (ns : List (Str × Val)) (fr : FReg) : Except Out Inst :=
  let r := fr.reg
  match postAll r.dest ns (r.cls.fields.map (applyDef defs r.dest)) with
  | .error e => .error (.raise e)
  | .ok fs =>
    match r.cls.sub, fr.key with
    | none, _ => .ok { dest := r.dest, cls := r.cls.name, fields := fs, sub := none }
    | some s, some k =>
      (match s.alts.find? (fun a => a.key = k) with
       | none => .error (.unmodelled "unknown subgroup key")
       | some alt =>
         match postAll (fieldDest r.dest s.name) ns alt.fields with
         | .error e => .error (.raise e)
         | .ok cfs => .ok { dest := r.dest, cls := r.cls.name, fields := fs, sub := some (s.name, alt.cls, cfs) })
    | some _, none => .error (.unmodelled "unresolved subgroup")

/-- a registration that came after `_preprocessing`: no action was ever added for its fields, so each field
    receives `field.default` (parsing.py:1005 `parsed_arg_values.pop(field.dest, field.default)`) -/
def lateInst (defs : FileC) (r : Reg) : Except Out Inst :=
  match r.cls.sub with
  | some _ => .error (.unmodelled "late registration with a subgroup field")
  | none =>
    match postAll r.dest [] (r.cls.fields.map (applyDef defs r.dest)) with
    | .error e => .error (.raise e)
    | .ok fs => .ok { dest := r.dest, cls := r.cls.name, fields := fs, sub := none }

/-- the subgroup flags' own parsed values, moved to `namespace.subgroups` (parsing.py:808-825) -/
def subgroupsOf (ns : List (Str × Val)) (frozen : List FReg) : List (Str × Val) :=
  frozen.filterMap (fun fr => fr.reg.cls.sub.bind (fun s =>
    (ns.lookup (fieldDest fr.reg.dest s.name)).map (fun v => (fieldDest fr.reg.dest s.name, v))))

def cfgDest : Str := "config_path".toList

/-- everything after `_preprocessing`: `super().parse_known_args` + `_postprocessing`; a pure function of the
    table, the wrapper list and the pushed defaults -/
def finishOut (env : Env) (table : List Act) (frozen : List FReg) (late : List Reg)
    (defs : FileC) (stray : List (Str × Val)) (known : Bool) (rest : List Str) : Out :=
  let cs := table.map (fun _ => 0)
  match (if known then run env.fenv table cs rest else runStrict env.fenv table cs rest) with
  | .exit c k => .exit c k
  | .raise e => .raise e
  | .unmodelled w => .unmodelled w
  | .ok ns extras _ =>
    match frozen.mapM (instOf defs ns), late.mapM (lateInst defs) with
    | .error o, _ => o
    | _, .error o => o
    -- argparse: `for dest in self._defaults: if not hasattr(namespace, dest): setattr(…)`; `interpret` only
    -- lets undotted names other than `config_path` through, no action owns such a dest
    | .ok a, .ok b => .ok (a ++ b) (subgroupsOf ns frozen) (ns.lookup cfgDest) extras stray

/-! ### the `--config_path` prologue of `parse_known_args` (parsing.py:306-358) -/

def cfgTempAct : Act :=
  { opts := ["--config_path".toList], dest := cfgDest, kind := .store, nargs := .star, conv := .base .path,
    choices := none, required := false, default := some (.sc .none) }

/-- the action added to the parser itself: `type=Path`, no `nargs`, `default=` what the temp parser found -/
def cfgAct (d : Val) : Act :=
  { opts := ["--config_path".toList], dest := cfgDest, kind := .store, nargs := .one, conv := .base .path,
    choices := none, required := false, default := some d }

def unionKV (a b : List (Str × Val)) : List (Str × Val) :=
  b.foldl (fun acc kv => if acc.any (fun p => p.1 = kv.1) then acc.map (fun p => if p.1 = kv.1 then kv else p)
                         else acc ++ [kv]) a

/-- `set_defaults(file)`: every mentioned field's `_default` is overwritten; nothing is ever removed -/
def unionDefs (a b : FileC) : FileC :=
  b.foldl (fun acc dk =>
    if acc.any (fun p => p.1 = dk.1) then acc.map (fun p => if p.1 = dk.1 then (p.1, unionKV p.2 dk.2) else p)
    else acc ++ [dk]) a

/-- what `set_defaults` knows when it reads a file: `self._wrappers` (destination ↦ field names) and — when the
    parser's OWN nested mode is WITHOUT_ROOT and exactly one wrapper is TOP-LEVEL (`parent is None`; since 2abd945 the
    child wrappers that `_preprocessing` flattens into `_wrappers` no longer count, parsing.py:412-422) — that one
    wrapper, under which a root-less file is filed -/
structure LoadCtx where
  wrappers : List (Str × List Str)
  root : Option (Str × List Str)

def plainNames (c : ClassSpec) : List Str := c.fields.map (·.name)

/-- `self._wrappers` at this moment: the registrations, or — once `_preprocessing` ran — the flattened list
    including one child wrapper per resolved subgroup (children have dotted dests, no file addresses them) -/
def loadCtx (p : PState) : LoadCtx :=
  let top : List (Str × List Str) :=
    if p.preDone then (p.frozen.map (fun fr => (fr.reg.dest, plainNames fr.reg.cls))) ++
      p.late.map (fun r => (r.dest, plainNames r.cls))
    else p.spec.regs.map (fun r => (r.dest, plainNames r.cls))
  let children : List (Str × List Str) :=
    if p.preDone then p.frozen.filterMap (fun fr => fr.key.map (fun _ => (fr.reg.dest ++ ['.'], [])))
    else []
  { wrappers := top ++ children,
    root := match p.spec.cfg.nest, top with
      | .withoutRoot, [w] => some w
      | _, _ => none }

inductive Interp
  | defs (c : FileC)                 -- pushed into the wrappers (`wrapper.set_default`)
  | stray (kv : List (Str × Val))    -- no wrapper has such a dest: `super().set_defaults(**kwargs)` (parsing.py:464)
  | foreign                          -- RuntimeError / nested dicts on the namespace …: outside the fragment

/-- what one file does (parsing.py:410-464) -/
def interpret (ctx : LoadCtx) : FileJ → Interp
  | .rooted c =>
    if ctx.root.isNone && c.all (fun dk => match ctx.wrappers.lookup dk.1 with
        | some names => dk.2.all (fun kv => names.contains kv.1)
        | none => false) then .defs c else .foreign
  | .rootless kv =>
    match ctx.root with
    | some (d, names) => if kv.all (fun x => names.contains x.1) then .defs [(d, kv)] else .foreign
    | none =>
      let ws := ctx.wrappers
      -- the file is NOT taken as root-less: its top-level keys are looked up among the wrappers' dests, none
      -- matches, and they all become parser-level defaults, i.e. plain attributes of every later namespace
      if kv.all (fun x => !(ws.any (fun w => w.1 = x.1)) && !x.1.contains '.' && x.1 != cfgDest
                          && x.1 != "help".toList && x.1 != "subgroups".toList)
      then .stray kv else .foreign

inductive LoadOut
  | ok (defs : FileC) (stray : List (Str × Val))
  | missing (defs : FileC) (stray : List (Str × Val))   -- `FileNotFoundError` after the earlier files were applied
  | foreign                                              -- outside the fragment
  deriving DecidableEq, Repr

def loadFiles (env : Env) (ctx : LoadCtx) : FileC → List (Str × Val) → List Str → LoadOut
  | defs, st, [] => .ok defs st
  | defs, st, f :: fs =>
    match env.files.lookup f with
    | none => .missing defs st
    | some none => .missing defs st
    | some (some j) =>
      match interpret ctx j with
      | .defs c => loadFiles env ctx (unionDefs defs c) st fs
      | .stray kv => loadFiles env ctx defs (unionKV st kv) fs
      | .foreign => .foreign

def pathNames : List Scalar → List Str
  | [] => []
  | .path s :: r => s :: pathNames r
  | _ :: r => pathNames r

/-- what the temporary parser makes of argv: the remaining tokens, the value of `config_path`, the file names -/
structure Scan where
  rest : List Str
  v : Val
  names : List Str
  deriving DecidableEq, Repr

/-- `temp_parser.parse_known_args(args)` (parsing.py:320-335); without `add_config_path_arg` nothing is scanned -/
def cfgScan (env : Env) (cfgPath : Bool) (argv : List Str) : Except Out Scan :=
  if !cfgPath then .ok { rest := argv, v := .sc .none, names := [] }
  else
    match run env.fenv [cfgTempAct] [0] argv with
    | .exit c k => .error (.exit c k)
    | .raise e => .error (.raise e)
    | .unmodelled w => .error (.unmodelled w)
    | .ok ns rest _ =>
      let v := (ns.lookup cfgDest).getD (.sc .none)
      .ok { rest := rest, v := v, names := match v with | .list l => pathNames l | _ => [] }

/-- `config_path_action.default = config_path`: the one action registered for `--config_path` (parsing.py:346-358) -/
def setCfgDefault (v : Val) : List Act → List Act
  | [] => []
  | a :: rest => if a.dest = cfgDest then { a with default := some v } :: rest else a :: setCfgDefault v rest

inductive CfgOut
  | go (p : PState) (rest : List Str)
  | stop (p : PState) (o : Out)

/-- the prologue of `parse_known_args` (parsing.py:306-358): constructor files, then the `--config_path` scan.
    Nothing here READS the FieldWrapper class attributes (`set_defaults` uses `self.nested_mode`). -/
def cfgPhase (env : Env) (p : PState) (argv : List Str) : CfgOut :=
  -- for config_file in self.config_path: self.set_defaults(config_file)   (every call)
  match loadFiles env (loadCtx p) p.fileDefs p.stray p.spec.cfgFiles with
  | .foreign => .stop { p with broken := true } (.unmodelled "constructor config file does not fit the layout")
  | .missing defs st => .stop { p with fileDefs := defs, stray := st } (.raise "FileNotFoundError".toList)
  | .ok defs0 st0 =>
    let p0 := { p with fileDefs := defs0, stray := st0 }
    if !p.spec.cfgPath then .go p0 argv
    else if !p.spec.cfgFiles.isEmpty then
      .stop { p0 with broken := true } (.unmodelled "config_path= together with add_config_path_arg")
    else
      match cfgScan env true argv with
      | .error (.unmodelled w) => .stop { p0 with broken := true } (.unmodelled w)
      | .error o => .stop p0 o
      | .ok sc =>
        -- for config_file in config_paths: self.set_defaults(config_file)  (parsing.py:337-340)
        match loadFiles env (loadCtx p0) p0.fileDefs p0.stray sc.names with
        | .foreign => .stop { p0 with broken := true } (.unmodelled "config file does not fit the layout")
        | .missing defs st => .stop { p0 with fileDefs := defs, stray := st } (.raise "FileNotFoundError".toList)
        | .ok defs st =>
          match p0.cfgDefault with
          | none =>
            -- first call: self.add_argument("--config_path", type=Path, default=config_path)
            .go { p0 with fileDefs := defs, stray := st, cfgDefault := some sc.v,
                          table := p0.table ++ [cfgAct sc.v] } sc.rest
          | some _ =>
            -- later calls: only the default of that action is refreshed (the D6 repair)
            .go { p0 with fileDefs := defs, stray := st, cfgDefault := some sc.v,
                          table := setCfgDefault sc.v p0.table } sc.rest

/-- the class attributes after the prologue: the temporary `--config_path` parser is CONSTRUCTED with this
    parser's settings (parsing.py:320-326) — a constructor, so it writes them to the class -/
def cfgG (env : Env) (G : Cfg) (p : PState) : Cfg :=
  match loadFiles env (loadCtx p) p.fileDefs p.stray p.spec.cfgFiles with
  | .ok _ _ => if p.spec.cfgPath && p.spec.cfgFiles.isEmpty then p.spec.cfg else G
  | _ => G

/-! ### the operations -/

/-- `_preprocessing` + `super().parse_known_args` + `_postprocessing` on the state the prologue left -/
def finishCore (env : Env) (r : PreOut) (known : Bool) (rest : List Str) : PState × Out :=
  match r with
  | .stop p2 o => (p2, o)
  | .ok p2 =>
    match finishOut env p2.table p2.frozen p2.late p2.fileDefs p2.stray known rest with
    | .unmodelled w => ({ p2 with broken := true }, .unmodelled w)
    | o => (p2, o)

def finishP (env : Env) (G : Cfg) (p1 : PState) (known : Bool) (rest : List Str) : PState × Out × Cfg :=
  let r := preprocess env G p1 rest
  ((finishCore env r.1 known rest).1, (finishCore env r.1 known rest).2, r.2)

/-- `parser.parse_args(argv)` (`known = false`) / `parser.parse_known_args(argv)`, called while the class
    attributes are `G`; returns the class attributes afterwards as well -/
def parseP (env : Env) (G : Cfg) (p : PState) (known : Bool) (argv : List Str) : PState × Out × Cfg :=
  if p.broken then (p, .unmodelled "parser left the fragment earlier", G)
  else
    match cfgPhase env p argv with
    | .stop p1 o => (p1, o, cfgG env G p)
    | .go p1 rest => finishP env (cfgG env G p) p1 known rest

def helpCore (r : PreOut) : PState × Out :=
  match r with
  | .stop p2 o => (p2, o)
  | .ok p2 => (p2, .unit)

/-- `parser.print_help()` (parsing.py:396-406): while the parser is not set up, the constructor's `config_path=`
    files are applied first (like `parse_known_args` does — a missing file raises from here too), then
    `_preprocessing(args=[])` -/
def helpP (env : Env) (G : Cfg) (p : PState) : PState × Out × Cfg :=
  if p.broken then (p, .unmodelled "parser left the fragment earlier", G)
  else if p.preDone then (p, .unit, G)
  else
    match loadFiles env (loadCtx p) p.fileDefs p.stray p.spec.cfgFiles with
    | .foreign => ({ p with broken := true }, .unmodelled "constructor config file does not fit the layout", G)
    | .missing defs st => ({ p with fileDefs := defs, stray := st }, .raise "FileNotFoundError".toList, G)
    | .ok defs st =>
      let r := preprocess env G { p with fileDefs := defs, stray := st } []
      ((helpCore r.1).1, (helpCore r.1).2, r.2)

/-- `parser.add_arguments(cls, dest)` (parsing.py:224-285): appended to `_wrappers`; once `_preprocessing` ran
    nobody looks at new wrappers again until `_postprocessing` -/
def addP (p : PState) (r : Reg) : PState × Out :=
  if p.spec.regs.any (fun q => q.dest = r.dest) then ({ p with broken := true }, .unmodelled "destination reused")
  else if !p.stray.isEmpty then
    -- `_add_arguments` consults `self._defaults` (parsing.py:526-546): outside the fragment
    ({ p with broken := true }, .unmodelled "registration while parser-level defaults exist")
  else
    let spec := { p.spec with regs := p.spec.regs ++ [r] }
    if p.preDone then ({ p with spec := spec, late := p.late ++ [r] }, .unit)
    else ({ p with spec := spec }, .unit)

inductive Op
  | construct (i : Nat) (cfg : Cfg) (cfgPath : Bool) (cfgFiles : List Str)
  | add (i : Nat) (r : Reg)
  | parse (i : Nat) (known : Bool) (argv : List Str)
  | printHelp (i : Nat)
  | formatHelp (i : Nat)
  deriving Repr

structure State where
  G : Cfg                               -- the `FieldWrapper` class attributes
  pool : Nat → Option PState

/-- import-time values (field_wrapper.py:97-103) -/
def G0 : Cfg := { dash := .underscore, gen := .flat, nest := .default }

def init : State := { G := G0, pool := fun _ => none }

def setPool (pool : Nat → Option PState) (i : Nat) (p : PState) : Nat → Option PState :=
  fun j => if j = i then some p else pool j

def Op.idx : Op → Nat
  | .construct i _ _ _ => i | .add i _ => i | .parse i _ _ => i | .printHelp i => i | .formatHelp i => i

/-- one API call -/
def step (env : Env) (s : State) : Op → State × Out
  | .construct i cfg cp fs =>
    -- the constructor stores the settings on `self` AND on the FieldWrapper class (parsing.py:145-151)
    ({ G := cfg, pool := setPool s.pool i (newP { cfg := cfg, cfgPath := cp, cfgFiles := fs, regs := [] }) }, .unit)
  | .add i r =>
    match s.pool i with
    | none => (s, .unmodelled "no such parser")
    | some p => let (p', o) := addP p r; ({ s with pool := setPool s.pool i p' }, o)
  | .parse i known argv =>
    match s.pool i with
    | none => (s, .unmodelled "no such parser")
    | some p =>
      let r := parseP env s.G p known argv
      ({ G := r.2.2, pool := setPool s.pool i r.1 }, r.2.1)
  | .printHelp i =>
    match s.pool i with
    | none => (s, .unmodelled "no such parser")
    | some p => let r := helpP env s.G p; ({ G := r.2.2, pool := setPool s.pool i r.1 }, r.2.1)
  | .formatHelp i =>
    -- `format_help` is not overridden: it prints whatever actions exist and changes nothing
    match s.pool i with
    | none => (s, .unmodelled "no such parser")
    | some _ => (s, .unit)

/-- the outputs of a whole history -/
def runHist (env : Env) : State → List Op → List Out
  | _, [] => []
  | s, op :: ops => (step env s op).2 :: runHist env (step env s op).1 ops

/-- the FieldWrapper class attributes after each call of a history -/
def runG (env : Env) : State → List Op → List Cfg
  | _, [] => []
  | s, op :: ops => (step env s op).1.G :: runG env (step env s op).1 ops

/-- the answer of a freshly built, identically configured parser: a one-parser history (its own constructor was
    the last one to write the class attributes) -/
def fresh (env : Env) (spec : Spec) (known : Bool) (argv : List Str) : Out :=
  (parseP env spec.cfg (newP spec) known argv).2.1

end SpVerif.History
