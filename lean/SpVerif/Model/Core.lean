/-
  SpVerif.Model.Core — shared vocabulary of the executable model.

  Strings are `List Char` inside the model so that core `List` lemmas apply; the driver converts
  at the I/O boundary.  Nothing here imports anything outside core Lean.
-/
namespace SpVerif

abbrev Str := List Char

/-- `s.replace("_", "-")` -/
def dashify (s : Str) : Str := s.map (fun c => if c = '_' then '-' else c)

/-- `"_" in s` -/
def hasUnderscore (s : Str) : Bool := s.contains '_'

/-- `sep.join(parts)` for a one-character separator. -/
def joinWith (sep : Char) : List Str → Str
  | [] => []
  | [p] => p
  | p :: q :: rest => p ++ sep :: joinWith sep (q :: rest)

/-- `s.split(sep)` for a one-character separator (Python semantics: never returns `[]`). -/
def splitOnChar (sep : Char) : Str → List Str
  | [] => [[]]
  | c :: cs =>
    if c = sep then [] :: splitOnChar sep cs
    else match splitOnChar sep cs with
      | [] => [[c]]          -- unreachable (see `splitOnChar_ne_nil`)
      | p :: ps => (c :: p) :: ps

/-- `s.lstrip("-")` -/
def lstripDash : Str → Str
  | '-' :: cs => lstripDash cs
  | cs => cs

/-- number of leading dashes -/
def leadingDashes : Str → Nat
  | '-' :: cs => leadingDashes cs + 1
  | _ => 0

/-- `s.startswith(p)` -/
def startsWith : Str → Str → Bool
  | _, [] => true
  | [], _ :: _ => false
  | c :: cs, d :: ds => c == d && startsWith cs ds

/-- order-preserving duplicate removal (first occurrence kept) -/
def dedup [BEq α] : List α → List α
  | [] => []
  | x :: xs => x :: (dedup xs).filter (fun y => !(y == x))

/-- The DashVariant enum (`AUTO` is an alias of `UNDERSCORE` in the code). -/
inductive Dash | underscore | both | dashOnly
  deriving DecidableEq, Repr

/-- ArgumentGenerationMode -/
inductive Gen | flat | nested | both
  deriving DecidableEq, Repr

/-- NestedMode -/
inductive Nest | default | withoutRoot
  deriving DecidableEq, Repr

/-- ConflictResolution -/
inductive CR | none | explicit | always_merge | auto
  deriving DecidableEq, Repr

structure Cfg where
  dash : Dash
  gen : Gen
  nest : Nest
  deriving DecidableEq, Repr

def Dash.all : List Dash := [.underscore, .both, .dashOnly]
def Gen.all : List Gen := [.flat, .nested, .both]
def Nest.all : List Nest := [.default, .withoutRoot]

end SpVerif
