/-
  SpVerif.Model.Replace — executable model of `simple_parsing/replace.py` (replace, replace_subgroups,
  _unflatten_selection_dict) and `simple_parsing/utils.py:912-956` (unflatten, unflatten_split).  Line numbers refer to /repo at bba27c4.

  Instances are trees; every field carries its `init` flag and (for `init=False` fields) the class
  default that `dataclasses.replace` re-creates.  Dicts are insertion-ordered association lists.
  Outcomes the real code raises on are distinct constructors of `Err`.
-/
import SpVerif.Model.Core
namespace SpVerif.Replace
open SpVerif

mutual
/-- Python values that occur in instances, change sets and selections. -/
inductive Val
  | int (i : Int)
  | str (s : Str)
  | bool (b : Bool)
  | none
  | list (vs : List Val)
  | dict (kvs : List (Str × Val))
  /-- a dataclass instance: class name, fields in declaration order -/
  | inst (cls : Str) (fs : List Fld)
  /-- a dataclass *type* used as a selection value; `mk` is what calling it with no arguments returns -/
  | type (cls : Str) (mk : Val)
/-- one field of an instance: name, `field.init`, current value, class default (used only when `init=False`) -/
inductive Fld
  | mk (name : Str) (init : Bool) (val : Val) (dflt : Val)
end

abbrev Dict := List (Str × Val)

def Fld.name : Fld → Str | .mk n _ _ _ => n
def Fld.init : Fld → Bool | .mk _ i _ _ => i
def Fld.val : Fld → Val | .mk _ _ v _ => v
def Fld.dflt : Fld → Val | .mk _ _ _ d => d

inductive Exc | valueError | typeError | assertionError | keyError | indexError
  deriving DecidableEq, Repr

inductive Err
  | raise (e : Exc)
  /-- outside the modelled fragment -/
  | unmodelled (why : Str)

abbrev Out := Except Err

/-! ### insertion-ordered dict primitives -/

/-- `d.get(k)` -/
def dget : Dict → Str → Option Val
  | [], _ => none
  | (k', v) :: r, k => if k' = k then some v else dget r k

/-- `d[k] = v` : in place when the key exists, appended otherwise -/
def dset : Dict → Str → Val → Dict
  | [], k, v => [(k, v)]
  | (k', v') :: r, k, v => if k' = k then (k', v) :: r else (k', v') :: dset r k v

/-- `d.pop(k, None)` (the remaining dict) -/
def ddel : Dict → Str → Dict
  | [], _ => []
  | (k', v') :: r, k => if k' = k then r else (k', v') :: ddel r k

def dkeys (d : Dict) : List Str := d.map (·.1)

/-! ### utils.py:912-926 `unflatten`, 941-956 `unflatten_split` -/

/-- inner loop of `unflatten` for one `(keys, value)` item: walk `keys[:-1]` with `setdefault(part, {})`
    (asserting each level is a dict), then `sub[keys[-1]] = value`. -/
def setPath (d : Dict) : List Str → Val → Out Dict
  | [], _ => .error (.raise .indexError)            -- `keys[-1]` of an empty tuple; `split` never yields it
  | [k], v => .ok (dset d k v)
  | k :: k2 :: rest, v =>
    match dget d k with
    | Option.none =>
      match setPath [] (k2 :: rest) v with
      | .ok s => .ok (dset d k (.dict s))
      | .error e => .error e
    | some (.dict s) =>
      match setPath s (k2 :: rest) v with
      | .ok s' => .ok (dset d k (.dict s'))
      | .error e => .error e
    | some _ => .error (.raise .assertionError)      -- `assert isinstance(sub_dictionary, dict)`

/-- `unflatten` over items in insertion order, starting from `acc` -/
def unflattenFrom (acc : Dict) : List (List Str × Val) → Out Dict
  | [] => .ok acc
  | (ks, v) :: rest =>
    match setPath acc ks v with
    | .ok acc' => unflattenFrom acc' rest
    | .error e => .error e

/-- `key.split(".")` -/
def splitDot (k : Str) : List Str := splitOnChar '.' k

/-- `unflatten_split(flattened)` (`sep="."`; the `recursive` parameter is unused by the code) -/
def unflattenSplit (ch : Dict) : Out Dict :=
  unflattenFrom [] (ch.map (fun kv => (splitDot kv.1, kv.2)))

/-! ### replace.py:37-112 `replace` -/

/-- keyword names that collide with `replace`'s own parameters.  Only the *top-level keyword form*
    `replace(obj, **changes)` is affected (Python itself rejects / rebinds such a call); nested change
    dicts are passed on positionally (replace.py:103, repaired in 4cae786), so nested fields may carry
    these names. -/
def reservedKey (k : Str) : Bool := k == "obj".toList || k == "changes_dict".toList

def hasReserved (d : Dict) : Bool := d.any (fun kv => reservedKey kv.1)

/-- `dataclasses.replace(obj, **kwargs)` after every init field has been given its (old or new) value:
    `cls(**kwargs)` — `init=False` fields are re-created from the class default. -/
def rebuild (fs : List Fld) : List Fld :=
  fs.map (fun f => match f with | .mk n i v d => if i then .mk n i v d else .mk n i d d)

mutual
/-- replace.py:88-112 for keyword-style changes (`changes_dict` falsy). -/
def replaceKw : Val → Dict → Out Val
  | .inst cls fs, changes =>
    match unflattenSplit changes with                       -- :88
    | .error e => .error e
    | .ok ch =>
      match replaceFields fs ch with                        -- :91-106
      | .error e => .error e
      | .ok (fs', []) => .ok (.inst cls (rebuild fs'))      -- :112
      | .ok (_, _ :: _) => .error (.raise .typeError)       -- :110 leftovers → unexpected keyword argument
  | _, changes =>
    match unflattenSplit changes with
    | .error e => .error e
    | .ok _ => .error (.raise .typeError)                   -- `dataclasses.fields(obj)` on a non-dataclass
/-- the field loop (replace.py:91-106); returns the new field list and the leftover changes -/
def replaceFields : List Fld → Dict → Out (List Fld × Dict)
  | [], ch => .ok ([], ch)
  | .mk n i v d :: rest, ch =>
    match dget ch n with
    | Option.none =>                                        -- :92 `continue`
      match replaceFields rest ch with
      | .ok (r, lo) => .ok (.mk n i v d :: r, lo)
      | .error e => .error e
    | some x =>
      if !i then .error (.raise .valueError) else           -- :94
      match v, x with
      | .inst c sub, .dict fc =>                            -- :99-103 `replace(field_value, field_changes)`
        match replaceKw (.inst c sub) fc with
        | .error e => .error e
        | .ok v' =>
          match replaceFields rest (ddel ch n) with
          | .ok (r, lo) => .ok (.mk n i v' d :: r, lo)
          | .error e => .error e
      | _, _ =>                                             -- :105
        match replaceFields rest (ddel ch n) with
        | .ok (r, lo) => .ok (.mk n i x d :: r, lo)
        | .error e => .error e
end

/-- replace.py:83-85: `changes_dict` (positional) and `**changes`.  (The recursive call at :103 passes a
    positional dict and no keywords: `changes_dict or changes` is then the dict itself, or `{}` when it is
    empty — in both cases what `replaceKw` receives.) -/
def replaceTop (obj : Val) (cd : Option Dict) (kw : Dict) : Out Val :=
  if hasReserved kw then .error (.unmodelled "reserved-keyword".toList) else
  match cd with
  | some (c :: cs) => if kw.isEmpty then replaceKw obj (c :: cs) else .error (.raise .valueError)
  | _ => replaceKw obj kw

/-! ### reference: `dataclasses.replace` applied level by level along a list of edits -/

/-- read `obj.a.b.c` through dataclass instances only -/
def getField : List Fld → Str → Option Val
  | [], _ => Option.none
  | .mk n _ v _ :: rest, k => if n = k then some v else getField rest k

def getPath : Val → List Str → Option Val
  | v, [] => some v
  | .inst _ fs, k :: rest =>
    match getField fs k with
    | some v => getPath v rest
    | Option.none => Option.none
  | _, _ :: _ => Option.none

/-- `dataclasses.replace(obj, name=value)` on the field list (init field `name` must exist) -/
def setField : List Fld → Str → Val → Option (List Fld)
  | [], _, _ => Option.none
  | .mk n i v d :: rest, k, x =>
    if n = k then (if i then some (.mk n i x d :: rest) else Option.none)
    else (setField rest k x).map (fun r => .mk n i v d :: r)

/-- one edit, level by level: `dataclasses.replace(obj, a=dataclasses.replace(obj.a, b=…))` -/
def refEdit : Val → List Str → Val → Option Val
  | _, [], _ => Option.none
  | .inst c fs, [k], x => (setField fs k x).map (fun fs' => .inst c (rebuild fs'))
  | .inst c fs, k :: k2 :: rest, x =>
    match getField fs k with
    | some sub =>
      match refEdit sub (k2 :: rest) x with
      | some sub' => (setField fs k sub').map (fun fs' => .inst c (rebuild fs'))
      | Option.none => Option.none
    | Option.none => Option.none
  | _, _ :: _, _ => Option.none

/-! ### replace.py:200-248 `_unflatten_selection_dict(recursive=False)`, 115-197 `replace_subgroups` -/

def keyword : Str := "__key__".toList

/-- first pass (:223-227): top-level keys that have at least one dotted entry -/
def selTops (sel : Dict) : List Str :=
  sel.filterMap (fun kv => match splitDot kv.1 with | t :: _ :: _ => some t | _ => Option.none)

/-- second pass (:229-241) for one item -/
def selStep (tops : List Str) (dc : Dict) (kv : Str × Val) : Dict :=
  match splitDot kv.1 with
  | top :: rest =>
    if tops.contains top then
      let sub : Dict := match dget dc top with | some (.dict s) => s | _ => []
      let sub' := if rest.isEmpty then dset sub keyword kv.2 else dset sub (joinWith '.' rest) kv.2
      dset dc top (.dict sub')
    else dset dc kv.1 kv.2
  | [] => dset dc kv.1 kv.2

def unflattenSel (sel : Dict) : Dict := sel.foldl (selStep (selTops sel)) []

/-- class-level facts about one field that `replace_subgroups` consults -/
structure SgMeta where
  /-- `contains_dataclass_type_arg(annotation)` -/
  hasDc : Bool
  /-- `is_optional(annotation)` -/
  isOpt : Bool
  /-- `field.metadata["subgroups"]`: key ↦ what the alternative yields (type/partial called, frozen instance as is) -/
  sg : Option Dict
  /-- `field.default_factory()` if there is a factory -/
  fac : Option Val

abbrev SgTable := List ((Str × Str) × SgMeta)

def sgMeta (tbl : SgTable) (cls fname : Str) : SgMeta :=
  match tbl.find? (fun e => e.1.1 == cls && e.1.2 == fname) with
  | some e => e.2
  | Option.none => { hasDc := false, isOpt := false, sg := Option.none, fac := Option.none }

/-- replace.py:157 (repair 452ee05): `value_of_selection is None and child_selections and
    is_dataclass_instance(field_value)` — only members *below* the field are selected -/
def descends (cur vos : Val) (hasChild : Bool) : Bool :=
  if hasChild then
    match vos with
    | .none => (match cur with | .inst _ _ => true | _ => false)
    | _ => false
  else false

/-- replace.py:161-185: the member chosen by `value_of_selection` when the current value is not kept -/
def pickOther (m : SgMeta) (cur : Val) (vos : Val) : Out Val :=
  match vos with
  | .type _ mk => .ok mk                                    -- :161 dataclass type → `value_of_selection()`
  | .inst c fs => .ok (.inst c fs)                          -- :163 instance → deepcopy
  | _ =>
    match m.sg with
    | some (a :: alts) =>                                   -- :165 truthy `metadata["subgroups"]`
      match vos with
      | .str key =>
        match dget (a :: alts) key with
        | some alt => .ok alt
        | Option.none => .error (.raise .keyError)
      | _ => .error (.raise .assertionError)                -- :166
    | _ =>
      match vos with
      | .none =>
        if m.isOpt then .ok .none                           -- :174
        else match cur with                                 -- :176-181 (hasDc already checked at :142)
          | .inst c fs => .ok (.inst c fs)                  -- keep the current instance (no child selections here)
          | _ => match m.fac with
            | some f => .ok f
            | Option.none => .error (.raise .typeError)     -- `MISSING()` is not callable
      | _ => .error (.raise .valueError)                    -- :183

/-- replace.py:157-185: the new member; `cur` is the field's current value, `hasChild` = truthy `child_selections` -/
def pickMember (m : SgMeta) (cur : Val) (vos : Val) (hasChild : Bool) : Out Val :=
  if descends cur vos hasChild then .ok cur else pickOther m cur vos

/-- replace.py:147-155: `(value_of_selection, child_selections)` of one selection entry (taken from a COPY of a
    nested selection dict since abc6969; the model is pure, so the caller's dict is not represented) -/
def selSplit : Val → Val × Dict
  | .dict sd => ((dget sd keyword).getD .none, ddel sd keyword)
  | x => (x, [])

/-- the field loop of `replace_subgroups` (:130-191); `recur` is the recursive call at :188 -/
def sgFields (tbl : SgTable) (recur : Val → Dict → Out Val) (cls : Str) : List Fld → Dict → Out (List Fld)
  | [], _ => .ok []
  | .mk n i v d :: rest, sel =>
    if !i then .error (.raise .valueError) else             -- :131 (any non-init field, selected or not)
    match dget sel n with
    | Option.none =>                                        -- :134
      match sgFields tbl recur cls rest sel with
      | .ok r => .ok (.mk n i v d :: r)
      | .error e => .error e
    | some s =>
      let m := sgMeta tbl cls n
      if !m.hasDc then .error (.raise .valueError) else     -- :142
      let vc : Val × Dict := selSplit s                     -- :147-155
      match pickMember m v vc.1 (!vc.2.isEmpty) with
      | .error e => .error e
      | .ok fv =>
        match (if vc.2.isEmpty then .ok fv else recur fv vc.2) with   -- :187-190
        | .error e => .error e
        | .ok nv =>
          match sgFields tbl recur cls rest (ddel sel n) with
          | .ok r => .ok (.mk n i nv d :: r)
          | .error e => .error e

/-- what is left of the (unflattened) selection dict after the loop popped every field name (:147): the keys
    that name no field -/
def selLeft : List Fld → Dict → Dict
  | [], sel => sel
  | .mk n _ _ _ :: rest, sel => selLeft rest (ddel sel n)

/-- `replace_subgroups(obj, selections)`; `fuel` bounds the nesting of selections (each recursive call
    receives a strictly smaller selection dict), exhaustion is reported as unmodelled. -/
def replaceSg (tbl : SgTable) : Nat → Val → Dict → Out Val
  | _, obj, [] => .ok obj                                   -- :125 `if not selections: return obj`
  | 0, _, _ :: _ => .error (.unmodelled "fuel".toList)
  | fuel + 1, .inst cls fs, s :: sel =>
    match sgFields tbl (replaceSg tbl fuel) cls fs (unflattenSel (s :: sel)) with
    | .ok fs' =>
      if (selLeft fs (unflattenSel (s :: sel))).isEmpty then .ok (.inst cls (rebuild fs'))   -- :197
      else .error (.raise .typeError)                       -- :193 leftover keys name no field (repair bba27c4)
    | .error e => .error e
  | _ + 1, _, _ :: _ => .error (.raise .typeError)          -- `dataclasses.fields(obj)` on a non-dataclass

end SpVerif.Replace
