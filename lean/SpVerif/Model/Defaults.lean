/-
  SpVerif.Model.Defaults — what an EMPTY command line yields for a tree of dataclasses.

  Mirrors the default-resolution cascade:
    * `DataclassWrapper.__init__` pushing the caller's default instance down (dataclass_wrapper.py:94-179),
    * `DataclassWrapper.defaults` (256-274): attribute of the parent's default instance, else the field's own
      default / default_factory() value,
    * `FieldWrapper.default` (field_wrapper.py:711-771) and `FieldWrapper.required` (797-821),
    * argparse's conversion of *string* defaults by `type=` at the end of the parse,
    * `FieldWrapper.postprocess` applied to every value (parsing.py:972-982),
    * `_instantiate_dataclasses` / `_create_dataclass_instance` (parsing.py:794-909,1135-1161): bottom-up
      construction and the `Optional[dataclass]` rule ("all fields at their default — those of the nested
      members included, `_is_at_default` (parsing.py:1168-1180, since fixes 3f531df / f635f07) — and no default
      instance ⇒ None").
  Option spelling plays no role for an empty argv, so the parser configuration does not appear here;
  that the real parser agrees under every configuration is what the correspondence check observes.
-/
import SpVerif.Model.Fields
namespace SpVerif

/-! instances: a dataclass value tree -/
mutual
inductive IVal
  | inst (cls : Str) (fields : IFields)
  | nul                                   -- an `Optional[dataclass]` member holding None
inductive IFields
  | nil
  | leaf (name : Str) (v : Val) (rest : IFields)
  | sub (name : Str) (v : IVal) (rest : IFields)
end

/-- declared default of a dataclass-typed member -/
inductive ChildDflt
  | missing                       -- no default: the member is required
  | noneVal                       -- `= None`
  | factoryCls                    -- `default_factory=N` (the class itself)
  | factoryInst (i : IVal)        -- `default_factory=lambda: N(x=5)`

/-! class trees: fields in declaration order, leaves and dataclass-typed members interleaved -/
mutual
inductive CTree
  | mk (cls : Str) (fields : CFields)
inductive CFields
  | nil
  | leaf (f : FieldSpec) (rest : CFields)
  | child (name : Str) (optional : Bool) (dflt : ChildDflt) (t : CTree) (rest : CFields)
end

def IFields.getLeaf : IFields → Str → Option Val
  | .nil, _ => none
  | .leaf n v rest, k => if n = k then some v else rest.getLeaf k
  | .sub _ _ rest, k => rest.getLeaf k

def IFields.getSub : IFields → Str → Option IVal
  | .nil, _ => none
  | .leaf _ _ rest, k => rest.getSub k
  | .sub n v rest, k => if n = k then some v else rest.getSub k

def IVal.getLeaf : IVal → Str → Option Val
  | .inst _ fs, k => fs.getLeaf k
  | .nul, _ => none

def IVal.getSub : IVal → Str → Option IVal
  | .inst _ fs, k => fs.getSub k
  | .nul, _ => none

inductive DOut (α : Type)
  | ok (v : α)
  | exit2                      -- a required option is missing (argparse error path)
  | raise (exc : Str)          -- TypeError from the dataclass constructor, KeyError from postprocess, …
  | unmodelled

/-! ### the dataclass constructor by itself: `cls()` -/
mutual
def construct : CTree → DOut IVal
  | .mk cls fs => match constructFields fs with
    | .ok r => .ok (.inst cls r)
    | .exit2 => .exit2
    | .raise e => .raise e
    | .unmodelled => .unmodelled
def constructFields : CFields → DOut IFields
  | .nil => .ok .nil
  | .leaf f rest =>
    match f.default with
    | .missing => .raise "TypeError".toList
    | .value v => match constructFields rest with
      | .ok r => .ok (.leaf f.name v r)
      | e => e
  | .child name _ dflt t rest =>
    let me : DOut IVal := match dflt with
      | .missing => .raise "TypeError".toList
      | .noneVal => .ok .nul
      | .factoryCls => construct t
      | .factoryInst i => .ok i
    match me with
    | .ok v => (match constructFields rest with
      | .ok r => .ok (.sub name v r)
      | e => e)
    | .exit2 => .exit2
    | .raise e => .raise e
    | .unmodelled => .unmodelled
end

/-- the defaults a wrapper sees (`DataclassWrapper.defaults`, non-merged: at most one entry) -/
inductive DV
  | absent                  -- `[]`
  | presentNone             -- `[None]`
  | present (i : IVal)      -- `[instance]`

/-- one leaf on an empty command line: wrapper default → argparse default (string defaults go
    through `type=`) → postprocess.  `some v` = the value of the default instance's attribute. -/
def leafEmpty (fenv : FEnv) (f : FieldSpec) (fromInst : Option Val) (parentOptional : Bool) :
    DOut Val :=
  let d : DefaultV := match fromInst with
    | some v => .value v
    | none => f.default
  let f' : FieldSpec := { f with default := d }
  match argOptions f' with
  | none => .unmodelled
  | some ao =>
    -- `child_wrapper.required = False` for Optional members reaches every nested field
    if ao.required && !parentOptional then .exit2
    else
      let raw : DOut Val := match ao.default with
        | .sc (.str s) => (match ao.conv.apply fenv 0 s with
          | .ok x => .ok (.sc x)
          | .typeErr => .exit2
          | .raise e => .raise e
          | .unmodelled => .unmodelled)
        | v => .ok v
      match raw with
      | .ok r => (match postprocess f r with
        | .ok v => .ok v
        | .raise e => .raise e)
      | e => e

/-- do all leaf values equal the leaf wrappers' defaults? (`arg_value != default_value` loop) —
    on an empty command line the value IS the postprocessed default, so they differ only where
    postprocess / string conversion changed it -/
def IFields.allLeavesEq (got : IFields) (dflt : List (Str × Val)) : Bool :=
  match got with
  | .nil => true
  | .leaf n v rest => (dflt.lookup n == some v) && rest.allLeavesEq dflt
  | .sub _ _ rest => rest.allLeavesEq dflt

/-- `DataclassWrapper.defaults` of a member, from those of the enclosing wrapper (dataclass_wrapper.py:256-274):
    the attribute of the enclosing default instance, else the field's own default / `default_factory()` -/
def childDV (dv : DV) (name : Str) (dflt : ChildDflt) (t : CTree) : DV :=
  match dv with
  | .present i => (match i.getSub name with
    | some .nul => .presentNone
    | some v => .present v
    | none => .presentNone)
  | .presentNone => .presentNone
  | .absent => (match dflt with
    | .missing => .absent
    | .noneVal => .presentNone
    | .factoryCls => (match construct t with
      | .ok v => .present v
      | _ => .absent)
    | .factoryInst i => .present i)

/-- `field_wrapper.default` of a leaf of a wrapper whose `defaults` are `dv`: the attribute of the default instance,
    else the field's own default -/
def leafWD (f : FieldSpec) (dv : DV) : Val :=
  match dv with
  | .present i => (match i.getLeaf f.name with
    | some v => v
    | none => .sc .none)
  | _ => defaultVal f.default

/-! `_is_at_default(wrapper, value)` (parsing.py:1168-1180): a member that is None is at its default; a built one is
    when every leaf equals its field wrapper's default and every nested member is, recursively.  The instance was
    built from these very fields, in this order, and dataclass field names are distinct, so `getattr(value, name)`
    is the entry at the same position. -/
mutual
def atDefaultT : CTree → DV → IVal → Bool
  | _, _, .nul => true
  | .mk _ fs, dv, .inst _ ifs => atDefaultF fs dv ifs
def atDefaultF : CFields → DV → IFields → Bool
  | .nil, _, .nil => true
  | .leaf f rest, dv, .leaf _ v irest => (v == leafWD f dv) && atDefaultF rest dv irest
  | .child name _ dflt t rest, dv, .sub _ v irest =>
    atDefaultT t (childDV dv name dflt t) v && atDefaultF rest dv irest
  | _, _, _ => false
end

/-- the members' half of the Optional rule (parsing.py:1213-1217): every nested member of the wrapper is at its
    default (the wrapper's own leaves are compared by `allLeavesEq`) -/
def membersAtDefault : CFields → DV → IFields → Bool
  | .nil, _, .nil => true
  | .leaf _ rest, dv, .leaf _ _ irest => membersAtDefault rest dv irest
  | .child name _ dflt t rest, dv, .sub _ v irest =>
    atDefaultT t (childDV dv name dflt t) v && membersAtDefault rest dv irest
  | _, _, _ => false

mutual
/-- `pc` = the default handed down the *constructor-parameter* chain (caller instance → attribute
    → …; `none` = None), `dv` = `wrapper.defaults`, `opt` = inside an Optional member -/
def parseEmpty (fenv : FEnv) : CTree → Option IVal → DV → Bool → DOut IVal
  | .mk cls fs, pc, dv, opt =>
    match parseEmptyFields fenv fs pc dv opt with
    | .ok (r, _) => .ok (.inst cls r)
    | .exit2 => .exit2
    | .raise e => .raise e
    | .unmodelled => .unmodelled
/-- returns the constructor arguments and, for the Optional rule, the raw wrapper defaults of leaves -/
def parseEmptyFields (fenv : FEnv) : CFields → Option IVal → DV → Bool →
    DOut (IFields × List (Str × Val))
  | .nil, _, _, _ => .ok (.nil, [])
  | .leaf f rest, pc, dv, opt =>
    let fromInst : Option Val := match dv with
      | .present i => (match i.getLeaf f.name with
        | some v => some v
        | none => some (.sc .none))     -- getattr of a missing attribute cannot happen for a fitting instance
      | _ => none
    match leafEmpty fenv f fromInst opt with
    | .ok v =>
      let wd : Val := match fromInst with
        | some x => x
        | none => defaultVal f.default
      (match parseEmptyFields fenv rest pc dv opt with
       | .ok (r, ds) => .ok (.leaf f.name v r, (f.name, wd) :: ds)
       | e => e)
    | .exit2 => .exit2
    | .raise e => .raise e
    | .unmodelled => .unmodelled
  | .child name optional dflt t rest, pc, dv, opt =>
    -- constructor-parameter chain: attribute of the caller's instance, else None
    let pcChild : Option IVal := match pc with
      | some i => (match i.getSub name with
        | some .nul => none
        | some v => some v
        | none => none)
      | none => none
    -- `DataclassWrapper.defaults` of the child
    let dvChild : DV := childDV dv name dflt t
    let optHere := opt || optional
    -- a required (default-less) non-optional member whose fields have no defaults fails inside
    match parseEmptyChild fenv t pcChild dvChild optHere optional with
    | .ok v => (match parseEmptyFields fenv rest pc dv opt with
      | .ok (r, ds) => .ok (.sub name v r, ds)
      | e => e)
    | .exit2 => .exit2
    | .raise e => .raise e
    | .unmodelled => .unmodelled
/-- a member: build it, then apply `_create_dataclass_instance`'s Optional rule -/
def parseEmptyChild (fenv : FEnv) : CTree → Option IVal → DV → Bool → Bool → DOut IVal
  | .mk cls fs, pcChild, dvChild, optHere, optional =>
    match parseEmptyFields fenv fs pcChild dvChild optHere with
    | .ok (r, ds) =>
      -- `default_is_none`: no default from a caller instance AND none from the field / enclosing defaults
      -- (the second conjunct exists since the repair of the Optional-with-default_factory defect)
      let defaultIsNone := pcChild.isNone && (match dvChild with | .present _ => false | _ => true)
      -- own leaves at their default, and (since 3f531df / f635f07) every nested member at its default
      if optional && defaultIsNone && r.allLeavesEq ds && membersAtDefault fs dvChild r then .ok .nul
      else .ok (.inst cls r)
    | .exit2 => .exit2
    | .raise e => .raise e
    | .unmodelled => .unmodelled
end

/-- `parser.add_arguments(C, dest, default=inst)` then `parse_args([])` -/
def parseEmptyTop (fenv : FEnv) (t : CTree) (caller : Option IVal) : DOut IVal :=
  match caller with
  | some i => parseEmpty fenv t (some i) (.present i) false
  | none => parseEmpty fenv t none .absent false

end SpVerif
