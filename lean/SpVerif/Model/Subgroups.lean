/-
  SpVerif.Model.Subgroups — the iterative subgroup resolution of `ArgumentParser._preprocessing`
  (simple_parsing/parsing.py:546-584), `_resolve_subgroups` (parsing.py:629-803),
  `_remove_subgroups_from_namespace` (parsing.py:805-822), the per-alternative field defaults of
  `DataclassWrapper.__init__` (wrappers/dataclass_wrapper.py:94-111) and the `add_argument` options of a
  subgroup field (helpers/subgroups.py:55-204, wrappers/field_wrapper.py:714-736,802-807,961-975).

  Reused: `Model/Naming` (option strings of a field), `Model/Conflicts` (the resolver that is re-run
  after every round), `Model/Engine` (`Act`, the `type=` callables).

  argparse itself is modelled at *outcome level* on command lines made of `--opt value` pairs
  (`parseOut`): which action an option string addresses (exact match, else — when abbreviations are
  allowed — the unique option it is a prefix of), last occurrence wins, `type=`/`choices=`/`required=`
  failures and (in strict mode) unaddressed options all end in exit status 2.  Anything else
  (single-dash options, values starting with `-`, `--help`) is `unmodelled`.  The token-level engine is
  the subject of C02/C04 (`Model/Engine`); the op `sg.parse` ties `parseOut` to the real argparse.

  The value of the parse is reported flat: every active leaf field by its dotted destination, the
  class instantiated at every subgroup destination, and `namespace.subgroups`.
-/
import SpVerif.Model.Engine
import SpVerif.Model.Conflicts
namespace SpVerif.Subgroups
open SpVerif

/-- keywords of a `functools.partial` / attributes of a frozen instance (leaf fields only) -/
abbrev Kw := List (Str × Scalar)

/-- what a value of the `subgroups` dict is (parsing.py:733-744) -/
inductive AltKind
  | cls         -- a dataclass type
  | part        -- `functools.partial(Cls, **kw)`
  | inst        -- a frozen dataclass instance
  deriving DecidableEq, Repr

mutual
  /-- a dataclass: its name and its fields in declaration order -/
  inductive Cls
    | mk (name : Str) (fields : Flds)
  inductive Flds
    | nil
    /-- a plain field (`int`/`str`) with its `field.default` (`none` = MISSING) -/
    | leaf (name : Str) (conv : BConv) (dflt : Option Scalar) (rest : Flds)
    /-- a field declared with `cmd=False`: no field wrapper, no option (dataclass_wrapper.py:77-79) -/
    | hidden (name : Str) (dflt : Scalar) (rest : Flds)
    /-- `name = subgroups({key: alt…}, default=dflt)`; `dflt = none` = MISSING -/
    | sub (name : Str) (dflt : Option Str) (alts : Alts) (rest : Flds)
  /-- the `subgroups` dict in insertion order -/
  inductive Alts
    | nil
    | cons (key : Str) (kind : AltKind) (kw : Kw) (cls : Cls) (rest : Alts)
end

def Cls.name : Cls → Str | .mk n _ => n
def Cls.fields : Cls → Flds | .mk _ f => f

/-- `subgroup_dict[key]` -/
def Alts.find : Alts → Str → Option (AltKind × Kw × Cls)
  | .nil, _ => none
  | .cons k kind kw cls rest, key => if k = key then some (kind, kw, cls) else rest.find key

/-- `subgroups.keys()` — the `choices=` of the option (helpers/subgroups.py:116,197) -/
def Alts.keys : Alts → List Str
  | .nil => []
  | .cons k _ _ _ rest => k :: rest.keys

mutual
  /-- nesting depth of subgroups inside subgroups -/
  def Cls.depth : Cls → Nat
    | .mk _ f => f.depth
  def Flds.depth : Flds → Nat
    | .nil => 0
    | .leaf _ _ _ rest => rest.depth
    | .hidden _ _ rest => rest.depth
    | .sub _ _ alts rest => max (alts.depth + 1) rest.depth
  def Alts.depth : Alts → Nat
    | .nil => 0
    | .cons _ _ _ cls rest => max cls.depth rest.depth
end

/-- what a field wrapper carries besides its naming record -/
inductive RKind
  /-- plain field: `type=` and the effective default (`FieldWrapper.default`) -/
  | leaf (conv : BConv) (dflt : Option Scalar)
  /-- subgroup field: declared default key, whether a default was pushed onto it from the enclosing
      partial/instance (`set_default`, dataclass_wrapper.py:124-131), and the dict -/
  | sub (dflt : Option Str) (forced : Bool) (alts : Alts)

/-- one `FieldWrapper` of the flattened wrapper list -/
structure SRec where
  fr : FieldRec
  kind : RKind

def SRec.dest (r : SRec) : Str := r.fr.parentDest ++ '.' :: r.fr.name

def SRec.isSub (r : SRec) : Bool := match r.kind with | .sub .. => true | .leaf .. => false

/-- `DataclassWrapper.__init__` (dataclass_wrapper.py:72-190) for a wrapper at `parentDest` whose
    `dataclass_fn`/`default` give the overrides `kw`: one field wrapper per field, prefix "" —
    a leaf's default is the partial keyword / instance attribute when there is one
    (dataclass_wrapper.py:94-111), else the field's own default. -/
def recsOf (parentDest : Str) (level : Nat) (kw : Kw) (forced : Bool) : Flds → List SRec
  | .nil => []
  | .leaf n c d rest =>
    { fr := { name := n, parentDest := parentDest, level := level, aliases := [], pref := [] },
      kind := .leaf c (match kw.lookup n with | some v => some v | none => d) }
      :: recsOf parentDest level kw forced rest
  | .hidden _ _ rest => recsOf parentDest level kw forced rest
  | .sub n d alts rest =>
    { fr := { name := n, parentDest := parentDest, level := level, aliases := [], pref := [] },
      kind := .sub d forced alts }
      :: recsOf parentDest level kw forced rest

/-- the `cmd=False` fields of a wrapped entry never reach the constructor arguments, so their value is
    whatever the entry itself produces: the partial keyword / the instance's attribute
    (`functools.partial(dataclasses.replace, instance)`, parsing.py:734-738), else the class default -/
def hiddenOf (dest : Str) (kw : Kw) : Flds → List (Str × Val)
  | .nil => []
  | .leaf _ _ _ rest => hiddenOf dest kw rest
  | .sub _ _ _ rest => hiddenOf dest kw rest
  | .hidden n d rest =>
    (dest ++ '.' :: n, .sc (match kw.lookup n with | some v => v | none => d)) :: hiddenOf dest kw rest

/-- `add_argument(*option_strings, **arg_options)` of a field (field_wrapper.py:231-276 for a choice
    field: `type=str`, `choices=keys`, `required = default is MISSING`; the plain branch otherwise) -/
def SRec.toAct (cfg : Cfg) (r : SRec) : Act :=
  match r.kind with
  | .leaf c d =>
    { opts := r.fr.opts cfg, dest := r.dest, kind := .store, nargs := .one, conv := .base c,
      choices := none, required := d.isNone, default := d.map (fun s => .sc s) }
  | .sub d _ alts =>
    { opts := r.fr.opts cfg, dest := r.dest, kind := .store, nargs := .one, conv := .base .str,
      choices := some alts.keys, required := d.isNone, default := d.map (fun k => .sc (.str k)) }

/-! ### argparse at outcome level on `--opt value` command lines -/

/-- the action owning option string `o` (`_option_string_actions[o]`) -/
def findExact : List Act → Str → Option Act
  | [], _ => none
  | a :: as, o => if a.opts.contains o then some a else findExact as o

/-- `_get_option_tuples` for a `--` argument: every registered option string it is a prefix of -/
def prefixMatches (tbl : List Act) (o : Str) : List (Str × Act) :=
  tbl.flatMap (fun a => (a.opts.filter (fun s => startsWith s o)).map (fun s => (s, a)))

inductive Find
  | act (a : Act)
  | none
  | ambiguous

/-- `_parse_optional`: exact match first; abbreviations only when `allow_abbrev` -/
def findOpt (ab : Bool) (tbl : List Act) (o : Str) : Find :=
  match findExact tbl o with
  | some a => .act a
  | none =>
    if ab then
      match prefixMatches tbl o with
      | [] => .none
      | [(_, a)] => .act a
      | _ => .ambiguous
    else .none

def helpOpt : Str := "--help".toList

/-- the modelled shape of one `--opt value` pair -/
def pairOk (p : Str × Str) : Bool :=
  startsWith p.1 ['-', '-'] && decide (p.1.length > 2) && !p.1.contains ' ' && !p.1.contains '=' &&
  !startsWith helpOpt p.1 && !(p.2.head? == some '-') && isAscii p.2 && !p.2.isEmpty

/-- `_get_value` + `_check_value` -/
def convOk (a : Act) (v : Str) : Option Scalar :=
  match a.conv.apply [] 0 v with
  | .ok s =>
    (match a.choices with
     | some ch => (match s with
       | .str t => if ch.contains t then some s else none
       | _ => none)
     | none => some s)
  | _ => none

/-- does this pair end the parse with an error? -/
def pairBad (ab strict : Bool) (tbl : List Act) (p : Str × Str) : Bool :=
  match findOpt ab tbl p.1 with
  | .ambiguous => true
  | .none => strict
  | .act a => (convOk a p.2).isNone

/-- the value token of the last pair addressing destination `dest` -/
def lastFor (ab : Bool) (tbl : List Act) (dest : Str) : List (Str × Str) → Option Str
  | [] => none
  | p :: rest =>
    match lastFor ab tbl dest rest with
    | some x => some x
    | none =>
      match findOpt ab tbl p.1 with
      | .act a => if a.dest = dest then some p.2 else none
      | _ => none

/-- namespace entry of one action -/
def actValue (ab : Bool) (tbl : List Act) (argv : List (Str × Str)) (a : Act) : Val :=
  match lastFor ab tbl a.dest argv with
  | some v => (match convOk a v with
    | some s => .sc s
    | none => .sc .none)
  | none => a.default.getD (.sc .none)

inductive POut
  | ok (ns : List (Str × Val))
  | exit2
  | unmodelled
  deriving DecidableEq, Repr

/-- `parse_known_args` (`strict = false`) / `parse_args` (`strict = true`) on a pair command line -/
def parseOut (ab strict : Bool) (tbl : List Act) (argv : List (Str × Str)) : POut :=
  if !argv.all pairOk then .unmodelled
  else if argv.any (pairBad ab strict tbl) then .exit2
  else if tbl.any (fun a => a.required && (lastFor ab tbl a.dest argv).isNone) then .exit2
  else .ok (tbl.map (fun a => (a.dest, actValue ab tbl argv a)))

/-! ### one round of `_resolve_subgroups` -/

inductive Exc
  | assertionError
  | argumentError
  | conflictResolutionError
  deriving DecidableEq, Repr

structure RState where
  recs : List SRec                  -- all field wrappers, `_flatten_wrappers` order
  resolved : List (Str × Str)       -- `resolved_subgroups`: dest ↦ chosen key
  classes : List (Str × Str)        -- dest ↦ name of the dataclass wrapped for the chosen entry
  hidden : List (Str × Val)         -- values of the `cmd=False` fields of the root and the chosen entries
  ctbl : List Act                   -- the arguments added to `subgroup_choice_parser` so far

inductive ROut (α : Type)
  | ok (a : α)
  | exit2
  | raise (e : Exc)
  | unmodelled

/-- `unresolved_subgroups` (parsing.py:651,786-789), in `_flatten_wrappers` order -/
def unresolved (st : RState) : List SRec :=
  st.recs.filter (fun r => r.isSub && !(st.resolved.any (fun p => p.1 = r.dest)))

/-- parsing.py:685-703: add every unresolved subgroup option to the choice parser.
    A default pushed from an enclosing instance onto a subgroup field that declares a default key
    trips the `assert argument_options["default"] is subgroup_field.subgroup_default` (parsing.py:692);
    an option string that is already registered makes `add_argument` raise `ArgumentError`. -/
def register (cfg : Cfg) : List Act → List SRec → Except Exc (List Act)
  | tbl, [] => .ok tbl
  | tbl, r :: rs =>
    match r.kind with
    | .leaf .. => register cfg tbl rs
    | .sub d forced _ =>
      if forced && d.isSome then .error .assertionError
      else
        let a := r.toAct cfg
        if a.opts.any (fun o => (findExact tbl o).isSome) then .error .argumentError
        else register cfg (tbl ++ [a]) rs

def inSubtree (p : Str) (r : SRec) : Bool :=
  r.fr.parentDest == p || startsWith r.fr.parentDest (p ++ ['.'])

/-- `parent._children.append(new_wrapper)` seen through `_flatten_wrappers`: the new wrapper's fields
    come right after the last field of the parent wrapper's current subtree -/
def insertChild (p : Str) (new : List SRec) : List SRec → List SRec
  | [] => new
  | r :: rs => if rs.any (inSubtree p) then r :: insertChild p new rs else r :: (new ++ rs)

/-- parsing.py:716-773 for one resolved subgroup field -/
def expandOne (ns : List (Str × Val)) (r : SRec)
    (acc : List SRec × List (Str × Str) × List (Str × Str) × List (Str × Val)) :
    Except Exc (List SRec × List (Str × Str) × List (Str × Str) × List (Str × Val)) :=
  match r.kind with
  | .leaf .. => .ok acc
  | .sub _ _ alts =>
    match ns.lookup r.dest with
    | some (.sc (.str k)) =>
      (match alts.find k with
       | none => .error .assertionError            -- `assert chosen_subgroup_key in subgroup_dict`
       | some (kind, kw, cls) =>
         let new := recsOf r.dest (r.fr.level + 1) kw (kind == .inst) cls.fields
         .ok (insertChild r.fr.parentDest new acc.1, acc.2.1 ++ [(r.dest, k)],
              acc.2.2.1 ++ [(r.dest, cls.name)], acc.2.2.2 ++ hiddenOf r.dest kw cls.fields))
    | _ => .error .assertionError

def expandAll (ns : List (Str × Val)) :
    List SRec → List SRec × List (Str × Str) × List (Str × Str) × List (Str × Val) →
    Except Exc (List SRec × List (Str × Str) × List (Str × Str) × List (Str × Val))
  | [], acc => .ok acc
  | r :: rs, acc =>
    match expandOne ns r acc with
    | .error e => .error e
    | .ok acc' => expandAll ns rs acc'

/-- write the prefixes computed by the resolver back onto the field wrappers (the resolver mutates
    `FieldWrapper.prefix` in place and returns the same wrappers: `Props/C03.c03_frame_length`) -/
def applyPrefs : List SRec → List FieldRec → List SRec
  | [], _ => []
  | r :: rs, [] => r :: rs
  | r :: rs, f :: fs => { r with fr := { r.fr with pref := f.pref } } :: applyPrefs rs fs

/-- `self._conflict_resolver.resolve(wrappers)` (parsing.py:784, also parsing.py:564) -/
def reResolve (cfg : Cfg) (mode : CR) (recs : List SRec) : Except Exc (List SRec) :=
  match resolve cfg mode (recs.map (·.fr)) with
  | .ok frs => .ok (applyPrefs recs frs)
  | .err .conflictResolutionError => .error .conflictResolutionError
  | .err .assertionError => .error .assertionError

/-- every option string has the modelled `--name` shape -/
def tableOk (tbl : List Act) : Bool :=
  tbl.all (fun a => a.opts.all (fun o => startsWith o ['-', '-'] && decide (o.length > 2) &&
    !startsWith helpOpt o))

/-- one iteration of the `for current_nesting_level in itertools.count()` loop (parsing.py:678-801) -/
def round (cfg : Cfg) (mode : CR) (st : RState) (argv : List (Str × Str)) : ROut RState :=
  let un := unresolved st
  match register cfg st.ctbl un with
  | .error e => .raise e
  | .ok ctbl =>
    if !tableOk ctbl then .unmodelled
    else
      match parseOut false false ctbl argv with
      | .unmodelled => .unmodelled
      | .exit2 => .exit2
      | .ok ns =>
        match expandAll ns un (st.recs, st.resolved, st.classes, st.hidden) with
        | .error e => .raise e
        | .ok (recs, resolved, classes, hidden) =>
          match reResolve cfg mode recs with
          | .error e => .raise e
          | .ok recs' => .ok { recs := recs', resolved := resolved, classes := classes, hidden := hidden, ctbl := ctbl }

/-- the rounds; `fuel` bounds their number (the code loops until nothing is unresolved) -/
def loop (cfg : Cfg) (mode : CR) : Nat → RState → List (Str × Str) → ROut RState
  | 0, _, _ => .unmodelled
  | n + 1, st, argv =>
    match round cfg mode st argv with
    | .ok st' => if (unresolved st').isEmpty then .ok st' else loop cfg mode n st' argv
    | .exit2 => .exit2
    | .raise e => .raise e
    | .unmodelled => .unmodelled

/-- `parser.add_arguments(root, dest)` followed by `resolve_and_flatten` (parsing.py:562-564) -/
def initState (cfg : Cfg) (mode : CR) (dest : Str) (root : Cls) : Except Exc RState :=
  match reResolve cfg mode (recsOf dest 1 [] false root.fields) with
  | .error e => .error e
  | .ok recs => .ok { recs := recs, resolved := [], classes := [], hidden := hiddenOf dest [] root.fields,
                      ctbl := [] }

/-- `_resolve_subgroups` -/
def resolveSubgroups (cfg : Cfg) (mode : CR) (dest : Str) (root : Cls) (argv : List (Str × Str)) :
    ROut RState :=
  match initState cfg mode dest root with
  | .error e => .raise e
  | .ok st0 =>
    if (unresolved st0).isEmpty then .ok st0
    else loop cfg mode (root.depth + 1) st0 argv

/-! ### the main parse and what `parse_args` returns -/

structure Res where
  leaves : List (Str × Val)        -- every active plain field: dotted destination ↦ value
  classes : List (Str × Str)       -- subgroup destination ↦ class instantiated there
  subgroups : List (Str × Val)     -- `namespace.subgroups`
  hidden : List (Str × Val) := []  -- every active `cmd=False` field: dotted destination ↦ value
  deriving DecidableEq, Repr

inductive Out
  | ok (r : Res)
  | exit2
  | raise (e : Exc)
  | unmodelled
  deriving DecidableEq, Repr

def mainTable (cfg : Cfg) (st : RState) : List Act := st.recs.map (·.toAct cfg)

/-- `parse_args` after the rounds: `add_arguments` of every wrapper (parsing.py:572-580), the real
    parse, `_remove_subgroups_from_namespace` (parsing.py:805-822) and the instantiation
    (every init field is passed to the chosen entry, so a leaf's value is its namespace entry) -/
def finishParse (cfg : Cfg) (st : RState) (argv : List (Str × Str)) : Out :=
  let tbl := mainTable cfg st
  if !tableOk tbl then .unmodelled
  else
    match parseOut true true tbl argv with
    | .unmodelled => .unmodelled
    | .exit2 => .exit2
    | .ok ns =>
      .ok { leaves := (st.recs.filter (fun r => !r.isSub)).map
              (fun r => (r.dest, (ns.lookup r.dest).getD (.sc .none))),
            classes := st.classes,
            -- the choice parser wrote its results into the very namespace the main parse starts from
            -- (parsing.py:304-305,361,706-708), and argparse only fills in defaults for destinations
            -- that are not there yet: an option the main parser does not see leaves the chosen key
            subgroups := (st.recs.filter (·.isSub)).map
              (fun r => (r.dest,
                match lastFor true tbl r.dest argv, st.resolved.lookup r.dest with
                | none, some k => .sc (.str k)
                | _, _ => (ns.lookup r.dest).getD (.sc .none))),
            hidden := st.hidden }

def run (cfg : Cfg) (mode : CR) (dest : Str) (root : Cls) (argv : List (Str × Str)) : Out :=
  match resolveSubgroups cfg mode dest root argv with
  | .exit2 => .exit2
  | .raise e => .raise e
  | .unmodelled => .unmodelled
  | .ok st => finishParse cfg st argv

end SpVerif.Subgroups
