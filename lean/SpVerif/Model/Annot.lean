/-
  SpVerif.Model.Annot — executable model of how simple_parsing looks at a field's type annotation.

  Mirrors (pinned commit):
    simple_parsing/utils.py:134-196,198-227,229-557   (`get_item_type`, `get_argparse_type_for_container`,
                                                        `_mro`, the `is_*` classifiers, `get_container_nargs` 568-611)
    simple_parsing/annotation_utils/get_field_annotations.py:69-104  (`_replace_UnionType_with_typing_Union`)
    simple_parsing/annotation_utils/get_field_annotations.py:114-146 (`_get_old_style_annotation`)
    simple_parsing/annotation_utils/get_field_annotations.py:159-252 (`get_field_type_from_annotations`)
    simple_parsing/wrappers/dataclass_wrapper.py:81-92,448-460       (in-place resolution, `_get_dataclass_fields`)
    simple_parsing/wrappers/field_wrapper.py:231-406,828-849         (`get_arg_options` type-dependent part, `type`)
    simple_parsing/wrappers/field_parsing.py:70-249                  (`get_parsing_fn`, `parse_union`, `parse_tuple`)

  `TyExpr` is the abstract type a dataclass author means; `Ann` is the *runtime object* the code receives
  (plain class, `typing` alias, builtin `types.GenericAlias`, PEP 604 `types.UnionType`, or — under
  `from __future__ import annotations` — the annotation's source text).  `denote style e` is what CPython hands
  over for each way of writing `e`.  Everything is structurally recursive so that closed terms reduce by `decide`.
-/
import SpVerif.Model.Core
import SpVerif.Model.BoolFlag
namespace SpVerif.Annot
open SpVerif

/-! ### runtime representation -/

/-- plain classes that occur as leaves (`none` is `NoneType`) -/
inductive Cls
  | int | float | str | bool | path | none
  | enum (name : Str)
  | dc (name : Str)
  deriving DecidableEq, Repr

/-- `typing` aliases: `typing.List[…]`, `typing.Tuple[…]`, `typing.Union[…]` (`Optional[X]` *is* `Union[X, None]`) -/
inductive TOrigin | list | tuple | union
  deriving DecidableEq, Repr

/-- builtin generics (`types.GenericAlias`): `list[…]`, `tuple[…]` -/
inductive BOrigin | list | tuple
  deriving DecidableEq, Repr

inductive Ann
  | cls (c : Cls)
  | typing (o : TOrigin) (args : List Ann)
  | builtin (o : BOrigin) (args : List Ann)
  /-- `types.UnionType`, the value of `A | B` -/
  | unionType (args : List Ann)
  /-- `...` inside `Tuple[X, ...]` -/
  | ellipsis
  /-- a postponed annotation: the source text -/
  | strAnn (text : Str)
  deriving Repr

/-! ### Python `==` on annotation objects (needed by `len(set(type_arguments)) == 1`)

  `typing.Union` / `types.UnionType` compare their arguments as *sets* (and compare equal across the two
  representations, CPython 3.12 `_UnionGenericAlias.__eq__`); every other alias compares origin and
  argument tuple; a `typing.List[int]` is never equal to `list[int]`. -/
mutual
def annEq : Ann → Ann → Bool
  | .cls c, .cls d => c == d
  | .typing .union xs, .typing .union ys => allAny xs ys && ys.all (fun y => existsIn xs y)
  | .typing .union xs, .unionType ys => allAny xs ys && ys.all (fun y => existsIn xs y)
  | .unionType xs, .typing .union ys => allAny xs ys && ys.all (fun y => existsIn xs y)
  | .unionType xs, .unionType ys => allAny xs ys && ys.all (fun y => existsIn xs y)
  | .typing .list xs, .typing .list ys => listEq xs ys
  | .typing .tuple xs, .typing .tuple ys => listEq xs ys
  | .builtin o xs, .builtin o' ys => o == o' && listEq xs ys
  | .ellipsis, .ellipsis => true
  | .strAnn s, .strAnn t => s == t
  | _, _ => false
termination_by structural a => a
def listEq : List Ann → List Ann → Bool
  | [], [] => true
  | x :: xs, y :: ys => annEq x y && listEq xs ys
  | _, _ => false
def allAny : List Ann → List Ann → Bool
  | [], _ => true
  | x :: xs, ys => ys.any (annEq x) && allAny xs ys
def existsIn : List Ann → Ann → Bool
  | [], _ => false
  | x :: xs, y => annEq x y || existsIn xs y
end

/-- order-preserving de-duplication with Python `==` (`typing._deduplicate`) -/
def dedupAnn : List Ann → List Ann
  | [] => []
  | x :: xs => x :: (dedupAnn xs).filter (fun y => !(annEq x y))

/-- `typing.Union[args]` as CPython builds it: nested `typing.Union`s are flattened, duplicates removed,
    a single remaining member is returned itself. -/
def flattenUnion : List Ann → List Ann
  | [] => []
  | .typing .union ys :: xs => ys ++ flattenUnion xs
  | x :: xs => x :: flattenUnion xs

def mkTypingUnion (args : List Ann) : Ann :=
  match dedupAnn (flattenUnion args) with
  | [a] => a
  | l => .typing .union l

/-! ### utils.py classifiers -/

/-- entries of a method resolution order that the classifiers look for -/
inductive K | list | tuple | enumBase | object | c (c : Cls)
  deriving DecidableEq, Repr

def clsMro : Cls → List K
  | .bool => [.c .bool, .c .int, .object]
  | .enum n => [.c (.enum n), .enumBase, .object]
  | c => [.c c, .object]

/-- `_mro` (utils.py:229-240).  A class has `__mro__`; a `typing` alias does not forward the dunder but does
    forward `mro`, so `typing.List[int].mro()` is `list.mro()`; `typing.Union[…]` has neither; a builtin
    `GenericAlias` forwards `__mro__`; `types.UnionType`, `...` and strings have nothing. -/
def mro : Ann → List K
  | .cls c => clsMro c
  | .typing .list _ => [.list, .object]
  | .typing .tuple _ => [.tuple, .object]
  | .typing .union _ => []
  | .builtin .list _ => [.list, .object]
  | .builtin .tuple _ => [.tuple, .object]
  | .unionType _ => []
  | .ellipsis => []
  | .strAnn _ => []

/-- `inspect.isclass` (false for every alias on 3.12) -/
def isClass : Ann → Bool
  | .cls _ => true
  | _ => false

/-- `is_list` (utils.py:263-291) -/
def isList (a : Ann) : Bool := (mro a).contains .list
/-- `is_tuple` (utils.py:294-322) -/
def isTuple (a : Ann) : Bool := (mro a).contains .tuple
/-- `is_bool` (utils.py:411-412) -/
def isBool (a : Ann) : Bool := (mro a).contains (.c .bool)
/-- `is_enum` (utils.py:405-408): `issubclass(t, Enum)` for classes, else `Enum in _mro(t)` -/
def isEnum (a : Ann) : Bool := (mro a).contains .enumBase
/-- `is_union` (utils.py:419-437): `isinstance(t, types.UnionType)` or `t.__origin__ == Union` -/
def isUnion : Ann → Bool
  | .unionType _ => true
  | .typing .union _ => true
  | _ => false
/-- `dataclasses.is_dataclass` on an annotation -/
def isDataclass : Ann → Bool
  | .cls (.dc _) => true
  | _ => false

/-- `typing.get_args` -/
def getArgs : Ann → List Ann
  | .typing _ xs => xs
  | .builtin _ xs => xs
  | .unionType xs => xs
  | _ => []

def isNoneType : Ann → Bool
  | .cls .none => true
  | _ => false

/-- `is_optional` (utils.py:478-514; the `Literal` arm is outside the fragment) -/
def isOptional (a : Ann) : Bool := isUnion a && (getArgs a).any isNoneType

/-! ### `_replace_UnionType_with_typing_Union` (get_field_annotations.py:69-104) -/

inductive Exc | notImplemented | assertion | valueError | nameError
  deriving DecidableEq, Repr

mutual
/-- recurses into `X | Y`, list and tuple arguments (a `typing.List[…]` comes back as a builtin `list[…]`);
    `...` is returned unchanged; anything else that is not a class — `typing.Union[…]`, a string — raises
    `NotImplementedError`.  (`dict` annotations are outside the modelled fragment.) -/
def replaceUnion : Ann → Except Exc Ann
  | .unionType args => do let l ← replaceUnionL args; pure (mkTypingUnion l)
  | .typing .list args => do
      match ← replaceUnionL args with
      | x :: _ => pure (.builtin .list [x])
      | [] => throw .valueError            -- `get_args(annotation)[0]` on a bare alias: outside the fragment
  | .builtin .list args => do
      match ← replaceUnionL args with
      | x :: _ => pure (.builtin .list [x])
      | [] => throw .valueError
  | .typing .tuple args => do let l ← replaceUnionL args; pure (.builtin .tuple l)
  | .builtin .tuple args => do let l ← replaceUnionL args; pure (.builtin .tuple l)
  | .cls c => pure (.cls c)
  | .typing .union _ => throw .notImplemented
  | .ellipsis => pure .ellipsis             -- the `...` of `tuple[X, ...]` is returned unchanged (:77-79)
  | .strAnn _ => throw .notImplemented
termination_by structural a => a
def replaceUnionL : List Ann → Except Exc (List Ann)
  | [] => pure []
  | x :: xs => do let y ← replaceUnion x; let ys ← replaceUnionL xs; pure (y :: ys)
end

/-! ### `_get_old_style_annotation` (get_field_annotations.py:114-146), the textual `A | B` rewriter -/

inductive RwOut
  | ok (text : Str)
  | assertion         -- `assert not after.strip()` / `assert "]" not in annotation` / `assert "|" in middle`
  | notSupported      -- `_not_supported` → NotImplementedError
  deriving DecidableEq, Repr

/-- `s.partition("[")` -/
def partitionBr : Str → Str × Bool × Str
  | [] => ([], false, [])
  | c :: cs => if c = '[' then ([], true, cs) else
      let (b, f, r) := partitionBr cs
      (c :: b, f, r)

/-- `s.rpartition("]")`: (before-last-`]`, found, after); when absent Python returns ("", "", s) -/
def rpartitionBr (s : Str) : Str × Bool × Str :=
  let (ra, f, rb) := go s.reverse
  if f then (rb.reverse, true, ra.reverse) else ([], false, s)
where
  go : Str → Str × Bool × Str
  | [] => ([], false, [])
  | c :: cs => if c = ']' then ([], true, cs) else
      let (b, f, r) := go cs
      (c :: b, f, r)

/-- `sep.join(parts)` for the separator `", "` -/
def joinCommaSp : List Str → Str
  | [] => []
  | [p] => p
  | p :: q :: rest => p ++ ',' :: ' ' :: joinCommaSp (q :: rest)

def mapRw (f : Str → RwOut) : List Str → Except RwOut (List Str)
  | [] => .ok []
  | p :: ps => match f p with
    | .ok t => (mapRw f ps).map (t :: ·)
    | e => .error e

/-- fuel = an upper bound of the recursion depth (every recursive call is on a strictly shorter string) -/
def rewriteF : Nat → Str → RwOut
  | 0, _ => .assertion                         -- unreachable with fuel ≥ length + 1
  | fuel + 1, ann0 =>
    if !ann0.contains '|' then .ok ann0 else
    let ann := stripWs ann0
    if !ann.contains '[' then
      if ann.contains ']' then .assertion
      else .ok ("Union[".toList ++ joinCommaSp ((splitOnChar '|' ann).map stripWs) ++ [']'])
    else
      let (before, _, rest) := partitionBr ann
      let (middle, rfound, after) := rpartitionBr rest
      if !(stripWs after).isEmpty then .assertion
      else if before.contains '|' || after.contains '|' then .notSupported
      else if !middle.contains '|' then .assertion
      else
        let middle1 : Except RwOut Str :=
          if middle.contains ',' then
            (mapRw (rewriteF fuel) ((splitOnChar ',' middle).map stripWs)).map joinCommaSp
          else .ok middle
        match middle1 with
        | .error e => e
        | .ok m =>
          match rewriteF fuel m with
          | .ok nm => .ok (before ++ '[' :: nm ++ (if rfound then [']'] else []) ++ after)
          | e => e

def rewrite (ann : Str) : RwOut := rewriteF (ann.length + 1) ann

/-! ### `get_field_type_from_annotations` (get_field_annotations.py:159-252) -/

/-- what `typing.get_type_hints` (a parameter: CPython's evaluator in the right namespaces) does with a text -/
inductive EvOut
  | ok (a : Ann)
  | typeError      -- caught at :197; the raw strings are used instead
  | otherError     -- NameError, SyntaxError …: propagates
  deriving Repr

inductive ROut
  | ok (a : Ann)
  | raise (e : Exc)
  deriving Repr

/-- resolution of one field type as `DataclassWrapper.__init__` (dataclass_wrapper.py:81-92) and
    `FieldWrapper.type` (field_wrapper.py:828-849) do it: live objects are used as they are; a string goes
    through `get_field_type_from_annotations`:
      * `get_type_hints(cls)` evaluates it (`ev`);
      * only a *top-level* `types.UnionType` result is normalised with `_replace_UnionType_with_typing_Union`;
      * if `get_type_hints` raised `TypeError`, the raw text is kept, rewritten when it contains `|`, and
        evaluated once more inside `try … except Exception` (left as a string when that fails). -/
def resolve (ev : Str → EvOut) : Ann → ROut
  | .strAnn text =>
    match ev text with
    | .otherError => .raise .nameError
    | .ok (.unionType args) =>
      match replaceUnion (.unionType args) with
      | .ok a => .ok a
      | .error e => .raise e
    | .ok a => .ok a
    | .typeError =>
      let t1 : Except Exc Str :=
        if text.contains '|' then
          match rewrite text with
          | .ok t => .ok t
          | .assertion => .error .assertion
          | .notSupported => .error .notImplemented
        else .ok text
      match t1 with
      | .error e => .raise e
      | .ok t =>
        match ev t with
        | .ok a => .ok a
        | _ => .ok (.strAnn t)
  | a => .ok a

/-! ### `get_parsing_fn` (field_parsing.py:70-160) and `get_argparse_type_for_container` (utils.py:198-227) -/

/-- the callable handed to argparse as `type=`, described structurally -/
inductive Conv
  /-- a class used as a constructor: `int`, `float`, `str`, `Path`, a dataclass, `NoneType` -/
  | ctor (c : Cls)
  | str2bool
  /-- `parse_enum(E)`: `E[token]` -/
  | enumParse (name : Str)
  /-- `try_functions(f₁ … fₙ)` built by `parse_union` -/
  | tryFns (fs : List Conv)
  /-- `parse_optional(f)` -/
  | optWrap (f : Conv)
  /-- `parse_tuple(item types)`: the i-th call uses the i-th item's parsing function -/
  | tupleSeq (items : List Conv)
  | ellipsisMark
  /-- a `typing` alias object used as the callable: calling it raises `TypeError` (argparse: exit 2) -/
  | typingAlias (o : TOrigin)
  /-- a builtin alias used as the callable: `list[int](tok)` is `list(tok)` -/
  | builtinAlias (o : BOrigin)
  /-- a `types.UnionType` object: not callable — `add_argument` raises `ValueError` -/
  | unionTypeObj
  /-- an unresolved string: not callable -/
  | strObj
  deriving Repr

/-- `len(set(args)) == 1` -/
def allSame : List Ann → Bool
  | [] => false
  | x :: xs => xs.all (fun y => annEq x y)

/-- `is_homogeneous_tuple_type` (utils.py:440-471), for a tuple annotation -/
def isHomogeneous (args : List Ann) : Bool :=
  match args with
  | [] => true
  | [_, .ellipsis] => true
  | l => allSame l

mutual
/-- `get_parsing_fn`, branch order preserved: registry (`int`/`float`/`str`/`bool`), tuple, list, union,
    enum, else the annotation itself. -/
def parsingFn : Ann → Conv
  | .cls .int => .ctor .int
  | .cls .float => .ctor .float
  | .cls .str => .ctor .str
  | .cls .bool => .str2bool
  | .cls (.enum n) => .enumParse n
  | .cls c => .ctor c
  | .typing .tuple args => if isHomogeneous args then parsingFnHead args else .tupleSeq (parsingFnL args)
  | .builtin .tuple args => if isHomogeneous args then parsingFnHead args else .tupleSeq (parsingFnL args)
  | .typing .list args => parsingFnHead args
  | .builtin .list args => parsingFnHead args
  | .typing .union args =>
      if args.any isNoneType then .tryFns (parsingFnOpt args) else .tryFns (parsingFnL args)
  | .unionType args =>
      if args.any isNoneType then .tryFns (parsingFnOpt args) else .tryFns (parsingFnL args)
  | .ellipsis => .ellipsisMark
  | .strAnn _ => .strObj
termination_by structural a => a
/-- parsing function of the first argument (`str` for a bare container) -/
def parsingFnHead : List Ann → Conv
  | [] => .ctor .str
  | x :: _ => parsingFn x
def parsingFnL : List Ann → List Conv
  | [] => []
  | x :: xs => parsingFn x :: parsingFnL xs
/-- `parse_union` with `None` among the members: `None` is dropped, every other member gets `parse_optional` -/
def parsingFnOpt : List Ann → List Conv
  | [] => []
  | x :: xs => if isNoneType x then parsingFnOpt xs else .optWrap (parsingFn x) :: parsingFnOpt xs
end

/-- an annotation object used directly as the callable -/
def asCallable : Ann → Conv
  | .cls c => .ctor c
  | .typing o _ => .typingAlias o
  | .builtin o _ => .builtinAlias o
  | .unionType _ => .unionTypeObj
  | .ellipsis => .ellipsisMark
  | .strAnn _ => .strObj

/-- `get_argparse_type_for_container`: the *first* type argument; `bool` → `str2bool`, an enum →
    `parse_enum`, a union (either representation) → `get_parsing_fn` of it (utils.py:227-232), anything else
    **is used as the callable itself**. -/
def containerTypeFn (a : Ann) : Conv :=
  match getArgs a with
  | [] => .ctor .str                       -- `Any` → `str`
  | item :: _ =>
    match item with
    | .cls .bool => .str2bool
    | .cls (.enum n) => .enumParse n
    | t => if isUnion t then parsingFn t else asCallable t

inductive Nargs | none | opt | star | n (k : Nat)
  deriving DecidableEq, Repr

def countItems : List Ann → Option Nat
  | [] => some 0
  | x :: xs => if isList x || isTuple x then Option.none else (countItems xs).map (· + 1)

/-- `get_container_nargs` (utils.py:568-611) -/
def containerNargs (a : Ann) : Nargs :=
  if isTuple a then
    match getArgs a with
    | [] => .star
    | [_, .ellipsis] => .star
    | l => match countItems l with
      | some k => .n k
      | Option.none => .star
  else .star

/-! ### the type-dependent part of `FieldWrapper.get_arg_options` (field_wrapper.py:267-398) -/

inductive Branch | nested | optional | union | enum | list | tuple | bool | plain
  deriving DecidableEq, Repr

structure FieldKind where
  branch : Branch
  /-- the final `required=` -/
  required : Bool
  nargs : Nargs
  /-- `type=` (absent for the boolean action and nested dataclasses) -/
  conv : Option Conv
  /-- `choices=` is the member names of this enum -/
  choices : Option Str
  deriving Repr

/-- the field's default as far as `get_arg_options` looks at it -/
inductive Dflt | missing | isNone | value
  deriving DecidableEq, Repr

/-- `contains_dataclass_type_arg` (utils.py:535-545) as `DataclassWrapper.__init__` uses it (dataclass_wrapper.py:133-166):
    the annotation is a dataclass, or a union one of whose members is (`Optional[Child]`, `Child | None`).  (Lists /
    tuples of dataclasses raise `NotImplementedError` before and are outside the fragment.) -/
def containsDc (a : Ann) : Bool := isDataclass a || (isUnion a && (getArgs a).any isDataclass)

/-- non-`None` members of an optional; `Union[tuple(non_none_types)]` when more than one -/
def wrappedType (a : Ann) : Ann :=
  match (getArgs a).filter (fun t => !isNoneType t) with
  | [t] => t
  | l => mkTypingUnion l

/-- `required` before the branch (field_wrapper.py:797-822, top-level wrapper without parent default):
    optional ⇒ False, else "has no default" (a default of `None` counts as none). -/
def required0 (a : Ann) (d : Dflt) : Bool := !isOptional a && d != .value

/-- which branch of `get_arg_options` a field of (resolved) type `a` takes, with `nargs`, `type=`, `required=`.
    The dataclass test is `DataclassWrapper.__init__`'s (dataclass_wrapper.py:133-166: a nested wrapper is built
    instead of a field — through `is_dataclass` or `contains_dataclass_type_arg`, see `containsDc`). -/
def kind (a : Ann) (d : Dflt) : FieldKind :=
  if containsDc a then ⟨.nested, false, .none, Option.none, Option.none⟩
  else if isOptional a || d == .isNone then
    let w := if isOptional a then wrappedType a else a
    if isTuple w then ⟨.optional, false, containerNargs w, some (parsingFn w), Option.none⟩
    else if isList w then ⟨.optional, false, .star, some (containerTypeFn w), Option.none⟩
    else ⟨.optional, false, .opt, some (parsingFn w), Option.none⟩
  else if isUnion a then ⟨.union, required0 a d, .none, some (parsingFn a), Option.none⟩
  else if isEnum a then
    match a with
    | .cls (.enum n) => ⟨.enum, required0 a d, .none, some (.ctor .str), some n⟩
    | _ => ⟨.enum, required0 a d, .none, some (.ctor .str), Option.none⟩
  else if isList a then ⟨.list, required0 a d, .star, some (containerTypeFn a), Option.none⟩
  else if isTuple a then ⟨.tuple, required0 a d, containerNargs a, some (parsingFn a), Option.none⟩
  else if isBool a then ⟨.bool, required0 a d, .none, Option.none, Option.none⟩
  else ⟨.plain, required0 a d, .none, some (parsingFn a), Option.none⟩

/-! ### `FieldWrapper.postprocess` (field_wrapper.py:460-533): the annotation is looked at once more -/

/-- which conversion `postprocess` applies to the value argparse produced -/
inductive PostK
  /-- `is_enum`: a `str` is looked up by name (`E[raw]`), anything else returned -/
  | enumLookup
  /-- `is_tuple`: `tuple(raw)` unless it already is a tuple -/
  | toTuple
  /-- `is_bool`, and every fall-through: the value unchanged -/
  | same
  /-- `is_list`: a tuple becomes a list -/
  | toList
  /-- `is_optional` whose *first* type argument is a tuple type: a list becomes a tuple -/
  | optTuple
  /-- `type not in builtin_types`: `type(raw)` is tried with a plain class … -/
  | callCls (c : Cls)
  /-- … or with a `typing.Union` / `types.UnionType` object, which cannot be called: the exception is swallowed -/
  | callFails
  deriving DecidableEq, Repr

/-- `builtin_types` (utils.py:63-65): classes exported by `builtins` -/
def inBuiltins : Cls → Bool
  | .int => true | .float => true | .str => true | .bool => true
  | _ => false

/-- the arm of `postprocess` a field of resolved type `a` takes (choice / sub-parser fields are outside the fragment) -/
def postBranch (a : Ann) : PostK :=
  if isEnum a then .enumLookup
  else if isTuple a then .toTuple
  else if isBool a then .same
  else if isList a then .toList
  else if isOptional a then
    match getArgs a with
    | item :: _ => if isTuple item then .optTuple else .same
    | [] => .same
  else match a with
    | .cls c => if inBuiltins c then .same else .callCls c
    | _ => .callFails

/-- `parser.add_argument(type=f)` raises `ValueError` when `f` is not callable -/
def notCallable : Option Conv → Bool
  | some .unionTypeObj => true
  | some .strObj => true
  | _ => false

/-! ### the abstract type and its renderings -/

inductive Atom
  | int | float | str | bool | path
  | enum (name : Str)
  deriving DecidableEq, Repr

inductive TyExpr
  | atom (a : Atom)
  | list (e : TyExpr)
  /-- `Tuple[e₁, …, eₙ]` -/
  | tuple (es : List TyExpr)
  /-- `Tuple[e, ...]` -/
  | vtuple (e : TyExpr)
  | opt (e : TyExpr)
  | union (es : List TyExpr)
  /-- a nested dataclass -/
  | dc (name : Str)
  deriving Repr

/-- how the annotation objects are written (evaluated eagerly) -/
inductive Live | typing | builtin | pep604
  deriving DecidableEq, Repr

/-- the rendering styles of the property; the two postponed ones differ in the text that is postponed -/
inductive Style
  | live (l : Live)
  | postponed (l : Live)
  deriving DecidableEq, Repr

def atomCls : Atom → Cls
  | .int => .int | .float => .float | .str => .str | .bool => .bool | .path => .path
  | .enum n => .enum n

def mkList (l : Live) (x : Ann) : Ann :=
  match l with
  | .typing => .typing .list [x]
  | _ => .builtin .list [x]

def mkTuple (l : Live) (xs : List Ann) : Ann :=
  match l with
  | .typing => .typing .tuple xs
  | _ => .builtin .tuple xs

/-- `Union[xs]` (typing / builtin style) or `x₁ | … | xₙ` (PEP 604; well-formed expressions have distinct,
    union-free members, so neither spelling flattens or de-duplicates anything) -/
def mkUnion (l : Live) (xs : List Ann) : Ann :=
  match l with
  | .pep604 => .unionType xs
  | _ => .typing .union xs

mutual
/-- the object CPython builds for `e` written in live style `l` -/
def denoteLive (l : Live) : TyExpr → Ann
  | .atom a => .cls (atomCls a)
  | .dc n => .cls (.dc n)
  | .list e => mkList l (denoteLive l e)
  | .tuple es => mkTuple l (denoteLiveL l es)
  | .vtuple e => mkTuple l [denoteLive l e, .ellipsis]
  | .opt (.union es) => mkUnion l (denoteLiveL l es ++ [.cls .none])
  | .opt e => mkUnion l [denoteLive l e, .cls .none]
  | .union es => mkUnion l (denoteLiveL l es)
termination_by structural e => e
def denoteLiveL (l : Live) : List TyExpr → List Ann
  | [] => []
  | e :: es => denoteLive l e :: denoteLiveL l es
end

/-! source text of the annotation -/

def atomText : Atom → Str
  | .int => "int".toList | .float => "float".toList | .str => "str".toList | .bool => "bool".toList
  | .path => "Path".toList | .enum n => n

def joinBar : List Str → Str
  | [] => []
  | [p] => p
  | p :: q :: rest => p ++ " | ".toList ++ joinBar (q :: rest)

def listName : Live → Str
  | .typing => "List".toList
  | _ => "list".toList
def tupleName : Live → Str
  | .typing => "Tuple".toList
  | _ => "tuple".toList

mutual
def render (l : Live) : TyExpr → Str
  | .atom a => atomText a
  | .dc n => n
  | .list e => listName l ++ '[' :: render l e ++ [']']
  | .tuple es => tupleName l ++ '[' :: joinCommaSp (renderL l es) ++ [']']
  | .vtuple e => tupleName l ++ '[' :: render l e ++ ", ...]".toList
  | .opt (.union es) =>
      match l with
      | .pep604 => joinBar (renderL l es ++ ["None".toList])
      | _ => "Optional[Union[".toList ++ joinCommaSp (renderL l es) ++ "]]".toList
  | .opt e =>
      match l with
      | .pep604 => render l e ++ " | None".toList
      | _ => "Optional[".toList ++ render l e ++ [']']
  | .union es =>
      match l with
      | .pep604 => joinBar (renderL l es)
      | _ => "Union[".toList ++ joinCommaSp (renderL l es) ++ [']']
termination_by structural e => e
def renderL (l : Live) : List TyExpr → List Str
  | [] => []
  | e :: es => render l e :: renderL l es
end

/-- what the dataclass `Field.type` holds for `e` written in style `s` -/
def denote : Style → TyExpr → Ann
  | .live l, e => denoteLive l e
  | .postponed l, e => .strAnn (render l e)

/-! ### inheritance: `_get_dataclass_fields` over `__dataclass_fields__` (dataclass_wrapper.py:448-460) -/

/-- dict update as `dataclasses` does while walking the MRO base-first: an existing name keeps its position
    and gets the new definition, a new name is appended -/
def dictSet {β : Type} : List (Str × β) → Str → β → List (Str × β)
  | [], k, v => [(k, v)]
  | (k', v') :: r, k, v => if k' = k then (k', v) :: r else (k', v') :: dictSet r k v

def addOwn {β : Type} (acc : List (Str × β)) : List (Str × β) → List (Str × β)
  | [] => acc
  | (k, v) :: r => addOwn (dictSet acc k v) r

/-- fields of the most derived class of a linear chain (base first); each class is its own field list -/
def dcFields {β : Type} : List (List (Str × β)) → List (Str × β)
  | chain => chain.foldl addOwn []

end SpVerif.Annot
