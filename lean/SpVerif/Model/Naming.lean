/-
  SpVerif.Model.Naming — mirrors `FieldWrapper.option_strings`
  (simple_parsing/wrappers/field_wrapper.py:565-655) and `Wrapper.dest` (wrappers/wrapper.py:25-30).

  The code builds two parallel lists `dashes`/`options`, zips them into a *set* and sorts the set by
  length.  The model keeps the pre-set list in code order (`optionList`); the set is its `dedup`, and
  the hash order of the set is an explicit permutation parameter where order matters (`Help`).
-/
import SpVerif.Model.Core
namespace SpVerif

structure FW where
  name : Str
  pref : Str            -- `self.prefix`
  dest : Str            -- `self.dest` (dotted path ending in `name`)
  aliases : List Str
  positional : Bool := false
  deriving Repr, DecidableEq

/-- `"-" if len(x) == 1 else "--"` -/
def dashFor (x : Str) : Str := if x.length = 1 then ['-'] else ['-', '-']

/-- `".".join(self.dest.split(".")[1:])` -/
def dropRoot (dest : Str) : Str := joinWith '.' (splitOnChar '.' dest).tail

/-- the (dash, name) pair of one alias -/
def aliasPair (pref : Str) (a : Str) : Str × Str :=
  match a with
  | '-' :: '-' :: n => (['-', '-'], pref ++ n)
  | '-' :: n => (['-'], pref ++ n)
  | n => (dashFor n, pref ++ n)

/-- `option` after DASH rewriting (field_wrapper.py:598,602-603) -/
def flatCand (cfg : Cfg) (fw : FW) : Str :=
  let option0 := fw.pref ++ fw.name
  if cfg.dash = .dashOnly then dashify option0 else option0

/-- `nested_option` after DASH rewriting (field_wrapper.py:599-604) -/
def nestedCand (cfg : Cfg) (fw : FW) : Str :=
  let nested0 := match cfg.nest with
    | .default => fw.dest
    | .withoutRoot => dropRoot fw.dest
  if cfg.dash = .dashOnly then dashify nested0 else nested0

/-- the generated candidates (after DASH rewriting), in code order (field_wrapper.py:610-615) -/
def candidates (cfg : Cfg) (fw : FW) : List Str :=
  match cfg.gen with
  | .flat => [flatCand cfg fw]
  | .nested => [nestedCand cfg fw]
  | .both => [flatCand cfg fw, nestedCand cfg fw]

/-- the `(dash, option)` pairs before the UNDERSCORE_AND_DASH extension, in code order -/
def basePairs (cfg : Cfg) (fw : FW) : List (Str × Str) :=
  let dash := dashFor fw.name
  let cands := candidates cfg fw
  let gen := cands.map (fun c => (dash, c))
  let gen2 := if fw.name.length = 1 then cands.map (fun c => (['-', '-'], c)) else []
  gen ++ gen2 ++ fw.aliases.map (aliasPair fw.pref)

/-- the extra pairs added under UNDERSCORE_AND_DASH -/
def extraPairs (cfg : Cfg) (fw : FW) : List (Str × Str) :=
  if cfg.dash = .both then
    ((basePairs cfg fw).filter (fun p => hasUnderscore p.2)).map
      (fun p => (dashFor (dashify p.2), dashify p.2))
  else []

/-- All option strings in code order, *before* the set/sort (duplicates possible). -/
def optionList (cfg : Cfg) (fw : FW) : List Str :=
  if fw.positional then [fw.dest]
  else (basePairs cfg fw ++ extraPairs cfg fw).map (fun p => p.1 ++ p.2)

/-- insertion of one element into a list sorted by length, after all elements of equal length
    (Python's `sorted(..., key=len)` is stable). -/
def insertByLen (x : Str) : List Str → List Str
  | [] => [x]
  | y :: ys => if x.length < y.length then x :: y :: ys else y :: insertByLen x ys

def sortByLen (l : List Str) : List Str := l.foldl (fun acc x => insertByLen x acc) []

/-- `list(sorted(set(...), key=len))` where `perm` is the iteration order of the set
    (some permutation of `dedup (optionList …)`). -/
def optionStringsFrom (perm : List Str) : List Str := sortByLen perm

/-- The canonical (post-fix, insertion-ordered) result. -/
def optionStrings (cfg : Cfg) (fw : FW) : List Str :=
  if fw.positional then [fw.dest] else sortByLen (dedup (optionList cfg fw))

end SpVerif
