/-
  SpVerif.Model.Serial — executable model of SimpleParsing's dict/JSON/YAML serialization.

  mirrors  simple_parsing/helpers/serialization/encoding.py:61-141   (`encode` singledispatch)
           simple_parsing/helpers/serialization/decoding.py:79-518   (`decode_field`, `get_decoding_fn`, `decode_*`)
           simple_parsing/helpers/serialization/serializable.py:704-908 (`to_dict`, `from_dict`)
           simple_parsing/helpers/fields.py:111-120                  (`to_dict` / `encoding_fn` / `decoding_fn` metadata)

  One value universe `Val` (Python objects) is used for instances, for what `to_dict` emits and for
  the raw values `from_dict` receives, so "a tuple / set / Path / Enum survives in the output" is
  expressible.  Outcomes the code raises on are `Out.raise <ExceptionClass>`; inputs outside the
  modelled fragment are `Out.unmodelled` (never a default value).
-/
import SpVerif.Model.Core
import SpVerif.Model.BoolFlag
namespace SpVerif.Serial
open SpVerif

/-! ### outcomes -/

inductive Out (α : Type) where
  | ok (v : α)
  | raise (exc : Str)
  | unmodelled (why : Str)
  deriving Repr, Inhabited

@[inline] def Out.bind {α β : Type} (x : Out α) (f : α → Out β) : Out β :=
  match x with
  | .ok v => f v
  | .raise e => .raise e
  | .unmodelled w => .unmodelled w

instance : Monad Out where
  pure := Out.ok
  bind := Out.bind

def Out.map' {α β : Type} (f : α → β) (x : Out α) : Out β := x.bind (fun v => .ok (f v))

/-- left-to-right `[f(x) for x in xs]`, first exception wins -/
def mapOut {α β : Type} (f : α → Out β) : List α → Out (List β)
  | [] => .ok []
  | x :: xs => (f x).bind fun y => (mapOut f xs).bind fun ys => .ok (y :: ys)

/-! ### values and types -/

/-- per-field serialization metadata stored by `field()` (fields.py:111-120).  Hooks are numbers
    looked up in a hook environment (opaque user functions). -/
structure FMeta where
  toDict : Bool
  enc : Option Nat
  dec : Option Nat
  deriving Repr, DecidableEq, Inhabited

def FMeta.plain : FMeta := { toDict := true, enc := none, dec := none }

/-- Python objects.  `float` carries the canonical `repr`; `set` carries an enumeration of its
    elements (the iteration order of the real set where that matters); `dict` is an association list
    in insertion order, `ordered = true` for `collections.OrderedDict`; `inst` is a dataclass instance
    (`reg` = subclass of `SerializableMixin`, i.e. registered with `encode` / `_decoding_fns`). -/
inductive Val where
  | none
  | bool (b : Bool)
  | int (n : Int)
  | float (r : Str)
  | str (s : Str)
  | path (s : Str)
  | enum (cls : Str) (name : Str)
  | list (xs : List Val)
  | tuple (xs : List Val)
  | set (xs : List Val)
  | dict (ordered : Bool) (ps : List (Val × Val))
  | inst (cls : Str) (reg : Bool) (fs : List (Str × FMeta × Val))
  deriving Repr, Inhabited

/-- field type annotations (DESIGN Appendix A).  `union` lists the members in declaration order,
    `noneT` is `type(None)` (so `Optional[T]` = `union [T, noneT]`). -/
inductive FTy where
  | int | float | str | bool | path | any | noneT
  | enum (cls : Str) (members : List Str)
  | literal (vals : List Val)
  | list (t : FTy)
  | set (t : FTy)
  | vtuple (t : FTy)
  | tuple (ts : List FTy)
  | dict (k : FTy) (v : FTy)
  | union (alts : List FTy)
  | dc (cls : Str) (reg : Bool) (fs : List (Str × FMeta × Option Val × FTy))
  deriving Repr, Inhabited

def FTy.isNoneT : FTy → Bool
  | .noneT => true
  | _ => false

def FTy.isPrimTy : FTy → Bool
  | .bool | .int | .float | .str => true
  | _ => false

/-- `all(t in (bool, int, float, str) for t in types_list)` with `types_list` the non-None members, non-empty
    (decoding.py:361-362) -/
def unionOfPrims (alts : List FTy) : Bool :=
  let ms := alts.filter (fun t => !t.isNoneT)
  !ms.isEmpty && ms.all FTy.isPrimTy

/-- `type(val) is t` for a primitive member `t` -/
def primMember (raw : Val) : FTy → Bool
  | .bool => match raw with | .bool _ => true | _ => false
  | .int => match raw with | .int _ => true | _ => false
  | .float => match raw with | .float _ => true | _ => false
  | .str => match raw with | .str _ => true | _ => false
  | _ => false

/-- hook environment: the user's `encoding_fn` / `decoding_fn` callables -/
abbrev HEnv := Nat → Val → Out Val

/-! ### stdlib conversions on the modelled fragment -/

def digitChar (d : Nat) : Char := Char.ofNat (48 + d)

def digitsAux : Nat → Nat → List Char → List Char
  | 0, _, acc => acc
  | f + 1, n, acc => if n < 10 then digitChar n :: acc else digitsAux f (n / 10) (digitChar (n % 10) :: acc)

/-- `str(n)` for a natural number -/
def showNat (n : Nat) : Str := digitsAux (n + 1) n []

/-- `str(n)` / `repr(n)` / JSON text of an int -/
def showInt : Int → Str
  | .ofNat n => showNat n
  | .negSucc n => '-' :: showNat (n + 1)

def digitVal (c : Char) : Option Nat :=
  if 48 ≤ c.toNat ∧ c.toNat ≤ 57 then some (c.toNat - 48) else none

/-- digits with single underscores between digits (Python int literal rule), accumulator style.
    `prevDigit` = the previous character was a digit. -/
def parseDigits : Str → Nat → Bool → Option Nat
  | [], acc, prevDigit => if prevDigit then some acc else none
  | c :: cs, acc, prevDigit =>
    if c = '_' then (if prevDigit && !cs.isEmpty then parseDigits cs acc false else none)
    else match digitVal c with
      | some d => parseDigits cs (acc * 10 + d) true
      | none => none

def isAscii (s : Str) : Bool := s.all (fun c => c.toNat < 128)

/-- optional sign followed by digits -/
def parseSigned : Str → Option Int
  | '-' :: ds => (parseDigits ds 0 false).map (fun n => - (Int.ofNat n))
  | '+' :: ds => (parseDigits ds 0 false).map Int.ofNat
  | ds => (parseDigits ds 0 false).map Int.ofNat

/-- `int(s)` for a string: `none` = ValueError (ASCII fragment; callers check `isAscii`).  Surrounding
    whitespace is stripped first, as `int()` does. -/
def parseInt (s : Str) : Option Int := parseSigned (stripWs s)

/-- `float(n)` raises OverflowError exactly when |n| rounds to 2^1024 (ties-to-even). -/
def floatOverflow (n : Int) : Bool := n.natAbs ≥ 2 ^ 1024 - 2 ^ 970

/-- `repr(float(n))` on the fragment |n| < 10^16 (beyond that repr switches to exponent form) -/
def floatOfInt (n : Int) : Out Str :=
  if floatOverflow n then .raise "OverflowError".toList
  else if n.natAbs < 10 ^ 16 then .ok (showInt n ++ ".0".toList)
  else .unmodelled "float(int) beyond 1e16".toList

def allDigits (s : Str) : Bool := !s.isEmpty && s.all (fun c => (digitVal c).isSome)

/-- is `s` (no sign) of the shape `I.F` that `repr(float)` itself produces: no redundant zeros, at
    most 15 significant digits, magnitude in [1e-4, 1e16) or zero -/
def canonDecimal (s : Str) : Bool :=
  match splitOnChar '.' s with
  | [i, f] =>
    allDigits i && allDigits f &&
    (i = ['0'] || i.head? != some '0') &&
    (f = ['0'] || f.getLast? != some '0') &&
    (i.length + f.length ≤ 15) &&
    (i != ['0'] || f = ['0'] || !(startsWith f "0000".toList)) &&
    i.length ≤ 16
  | _ => false

def lowerAscii (s : Str) : Str := lower s

/-- syntactic validity of a decimal float literal without underscores: `D[.D][e[±]D]` or `.D[e..]` -/
def validFloatBody (s : Str) : Bool :=
  let (mant, ex) := match splitOnChar 'e' (lowerAscii s) with
    | [m] => (m, none)
    | [m, e] => (m, some e)
    | _ => ([], some [])
  let exOk := match ex with
    | none => true
    | some e => match e with
      | '-' :: d => allDigits d
      | '+' :: d => allDigits d
      | d => allDigits d
  let mantOk := match splitOnChar '.' mant with
    | [i] => allDigits i
    | [i, f] => (allDigits i && (f.isEmpty || allDigits f)) || (i.isEmpty && allDigits f)
    | _ => false
  mantOk && exOk

/-- `float(s)` for a string, result as canonical repr. -/
def floatOfStr (s : Str) : Out Str :=
  if !isAscii s then .unmodelled "non-ascii float text".toList else
  let t := stripWs s
  let (neg, body) := match t with
    | '-' :: b => (true, b)
    | '+' :: b => (false, b)
    | b => (false, b)
  let lb := lowerAscii body
  if lb = "inf".toList || lb = "infinity".toList then .ok (if neg then "-inf".toList else "inf".toList)
  else if lb = "nan".toList then .ok "nan".toList
  else if canonDecimal body then .ok (if neg then '-' :: body else body)
  else if body.contains '_' then .unmodelled "underscore in float text".toList
  else if validFloatBody body then
    (match parseDigits body 0 false with
     | some n => (floatOfInt (Int.ofNat n)).bind fun r => .ok (if neg && n != 0 then '-' :: r else if neg then "-0.0".toList else r)
     | none => .unmodelled "non-canonical float text".toList)
  else .raise "ValueError".toList

/-- `int(x)` for a float given by its repr -/
def intOfFloat (r : Str) : Out Int :=
  if r = "inf".toList || r = "-inf".toList then .raise "OverflowError".toList
  else if r = "nan".toList then .raise "ValueError".toList
  else
    let (neg, body) := match r with
      | '-' :: b => (true, b)
      | b => (false, b)
    match splitOnChar '.' body with
    | [i, f] =>
      if allDigits i && allDigits f then
        match parseDigits i 0 false with
        | some n => .ok (if neg then - (Int.ofNat n) else Int.ofNat n)
        | none => .unmodelled "float repr".toList
      else .unmodelled "float repr with exponent".toList
    | _ => .unmodelled "float repr with exponent".toList

/-- `pathlib.PurePosixPath(s)` normalisation as observed through `str()` (Python 3.12):
    collapse slashes (exactly two leading slashes are kept), drop `.` components and trailing slashes. -/
def normPath (s : Str) : Str :=
  let nLead := (s.takeWhile (· = '/')).length
  let root : Str := if nLead = 0 then [] else if nLead = 2 then ['/', '/'] else ['/']
  let comps := (splitOnChar '/' (s.dropWhile (· = '/'))).filter (fun c => !c.isEmpty && c != ['.'])
  let body := joinWith '/' comps
  if root.isEmpty && comps.isEmpty then ['.'] else root ++ body

/-! ### Python `==`, hashability, dict insertion -/

def boolInt (b : Bool) : Int := if b then 1 else 0

mutual
/-- Python `==` on the values that occur as dict keys, set elements and Literal members
    (numbers compare across bool/int/float; containers other than list/tuple are never compared). -/
def pyEq : Val → Val → Bool
  | .none, .none => true
  | .bool a, .bool b => a == b
  | .bool a, .int n => boolInt a == n
  | .int n, .bool a => boolInt a == n
  | .int a, .int b => a == b
  | .float a, .float b => a != "nan".toList && (a == b || (a == "0.0".toList && b == "-0.0".toList) || (a == "-0.0".toList && b == "0.0".toList))
  | .float a, .int n => n.natAbs < 10 ^ 16 && a == showInt n ++ ".0".toList
  | .int n, .float a => n.natAbs < 10 ^ 16 && a == showInt n ++ ".0".toList
  | .float a, .bool b => a == showInt (boolInt b) ++ ".0".toList
  | .bool b, .float a => a == showInt (boolInt b) ++ ".0".toList
  | .str a, .str b => a == b
  | .path a, .path b => a == b
  | .enum c a, .enum d b => c == d && a == b
  | .list xs, .list ys => pyEqL xs ys
  | .tuple xs, .tuple ys => pyEqL xs ys
  | _, _ => false
def pyEqL : List Val → List Val → Bool
  | [], [] => true
  | x :: xs, y :: ys => pyEq x y && pyEqL xs ys
  | _, _ => false
end

mutual
/-- `isinstance(v, Hashable)` / usable as dict key or set element -/
def hashable : Val → Bool
  | .list _ => false
  | .set _ => false
  | .dict _ _ => false
  | .inst _ _ _ => false
  | .tuple xs => hashableL xs
  | _ => true
def hashableL : List Val → Bool
  | [] => true
  | x :: xs => hashable x && hashableL xs
end

def lookupKey (k : Val) : List (Val × Val) → Option Val
  | [] => none
  | (k', v) :: ps => if pyEq k' k then some v else lookupKey k ps

/-- `d[k] = v` on an insertion-ordered dict: an existing (equal) key keeps its position and its key object -/
def dictInsert (k v : Val) : List (Val × Val) → List (Val × Val)
  | [] => [(k, v)]
  | (k', v') :: ps => if pyEq k' k then (k', v) :: ps else (k', v') :: dictInsert k v ps

/-- `set(xs)` as an enumeration: first occurrence kept -/
def setOfList : List Val → List Val → List Val
  | acc, [] => acc
  | acc, x :: xs => if acc.any (fun y => pyEq y x) then setOfList acc xs else setOfList (acc ++ [x]) xs

/-! ### encode  (encoding.py:61-141) and to_dict (serializable.py:707-774) -/

/-- state of the `encode_dict` loop (encoding.py:111-124): still a dict, or already a list of pairs -/
inductive DAcc where
  | dict (ps : List (Val × Val))
  | list (xs : List Val)

/-- one iteration of encoding.py:114-123 on already-encoded `k_`, `v_` -/
def encDictStep (acc : DAcc) (k v : Val) : Out DAcc :=
  match acc with
  | .dict ps =>
    if hashable k then .ok (.dict (dictInsert k v ps))
    else .ok (.list (ps.map (fun (a, b) => Val.tuple [a, b]) ++ [Val.tuple [k, v]]))
  | .list xs =>
    if !hashable k then .ok (.list (xs ++ [Val.tuple [k, v]]))
    else match k with
      | .int _ => .unmodelled "list-mode encode_dict with an int key".toList
      | .bool _ => .unmodelled "list-mode encode_dict with a bool key".toList
      | _ => .raise "TypeError".toList   -- `result[k_] = v_` on a list

def encDictFold : DAcc → List (Val × Val) → Out DAcc
  | acc, [] => .ok acc
  | acc, (k, v) :: ps => (encDictStep acc k v).bind fun acc' => encDictFold acc' ps

/-- `result: dict = {}` (encoding.py:108-111): whatever Mapping came in (an OrderedDict too), a plain dict goes out -/
def DAcc.toVal : DAcc → Val
  | .dict ps => .dict false ps
  | .list xs => .list xs

variable (henv : HEnv)

mutual
/-- `encode(obj)` — the singledispatch table of encoding.py -/
def encode : Val → Out Val
  | .inst _ _ fs =>
    -- registered classes: `encode.register(cls, cls.to_dict)` (serializable.py:221); any other dataclass
    -- instance: the generic branch (encoding.py:78-84) delegates to `to_dict(obj)` — the same field loop,
    -- so `to_dict=False` / `encoding_fn` are honoured for items of containers too
    (toDictL fs).bind fun ps => .ok (.dict false ps)
  | .list xs => (encodeL xs).bind fun ys => .ok (.list ys)       -- encoding.py:97-107
  | .tuple xs => (encodeL xs).bind fun ys => .ok (.list ys)
  | .set xs => (encodeL xs).bind fun ys => .ok (.list ys)
  | .dict _ ps =>                                                -- encoding.py:106-122 (any Mapping ↦ plain dict)
    (encodeP ps).bind fun qs => (encDictFold (.dict []) qs).bind fun acc => .ok acc.toVal
  | .path s => .ok (.str s)                                      -- encoding.py:129-131
  | .enum _ n => .ok (.str n)                                    -- encoding.py:139-141
  | .none => .ok .none                                           -- deepcopy fallback, encoding.py:91
  | .bool b => .ok (.bool b)
  | .int n => .ok (.int n)
  | .float r => .ok (.float r)
  | .str s => .ok (.str s)
def encodeL : List Val → Out (List Val)
  | [] => .ok []
  | x :: xs => (encode x).bind fun y => (encodeL xs).bind fun ys => .ok (y :: ys)
def encodeP : List (Val × Val) → Out (List (Val × Val))
  | [] => .ok []
  | (k, v) :: ps => (encode k).bind fun k' => (encode v).bind fun v' => (encodeP ps).bind fun qs => .ok ((k', v') :: qs)
/-- `to_dict(dc)` loop body, serializable.py:743-774 (result as association list; `toDictF` below wraps it) -/
def toDictL : List (Str × FMeta × Val) → Out (List (Val × Val))
  | [] => .ok []
  | (n, m, v) :: fs =>
    if !m.toDict then toDictL fs                                  -- serializable.py:748-750
    else
      let enc1 : Out Val :=
        match m.enc with
        | some h => henv h v                                      -- serializable.py:752-756
        | none =>
          match v with
          | .inst _ _ fs' => (toDictL fs').bind fun ps => .ok (.dict false ps)   -- serializable.py:760-763 (recursive to_dict)
          | v => match encode v with                              -- serializable.py:766-772
            | .raise _ => .ok v                                   --   `except Exception: encoded = value`
            | r => r
      enc1.bind fun e => (toDictL fs).bind fun qs => .ok ((.str n, e) :: qs)
end

/-- `to_dict(dc)`: the field loop, result as a dict -/
def toDictF (fs : List (Str × FMeta × Val)) : Out Val :=
  (toDictL henv fs).bind fun ps => .ok (.dict false ps)

/-- `to_dict(x)` for an instance; anything else is the ValueError of serializable.py:723-724 -/
def toDict : Val → Out Val
  | .inst _ _ fs => toDictF henv fs
  | _ => .raise "ValueError".toList

/-! ### transports: what `from_dict` receives after the writer/reader pair -/

inductive Tr where
  | id      -- to_dict → from_dict directly, and pickle
  | json    -- json.dumps → json.loads
  | yaml    -- yaml.dump → yaml.safe_load
  deriving Repr, DecidableEq, Inhabited

/-- JSON object keys: `str`, or the text json.dumps writes for int / float / bool / None -/
def jsonKey : Val → Out Str
  | .str s => .ok s
  | .int n => .ok (showInt n)
  | .bool b => .ok (if b then "true".toList else "false".toList)
  | .none => .ok "null".toList
  | .float r => .ok r
  | _ => .raise "TypeError".toList

mutual
/-- `json.loads(json.dumps(v))` on values made of primitives and tuples -/
def jsonTr : Val → Out Val
  | .none => .ok .none
  | .bool b => .ok (.bool b)
  | .int n => .ok (.int n)
  | .float r => .ok (.float r)
  | .str s => .ok (.str s)
  | .list xs => (jsonTrL xs).bind fun ys => .ok (.list ys)
  | .tuple xs => (jsonTrL xs).bind fun ys => .ok (.list ys)
  | .dict _ ps =>      -- an OrderedDict is written as a JSON object like any dict, and read back as a dict
    (jsonTrP ps).bind fun qs => .ok (.dict false (qs.foldl (fun acc (k, v) => dictInsert k v acc) []))
  | _ => .unmodelled "json of a non-primitive".toList
def jsonTrL : List Val → Out (List Val)
  | [] => .ok []
  | x :: xs => (jsonTr x).bind fun y => (jsonTrL xs).bind fun ys => .ok (y :: ys)
def jsonTrP : List (Val × Val) → Out (List (Val × Val))
  | [] => .ok []
  | (k, v) :: ps => (jsonKey k).bind fun k' => (jsonTr v).bind fun v' => (jsonTrP ps).bind fun qs => .ok ((.str k', v') :: qs)
end

mutual
/-- only dict / list / str / int / float / bool / None nodes (dict keys: primitive leaves) -/
def isPrim : Val → Bool
  | .none => true
  | .bool _ => true
  | .int _ => true
  | .float _ => true
  | .str _ => true
  | .list xs => isPrimL xs
  | .dict ordered ps => !ordered && isPrimP ps
  | _ => false
def isPrimL : List Val → Bool
  | [] => true
  | x :: xs => isPrim x && isPrimL xs
def isPrimP : List (Val × Val) → Bool
  | [] => true
  | (k, v) :: ps => isPrimLeaf k && isPrim v && isPrimP ps
def isPrimLeaf : Val → Bool
  | .none => true
  | .bool _ => true
  | .int _ => true
  | .float _ => true
  | .str _ => true
  | _ => false
end

mutual
def hasTuple : Val → Bool
  | .tuple _ => true
  | .list xs => hasTupleL xs
  | .dict ordered ps => ordered || hasTupleP ps   -- an OrderedDict is written as `!<OrderedDict>` + `!!python/tuple` items
  | _ => false
def hasTupleL : List Val → Bool
  | [] => false
  | x :: xs => hasTuple x || hasTupleL xs
def hasTupleP : List (Val × Val) → Bool
  | [] => false
  | (k, v) :: ps => hasTuple k || hasTuple v || hasTupleP ps
end

/-- `yaml.safe_load(yaml.dump(v))`: faithful on primitives (dict order aside, which neither dict
    equality nor `from_dict` looks at); a tuple is written as `!!python/tuple` and an OrderedDict as
    `!<OrderedDict>` (serializable.py:41-56 registers its representer / constructor on the default Dumper / Loader
    only), both of which safe_load refuses (`hasTuple`: "has a node safe_load cannot construct") -/
def yamlTr (v : Val) : Out Val :=
  if isPrim v then .ok v
  else if hasTuple v then .raise "ConstructorError".toList
  else .unmodelled "yaml of a non-primitive".toList

def transport : Tr → Val → Out Val
  | .id, v => .ok v
  | .json, v => jsonTr v
  | .yaml, v => yamlTr v

/-! ### leaf decoders  (decoding.py:79-105 and the registered constructors `str`, `Path`) -/

def tyErr {α : Type} : Out α := .raise "TypeError".toList

/-- `str(v)` (decoding.py:44-47: `str` is its own decoding function) -/
def decodeStr : Val → Out Val
  | .str s => .ok (.str s)
  | .int n => .ok (.str (showInt n))
  | .bool b => .ok (.str (if b then "True".toList else "False".toList))
  | .none => .ok (.str "None".toList)
  | .float r => .ok (.str r)
  | .path s => .ok (.str s)
  | .enum _ _ => .unmodelled "str() of an Enum member (depends on its mix-in)".toList
  | _ => .unmodelled "str() of a container".toList

/-- `_decode_int` (decoding.py:79-92): `int(v)`; `float(v)` is evaluated only for the warning test -/
def decodeInt : Val → Out Val
  | .int n => .ok (.int n)     -- `float(v)` may overflow in the warning test: caught, "nothing lost" (decoding.py:84-90)
  | .bool b => .ok (.int (boolInt b))
  | .str s =>
    if !isAscii s then .unmodelled "non-ascii int text".toList
    else match parseInt s with
      | some n => .ok (.int n)
      | none => .raise "ValueError".toList
  | .float r => (intOfFloat r).bind fun n => .ok (.int n)
  | .enum _ _ => .unmodelled "a raw Enum member (what the constructor makes of it depends on its mix-in)".toList
  | _ => tyErr

/-- `_decode_float` (decoding.py:89-94) -/
def decodeFloat : Val → Out Val
  | .float r => .ok (.float r)
  | .int n => (floatOfInt n).bind fun r => .ok (.float r)
  | .bool b => .ok (.float (if b then "1.0".toList else "0.0".toList))
  | .str s => (floatOfStr s).bind fun r => .ok (.float r)
  | .enum _ _ => .unmodelled "a raw Enum member (what the constructor makes of it depends on its mix-in)".toList
  | _ => tyErr

/-- `bool(v)` for a non-string -/
def truthy : Val → Bool
  | .none => false
  | .bool b => b
  | .int n => n != 0
  | .float r => !(r = "0.0".toList || r = "-0.0".toList)
  | .str s => !s.isEmpty
  | .list xs => !xs.isEmpty
  | .tuple xs => !xs.isEmpty
  | .set xs => !xs.isEmpty
  | .dict _ ps => !ps.isEmpty
  | _ => true

/-- `_decode_bool` (decoding.py:97-105) -/
def decodeBool : Val → Out Val
  | .str s => match str2bool s with
    | some b => .ok (.bool b)
    | none => .raise "ArgumentTypeError".toList
  | .enum _ _ => .unmodelled "a raw Enum member (what the constructor makes of it depends on its mix-in)".toList
  | v => .ok (.bool (truthy v))

/-- `Path(v)` (decoding.py:521) -/
def decodePath : Val → Out Val
  | .str s => .ok (.path (normPath s))
  | .path s => .ok (.path s)
  | .enum _ _ => .unmodelled "a raw Enum member (what the constructor makes of it depends on its mix-in)".toList
  | _ => tyErr

/-- `item_type[val]` (decoding.py:454-467): dict lookup in `_member_map_` -/
def decodeEnum (cls : Str) (members : List Str) : Val → Out Val
  | .str s => if members.contains s then .ok (.enum cls s) else .raise "KeyError".toList
  | v => if hashable v then .raise "KeyError".toList else tyErr

/-- `_decode_literal` (decoding.py:481-487): `val not in possible_vals` → TypeError, else the raw value -/
def decodeLiteral (vals : List Val) (v : Val) : Out Val :=
  match v with
  | .enum _ _ => .unmodelled "a raw Enum member (what the constructor makes of it depends on its mix-in)".toList     -- `Level.LOW == "low"` for a str-mixed member
  | v => if vals.any (fun l => pyEq l v) then .ok v else tyErr

/-- `iter(v)` as used by the list / tuple / set decoders (`for v in val`) -/
def iterOf : Val → Out (List Val)
  | .list xs => .ok xs
  | .tuple xs => .ok xs
  | .set xs => .ok xs
  | .str s => .ok (s.map (fun c => Val.str [c]))
  | .dict _ ps => .ok (ps.map Prod.fst)
  | .enum _ _ => .unmodelled "a raw Enum member (what the constructor makes of it depends on its mix-in)".toList     -- a str-mixed member iterates over its characters
  | _ => tyErr

/-- `for k, v in items` over a list (decoding.py:436-445) -/
def unpackPair : Val → Out (Val × Val)
  | .list [a, b] => .ok (a, b)
  | .tuple [a, b] => .ok (a, b)
  | .list _ => .raise "ValueError".toList
  | .tuple _ => .raise "ValueError".toList
  | .str [a, b] => .ok (.str [a], .str [b])
  | .str _ => .raise "ValueError".toList
  | .set _ => .unmodelled "unpacking a set".toList
  | .dict _ _ => .unmodelled "unpacking a dict".toList
  | .enum _ _ => .unmodelled "a raw Enum member (what the constructor makes of it depends on its mix-in)".toList
  | _ => tyErr

/-- the items `_decode_dict` iterates over and whether the result is an OrderedDict (decoding.py:434-444);
    the `(k, v)` pairs of a mapping are handed to the loop as 2-tuples, so that the loop unpacks every
    item itself, interleaved with decoding, as the code does -/
def dictItems : Val → Out (Bool × List Val)
  | .dict ordered ps => .ok (ordered, ps.map fun (k, v) => Val.tuple [k, v])
  | .list xs => .ok (true, xs)
  | _ => .raise "AttributeError".toList

def DC_TYPE_KEY : Str := "_type_".toList

/-! ### get_decoding_fn / decode_field / from_dict  (decoding.py:108-313, serializable.py:777-908) -/

/-- the `_decode_dict` loop: `result[decode_k(k)] = decode_v(v)` (decoding.py:445-449), given the two
    item decoders -/
def decodeItems (dk dv : Val → Out Val) : List Val → List (Val × Val) → Out (List (Val × Val))
  | [], acc => .ok acc
  | item :: ps, acc =>
    (unpackPair item).bind fun (k, v) => (dk k).bind fun k' => (dv v).bind fun v' =>
      if hashable k' then decodeItems dk dv ps (dictInsert k' v' acc) else tyErr

/-- `decode_optional(t)` (decoding.py:316-322); only used when the Union contains None (`optional`) -/
def decodeOptional (optional : Bool) (d : Val → Out Val) (raw : Val) : Out Val :=
  match optional, raw with
  | true, .none => .ok .none
  | _, _ => d raw

/-- `from_dict(cls, d)` around its field loop `fields` (serializable.py:805-833, 857-908), with
    `drop_extra_fields` resolved to True (no class of the modelled fragment sets `decode_into_subclasses`) -/
def fromDictWith (cls : Str) (reg : Bool) (fields : List (Val × Val) → Out (List (Str × FMeta × Val))) : Val → Out Val
  | .none => .ok .none                             -- serializable.py:805-806
  | .dict _ d =>
    if (lookupKey (.str DC_TYPE_KEY) d).isSome then .unmodelled "_type_ key".toList   -- 813-819 (C14)
    else (fields d).bind fun ifs => .ok (.inst cls reg ifs)
  | .list _ => .unmodelled "from_dict of a list".toList
  | .tuple _ => .unmodelled "from_dict of a tuple".toList
  | .set _ => .unmodelled "from_dict of a set".toList
  | .inst _ _ _ => .unmodelled "from_dict of an instance".toList
  | _ => .raise "AttributeError".toList            -- `d.copy()`

mutual
/-- `get_decoding_fn(t)(raw)` — the dispatch order of decoding.py:245-313 -/
def decode : FTy → Val → Out Val
  | .str, v => decodeStr v                        -- `t in _decoding_fns` (decoding.py:245-247)
  | .int, v => decodeInt v
  | .float, v => decodeFloat v
  | .bool, v => decodeBool v
  | .path, v => decodePath v
  | .dc cls reg fs, v => fromDictWith cls reg (fun d => decodeFields d fs false) v   -- registered `cls.from_dict` / `partial(from_dict, t)` (249-250)
  | .any, v => .ok v                              -- no_op (252-254)
  | .dict k v, raw =>                             -- decode_dict (256-261, 420-451)
    (dictItems raw).bind fun (ordered, ps) => (decodeItems (decode k) (decode v) ps []).bind fun qs => .ok (.dict ordered qs)
  | .set t, raw =>                                -- decode_set (263-268, 402-417)
    (iterOf raw).bind fun xs => (mapOut (decode t) xs).bind fun ys =>
      if ys.all hashable then .ok (.set (setOfList [] ys)) else tyErr
  | .tuple ts, raw =>                             -- decode_tuple, fixed length (270-273, 371-399)
    (iterOf raw).bind fun xs => (decodeT ts xs).bind fun ys => .ok (.tuple ys)
  | .vtuple t, raw =>                             -- decode_tuple with Ellipsis
    (iterOf raw).bind fun xs => (mapOut (decode t) xs).bind fun ys => .ok (.tuple ys)
  | .list t, raw =>                               -- decode_list (275-283, 362-368)
    (iterOf raw).bind fun xs => (mapOut (decode t) xs).bind fun ys => .ok (.list ys)
  | .union alts, raw =>                           -- decode_union (285-288, 342-359)
    -- a Union of primitives leaves a value whose exact type is one of the members as it is (361-371)
    if unionOfPrims alts && alts.any (primMember raw) then .ok raw
    else decodeU (alts.any FTy.isNoneT) alts raw
  | .enum cls ms, v => decodeEnum cls ms v        -- decode_enum (290-292)
  | .literal vals, v => decodeLiteral vals v      -- decode_literal (300-303)
  | .noneT, _ => .unmodelled "NoneType outside a Union".toList
/-- fixed-length tuple: `decoding_fns[i](v) for i, v in enumerate(val)` — IndexError when `val` is longer -/
def decodeT : List FTy → List Val → Out (List Val)
  | _, [] => .ok []
  | [], _ :: _ => .raise "IndexError".toList
  | t :: ts, x :: xs => (decode t x).bind fun y => (decodeT ts xs).bind fun ys => .ok (y :: ys)
/-- `try_functions(*decoding_fns)` over the non-None members in declaration order, each wrapped in
    `decode_optional` when the Union contains None (decoding.py:316-339); all fail ⇒ the raw value -/
def decodeU (optional : Bool) : List FTy → Val → Out Val
  | [], raw => .ok raw
  | t :: ts, raw =>
    if t.isNoneT then decodeU optional ts raw
    else
      match decodeOptional optional (decode t) raw with
      | .ok v => .ok v
      | .raise _ => decodeU optional ts raw
      | .unmodelled w => .unmodelled w
/-- the field loop of `from_dict` (serializable.py:834-855) followed by `cls(**init_args)`:
    `missing` records that a field without default had no key (⇒ RuntimeError at construction) -/
def decodeFields (d : List (Val × Val)) : List (Str × FMeta × Option Val × FTy) → Bool → Out (List (Str × FMeta × Val))
  | [], missing => if missing then .raise "RuntimeError".toList else .ok []
  | (n, m, dflt, t) :: fs, missing =>
    match lookupKey (.str n) d with
    | some raw =>
      let r := match m.dec with
        | some h => henv h raw                     -- decode_field: custom decoding_fn (decoding.py:134-137)
        | none => decode t raw
      r.bind fun v => (decodeFields d fs missing).bind fun rest => .ok ((n, m, v) :: rest)
    | none =>
      match dflt with
      | some dv => (decodeFields d fs missing).bind fun rest => .ok ((n, m, dv) :: rest)
      | none => (decodeFields d fs true).bind fun rest => .ok ((n, m, .none) :: rest)
end

/-- `cls.from_dict(raw)` for a class type -/
def fromDict : FTy → Val → Out Val
  | .dc cls reg fs, raw => decode henv (.dc cls reg fs) raw
  | _, _ => .unmodelled "from_dict of a non-dataclass type".toList

/-- one whole route: `from_dict(cls, transport(to_dict(x)))` -/
def roundTrip (tr : Tr) (t : FTy) (x : Val) : Out Val :=
  (toDict henv x).bind fun d => (transport tr d).bind fun raw => fromDict henv t raw

/-- `extensions` / `get_extension` (serializable.py:149-168): the codec is chosen by the file suffix.  Only the four
    formats of the property are modelled (`.npy`, `.pth`, `.toml` need third-party packages); any other suffix is the
    RuntimeError of `get_extension`. -/
def extTr (ext : Str) : Out Tr :=
  if ext = ".json".toList then .ok .json
  else if ext = ".pkl".toList then .ok .id
  else if ext = ".yaml".toList || ext = ".yml".toList then .ok .yaml
  else if ext = ".npy".toList || ext = ".pth".toList || ext = ".toml".toList then .unmodelled "third-party codec".toList
  else .raise "RuntimeError".toList

/-- `load(cls, save(x, "f" + ext))` (serializable.py:480-543, 599-629): `to_dict`, the codec of the suffix, `from_dict` -/
def saveLoad (ext : Str) (t : FTy) (x : Val) : Out Val :=
  (extTr ext).bind fun tr => roundTrip henv tr t x

end SpVerif.Serial
