/-
  SpVerif.Model.Callables — the callable front-ends.

  mirrors  simple_parsing/decorators.py:47-139            (`main`)
           simple_parsing/helpers/fields.py:34-161         (`field`: where extra keywords go)
           simple_parsing/wrappers/field_wrapper.py:137-166,231-406 (key sets of `arg_options`)
           simple_parsing/wrappers/field_wrapper.py:1037-1091 (`only_keep_action_args`)
           simple_parsing/helpers/partial.py:61-202        (`_cache_when_possible`, `config_for`)
           simple_parsing/helpers/partial.py:205-223       (`infer_type_annotation_from_default`)
           simple_parsing/helpers/partial.py:226-247       (`_parse_args_from_docstring`)
           simple_parsing/helpers/partial.py:300-308       (`Partial.__call__`)
  plus CPython's argument binding (`bind`), which the theorems need in order to say what the wrapped
  callable *receives*.

  Values are opaque (`V`): the front-ends never look inside a parsed value, they only route it.
-/
import SpVerif.Model.Core
import SpVerif.Model.BoolFlag
namespace SpVerif.Callables
open SpVerif

/-! ## signatures -/

/-- `inspect.Parameter.kind` (the `*args` / `**kwargs` kinds are outside the modelled fragment). -/
inductive Kind | posOnly | posOrKw | kwOnly
  deriving DecidableEq, Repr

/-- what `FieldWrapper.get_arg_options` distinguishes about an annotation (branch order of
    field_wrapper.py:262-398). `dc` = a dataclass type (no `FieldWrapper`: a nested group). -/
inductive TyClass | plain | choice | optional | union | enum | list | tuple | bool | dc
  deriving DecidableEq, Repr

/-- a signature default: an ordinary value (`isNone` = the literal `None`), or a plain function
    (`fn` = the function object, `result` = what calling it returns). -/
inductive Dflt (V : Type)
  | value (v : V) (isNone : Bool)
  | func (fn : V) (result : V)
  deriving Repr

structure Param (V : Type) where
  name : Str
  kind : Kind
  ann : Option TyClass          -- `none` = `inspect.Parameter.empty`
  dflt : Option (Dflt V)        -- `none` = `inspect.Parameter.empty`
  help : Str := []              -- description of the parameter in the docstring ("" if none)
  /-- the default value's class is unhashable (`list`, `dict`, `set`, a non-frozen dataclass
      instance, …): `dataclasses` rejects it as a field default ("mutable default … use
      default_factory") -/
  mutableDefault : Bool := false
  deriving Repr

def Param.hasDefault (p : Param V) : Bool := p.dflt.isSome
def Param.isPosOnly (p : Param V) : Bool := p.kind == .posOnly

/-! ## `main`: signature → fields  (decorators.py:66-103) -/

/-- `dataclasses.Field` default state -/
inductive FDefault (V : Type)
  | missing
  | value (v : V) (isNone : Bool)
  | factory (result : V)
  deriving Repr

def FDefault.isSet : FDefault V → Bool
  | .missing => false
  | _ => true

/-- `field.default is None` (a factory leaves `field.default` MISSING) -/
def FDefault.isLiteralNone : FDefault V → Bool
  | .value _ n => n
  | _ => false

structure Field (V : Type) where
  name : Str
  ty : TyClass
  default : FDefault V
  positional : Bool
  custom : List Str            -- keys of `metadata["custom_args"]`
  help : Str
  mutable : Bool := false      -- `default=` carries an unhashable value (rejected by `make_dataclass`)
  deriving Repr

/-- decorators.py:69-70: an empty annotation becomes `Any` (a "plain" field). -/
def annClass (a : Option TyClass) : TyClass := a.getD .plain

/-- decorators.py:73-78. Only a *plain function* (`inspect.isfunction`) becomes a default factory;
    every other default — including callable objects such as `functools.partial` objects,
    `config_for`/`Partial` instances and classes — is a `Dflt.value` and is passed on untouched. -/
def mainDefault : Option (Dflt V) → FDefault V
  | none => .missing
  | some (.func _ r) => .factory r          -- `inspect.isfunction(default)` ⇒ default_factory
  | some (.value v n) => .value v n

/-- decorators.py:80-89 with fields.py:50,122-123: `help=` is not a parameter of `helpers.field`,
    so it lands in `custom_args` (since a47a1e0 `name=` is no longer passed). -/
def mainField (p : Param V) : Field V :=
  { name := p.name, ty := annClass p.ann, default := mainDefault p.dflt,
    positional := p.kind == .posOnly, custom := ["help".toList], help := p.help,
    -- a function default goes to `default_factory`, which is never checked for hashability
    mutable := p.mutableDefault && (match p.dflt with | some (.value _ _) => true | _ => false) }

/-- the field of the *equivalent hand-written dataclass*, written down independently of `mainField`
    from what a person would write for the parameter: same name and annotation (`Any` when there is
    none), `field(positional=True)` for a positional-only parameter, the default as `= value`,
    as `default_factory=fn` for a function default and — because Python does not let one write a
    mutable value as a class-level default — as `default_factory` for a mutable default. No custom
    arguments. -/
def plainField (p : Param V) : Field V :=
  { name := p.name,
    ty := match p.ann with | some t => t | none => .plain,
    default := match p.dflt with
      | none => .missing
      | some (.func _ r) => .factory r
      | some (.value v n) => if p.mutableDefault then .factory v else .value v n,
    positional := match p.kind with | .posOnly => true | _ => false,
    custom := [], help := [], mutable := false }

/-- `sorted(xs, key=k)` for a Boolean key is stable: model it as the insertion sort it is
    observationally equal to (`False < True`). -/
def insertByKey (key : α → Bool) (x : α) : List α → List α
  | [] => [x]
  | y :: ys => if key x && !key y then y :: insertByKey key x ys else x :: y :: ys

def stableSort (key : α → Bool) : List α → List α
  | [] => []
  | x :: xs => insertByKey key x (stableSort key xs)

/-- decorators.py:97-103 -/
def mainFields (sig : List (Param V)) : List (Field V) :=
  stableSort (fun f => f.default.isSet) (sig.map mainField)

def plainFields (sig : List (Param V)) : List (Field V) :=
  stableSort (fun f => f.default.isSet) (sig.map plainField)

/-! ## `only_keep_action_args`  (field_wrapper.py:1037-1091) -/

/-- the `action` entry of the options: one of the ten stock names, anything else (a class, or an
    unknown string) is `custom`. -/
inductive Action
  | store | storeConst | storeTrue | storeFalse | append | appendConst | count | help | version
  | parsers
  | custom (ctorArgs : List Str)   -- argument names its constructor accepts
  deriving Repr, DecidableEq

def S (s : String) : Str := s.toList

/-- `inspect.getfullargspec(action_class).args` on CPython 3.12 (includes `self`). -/
def stockCtorArgs : Action → Option (List Str)
  | .store | .append => some (["self", "option_strings", "dest", "nargs", "const", "default", "type",
      "choices", "required", "help", "metavar"].map S)
  | .storeConst | .appendConst => some (["self", "option_strings", "dest", "const", "default",
      "required", "help", "metavar"].map S)
  | .storeTrue | .storeFalse | .count =>
      some (["self", "option_strings", "dest", "default", "required", "help"].map S)
  | .help => some (["self", "option_strings", "dest", "default", "help"].map S)
  | .version => some (["self", "option_strings", "version", "dest", "default", "help"].map S)
  | .parsers => some (["self", "option_strings", "prog", "parser_class", "dest", "required", "help",
      "metavar"].map S)
  | .custom _ => none

/-- field_wrapper.py:1066-1091: custom action ⇒ options untouched; stock action ⇒ keep the
    constructor's argument names and `action` (none of the stock constructors has `*args/**kw`). -/
def onlyKeepActionArgs (keys : List Str) (a : Action) : List Str :=
  match stockCtorArgs a with
  | none => keys
  | some ctor => keys.filter (fun k => (ctor ++ [S "action"]).contains k)

/-- argument names of `BooleanOptionalAction.__init__` (custom_actions.py:38-52), without `self` -/
def boolActionCtor : List Str :=
  ["option_strings", "dest", "default", "type", "choices", "required", "help", "metavar", "nargs",
   "negative_prefix", "negative_option", "_conflict_prefix"].map S

/-! ## key set of `arg_options` and the `add_argument` call  (field_wrapper.py:137-166,231-406) -/

/-- `FieldWrapper.required` for a field of the top-level class (field_wrapper.py:797-821):
    Optional ⇒ False; else `self.default is None`. -/
def fieldRequired (f : Field V) : Bool :=
  if f.ty == .optional then false
  else match f.default with
    | .missing => true
    | .value _ n => n
    | .factory _ => false

/-- `self.default is not None` -/
def defaultNotNone (f : Field V) : Bool :=
  match f.default with
  | .missing => false
  | .value _ n => !n
  | .factory _ => true

def remove (k : Str) (l : List Str) : List Str := l.filter (fun x => !(x == k))

/-- keys produced by `get_arg_options` (insertion order irrelevant: it is a dict), and whether the
    bool branch selected `BooleanOptionalAction`. -/
def autoKeys (f : Field V) : List Str × Bool :=
  let base : List Str :=
    (if !f.positional then [S "required", S "dest"]
     else if !fieldRequired f then [S "nargs"] else [])
    ++ [S "default", S "metavar"]
    -- `self.help` (attribute docstrings of the class) is None for the synthesised class and for the
    -- comment-free equivalent class, so the temporary help token is added iff a default exists
    ++ (if defaultNotNone f then [S "help"] else [])
  match f.ty with
  | .choice => (remove (S "metavar") (base ++ [S "type", S "choices"]), false)
  | t =>
    if t == .optional || f.default.isLiteralNone then
      -- since 302ccc9 `required=False` is only written for options (argparse rejects it for positionals)
      (base ++ (if !f.positional then [S "required"] else []) ++ [S "type", S "nargs"], false)
    else match t with
      | .union => (base ++ [S "type"], false)
      | .enum => (base ++ [S "choices", S "type"], false)
      | .list => (base ++ [S "nargs", S "type"], false)
      | .tuple => (base ++ [S "nargs", S "type"], false)
      | .bool => (base ++ [S "action", S "_conflict_prefix"], true)
      | _ => (remove (S "metavar") base ++ [S "type"], false)

/-- field_wrapper.py:158-166: auto options, updated with the custom ones, filtered by the action. -/
def argOptionKeys (f : Field V) : List Str × Action :=
  let (auto, isBool) := autoKeys f
  let keys := dedup (auto ++ f.custom)
  let action := if isBool then Action.custom boolActionCtor else Action.store
  (onlyKeepActionArgs keys action, action)

inductive AddOutcome | ok | typeError
  deriving DecidableEq, Repr

/-- `group.add_argument(*option_strings, **arg_options)`:
    argparse `_get_positional_kwargs` rejects `required` for positionals (TypeError); the action
    constructor rejects unknown keywords (TypeError, raised by the call itself, before the body).
    (A positional `BooleanOptionalAction` is constructed without complaint — its option string
    `args.<name>` takes the dotted branch — and fails only in `__call__`, i.e. inside the parse.) -/
def addArgument (f : Field V) : AddOutcome :=
  if f.ty == .dc then .ok            -- nested group: no FieldWrapper, no add_argument
  else
    let (keys, action) := argOptionKeys f
    if f.positional && keys.contains (S "required") then .typeError
    else match action with
      | .custom ctor =>
        if keys.any (fun k => !(ctor.contains k) && !(k == S "action")) then .typeError
        else .ok
      | _ => .ok

/-- parser set-up: fields are added in dataclass order; the first failure propagates. -/
def setup : List (Field V) → AddOutcome
  | [] => .ok
  | f :: fs => match addArgument f with
    | .ok => setup fs
    | .typeError => .typeError

/-! ## the call made by `main`  (decorators.py:115-132) -/

structure Call (V : Type) where
  args : List V
  kwargs : List (Str × V)
  deriving Repr, DecidableEq

/-- `collections.ChainMap(kwargs, other)` unpacked with `**`: keys of `other` first, then the new
    keys of `kwargs`; on a clash the *first* map (`kwargs`) wins. -/
def chainMap (kwargs other : List (Str × V)) : List (Str × V) :=
  other.map (fun (k, v) => (k, (kwargs.lookup k).getD v))
  ++ kwargs.filter (fun (k, _) => !(other.any (fun (k', _) => k' == k)))

/-- decorators.py:116-132. `vals n` = `getattr(function_args, n)`. -/
def mainCall (fields : List (Field V)) (vals : Str → V) (otherArgs : List V)
    (otherKw : List (Str × V)) : Call V :=
  { args := (fields.filter (·.positional)).map (fun f => vals f.name) ++ otherArgs,
    kwargs := chainMap ((fields.filter (fun f => !f.positional)).map (fun f => (f.name, vals f.name)))
                otherKw }

/-- what the equivalent parse produced -/
inductive ParseOut (V : Type)
  | ok (vals : List (Str × V))
  | exit (code : Nat)
  | raise (exc : Str)
  deriving Repr, DecidableEq

inductive MainOut (V : Type)
  | call (c : Call V)
  | exit (code : Nat)
  | raise (exc : Str)
  deriving Repr, DecidableEq

def lookupD (l : List (Str × V)) (d : V) (n : Str) : V := (l.lookup n).getD d

/-- `main(f)(*otherArgs, **otherKw)`: set-up of the synthesised class, then the parse (a parameter:
    the outcome of the equivalent plain parse), then the call. -/
def mainRun (sig : List (Param V)) (parse : ParseOut V) (dflt : V) (otherArgs : List V)
    (otherKw : List (Str × V)) : MainOut V :=
  -- `dataclasses.make_dataclass` (decorators.py:106) rejects an unhashable `default=` first
  if (mainFields sig).any (·.mutable) then .raise (S "ValueError") else
  match setup (mainFields sig) with
  | .typeError => .raise (S "TypeError")
  | .ok => match parse with
    | .exit c => .exit c
    | .raise e => .raise e
    | .ok vals => .call (mainCall (mainFields sig) (lookupD vals dflt) otherArgs otherKw)

/-! ## CPython argument binding for a plain `def` (no `*args`, no `**kwargs`) -/

/-- the value a parameter takes when it is not passed -/
def Param.defaultValue (p : Param V) : Option V :=
  match p.dflt with
  | none => none
  | some (.value v _) => some v
  | some (.func fn _) => some fn

/-- walk the parameters; positional arguments fill the non-keyword-only parameters in order.
    `none` = TypeError (too many positionals, multiple values, missing argument). -/
def bindGo : List (Param V) → List V → List (Str × V) → Option (List (Str × V))
  | [], [], _ => some []
  | [], _ :: _, _ => none
  | p :: ps, args, kw =>
    let byKeyword : Option (List (Str × V)) :=
      match kw.lookup p.name with
      | some v => (bindGo ps args kw).map (fun r => (p.name, v) :: r)
      | none => match p.defaultValue with
        | some d => (bindGo ps args kw).map (fun r => (p.name, d) :: r)
        | none => none
    match p.kind, args with
    | .kwOnly, _ => byKeyword
    | _, [] => byKeyword
    | _, a :: as =>
      if (kw.lookup p.name).isSome then none
      else (bindGo ps as kw).map (fun r => (p.name, a) :: r)

/-- every keyword must name a parameter that can be passed by keyword -/
def kwAllowed (sig : List (Param V)) (kw : List (Str × V)) : Bool :=
  kw.all (fun (k, _) => sig.any (fun p => p.name == k && !(p.kind == .posOnly)))

/-- `f(*args, **kw)`: the callee's view, in signature order; `none` = TypeError. -/
def bind (sig : List (Param V)) (args : List V) (kw : List (Str × V)) : Option (List (Str × V)) :=
  if kwAllowed sig kw then bindGo sig args kw else none

/-! ## docstring `Args:` sections → help text  (partial.py:144-148,174-180,226-247) -/

/-- `stripped.split(":", maxsplit=1)`: `none` = no colon (the tuple unpacking raises ValueError) -/
def splitFirstColon : Str → Option (Str × Str)
  | [] => none
  | c :: cs =>
    if c = ':' then some ([], cs)
    else match splitFirstColon cs with
      | some (a, b) => some (c :: a, b)
      | none => none

/-- `d[k] = v` on an insertion-ordered dict -/
def assocSet (k : Str) (v : Str) : List (Str × Str) → List (Str × Str)
  | [] => [(k, v)]
  | (k', v') :: rest => if k' == k then (k', v) :: rest else (k', v') :: assocSet k v rest

inductive DocOut
  | ok (entries : List (Str × Str))
  | valueError          -- an entry line without a colon
  | keyError            -- a continuation line before the first entry (`parsed[""] += …`)
  deriving Repr, DecidableEq

def isArgsHeader (stripped : Str) : Bool :=
  startsWith stripped "Args:".toList || startsWith stripped "Arguments:".toList
    || startsWith stripped "Parameters:".toList

/-- the loop of `_parse_args_from_docstring` (partial.py:231-246); `bi` = `arg_block_indent`,
    `cur` = `current_arg`. Whitespace is the ASCII fragment of `str.lstrip()`. -/
def docLoop : List Str → Option Nat → Str → List (Str × Str) → DocOut
  | [], _, _, parsed => .ok parsed
  | line :: rest, bi, cur, parsed =>
    let stripped := lstripWs line
    if stripped.isEmpty then docLoop rest bi cur parsed
    else
      let indent := line.length - stripped.length
      if isArgsHeader stripped then docLoop rest (some (indent + 4)) cur parsed
      else match bi with
        | none => docLoop rest bi cur parsed
        | some b =>
          if indent < b then .ok parsed                                  -- `break`
          else if indent = b then
            match splitFirstColon stripped with
            | none => .valueError
            | some (k, d) => docLoop rest bi k (assocSet k (lstripWs d) parsed)
          else match parsed.lookup cur with
            | none => .keyError
            | some v => docLoop rest bi cur (assocSet cur (v ++ ' ' :: stripped) parsed)

def parseArgsDoc (doc : Str) : DocOut := docLoop (splitOnChar '\n' doc) none [] []

/-- `k.split()[:1]`: the first whitespace-delimited word of a key (`none` = `[]`, no word) -/
def firstWord (k : Str) : Option Str :=
  let s := lstripWs k
  if s.isEmpty then none else some (s.takeWhile (fun c => !isSpace c))

/-- `{v for k, v in entries.items() if k.split()[:1] == [name]}` as a duplicate-free list
    (partial.py:174-176 since f3cc715: the entry of a parameter is `name: …` or `name (type): …`) -/
def helpEntries (entries : List (Str × Str)) (name : Str) : List Str :=
  dedup ((entries.filter (fun e => firstWord e.1 == some name)).map (·.2))

/-- partial.py:174-180: `init_help_entries or class_help_entries`, then `set.pop()`.
    `none` = two or more distinct candidates (which one `pop` returns depends on the hash seed). -/
def pickHelp (initE classE : List (Str × Str)) (name : Str) : Option Str :=
  let h := if (helpEntries initE name).isEmpty then helpEntries classE name else helpEntries initE name
  match h with
  | [] => some []
  | [x] => some x
  | _ => none

/-! ## `config_for`  (partial.py:131-202) -/

/-- runtime shape of a default value, as far as `infer_type_annotation_from_default` looks -/
inductive Shape
  | int | float | str | bool
  | tuple (items : List Shape)
  | list (items : List Shape)
  | dict (empty : Bool)
  | other                 -- anything else whose class is hashable (None, Path, Enum member, frozen instance, …)
  | unhashable            -- anything else whose class is unhashable (set, non-frozen dataclass instance, …)
  deriving Repr

mutual
/-- partial.py:205-223; `false` = NotImplementedError -/
def inferable : Shape → Bool
  | .int | .float | .str | .bool => true
  | .tuple items => inferableAll items
  | .list [] => true
  | .list (x :: _) => inferable x
  | .dict e => e
  | .other => false
  | .unhashable => false
def inferableAll : List Shape → Bool
  | [] => true
  | x :: xs => inferable x && inferableAll xs
end

/-- `f.default.__class__.__hash__ is None` (dataclasses.py `_process_class` → "mutable default") -/
def mutableShape : Shape → Bool
  | .list _ | .dict _ | .unhashable => true
  | _ => false

structure CParam (V : Type) where
  name : Str
  annotated : Bool               -- `parameter.annotation is not empty`
  dflt : Option (V × Shape)      -- signature default
  deriving Repr

structure CField (V : Type) where
  name : Str
  default : Option V             -- `none` = required
  mutable : Bool := false        -- the default's class is unhashable
  deriving Repr

inductive CfgOut (V : Type)
  | ok (fields : List (CField V))
  | notImplemented
  | mutableDefault               -- ValueError from `make_dataclass` (partial.py:193), after the loop
  | docError (o : DocOut)        -- raised while reading the docstrings, before the loop
  deriving Repr

/-- partial.py:151-153: `defaults.get(name, parameter.default)` -/
def effDefault (overrides : List (Str × V × Shape)) (p : CParam V) : Option (V × Shape) :=
  match overrides.lookup p.name with
  | some d => some d
  | none => p.dflt

/-- where the field type comes from (partial.py:160-172) -/
inductive Typed | yes | raise | skip
  deriving DecidableEq, Repr

def typedOf (classAnn : List Str) (p : CParam V) (default : Option (V × Shape)) : Typed :=
  if p.annotated then .yes                                  -- own annotation
  else if classAnn.contains p.name then .yes               -- `get_type_hints(cls)`
  else match default with
    | some (_, sh) => if inferable sh then .yes else .raise -- inferred from the default
    | none => .skip                                         -- warning, parameter skipped

/-- the loop at partial.py:150-190. `acc` is the `fields` list. (The code computes the default
    before the ignore test; neither has side effects.) -/
def configLoop (classAnn ignore : List Str) (overrides : List (Str × V × Shape)) :
    List (CParam V) → List (CField V) → CfgOut V
  | [], acc => .ok acc
  | p :: ps, acc =>
    if ignore.contains p.name then configLoop classAnn ignore overrides ps acc
    else match typedOf classAnn p (effDefault overrides p) with
      | .skip => configLoop classAnn ignore overrides ps acc
      | .raise => .notImplemented
      | .yes => match effDefault overrides p with
        | none =>                                            -- required: `fields.insert(0, …)`
          configLoop classAnn ignore overrides ps ({ name := p.name, default := none } :: acc)
        | some (v, sh) =>                                    -- optional: `fields.append(…)`
          configLoop classAnn ignore overrides ps
            (acc ++ [{ name := p.name, default := some v, mutable := mutableShape sh }])

/-- the `fields` list handed to `make_dataclass` (partial.py:140-190) -/
def configFields (classAnn ignore : List Str) (overrides : List (Str × V × Shape))
    (sig : List (CParam V)) : CfgOut V :=
  configLoop classAnn ignore overrides sig []

/-- `config_for`: the loop, then `make_dataclass` (partial.py:193-195), which raises ValueError for
    a field whose default value is of an unhashable class — whatever `frozen` is. -/
def configFor (classAnn ignore : List Str) (overrides : List (Str × V × Shape))
    (sig : List (CParam V)) : CfgOut V :=
  match configFields classAnn ignore overrides sig with
  | .ok fs => if fs.any (·.mutable) then .mutableDefault else .ok fs
  | e => e

/-- `config_for` including the docstrings (partial.py:144-148: class docstring first, then — for a
    class — the docstring of `__init__`; `none` = no docstring / not a class): the fields and, per
    field, the help text. -/
def configForDoc (classDoc initDoc : Option Str) (classAnn ignore : List Str)
    (overrides : List (Str × V × Shape)) (sig : List (CParam V)) :
    CfgOut V × List (Str × Option Str) :=
  match parseArgsDoc (classDoc.getD []) with
  | .ok classE =>
    match parseArgsDoc (initDoc.getD []) with
    | .ok initE =>
      match configFor classAnn ignore overrides sig with
      | .ok fs => (.ok fs, fs.map (fun f => (f.name, pickHelp initE classE f.name)))
      | e => (e, [])
    | e => (.docError e, [])
  | e => (.docError e, [])

/-! ## `Partial.__call__`  (partial.py:300-308) -/

/-- `d.update(**kw)`: an existing key keeps its position and takes the new value; new keys are
    appended in order. -/
def dictUpdate : List (Str × V) → List (Str × V) → List (Str × V)
  | d, [] => d
  | d, (k, v) :: rest =>
    if d.any (fun (k', _) => k' == k) then
      dictUpdate (d.map (fun (k', v') => if k' == k then (k', v) else (k', v'))) rest
    else dictUpdate (d ++ [(k, v)]) rest

/-- the loop added by 8ca70f1 (partial.py:310-324): walk the target's leading positional-only
    parameters; the first `given` of them are covered by the caller's `*args`; each further one whose
    name is a key of the keyword dict is popped and passed positionally; the walk stops at the first
    parameter that is not positional-only or has no value. -/
def movePositional : List (Param V) → Nat → List (Str × V) → List V × List (Str × V)
  | [], _, d => ([], d)
  | p :: ps, given, d =>
    if !(p.kind == .posOnly) then ([], d)
    else match given with
      | n + 1 => movePositional ps n d
      | 0 => match d.lookup p.name with
        | none => ([], d)
        | some v =>
          let r := movePositional ps 0 (d.filter (fun e => !(e.1 == p.name)))
          (v :: r.1, r.2)

/-- `self(*args, **kwargs)` ⇒ `_target_(*args, *moved, **rest)` where `{fields…, **kwargs}` is split
    by `movePositional` along the target's signature `sig` -/
def partialCall (sig : List (Param V)) (fieldVals : List (Str × V)) (args : List V)
    (kwargs : List (Str × V)) : Call V :=
  let r := movePositional sig args.length (dictUpdate fieldVals kwargs)
  { args := args ++ r.1, kwargs := r.2 }

/-- parse of the derived class (a parameter: outcome of the equivalent plain parse), then the call -/
def partialRun (sig : List (Param V)) (parse : ParseOut V) (args : List V) (kwargs : List (Str × V)) :
    MainOut V :=
  match parse with
  | .exit c => .exit c
  | .raise e => .raise e
  | .ok vals => .call (partialCall sig vals args kwargs)

/-! ## `_cache_when_possible`  (partial.py:61-77) -/

/-- how `ignore_args` was written at the call site -/
inductive IgnoreForm
  | absent | str (s : Str) | tuple (l : List Str) | list (l : List Str)
  deriving DecidableEq, Repr

/-- the arguments of one `config_for(target, …)` call, as `lru_cache` sees them: keyword arguments
    in call order. `hashableDefaults = false` ⇔ some `**defaults` value is unhashable. -/
structure CacheKey where
  target : Nat
  ignore : IgnoreForm
  frozen : Option Bool
  /-- (name, value) in keyword order. Since 4d0f313 the cache is `lru_cache(typed=True)`: the value
      is the *typed* value (`1`, `1.0`, `True` are three different values) -/
  defaults : List (Str × Str)
  hashableDefaults : Bool := true
  deriving DecidableEq, Repr

def CacheKey.hashable (k : CacheKey) : Bool :=
  k.hashableDefaults && match k.ignore with
    | .list _ => false
    | _ => true

structure CacheState where
  next : Nat := 0                          -- class objects created so far
  table : List (CacheKey × Nat) := []
  deriving Repr

/-- one `config_for` call: returns the id of the class object returned -/
def cachedCall (st : CacheState) (k : CacheKey) : Nat × CacheState :=
  if k.hashable then
    match st.table.lookup k with
    | some c => (c, st)
    | none => (st.next, { next := st.next + 1, table := st.table ++ [(k, st.next)] })
  else (st.next, { st with next := st.next + 1 })

def runCalls (st : CacheState) : List CacheKey → List Nat × CacheState
  | [] => ([], st)
  | k :: ks =>
    let (c, st') := cachedCall st k
    let (cs, st'') := runCalls st' ks
    (c :: cs, st'')

end SpVerif.Callables
