/-
  SpVerif.Model.Subclass — loading a serialized dataclass through a base class.

  Mirrors simple_parsing/helpers/serialization/serializable.py
    `SerializableMixin.__init_subclass__` (197-222), `to_dict` (707-774), `from_dict` (777-908),
    `get_init_fields` (911-916), `_locate` (935-985, as a name → class table),
  simple_parsing/utils.py `all_subclasses` (972-974),
  and the part of decoding.py / encoding.py that decides with which `drop_extra_fields` / `save_dc_types`
  a nested value is decoded / encoded (`decode_field` 108-173, `decode_optional`/`try_functions` 316-339,
  `decode_list` 362-368, `decode_dict` 420-451; `encode` / `encode_list` / `encode_dict`, encoding.py 61-125).

  A hierarchy is a table of classes in DEFINITION ORDER (class id = position; a parent is defined before
  its children).  `all_subclasses` returns a `set`, whose iteration order is a parameter `π` of the model.
-/
import SpVerif.Model.Core
namespace SpVerif.Sub
open SpVerif

/-- JSON-like serialized form (what `to_dict` produces / `from_dict` consumes). -/
inductive J
  | int (n : Int)
  | str (s : Str)
  | null
  | arr (xs : List J)
  | obj (kv : List (Str × J))
  deriving Repr, Inhabited

/-- Python values: field values and dataclass instances (`inst cls fields-in-field-order`). -/
inductive Val
  | int (n : Int)
  | str (s : Str)
  | none
  | inst (cls : Nat) (fs : List (Str × Val))
  | list (xs : List Val)
  | dict (kv : List (Str × Val))
  deriving Repr, Inhabited

/-- field annotations of the modelled fragment: `int`, `C`, `Optional[C]`, `List[C]`, `Dict[str, C]` -/
inductive FTy
  | prim
  | dc (c : Nat)
  | opt (c : Nat)
  | list (c : Nat)
  | dict (c : Nat)
  deriving Repr, DecidableEq, Inhabited

structure Field where
  name : Str
  init : Bool
  ty : FTy
  /-- `none` = MISSING (required in `__init__`); `some v` = `default` / `default_factory()` -/
  default : Option Val
  deriving Repr, Inhabited

/-- a class statement: `class name(parent, decode_into_subclasses=dis): own…` (`parent = none` ⇒ `Serializable` /
    `FrozenSerializable`).  `frozen`: `@dataclass(frozen=True)`.  `mixin`: the entry stands for `Serializable` itself
    (a table may list it as class 0 and give it as parent of its roots, so that it can be the class loaded through). -/
structure Cls where
  name : Str
  parent : Option Nat
  dis : Option Bool
  own : List Field
  frozen : Bool := false
  mixin : Bool := false
  deriving Repr, Inhabited

/-- what the interpreter knows about a class after its definition -/
structure RCls where
  name : Str
  /-- `dataclasses.fields(cls)`: inherited fields first, then the class's own (children extend parents) -/
  fields : List Field
  /-- `cls.decode_into_subclasses` as set by `__init_subclass__` -/
  dis : Bool
  /-- strict ancestors inside the table, nearest first -/
  ancs : List Nat
  /-- `@dataclass(frozen=True)` (no influence on loading since /repo 6aeb5e3: the `init=False` values are written with
      `object.__setattr__`; kept as data of the class statement) -/
  frozen : Bool := false
  /-- the class is `Serializable` itself (serializable.py:825-831) -/
  mixin : Bool := false
  deriving Repr, Inhabited

/-- `dataclasses.fields` of a class whose parent has the fields `pf` and whose body declares `own`: the inherited fields
    keep their position (a redeclared one is REPLACED in place by the new declaration), new names are appended in order
    (dataclasses.py `_process_class`: `fields[f.name] = f` over the bases' fields, then over the class's own) -/
def inheritFields (pf own : List Field) : List Field :=
  pf.map (fun f => match own.find? (fun g => g.name == f.name) with | some g => g | none => f)
    ++ own.filter (fun g => !(pf.map (·.name)).contains g.name)

/-- one class definition (serializable.py:197-222 + dataclass field inheritance).  The parent's value of
    `decode_into_subclasses` is read at definition time; a root's parent is `Serializable` (value `False`). -/
def resolveStep (acc : List RCls) (c : Cls) : List RCls :=
  let p : Option (Nat × RCls) := c.parent.bind (fun i => (acc[i]?).map (fun r => (i, r)))
  let pf := match p with | some (_, r) => r.fields | none => []
  let pd := match p with | some (_, r) => r.dis | none => false
  let pa := match p with | some (i, r) => i :: r.ancs | none => []
  acc ++ [{ name := c.name, fields := inheritFields pf c.own, dis := c.dis.getD pd, ancs := pa,
            frozen := c.frozen, mixin := c.mixin }]

/-- process history: the classes are defined one after the other -/
def resolve (h : List Cls) : List RCls := h.foldl resolveStep []

/-- `all_subclasses(cls)` as a sorted list of ids (utils.py:972-974) -/
def descendants (R : List RCls) (b : Nat) : List Nat :=
  (List.range R.length).filter (fun i => match R[i]? with | some r => r.ancs.contains b | none => false)

/-- `get_init_fields(cls).keys()` (serializable.py:911-916) -/
def initNames (R : List RCls) (c : Nat) : List Str :=
  match R[c]? with
  | some r => (r.fields.filter (·.init)).map (·.name)
  | none => []

/-- `{f.name for f in fields(cls)}` (serializable.py:891) -/
def fieldNames (R : List RCls) (c : Nat) : List Str :=
  match R[c]? with
  | some r => r.fields.map (·.name)
  | none => []

def typeKey : Str := "_type_".toList

/-- `_locate(path)` restricted to the classes of the table (paths are canonicalised to class names) -/
def locate (R : List RCls) (path : Str) : Option Nat :=
  (List.range R.length).find? (fun i => match R[i]? with | some r => r.name == path | none => false)

def nameOf (R : List RCls) (c : Nat) : Str := match R[c]? with | some r => r.name | none => []

/-! ### encoding (`to_dict`, serializable.py:707-774; `encode`, encoding.py:61-125) -/

mutual
/-- `encV R save v`: `to_dict(v, save_dc_types=save)` for an instance; for a field value that is not a dataclass
    instance `encode(value)` — which dispatches to `cls.to_dict(item)` for the items of a list / the values of a
    dict, i.e. WITHOUT `save_dc_types` (serializable.py:760-773, encoding.py:100-125). -/
def encV (R : List RCls) (save : Bool) : Val → J
  | .int n => .int n
  | .str s => .str s
  | .none => .null
  | .inst c fs => .obj ((if save then [(typeKey, J.str (nameOf R c))] else []) ++ encKV R save fs)
  | .list xs => .arr (encL R xs)
  | .dict kv => .obj (encKV R false kv)
def encKV (R : List RCls) (save : Bool) : List (Str × Val) → List (Str × J)
  | [] => []
  | (k, v) :: rest => (k, encV R save v) :: encKV R save rest
def encL (R : List RCls) : List Val → List J
  | [] => []
  | v :: rest => encV R false v :: encL R rest
end

/-! ### decoding -/

inductive Out
  | ok (v : Val)
  | raise (exc : Str)
  | unmodelled (why : Str)
  deriving Repr, Inhabited

/-- a raw JSON value left undecoded (what `try_functions` returns when every decoder raised) -/
def jToVal : J → Val
  | .int n => .int n
  | .str s => .str s
  | .null => .none
  | .arr xs => .list (go xs)
  | .obj kv => .dict (goKV kv)
where
  go : List J → List Val
    | [] => []
    | x :: r => jToVal x :: go r
  goKV : List (Str × J) → List (Str × Val)
    | [] => []
    | (k, x) :: r => (k, jToVal x) :: goKV r

def lookupKey (k : Str) : List (Str × α) → Option α
  | [] => none
  | (k', v) :: r => if k' = k then some v else lookupKey k r

def eraseKey (k : Str) (kv : List (Str × α)) : List (Str × α) := kv.filter (fun p => p.1 ≠ k)

/-- stable insertion of `x` by `key` in front of the first element with a key ≥ its own -/
def insertByKey (key : α → Nat) (x : α) : List α → List α
  | [] => [x]
  | y :: ys => if key x ≤ key y then x :: y :: ys else y :: insertByKey key x ys

/-- `list.sort(key=…)`: stable sort, ascending -/
def sortByKey (key : α → Nat) : List α → List α
  | [] => []
  | x :: xs => insertByKey key x (sortByKey key xs)

/-- the choice at serializable.py:870-896: candidates in set order, stable-sorted by their number of fields
    (`len(fields(dc))`, line 884), first whose field names — ALL fields, `init=False` included (lines 891-893) — ⊇ `req` -/
def pickSubclass (R : List RCls) (cands : List Nat) (req : List Str) : Option Nat :=
  (sortByKey (fun c => (fieldNames R c).length) cands).find? (fun c => req.all (fun k => (fieldNames R c).contains k))

/-- first non-`ok` outcome wins (exceptions propagate out of the comprehension) -/
def seqOut : List Out → Except Out (List Val)
  | [] => .ok []
  | .ok v :: r => match seqOut r with
    | .ok vs => .ok (v :: vs)
    | .error e => .error e
  | o :: _ => .error o

/-- decoding of one present field (decoding.py:108-173 with `get_decoding_fn`, 245-283).
    `load c j drop` is `c.from_dict(j, drop_extra_fields=drop)`; `dropE` is the containing call's resolved
    `drop_extra_fields`, which is forwarded ONLY to fields annotated with a dataclass type. -/
def decodeField (load : Nat → J → Option Bool → Out) (ty : FTy) (raw : J) (dropE : Bool) : Out :=
  match ty, raw with
  | .prim, .int n => .ok (.int n)
  | .prim, _ => .unmodelled "prim field with a non-int raw value".toList
  | .dc c, raw => load c raw (some dropE)
  | .opt _, .null => .ok .none
  | .opt c, raw =>
    match load c raw none with
    | .ok v => .ok v
    | .raise _ => .ok (jToVal raw)        -- try_functions: "returning it as-is"
    | .unmodelled w => .unmodelled w
  | .list c, .arr xs =>
    match seqOut (xs.map (fun x => load c x none)) with
    | .ok vs => .ok (.list vs)
    | .error e => e
  | .list _, _ => .unmodelled "list field with a non-list raw value".toList
  | .dict c, .obj kv =>
    match seqOut (kv.map (fun p => load c p.2 none)) with
    | .ok vs => .ok (.dict ((kv.map (·.1)).zip vs))
    | .error e => e
  | .dict _, _ => .unmodelled "dict field with a non-dict raw value".toList

/-- the loop at serializable.py:834-855: fields in order, absent names skipped, present ones popped and decoded -/
def decodeFields (load : Nat → J → Option Bool → Out) (dropE : Bool) (kv : List (Str × J)) :
    List Field → Except Out (List (Str × Val))
  | [] => .ok []
  | f :: fs =>
    match lookupKey f.name kv with
    | none => decodeFields load dropE kv fs
    | some raw =>
      match decodeField load f.ty raw dropE with
      | .ok v => match decodeFields load dropE kv fs with
        | .ok rest => .ok ((f.name, v) :: rest)
        | .error e => .error e
      | o => .error o

/-- `cls(**init_args)` followed by `setattr` of the non-init values (serializable.py:896-908).
    A missing required init field is a `TypeError` re-raised as `RuntimeError`. -/
def construct (fields : List Field) (args : List (Str × Val)) : Except Out (List (Str × Val))  :=
  match fields with
  | [] => .ok []
  | f :: fs =>
    let v? : Option Val := match lookupKey f.name args with
      | some v => some v
      | none => f.default
    match v? with
    | none => if f.init then .error (.raise "RuntimeError".toList)
              else .error (.unmodelled "non-init field without default".toList)
    | some v => match construct fs args with
      | .ok rest => .ok ((f.name, v) :: rest)
      | .error e => .error e

/-- `from_dict(cls, d, drop_extra_fields)` (serializable.py:777-910).  `π cls` is the iteration order of the set
    `all_subclasses(cls)`.  Recursion is on `fuel` (every recursive call of the code is one unit). -/
def fromDict (R : List RCls) (π : Nat → List Nat) : Nat → Nat → J → Option Bool → Out
  | 0, _, _, _ => .unmodelled "fuel".toList
  | fuel + 1, cls, d, drop =>
    match d with
    | .null => .ok .none                                            -- 805-806
    | .obj kv =>
      match lookupKey typeKey kv with
      | some (.str path) =>                                         -- 813-819
        match locate R path with
        | some t => fromDict R π fuel t (.obj (eraseKey typeKey kv)) drop
        | none => .raise "ImportError".toList
      | some _ => .unmodelled "_type_ is not a string".toList
      | none =>
        match R[cls]? with
        | none => .unmodelled "unknown class".toList
        | some rc =>
          -- 821-831: `None` ⇒ the class attribute; loading through `Serializable` itself always decodes into subclasses
          let dropE := drop.getD (if rc.mixin then false else !rc.dis)
          match decodeFields (fun c j dr => fromDict R π fuel c j dr) dropE kv rc.fields with   -- 834-855
          | .error e => e
          | .ok decoded =>
            let extras := (kv.map (·.1)).filter (fun k => !(rc.fields.map (·.name)).contains k)
            if extras.isEmpty || dropE then                           -- 860-863
              match construct rc.fields decoded with
              | .ok fs => .ok (.inst cls fs)     -- 907-911: `object.__setattr__` of the init=False values (frozen or not)
              | .error e => e
            else
              let initArgs := (decoded.map (·.1)).filter (fun k => (initNames R cls).contains k)
              let req := extras ++ initArgs                           -- 880
              let cands := (π cls).filter (fun c => c ≠ cls)          -- 873-875
              match pickSubclass R cands req with                     -- 884-893
              | some child => fromDict R π fuel child d (some false)  -- 896
              | none => .raise "RuntimeError".toList                  -- 898-905: unexpected keyword argument
    | _ => .unmodelled "not a dict".toList

/-- `base.from_dict(inst.to_dict(save_dc_types=save), drop_extra_fields=drop)` -/
def roundTrip (R : List RCls) (π : Nat → List Nat) (fuel : Nat) (base : Nat) (v : Val) (save : Bool)
    (drop : Option Bool) : Out :=
  fromDict R π fuel base (encV R save v) drop

end SpVerif.Sub
