/-
  SpVerif.Model.Merge — executable model of what `ConflictResolution.ALWAYS_MERGE` does to one
  dataclass that is registered at `n ≥ 2` destinations:

  * part A — `DataclassWrapper.merge` / `ConflictResolver._fix_conflict_merge`
    (wrappers/dataclass_wrapper.py:393-445, conflicts.py:317-354): which destinations the surviving
    wrapper ends up with, in which order, and which per-destination defaults it carries;
  * part B — the life of ONE field of the merged wrapper: `FieldWrapper.default` packaging
    (field_wrapper.py:720-802), `required` (808-833), the argparse options of a reused field
    (356-410: `nargs` `*`/`+`, `_parse_multiple_containers` for list/tuple fields, `str2bool`, enum
    choices and defaults by name), what argparse hands back for `k` tokens, `duplicate_if_needed`
    (414-464), distribution by `zip(destinations, values)` and `postprocess` (466-542), and
    `utils._parse_multiple_containers/_parse_container` (utils.py:623-696), `get_nesting_level`.

  Tokens are structured (`Tok`): the harness renders them to the command-line strings, the model
  follows what `ast.literal_eval` / the fall-back splitter do on the rendered shapes.  Anything the
  real code rejects is a distinct `Err` constructor; inputs outside the modelled lexical fragment
  give `Err.unmodelled`.
-/
import SpVerif.Model.BoolFlag
namespace SpVerif.Merge
open SpVerif

/-! ## values and types -/

/-- a scalar Python value (the Python type is part of the value) -/
inductive Scalar
  | int (i : Int)
  | float (repr : Str)      -- canonical `repr(x)`
  | str (s : Str)
  | bool (b : Bool)
  | enum (name : Str)       -- a member of the field's enum class
  | none
  deriving DecidableEq, Repr

/-- a field value: the command-line grammar has no nested containers -/
inductive Val
  | sc (s : Scalar)
  | list (l : List Scalar)
  | tuple (l : List Scalar)
  deriving DecidableEq, Repr

inductive ItemTy
  | int | float | str | bool
  | enum (members : List Str)
  deriving DecidableEq, Repr

inductive FieldTy
  | scalar (t : ItemTy)
  | list (t : ItemTy)            -- `List[t]`
  | tuple (items : List ItemTy)  -- `Tuple[t1, …, tm]`
  | vtuple (t : ItemTy)          -- `Tuple[t, ...]`
  deriving DecidableEq, Repr

/-- `utils.is_list(self.type)` -/
def FieldTy.isList : FieldTy → Bool
  | .list _ => true
  | _ => false

/-- `utils.is_tuple(self.type)` -/
def FieldTy.isTuple : FieldTy → Bool
  | .tuple _ => true
  | .vtuple _ => true
  | _ => false

/-- `utils.is_tuple_or_list(self.field.type)` -/
def FieldTy.isContainer (t : FieldTy) : Bool := t.isList || t.isTuple

/-- `get_argparse_type_for_container` → `get_item_type`: the FIRST type argument (utils.py:135-227);
    `Tuple[()]`-like annotations have item type `Any` → `str`. -/
def FieldTy.itemTy : FieldTy → ItemTy
  | .scalar t => t
  | .list t => t
  | .vtuple t => t
  | .tuple (t :: _) => t
  | .tuple [] => .str

inductive Exc
  | inconsistentArgumentError
  | typeError
  | keyError
  | assertionError
  | valueError
  deriving DecidableEq, Repr

inductive ExitKind | required | type | choice | nargs
  deriving DecidableEq, Repr

inductive Err
  | exit2 (k : ExitKind)     -- argparse error → SystemExit(2)
  | raise (e : Exc)          -- exception escaping `parse_args`
  | unmodelled               -- outside the modelled fragment
  deriving DecidableEq, Repr

abbrev Res := Except Err

instance resDecEq {α : Type} [DecidableEq α] : DecidableEq (Res α) := fun a b =>
  match a, b with
  | .ok x, .ok y => if h : x = y then isTrue (by rw [h]) else isFalse (by intro e; cases e; exact h rfl)
  | .error x, .error y => if h : x = y then isTrue (by rw [h]) else isFalse (by intro e; cases e; exact h rfl)
  | .ok _, .error _ => isFalse (by intro e; cases e)
  | .error _, .ok _ => isFalse (by intro e; cases e)

/-- `[f(x) for x in xs]` where `f` may raise: the first failure (in order) wins -/
def mapE {α β : Type} (f : α → Res β) : List α → Res (List β)
  | [] => .ok []
  | a :: as =>
    match f a with
    | .error e => .error e
    | .ok b =>
      match mapE f as with
      | .error e => .error e
      | .ok bs => .ok (b :: bs)

/-! ## lexical classes of the words that make up a token -/

def isDigit (c : Char) : Bool := '0'.toNat ≤ c.toNat && c.toNat ≤ '9'.toNat
def isAlpha (c : Char) : Bool :=
  ('a'.toNat ≤ c.toNat && c.toNat ≤ 'z'.toNat) || ('A'.toNat ≤ c.toNat && c.toNat ≤ 'Z'.toNat)

def digitsVal : Str → Nat → Nat
  | [], acc => acc
  | c :: cs, acc => digitsVal cs (acc * 10 + (c.toNat - '0'.toNat))

/-- canonical decimal natural: `0` or a digit string without leading zero -/
def canonNat (s : Str) : Option Nat :=
  match s with
  | [] => none
  | ['0'] => some 0
  | c :: cs => if c ≠ '0' && (c :: cs).all isDigit then some (digitsVal (c :: cs) 0) else none

/-- canonical decimal integer `-?(0|[1-9][0-9]*)` -/
def canonInt (s : Str) : Option Int :=
  match s with
  | '-' :: r => (canonNat r).map (fun n => - (n : Int))
  | _ => (canonNat s).map (fun n => (n : Int))

/-- canonical simple float `-?(0|[1-9][0-9]*)\.[0-9]+` (the harness only writes those whose
    `repr(float(w)) == w`) -/
def isCanonFloat (s : Str) : Bool :=
  let body := match s with | '-' :: r => r | _ => s
  match splitOnChar '.' body with
  | [a, b] => (canonNat a).isSome && !b.isEmpty && b.all isDigit
  | _ => false

/-- `repr(float(i))` for the integers the fragment covers (|i| < 10^15: no exponent form) -/
def intToFloatRepr (i : Int) : Option Str :=
  if i.natAbs < 1000000000000000 then some ((toString i).toList ++ ".0".toList) else none

inductive Lit
  | int (i : Int) | float (r : Str) | bool (b : Bool) | none
  deriving DecidableEq, Repr

inductive WordClass
  | lit (l : Lit)   -- `ast.literal_eval(w)` succeeds with this value
  | alpha           -- an identifier-like word: `literal_eval` raises, `int()`/`float()` raise ValueError
  | other           -- anything else
  deriving DecidableEq, Repr

def isIdent (s : Str) : Bool :=
  match s with
  | [] => false
  | c :: cs => isAlpha c && cs.all (fun d => isAlpha d || isDigit d || d = '_')

def classify (w : Str) : WordClass :=
  if w = "True".toList then .lit (.bool true)
  else if w = "False".toList then .lit (.bool false)
  else if w = "None".toList then .lit .none
  else match canonInt w with
    | some i => .lit (.int i)
    | none =>
      if isCanonFloat w then .lit (.float w)
      else if isIdent w && !(lower w ∈ ["inf".toList, "nan".toList, "infinity".toList]) then .alpha
      else .other

/-- three-valued result of applying a Python callable -/
inductive Conv (α : Type)
  | ok (a : α)
  | fail (e : Err)   -- raised
  | unmodelled
  deriving Repr

/-- a word that certainly is no number for `int()` / `float()`: it contains a character that can
    occur in neither a numeric literal nor `inf`/`nan`/`infinity` -/
def certainlyNotNumber (w : Str) : Bool :=
  w.any (fun c => !(isDigit c || c ∈ "+-_.eE \t\n".toList || c ∈ "infatyINFATY".toList))

/-- the item parser `T` applied to a STRING (argparse `type=` of scalar fields, and the fall-back
    splitter of `_parse_container`): `int`, `float`, `str`, `str2bool`, `parse_enum(E)` (field_parsing.py:271-306: `E[v]`, an unknown
    name is a ValueError).  ValueError / ArgumentTypeError become argparse errors (exit 2). -/
def convStr (t : ItemTy) (w : Str) : Conv Scalar :=
  match t with
  | .str => .ok (.str w)
  | .bool => match str2bool w with
    | some b => .ok (.bool b)
    | none => .fail (.exit2 .type)
  | .enum ms => if w ∈ ms then .ok (.enum w) else .fail (.exit2 .type)   -- `_parse_enum` raises ValueError
  | .int => match classify w with
    | .lit (.int i) => .ok (.int i)
    | .lit _ => .fail (.exit2 .type)
    | .alpha => .fail (.exit2 .type)
    | .other => if certainlyNotNumber w then .fail (.exit2 .type) else .unmodelled
  | .float => match classify w with
    | .lit (.int i) => match intToFloatRepr i with
      | some r => .ok (.float r)
      | none => .unmodelled
    | .lit (.float r) => .ok (.float r)
    | .lit _ => .fail (.exit2 .type)
    | .alpha => .fail (.exit2 .type)
    | .other => if certainlyNotNumber w then .fail (.exit2 .type) else .unmodelled

/-- `str(x)` of a literal -/
def litStr : Lit → Str
  | .int i => (toString i).toList
  | .float r => r
  | .bool true => "True".toList
  | .bool false => "False".toList
  | .none => "None".toList

/-- the item parser `T` applied to a PYTHON LITERAL (utils.py:659-673, `T(literal)` / `T(v)`).
    `none` = it raises (any exception: the caller falls back to the string splitter). -/
def convLit (t : ItemTy) (l : Lit) : Conv (Option Scalar) :=
  match t, l with
  | .int, .int i => .ok (some (.int i))
  | .int, .bool b => .ok (some (.int (if b then 1 else 0)))
  | .int, .float _ => .unmodelled                       -- `int(4.5)` truncates; outside the fragment
  | .int, .none => .ok none                              -- TypeError
  | .float, .int i => match intToFloatRepr i with
    | some r => .ok (some (.float r))
    | none => .unmodelled
  | .float, .float r => .ok (some (.float r))
  | .float, .bool b => .ok (some (.float (if b then "1.0".toList else "0.0".toList)))
  | .float, .none => .ok none
  | .str, l => .ok (some (.str (litStr l)))
  | .bool, .bool b => .ok (some (.bool b))               -- `str2bool(True)` returns it
  | .bool, _ => .ok none                                 -- AttributeError: no `.strip()`
  | .enum _, _ => .ok none                               -- `E[4]`: KeyError

/-! ## tokens -/

/-- one command-line token for a container field, by shape.  Words contain no blank, comma,
    bracket or quote (harness responsibility). -/
inductive Tok
  | bare (w : Str)                     -- `4`  `abc`
  | spaced (ws : List Str)             -- `"4 5"` (one quoted token, ≥ 2 words)
  | comma (ws : List Str)              -- `4,5` (≥ 2 words)
  | bracket (sq : Bool) (ws : List Str) -- `[4,5]` (sq) / `(4,5)`, `(4,)` for one word; may be empty
  deriving DecidableEq, Repr

/-- the command-line string of a token -/
def Tok.render : Tok → Str
  | .bare w => w
  | .spaced ws => joinWith ' ' ws
  | .comma ws => joinWith ',' ws
  | .bracket true ws => '[' :: joinWith ',' ws ++ [']']
  | .bracket false [w] => '(' :: w ++ [',', ')']
  | .bracket false ws => '(' :: joinWith ',' ws ++ [')']

/-- the strings the fall-back splitter (`_fallback_parse`, utils.py:675-688) hands to `T`: only
    SQUARE brackets are stripped; the separator is `,` when one occurs, else a blank. -/
def Tok.fallbackWords : Tok → List Str
  | .bare w => [w]
  | .spaced ws => ws
  | .comma ws => ws
  | .bracket true [] => [[]]
  | .bracket true ws => ws
  | .bracket false [] => ["()".toList]
  | .bracket false [w] => ['(' :: w, [')']]
  | .bracket false (w :: ws) =>
    ('(' :: w) :: (ws.dropLast ++ [ws.getLast?.getD [] ++ [')']])

/-- all words are Python literals → the literal values; `none` = `literal_eval` raises;
    `unmodelled` when a word is outside the classified fragment -/
def litWords : List Str → Conv (Option (List Lit))
  | [] => .ok (some [])
  | w :: ws =>
    match classify w with
    | .other => .unmodelled
    | .alpha => match litWords ws with
      | .unmodelled => .unmodelled
      | _ => .ok none
    | .lit l => match litWords ws with
      | .ok (some ls) => .ok (some (l :: ls))
      | r => r

/-- `factory(T(v) for v in container)`: `none` = some `T(v)` raised -/
def convLits (t : ItemTy) : List Lit → Conv (Option (List Scalar))
  | [] => .ok (some [])
  | l :: ls =>
    match convLit t l with
    | .unmodelled => .unmodelled
    | .fail e => .fail e
    | .ok none => (match convLits t ls with
      | .unmodelled => .unmodelled
      | _ => .ok none)
    | .ok (some s) => match convLits t ls with
      | .ok (some ss) => .ok (some (s :: ss))
      | r => r

/-- `[T(v_str) for v_str in str_values]`: first failure wins -/
def convStrs (t : ItemTy) : List Str → Res (List Scalar)
  | [] => .ok []
  | w :: ws =>
    match convStr t w with
    | .unmodelled => .error .unmodelled
    | .fail e => .error e
    | .ok s => match convStrs t ws with
      | .ok ss => .ok (s :: ss)
      | .error e => .error e

def mkContainer (fty : FieldTy) (l : List Scalar) : Val :=
  if fty.isTuple then .tuple l else .list l

/-- `_fallback_parse` (utils.py:675-688) -/
def fallbackParse (fty : FieldTy) (tok : Tok) : Res Val :=
  match convStrs fty.itemTy tok.fallbackWords with
  | .ok ss => .ok (mkContainer fty ss)
  | .error e => .error e

/-- `_parse_multiple_containers(container_type)(token)` = `_parse_container(container_type)(token)`
    (utils.py:617-691): try `ast.literal_eval`; a non-container literal gives the one-element
    container `factory([T(literal)])`; any exception falls back to the splitter. -/
def parseContainerTok (fty : FieldTy) (tok : Tok) : Res Val :=
  let t := fty.itemTy
  match tok with
  | .bare w =>
    match classify w with
    | .other => .error .unmodelled
    | .alpha => fallbackParse fty tok
    | .lit l => match convLit t l with
      | .unmodelled => .error .unmodelled
      | .fail e => .error e
      | .ok none => fallbackParse fty tok
      | .ok (some s) => .ok (mkContainer fty [s])   -- `factory([T(literal)])`
  | .spaced _ => fallbackParse fty tok          -- SyntaxError
  | .comma ws | .bracket _ ws =>
    match litWords ws with
    | .unmodelled => .error .unmodelled
    | .fail e => .error e
    | .ok none => fallbackParse fty tok
    | .ok (some ls) => match convLits t ls with
      | .unmodelled => .error .unmodelled
      | .fail e => .error e
      | .ok none => fallbackParse fty tok
      | .ok (some ss) => .ok (mkContainer fty ss)

/-- argparse `type=` + `choices=` of a reused SCALAR field applied to one token
    (field_wrapper.py:337-352 enum: `type=str`, `choices=` member names; 380-385 bool: `str2bool`;
    394-396 plain: `int`/`float`/`str`). -/
def parseScalarTok (t : ItemTy) (tok : Tok) : Res Val :=
  match t with
  | .enum ms => if tok.render ∈ ms then .ok (.sc (.str tok.render)) else .error (.exit2 .choice)
  | _ => match convStr t tok.render with
    | .ok s => .ok (.sc s)
    | .fail e => .error e
    | .unmodelled => .error .unmodelled

/-- the argparse `type=` callable of the reused field -/
def parseTok (fty : FieldTy) (tok : Tok) : Res Val :=
  match fty with
  | .scalar t => parseScalarTok t tok
  | _ => parseContainerTok fty tok

/-! ## `FieldWrapper.default` (field_wrapper.py:720-802) -/

/-- where the un-packaged default comes from -/
inductive DefaultSrc
  /-- no parent wrapper has a default instance: the field's own `default` / `default_factory()`;
      `none` = `MISSING` -/
  | field (d : Option Val)
  /-- the merged parent wrapper carries one default instance per destination (nested members whose
      field has a `default_factory`): the attribute values, in destination order -/
  | parents (ds : List Val)
  deriving DecidableEq, Repr

/-- lines 725-772: the un-packaged default and the `per_destination` flag (`none` = `None`).
    `len(self.parent.defaults) == 1` ⇒ that single instance's attribute, not per destination. -/
def rawDefault : DefaultSrc → Option (List Val × Bool)
  | .field none => none
  | .field (some v) => some ([v], false)
  | .parents [d] => some ([d], false)
  | .parents ds => some (ds, true)

/-- lines 781-793: packaging for a reused field with `n` destinations:
    `if not per_destination: default = [default] * n`; then `assert len(default) == n`. -/
def defaultPack (n : Nat) : List Val × Bool → Res (List Val)
  | ([v], false) => .ok (List.replicate n v)
  | (_, false) => .error .unmodelled           -- not produced by `rawDefault`
  | (ds, true) => if ds.length = n then .ok ds else .error (.raise .assertionError)

/-- the `default=` handed to argparse: enum members by NAME (field_wrapper.py:343-352) -/
def argDefault (fty : FieldTy) (packed : List Val) : List Val :=
  match fty with
  | .scalar (.enum _) => packed.map (fun v => match v with
      | .sc (.enum nm) => .sc (.str nm)
      | v => v)
  | _ => packed

/-! ## `duplicate_if_needed` (field_wrapper.py:414-464) -/

/-- `utils.get_nesting_level` of one parsed item (strings are not containers) -/
def Val.nesting : Val → Nat
  | .sc _ => 0
  | .list _ => 1
  | .tuple _ => 1

/-- `utils.get_nesting_level(parsed_values)` for a Python list -/
def nestingLevel (vs : List Val) : Nat :=
  match vs with
  | [] => 1
  | _ => 1 + (vs.map Val.nesting).foldl max 0

def Val.elems : Val → List Val
  | .sc _ => []
  | .list l => l.map Val.sc
  | .tuple l => l.map Val.sc

def Val.len : Val → Nat
  | .sc _ => 0
  | .list l => l.length
  | .tuple l => l.length

/-- the nesting-level-2 shortcut (field_wrapper.py:434-443): only for fields that are neither list
    nor tuple, `[[a, b, …]]` with exactly n inner items is un-wrapped -/
def shortcut (fty : FieldTy) (n : Nat) (parsed : List Val) : Option (List Val) :=
  if !fty.isTuple && !fty.isList then
    match parsed with
    | [v] => if nestingLevel parsed = 2 && v.len = n then some v.elems else none
    | _ => none
  else none

/-- `parsed_values` is always a Python list here (argparse `nargs` `*`/`+`, or the packaged default) -/
def duplicate (fty : FieldTy) (n : Nat) (parsed : List Val) : Res (List Val) :=
  match shortcut fty n parsed with
  | some r => .ok r
  | none =>
    if parsed.length = n then .ok parsed
    else match parsed with
      | [v] => .ok (List.replicate n v)                 -- `parsed_values * n`
      | _ => .error (.raise .inconsistentArgumentError)

/-! ## `postprocess` (field_wrapper.py:466-542) -/

/- For a scalar enum field a value that is a `str` and NOT already a member is looked up by name
   (`isinstance(v, str) and not isinstance(v, Enum)`, field_wrapper.py:482, since fix 69d4809: a member
   of a str-mixin Enum is left alone like every other member).  `.sc (.enum nm)` is a member of any
   kind of Enum; `.sc (.str s)` a plain string.  For a tuple field `tuple(v)` of a bare str-mixin
   member iterates its VALUE: the harness hands such a bare item to the model as `.sc (.str value)`. -/
def postprocess (fty : FieldTy) (v : Val) : Res Val :=
  match fty with
  | .scalar (.enum ms) =>
    match v with
    | .sc (.str s) => if s ∈ ms then .ok (.sc (.enum s)) else .error (.raise .keyError)
    | v => .ok v
  | .scalar _ => .ok v
  | .list _ =>
    match v with
    | .tuple l => .ok (.list l)
    | v => .ok v
  | .tuple _ | .vtuple _ =>
    match v with
    | .tuple l => .ok (.tuple l)
    | .list l => .ok (.tuple l)
    | .sc (.str s) => .ok (.tuple (s.map (fun c => Scalar.str [c])))   -- `tuple("ab")`
    | .sc .none => .ok (.sc .none)                                        -- `None` is left alone (line 502)
    | .sc _ => .error (.raise .typeError)                                 -- `tuple(4)`

/-! ## one field, end to end -/

/-- `required` (field_wrapper.py:808-833) for the modelled fragment: no default ⇒ required -/
def isRequired (src : DefaultSrc) : Bool := (rawDefault src).isNone

/-- set-up part (`arg_options`): the packaged default; `none` = `None` -/
def setupDefault (fty : FieldTy) (n : Nat) (src : DefaultSrc) : Res (Option (List Val)) :=
  if src = .parents [] then .error .unmodelled   -- no default instance: the code reads the field itself
  else match rawDefault src with
  | none => .ok none
  | some raw => match defaultPack n raw with
    | .ok p => .ok (some (argDefault fty p))
    | .error e => .error e

/-- what argparse stores for the option: `nargs='+'` (required) needs a token; every token goes
    through `type=` (first failure wins) -/
def argparseValues (fty : FieldTy) (required : Bool) (toks : List Tok) : Res (List Val) :=
  if required && toks.isEmpty then .error (.exit2 .nargs) else mapE (parseTok fty) toks

/-- `FieldWrapper.__call__` (field_wrapper.py:168-229): `duplicate_if_needed`, then
    `zip(self.destinations, values)` with `postprocess` per destination. The result has one value
    per destination reached by the zip. -/
def distribute (fty : FieldTy) (n : Nat) (values : List Val) : Res (List Val) :=
  match duplicate fty n values with
  | .error e => .error e
  | .ok vs => mapE (postprocess fty) (vs.take n)

/-- One field of a class registered at `n` destinations; `arg = none` ⇔ the option is absent,
    `some toks` ⇔ it is given once with these tokens. Result: value per destination, in
    destination order. -/
def runField (fty : FieldTy) (n : Nat) (src : DefaultSrc) (arg : Option (List Tok)) : Res (List Val) :=
  match setupDefault fty n src with
  | .error e => .error e
  | .ok dflt =>
    match arg with
    | some toks =>
      match argparseValues fty (isRequired src) toks with
      | .error e => .error e
      | .ok vs => distribute fty n vs
    | none =>
      match dflt with
      | none => .error (.exit2 .required)
      | some d => distribute fty n d

/-! ## several fields: error precedence of a whole parse -/

structure FieldCase where
  fty : FieldTy
  src : DefaultSrc
  deriving Repr

/-- phase 0: `add_arguments` evaluates every field's `arg_options` (declaration order) -/
def setupAll (n : Nat) : List FieldCase → Res (List (Option (List Val)))
  | [] => .ok []
  | f :: fs =>
    match setupDefault f.fty n f.src with
    | .error e => .error e
    | .ok d => match setupAll n fs with
      | .ok ds => .ok (d :: ds)
      | .error e => .error e

/-- phase 1: argparse consumes the options in command-line order; `argv` = (field index, tokens) -/
def argparseAll (fields : List FieldCase) : List (Nat × List Tok) → Res (List (Nat × List Val))
  | [] => .ok []
  | (i, toks) :: rest =>
    match fields[i]? with
    | none => .error .unmodelled
    | some f =>
      match argparseValues f.fty (isRequired f.src) toks with
      | .error e => .error e
      | .ok vs => match argparseAll fields rest with
        | .ok r => .ok ((i, vs) :: r)
        | .error e => .error e

/-- last occurrence of field `i` (argparse `store`: later overwrites) -/
def lookupLast (i : Nat) : List (Nat × List Val) → Option (List Val)
  | [] => none
  | (j, vs) :: rest =>
    match lookupLast i rest with
    | some r => some r
    | none => if i = j then some vs else none

/-- phase 2 input per field: stored values, or the default, or "required but absent" -/
def storedAll (parsed : List (Nat × List Val)) :
    Nat → List (Option (List Val)) → Res (List (List Val))
  | _, [] => .ok []
  | i, d :: ds =>
    match lookupLast i parsed, d with
    | some vs, _ => (match storedAll parsed (i + 1) ds with
      | .ok r => .ok (vs :: r)
      | .error e => .error e)
    | none, some dv => (match storedAll parsed (i + 1) ds with
      | .ok r => .ok (dv :: r)
      | .error e => .error e)
    | none, none => .error (.exit2 .required)

/-- phase 3: `_fill_constructor_arguments_with_fields` calls the field wrappers in order -/
def distributeAll (n : Nat) : List FieldCase → List (List Val) → Res (List (List Val))
  | f :: fs, vs :: vss =>
    match distribute f.fty n vs with
    | .error e => .error e
    | .ok r => match distributeAll n fs vss with
      | .ok rs => .ok (r :: rs)
      | .error e => .error e
  | _, _ => .ok []

/-- a whole parse: per field (declaration order) the value of every destination -/
def runCase (n : Nat) (fields : List FieldCase) (argv : List (Nat × List Tok)) :
    Res (List (List Val)) :=
  match setupAll n fields with
  | .error e => .error e
  | .ok dflts =>
    match argparseAll fields argv with
    | .error e => .error e
    | .ok parsed =>
      match storedAll parsed 0 dflts with
      | .error e => .error e
      | .ok stored => distributeAll n fields stored

/-! ## part A: which destinations the merged wrapper has -/

/-- a `DataclassWrapper` as far as merging is concerned: its `_destinations` and the number of
    default instances in `_defaults`, children in declaration order -/
inductive DW
  | mk (dests : List Str) (defaults : List Nat) (children : List DW)
  deriving Repr

def DW.dests : DW → List Str | .mk d _ _ => d
def DW.defaults : DW → List Nat | .mk _ d _ => d
def DW.children : DW → List DW | .mk _ _ c => c

/-- `for dest in other.destinations: if dest not in self.destinations: self.destinations.append(dest)` -/
def appendNew : List Str → List Str → List Str
  | acc, [] => acc
  | acc, d :: ds => if d ∈ acc then appendNew acc ds else appendNew (acc ++ [d]) ds

/-- `self.defaults.extend(other.defaults)` (dataclass_wrapper.py:437).  The `defaults` property of a
    ROOT wrapper (no `_field`) that holds no default instance returns a fresh `[]`
    (dataclass_wrapper.py:258-259), so extending it is lost; a nested wrapper returns its own
    `_defaults` list, which is extended in place. -/
def extendDefaults (root : Bool) (f1 f2 : List Nat) : List Nat :=
  if root && f1.isEmpty then [] else f1 ++ f2

mutual
/-- `DataclassWrapper.merge` (dataclass_wrapper.py:422-445): destinations appended when new,
    `defaults.extend`, children (never roots) merged pairwise (`zip`: surplus children are kept
    as they are).  Default instances are identified by a number (their registration index). -/
def DW.merge (root : Bool) : DW → DW → DW
  | .mk d1 f1 c1, .mk d2 f2 c2 => .mk (appendNew d1 d2) (extendDefaults root f1 f2) (mergeChildren c1 c2)
def mergeChildren : List DW → List DW → List DW
  | [], _ => []
  | c :: cs, [] => c :: cs
  | c :: cs, o :: os => DW.merge false c o :: mergeChildren cs os
end

/-- `_fix_conflict_merge` (conflicts.py:317-354) when all conflicting wrappers sit at the same
    nesting level: the first (registration order) absorbs the others in registration order.
    `root` ⇔ the conflicting wrappers were registered directly (`parser.add_arguments`). -/
def mergeAll (root : Bool) (first : DW) (others : List DW) : DW := others.foldl (DW.merge root) first

end SpVerif.Merge
