/-
  SpVerif.Model.Layers — executable model of how default values are layered in simple_parsing:

    utils.py:841-885                      `dict_union`
    wrappers/dataclass_wrapper.py:33-179  `DataclassWrapper.__init__` (default instance pushed into the fields)
    wrappers/dataclass_wrapper.py:255-274 `DataclassWrapper.defaults`
    wrappers/dataclass_wrapper.py:288-315 `DataclassWrapper.set_default`
    wrappers/field_wrapper.py:711-794     `FieldWrapper.default` / `set_default`, 797-821 `required`
    parsing.py:385-438                    `ArgumentParser.set_defaults`
    parsing.py:460-521                    `ArgumentParser._add_arguments` (pending `_defaults` applied to a new wrapper)
    parsing.py:300-343                    `parse_known_args` (constructor config files, `--config_path` files, argv)
    parsing.py:586-597, 794-909           post-processing (`constructor_arguments`, instantiation)

  Fragment: dataclasses whose fields are scalar leaves (`int` / `str`, or `float` / `bool` / `List[int]` as opaque atoms) (all `cmd=True`, `init=True`) or nested
  non-optional dataclasses, values of the right type for their leaf (so argparse's conversion of string
  defaults is the identity), distinct destinations.  JSON-like values are `J`; Python `None` is `J.null`.
  Dicts are association lists with distinct keys (first occurrence wins in every lookup).
  Outcomes the real code raises / exits on are distinct constructors of `Err`.
-/
import SpVerif.Model.Core
namespace SpVerif.Layers
open SpVerif

/-- JSON-like values: what `json.load` / `yaml.safe_load` return in the fragment, and leaf values. -/
inductive J
  | null
  | int (i : Int)
  | str (s : Str)
  /-- any other scalar leaf value (bool, float, list of ints), kept as its canonical JSON text: the layering code
      never looks inside a value, it only tests `is None` and `isinstance(v, dict)` -/
  | atom (repr : Str)
  | dict (kvs : List (Str × J))

abbrev Dict := List (Str × J)

def J.isNull : J → Bool
  | .null => true
  | _ => false

def J.isDict : J → Bool
  | .dict _ => true
  | _ => false

/-- `d.get(k)` (also used for `k in d`) -/
def dget : Dict → Str → Option J
  | [], _ => none
  | (k', v) :: r, k => if k' = k then some v else dget r k

def hasKey (d : Dict) (k : Str) : Bool := (dget d k).isSome

/-- follow a path of keys through nested dicts; `none` as soon as a key is absent or a non-dict is met
    before the path ends -/
def getPath : List Str → J → Option J
  | [], v => some v
  | k :: p, .dict d =>
    match dget d k with
    | some v => getPath p v
    | none => none
  | _ :: _, _ => none

/-! ### `dict_union` (utils.py:841-885) -/

/-- Python `str` ordering restricted to what occurs as keys: lexicographic on code points -/
def strLe : Str → Str → Bool
  | [], _ => true
  | _ :: _, [] => false
  | a :: as, b :: bs => if a < b then true else if b < a then false else strLe as bs

/-- insertion into a key-sorted list, before the first entry whose key is not smaller (stable) -/
def insertKey (k : Str) (v : J) : Dict → Dict
  | [] => [(k, v)]
  | (k', v') :: r => if strLe k k' then (k, v) :: (k', v') :: r else (k', v') :: insertKey k v r

/-- `sorted(all_keys)` (utils.py:861): the result dict is filled in key order -/
def sortKeys : Dict → Dict
  | [] => []
  | (k, v) :: r => insertKey k v (sortKeys r)

mutual
/-- one value at a key (`n_values = 1`, utils.py:871-884): a dict is rebuilt by `dict_union(v)` (keys sorted,
    recursively), anything else is kept -/
def norm : J → J
  | .dict kvs => .dict (sortKeys (normL kvs))
  | v => v
def normL : Dict → Dict
  | [] => []
  | (k, v) :: r => (k, norm v) :: normL r
end

mutual
/-- two values at one key, `x` from the earlier dict and `y` from the later (utils.py:871-882): both dicts →
    recursive union; otherwise `new_value` is the *last non-dict* value (a later dict does not replace an
    earlier scalar) -/
def mergeVal : J → J → J
  | .dict xs, .dict ys =>
    .dict (sortKeys (mergeL xs ys ++ normL (ys.filter (fun kv => !hasKey xs kv.1))))
  | x, .dict _ => x
  | _, y => y
/-- the entries of the earlier dict, each combined with the later dict's value at the same key -/
def mergeL : Dict → Dict → Dict
  | [], _ => []
  | (k, x) :: r, ys =>
    (k, match dget ys k with
        | none => norm x
        | some y => mergeVal x y) :: mergeL r ys
end

/-- `dict_union(a, b)` -/
def unionD (xs ys : Dict) : Dict :=
  sortKeys (mergeL xs ys ++ normL (ys.filter (fun kv => !hasKey xs kv.1)))

/-- `dict_union(*dicts)`: `{}` for no argument; the n-ary rule (all dicts → recurse, else last non-dict)
    coincides with folding the binary one from `{}` -/
def unionN (ds : List Dict) : Dict := ds.foldl unionD []

/-! ### classes and wrapper trees

  One tree describes a dataclass *and* the mutable state of the `DataclassWrapper` built for it: the fields
  in declaration order, a leaf carrying its definition default (`none` = `MISSING`) and the `FieldWrapper._default`
  slot (`manual`, `null` = not set), a nested field carrying its `default_factory` (`some ov` = a factory
  returning `Child(**ov)`, nested keys of `ov` being built recursively; `none` = no default) and the child tree. -/
inductive WT
  | nil
  | leaf (name : Str) (dflt : Option J) (manual : J) (rest : WT)
  | nested (name : Str) (fac : Option Dict) (sub : WT) (rest : WT)

/-- names of all fields (`FieldWrapper`s and child wrappers) -/
def WT.names : WT → List Str
  | .nil => []
  | .leaf n _ _ r => n :: r.names
  | .nested n _ _ r => n :: r.names

/-- names of the direct non-dataclass fields (`wrapper.fields`) -/
def WT.leafNames : WT → List Str
  | .nil => []
  | .leaf n _ _ r => n :: r.leafNames
  | .nested _ _ _ r => r.leafNames

/-- `cls(**kw)` with nested keyword dicts standing for nested instances built the same way; `none` when a
    field has neither a keyword, a default nor a factory (Python: `TypeError` in the *user's* constructor
    call — outside the library) -/
def construct : WT → Dict → Option Dict
  | .nil, _ => some []
  | .leaf n df _ rest, kw =>
    match (match dget kw n with | some v => some v | none => df) with
    | none => none
    | some v =>
      match construct rest kw with
      | none => none
      | some r => some ((n, v) :: r)
  | .nested n fac sub rest, kw =>
    let ov : Option Dict :=
      match dget kw n with
      | some (.dict d) => some d
      | some _ => none
      | none => fac
    match ov with
    | none => none
    | some d =>
      match construct sub d with
      | none => none
      | some i =>
        match construct rest kw with
        | none => none
        | some r => some ((n, .dict i) :: r)

/-- every `default_factory` in the tree can be called -/
def facOk : WT → Bool
  | .nil => true
  | .leaf _ _ _ rest => facOk rest
  | .nested _ fac sub rest =>
    (match fac with
     | none => true
     | some ov => (construct sub ov).isSome) && facOk sub && facOk rest

inductive Exc | runtimeError | typeError | valueError
  deriving DecidableEq, Repr

inductive Err
  | raise (e : Exc)
  /-- argparse error: a required option is missing / an option is not recognised (status 2) -/
  | exit2
  /-- outside the modelled fragment -/
  | unmodelled (why : Str)

abbrev Out := Except Err

/-- `DataclassWrapper.__init__` given a default *instance* (dataclass_wrapper.py:112-117,143-149,176-177):
    every field wrapper gets `set_default(getattr(default, name))`, every child wrapper is built with
    `default=getattr(default, name)` -/
def initInst : WT → Dict → WT
  | .nil, _ => .nil
  | .leaf n df _ rest, i => .leaf n df ((dget i n).getD .null) (initInst rest i)
  | .nested n fac sub rest, i =>
    .nested n fac (match dget i n with
                   | some (.dict d) => initInst sub d
                   | _ => sub) (initInst rest i)

/-- `unknown_names` after the two loops and `discard("_type_")` is non-empty (dataclass_wrapper.py:297-312) -/
def unknownKeys (wt : WT) (d : Dict) : Bool :=
  d.any (fun kv => !(wt.names.contains kv.1) && !(kv.1 == "_type_".toList))

/-- the two loops of `DataclassWrapper.set_default` for a dict value (dataclass_wrapper.py:298-310).  Field
    wrappers never raise, so handling the fields in declaration order raises in the same order as the code's
    "all fields, then all children".  A child given `None` only has its `_default` reset (line 294-296); a child
    given a non-dict goes to `dataclasses.asdict` → `TypeError`; a child's own unknown-name check (line 312) runs
    before the next child is looked at. -/
def setFields : WT → Dict → Out WT
  | .nil, _ => .ok .nil
  | .leaf n df m rest, d =>
    match setFields rest d with
    | .error e => .error e
    | .ok rest' =>
      match dget d n with
      | none => .ok (.leaf n df m rest')
      | some v => .ok (.leaf n df v rest')          -- `field_wrapper.set_default(v)`: overwrites, even with None
  | .nested n fac sub rest, d =>
    match dget d n with
    | none =>
      match setFields rest d with
      | .error e => .error e
      | .ok rest' => .ok (.nested n fac sub rest')
    | some .null =>
      match setFields rest d with
      | .error e => .error e
      | .ok rest' => .ok (.nested n fac sub rest')
    | some (.dict d') =>
      match setFields sub d' with
      | .error e => .error e
      | .ok sub' =>
        if unknownKeys sub d' then .error (.raise .runtimeError) else
        match setFields rest d with
        | .error e => .error e
        | .ok rest' => .ok (.nested n fac sub' rest')
    | some _ => .error (.raise .typeError)

/-- `DataclassWrapper.set_default(d)` for a dict `d` (dataclass_wrapper.py:288-315) -/
def setDefault (wt : WT) (d : Dict) : Out WT :=
  match setFields wt d with
  | .error e => .error e
  | .ok wt' => if unknownKeys wt d then .error (.raise .runtimeError) else .ok wt'

/-- `wrapper.set_default(v)` for an arbitrary value (None → only `_default` is reset; non-dict → `asdict`) -/
def setDefaultJ (wt : WT) : J → Out WT
  | .null => .ok wt
  | .dict d => setDefault wt d
  | _ => .error (.raise .typeError)

/-! ### the parser -/

/-- one `add_arguments` registration: destination, wrapper tree, the default instance's attribute tree -/
structure Reg where
  dest : Str
  wt : WT
  inst : Option Dict

/-- `self._wrappers`, `self.constructor_arguments`, argparse's `self._defaults` -/
structure PState where
  regs : List Reg
  cons : Dict
  stray : Dict

/-- the `for wrapper in self._wrappers` loop of `set_defaults` (parsing.py:402-429), wrappers side -/
def applyRegs : List Reg → Dict → Out (List Reg)
  | [], _ => .ok []
  | r :: rs, kw =>
    match dget kw r.dest with
    | none =>
      match applyRegs rs kw with
      | .error e => .error e
      | .ok rs' => .ok (r :: rs')
    | some (.dict d) =>
      match setDefault r.wt d with
      | .error e => .error e
      | .ok wt' =>
        match applyRegs rs kw with
        | .error e => .error e
        | .ok rs' => .ok ({ r with wt := wt' } :: rs')
    | some (.str _) => .error (.unmodelled "a path given as a dataclass default is read as a file".toList)
    | some _ => .error (.raise .valueError)          -- parsing.py:408-414

/-- `kwarg_defaults_set_in_dataclasses` (parsing.py:401,427) -/
def setSections : List Reg → Dict → Dict
  | [], _ => []
  | r :: rs, kw =>
    match dget kw r.dest with
    | some (.dict d) => (r.dest, .dict d) :: setSections rs kw
    | _ => setSections rs kw

/-- argparse `set_defaults(**kwargs)`: `self._defaults.update(kwargs)` -/
def strayUpdate (stray : Dict) : Dict → Dict
  | [] => stray
  | (k, v) :: r =>
    strayUpdate (if hasKey stray k then stray.map (fun kv => if kv.1 = k then (k, v) else kv)
                 else stray ++ [(k, v)]) r

/-- the dict handed to the wrapper loop (parsing.py:387-398): with a file, WITHOUT_ROOT and exactly one wrapper
    re-root both the file content and the keywords under that wrapper's dest, then `dict_union(file, kwargs)`;
    without a file the keywords are used as they are -/
def effectiveKw (withoutRoot : Bool) (regs : List Reg) (file : Option Dict) (kwargs : Dict) : Dict :=
  match file with
  | none => kwargs
  | some defaults =>
    match withoutRoot, regs with
    | true, [r] => unionD [(r.dest, .dict defaults)] [(r.dest, .dict kwargs)]
    | _, _ => unionD defaults kwargs

/-- `ArgumentParser.set_defaults(config_path, **kwargs)` (parsing.py:385-438) -/
def parserSetDefaults (withoutRoot : Bool) (st : PState) (file : Option Dict) (kwargs : Dict) : Out PState :=
  let kw := effectiveKw withoutRoot st.regs file kwargs
  match applyRegs st.regs kw with
  | .error e => .error e
  | .ok regs' =>
    .ok { regs := regs'
          cons := unionD st.cons (setSections st.regs kw)
          stray := strayUpdate st.stray (kw.filter (fun kv => !(st.regs.any (fun r => r.dest = kv.1)))) }

/-- successive `set_defaults` calls (files or keyword dicts), in order -/
def applyFiles (withoutRoot : Bool) : PState → List Dict → Out PState
  | st, [] => .ok st
  | st, f :: fs =>
    match parserSetDefaults withoutRoot st (some f) [] with
    | .error e => .error e
    | .ok st' => applyFiles withoutRoot st' fs

def applyKwargs (withoutRoot : Bool) : PState → List Dict → Out PState
  | st, [] => .ok st
  | st, kw :: kws =>
    match parserSetDefaults withoutRoot st none kw with
    | .error e => .error e
    | .ok st' => applyKwargs withoutRoot st' kws

/-- `add_arguments(cls, dest, default=inst)` → `_add_arguments` (parsing.py:497-521): a new wrapper, then a
    pending `_defaults[dest]` is applied, then (WITHOUT_ROOT, every direct field named in `_defaults`) the
    root-less pending keywords restricted to the class's field names -/
def addArguments (withoutRoot : Bool) (st : PState) (dest : Str) (cls : WT) (inst : Option Dict) : Out PState :=
  let wt0 := match inst with
    | some i => initInst cls i
    | none => cls
  let step1 : Out WT := match dget st.stray dest with
    | some v => setDefaultJ wt0 v
    | none => .ok wt0
  match step1 with
  | .error e => .error e
  | .ok wt1 =>
    let step2 : Out WT :=
      if withoutRoot && cls.leafNames.all (fun n => hasKey st.stray n) then
        setDefault wt1 (st.stray.filter (fun kv => cls.names.contains kv.1))
      else .ok wt1
    match step2 with
    | .error e => .error e
    | .ok wt2 => .ok { st with regs := st.regs ++ [{ dest := dest, wt := wt2, inst := inst }] }

/-- `FieldWrapper.default` (field_wrapper.py:722-771) of a leaf `n` with definition default `df` and slot `m`,
    whose parent wrapper sees the default instance `ctx` through `DataclassWrapper.defaults`: a manually set
    `_default` if not None, else the attribute of `ctx` (even if that is None), else the field default. -/
def leafDefault (n : Str) (df : Option J) (m : J) (ctx : Option Dict) : J :=
  if !m.isNull then m else
    match ctx with
    | some i => (dget i n).getD .null
    | none => df.getD .null

/-- `DataclassWrapper.defaults` of the child wrapper for nested field `n` (dataclass_wrapper.py:255-274): the
    attribute of the parent's default instance when the parent has one, else the product of the field's own
    `default_factory`, else nothing -/
def childCtx (n : Str) (fac : Option Dict) (sub : WT) (ctx : Option Dict) : Option Dict :=
  match ctx with
  | some i => (match dget i n with
               | some (.dict d) => some d
               | _ => none)
  | none => (match fac with
             | some ov => construct sub ov
             | none => none)

/-- `FieldWrapper.default` of every leaf, as a tree (None = `null`) -/
def defaultsTree : WT → Option Dict → Dict
  | .nil, _ => []
  | .leaf n df m rest, ctx => (n, leafDefault n df m ctx) :: defaultsTree rest ctx
  | .nested n fac sub rest, ctx => (n, .dict (defaultsTree sub (childCtx n fac sub ctx))) :: defaultsTree rest ctx

/-- the `_default` slot of every field wrapper, as a tree -/
def slotsTree : WT → Dict
  | .nil => []
  | .leaf n _ m rest => (n, m) :: slotsTree rest
  | .nested n _ sub rest => (n, .dict (slotsTree sub)) :: slotsTree rest

/-- the sub-tree of command-line values below one name (nothing when absent) -/
def sectionOf : Option J → Dict
  | some (.dict d) => d
  | _ => []

/-- `FieldWrapper.default` for every leaf + argparse + post-processing, for one wrapper tree; `cmd` holds the
    explicit command-line values.  No default at all makes the option required (field_wrapper.py:797-821) →
    status 2 unless it is given on the command line; the command-line value overrides (parsing.py:972). -/
def resolve : WT → Option Dict → Dict → Out Dict
  | .nil, _, _ => .ok []
  | .leaf n df m rest, ctx, cmd =>
    let v : J := match dget cmd n with
      | some v => v
      | none => leafDefault n df m ctx
    if v.isNull then .error .exit2 else
    match resolve rest ctx cmd with
    | .error e => .error e
    | .ok r => .ok ((n, v) :: r)
  | .nested n fac sub rest, ctx, cmd =>
    match resolve sub (childCtx n fac sub ctx) (sectionOf (dget cmd n)) with
    | .error e => .error e
    | .ok i =>
      match resolve rest ctx cmd with
      | .error e => .error e
      | .ok r => .ok ((n, .dict i) :: r)

/-- all registrations: `dest ↦ instance` -/
def resolveAll : List Reg → Dict → Out Dict
  | [], _ => .ok []
  | r :: rs, cmd =>
    match resolve r.wt r.inst (sectionOf (dget cmd r.dest)) with
    | .error e => .error e
    | .ok i =>
      match resolveAll rs cmd with
      | .error e => .error e
      | .ok out => .ok ((r.dest, .dict i) :: out)

/-- a `_type_` key accumulated in `constructor_arguments[dest]` survives `set_default` (it is discarded from
    the unknown names) and is handed to the dataclass constructor → `TypeError` (parsing.py:852-865,1161) -/
def typeKeyLeft (regs : List Reg) (cons : Dict) : Bool :=
  regs.any (fun r => match dget cons r.dest with
    | some (.dict d) => hasKey d "_type_".toList
    | _ => false)

/-- what `parse_known_args` is given -/
structure ParseIn where
  /-- contents of the constructor's `config_path` files, in order (`[]` for `None`) -/
  ctorFiles : List Dict
  /-- `add_config_path_arg` (`none` → `bool(config_path)`, parsing.py:167-170) -/
  addArg : Option Bool
  /-- contents of the files given after `--config_path` on the command line (`none`: option absent) -/
  cliFiles : Option (List Dict)
  /-- explicit command-line options, as a dest-keyed partial tree of values -/
  cmd : Dict

/-- `parse_known_args` (parsing.py:300-363): constructor files in order; then, when the `--config_path` option
    exists, the files it names in order — its default being the constructor's files, which are therefore applied
    a second time when the option is absent (parsing.py:325-334); then argparse and post-processing -/
def parsePhase (withoutRoot : Bool) (st : PState) (p : ParseIn) : Out Dict :=
  match applyFiles withoutRoot st p.ctorFiles with
  | .error e => .error e
  | .ok st1 =>
    let addArg := match p.addArg with
      | some b => b
      | none => !p.ctorFiles.isEmpty
    let second : Out PState :=
      if addArg then
        match p.cliFiles with
        | some fs => applyFiles withoutRoot st1 fs
        | none => applyFiles withoutRoot st1 p.ctorFiles     -- the option's default is `self.config_path`
      else .ok st1
    match second with
    | .error e => .error e
    | .ok st2 =>
      if !addArg && p.cliFiles.isSome then .error .exit2 else      -- unrecognized arguments
      match resolveAll st2.regs p.cmd with
      | .error e => .error e
      | .ok out => if typeKeyLeft st2.regs st2.cons then .error (.raise .typeError) else .ok out

/-- one `add_arguments` call of the case: dest, class, keyword tree of the default instance (`none`: no default) -/
structure RegIn where
  dest : Str
  cls : WT
  instKw : Option Dict

def addAll (withoutRoot : Bool) : PState → List RegIn → Out PState
  | st, [] => .ok st
  | st, r :: rs =>
    if !facOk r.cls then .error (.unmodelled "default_factory cannot be called".toList) else
    let inst : Out (Option Dict) := match r.instKw with
      | none => .ok none
      | some kw => (match construct r.cls kw with
                    | some i => .ok (some i)
                    | none => .error (.unmodelled "default instance cannot be constructed".toList))
    match inst with
    | .error e => .error e
    | .ok i =>
      match addArguments withoutRoot st r.dest r.cls i with
      | .error e => .error e
      | .ok st' => addAll withoutRoot st' rs

/-- a whole scenario: parser construction, `set_defaults(**kw)` calls before the registrations, the
    registrations, `set_defaults(**kw)` calls after them, one parse -/
structure Case where
  withoutRoot : Bool
  kwBefore : List Dict
  regs : List RegIn
  kwAfter : List Dict
  parse : ParseIn

def emptyState : PState := { regs := [], cons := [], stray := [] }

def build (c : Case) : Out PState :=
  match applyKwargs c.withoutRoot emptyState c.kwBefore with
  | .error e => .error e
  | .ok st0 =>
    match addAll c.withoutRoot st0 c.regs with
    | .error e => .error e
    | .ok st1 => applyKwargs c.withoutRoot st1 c.kwAfter

def run (c : Case) : Out Dict :=
  match build c with
  | .error e => .error e
  | .ok st => parsePhase c.withoutRoot st c.parse


/-! ### Optional members: does `inner: Optional[Inner] = None` become an instance or stay `None`?

  parsing.py `_create_dataclass_instance` + `_is_at_default` (after 3f531df and d1d203e).  The tree below describes
  one dataclass whose Optional members are *none by default* (no file, `set_defaults` call or default instance mentions
  anything below them — otherwise `wrapper.default` is not None and the member is simply built), so the default of
  every leaf below is its definition default and the only other source is an explicit command-line value. -/

/-- `!=` on the scalar leaf values of the fragment (both sides have the leaf's type) -/
def J.eqScalar : J → J → Bool
  | .null, .null => true
  | .int a, .int b => a == b
  | .str a, .str b => a == b
  | .atom a, .atom b => a == b
  | _, _ => false

inductive OT
  | nil
  /-- a leaf: argument default (`null` = none), explicit command-line value if any -/
  | leaf (name : Str) (dflt : J) (arg : Option J) (rest : OT)
  /-- a nested member; `optional` = declared `Optional[K] = None` -/
  | member (name : Str) (optional : Bool) (sub : OT) (rest : OT)

/-- the loop over `wrapper.fields` (`arg_value != default_value`) and `_is_at_default` over all nested members,
    recursively: every leaf below has no explicit value, or one equal to its default -/
def atDefault : OT → Bool
  | .nil => true
  | .leaf _ d a rest => (match a with
                         | none => true
                         | some v => J.eqScalar v d) && atDefault rest
  | .member _ _ sub rest => atDefault sub && atDefault rest

/-- the rule before 3f531df / d1d203e: only the member's own direct fields were compared -/
def directAtDefault : OT → Bool
  | .nil => true
  | .leaf _ d a rest => (match a with
                         | none => true
                         | some v => J.eqScalar v d) && directAtDefault rest
  | .member _ _ _ rest => directAtDefault rest

/-- the collapse rule: Optional ∧ none-by-default ∧ every leaf below at its argument default ⇒ `None` -/
def collapse (optional : Bool) (sub : OT) : Bool := optional && atDefault sub
def collapseOld (optional : Bool) (sub : OT) : Bool := optional && directAtDefault sub

/-- what post-processing builds, bottom-up (parsing.py:844-909): a leaf is its explicit value or its default, a member
    is `None` when it collapses and the instance built from its own fields otherwise -/
def built : OT → Dict
  | .nil => []
  | .leaf n d a rest => (n, match a with
                            | some v => v
                            | none => d) :: built rest
  | .member n opt sub rest => (n, if collapse opt sub then .null else .dict (built sub)) :: built rest

def builtOld : OT → Dict
  | .nil => []
  | .leaf n d a rest => (n, match a with
                            | some v => v
                            | none => d) :: builtOld rest
  | .member n opt sub rest => (n, if collapseOld opt sub then .null else .dict (builtOld sub)) :: builtOld rest

/-- a required option is missing (a leaf without default and without explicit value) → status 2 -/
def otMissing : OT → Bool
  | .nil => false
  | .leaf _ d a rest => (d.isNull && a.isNone) || otMissing rest
  | .member _ _ sub rest => otMissing sub || otMissing rest

end SpVerif.Layers
