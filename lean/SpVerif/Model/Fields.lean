/-
  SpVerif.Model.Fields — how one dataclass field becomes one argparse action and how the raw
  parsed value becomes the field value.

  Mirrors `FieldWrapper.get_arg_options` (wrappers/field_wrapper.py:231-406, branch order kept),
  `FieldWrapper.required` (797-821), `FieldWrapper.postprocess` (460-533),
  `get_parsing_fn` (wrappers/field_parsing.py:70-149), `get_argparse_type_for_container`
  (utils.py:198-227), `get_container_nargs` (utils.py:568-614), for non-reused fields without
  custom argparse arguments.
-/
import SpVerif.Model.Engine
import SpVerif.Model.Naming
namespace SpVerif

inductive DefaultV
  | missing
  | value (v : Val)          -- `field.default` or the cached `default_factory()` result
  deriving DecidableEq, Repr

structure FieldSpec where
  name : Str
  ty : FTy
  default : DefaultV
  aliases : List Str := []
  deriving DecidableEq, Repr

def bconvOf : BTy → BConv
  | .int => .int | .float => .float | .str => .str | .bool => .bool | .path => .path
  | .any => .noop | .enum c m => .enumName c m

/-- `get_parsing_fn(t)` for an item / scalar type -/
def convOfItem : ITy → Conv
  | .base b => .base (bconvOf b)
  | .union alts => .union (alts.map bconvOf)

/-- `get_argparse_type_for_container(List[T])`: `Any → str`; a Union item type gets the
    try-in-order parser (since the repair of `list[int | str]`; before, the typing object itself
    was handed to argparse). -/
def containerConv : ITy → Option Conv
  | .base .any => some (.base .str)
  | .base b => some (.base (bconvOf b))
  | .union alts => some (.union (alts.map bconvOf))

def allEq : List ITy → Bool
  | [] => true
  | t :: ts => ts.all (· = t)

/-- `get_parsing_fn(Tuple[...])` -/
def tupleConv (items : List ITy) : Option Conv :=
  match items with
  | [] => some (.base .str)
  | t :: _ =>
    if allEq items then some (convOfItem t)
    else
      -- parse_tuple: one parsing fn per position (base item types only in the model)
      let bs := items.filterMap (fun i => match i with | .base b => some (bconvOf b) | .union _ => none)
      if bs.length = items.length then some (.tupleCounter bs) else none

/-- `str(v)` / `.name` of a Literal value -/
def literalName : Scalar → Option Str
  | .str s => some s
  | .int i => some (toString i).toList
  | .bool true => some "True".toList
  | .bool false => some "False".toList
  | .enum _ n => some n
  | _ => none

structure ArgOpts where
  nargs : NArgs
  conv : Conv
  choices : Option (List Str)
  required : Bool
  default : Val              -- the `default=` handed to argparse (None when there is none)
  isBool : Bool              -- BooleanOptionalAction
  deriving DecidableEq, Repr

def defaultVal : DefaultV → Val
  | .missing => .sc .none
  | .value v => v

/-- `get_arg_options` for a non-reused field; `none` = outside the modelled fragment. -/
def argOptions (f : FieldSpec) : Option ArgOpts :=
  let dflt := defaultVal f.default
  let fieldDefaultIsNone := f.default = .value (.sc .none)
  let requiredBase := f.default = .missing
  match f.ty.optional, f.ty.inner with
  -- 1. is_choice (Literal at top level)
  | false, .literal vals =>
    (vals.mapM literalName).map (fun names =>
      { nargs := .one, conv := .base .str, choices := some names, required := requiredBase && !fieldDefaultIsNone,
        default := dflt, isBool := false })
  | true, .literal _ => none
  | opt, inner =>
    if opt || fieldDefaultIsNone then
      -- 2. Optional[...] or a default of None: never required
      match inner with
      | .tuple items => (tupleConv items).map (fun c =>
          { nargs := .num items.length, conv := c, choices := none, required := false, default := dflt, isBool := false })
      | .vtuple item => some { nargs := .star, conv := convOfItem item, choices := none, required := false,
                               default := dflt, isBool := false }
      | .list item => (containerConv item).map (fun c =>
          { nargs := .star, conv := c, choices := none, required := false, default := dflt, isBool := false })
      | .sc t => some { nargs := .opt, conv := convOfItem t, choices := none, required := false,
                        default := dflt, isBool := false }
      | .literal _ => none
    else
      match inner with
      -- 3. Union
      | .sc (.union alts) => some { nargs := .one, conv := .union (alts.map bconvOf), choices := none,
                                    required := requiredBase, default := dflt, isBool := false }
      -- 4. Enum: choices are the member names, the default becomes its name
      | .sc (.base (.enum _ members)) =>
        let d := match dflt with
          | .sc (.enum _ n) => .sc (.str n)
          | v => v
        some { nargs := .one, conv := .base .str, choices := some members, required := requiredBase,
               default := d, isBool := false }
      -- 5. List
      | .list item => (containerConv item).map (fun c =>
          { nargs := .star, conv := c, choices := none, required := requiredBase, default := dflt, isBool := false })
      -- 6. Tuple
      | .tuple items => (tupleConv items).map (fun c =>
          { nargs := .num items.length, conv := c, choices := none, required := requiredBase, default := dflt, isBool := false })
      | .vtuple item => some { nargs := .star, conv := convOfItem item, choices := none, required := requiredBase,
                               default := dflt, isBool := false }
      -- 7. bool
      | .sc (.base .bool) => some { nargs := .opt, conv := .base .bool, choices := none, required := requiredBase,
                                    default := dflt, isBool := true }
      -- 8. plain
      | .sc (.base b) => some { nargs := .one, conv := .base (bconvOf b), choices := none, required := requiredBase,
                                default := dflt, isBool := false }
      | .literal _ => none

inductive PostOut
  | ok (v : Val)
  | raise (exc : Str)
  deriving DecidableEq, Repr

def listToTuple : Val → Val
  | .list l => .tuple l
  | v => v

def tupleToList : Val → Val
  | .tuple l => .list l
  | v => v

/-- `FieldWrapper.postprocess` -/
def postprocess (f : FieldSpec) (raw : Val) : PostOut :=
  match f.ty.optional, f.ty.inner with
  | false, .sc (.base (.enum cls members)) =>
    match raw with
    | .sc (.str s) => if members.contains s then .ok (.sc (.enum cls s)) else .raise "KeyError".toList
    | v => .ok v
  | false, .literal vals =>
    match raw with
    | .sc (.str s) =>
      -- `choice_dict = {str(v): v for v in choices}` (field_wrapper.py:891): of two values with the
      -- same name (`Literal["0", 0]`) the LAST one wins
      match vals.reverse.find? (fun v => literalName v = some s) with
      | some v => .ok (.sc v)
      | none => .raise "KeyError".toList
    | v => .ok v
  | false, .tuple _ => .ok (listToTuple raw)
  | false, .vtuple _ => .ok (listToTuple raw)
  | false, .sc (.base .bool) => .ok raw
  | false, .list _ => .ok (tupleToList raw)
  | true, .tuple _ => .ok (listToTuple raw)
  | true, .vtuple _ => .ok (listToTuple raw)
  | true, _ => .ok raw
  | false, .sc (.base .path) =>
    match raw with
    | .sc (.str s) => .ok (.sc (.path s))
    | v => .ok v
  | false, .sc _ => .ok raw

/-- the whole pipeline for ONE flat dataclass registered at `dest` (no nesting):
    table = built-in help + one action per field; strict parse; postprocess per field. -/
def fieldAct (cfg : Cfg) (dest : Str) (f : FieldSpec) : Option Act :=
  (argOptions f).map (fun ao =>
    let fw : FW := { name := f.name, pref := [], dest := dest ++ '.' :: f.name, aliases := f.aliases }
    let pos := optionStrings cfg fw
    let negs := if ao.isBool then (negStrings pos "--no".toList none []).getD [] else []
    { opts := pos ++ negs, dest := fw.dest, kind := if ao.isBool then .boolOpt negs else .store,
      nargs := ao.nargs, conv := ao.conv, choices := ao.choices, required := ao.required,
      default := some ao.default })

def helpAct : Act :=
  { opts := ["-h".toList, "--help".toList], dest := "help".toList, kind := .help, nargs := .num 0,
    conv := .base .str, choices := none, required := false, default := none }

def tableOf (cfg : Cfg) (dest : Str) (fs : List FieldSpec) : Option (List Act) :=
  (fs.mapM (fieldAct cfg dest)).map (fun acts => helpAct :: acts)

inductive POut
  | ok (fields : List (Str × Val))
  | exit (code : Nat) (kind : ExitKind)
  | raise (exc : Str)
  | unmodelled (why : String)
  deriving Repr

def postAll (dest : Str) (ns : List (Str × Val)) : List FieldSpec → Except Str (List (Str × Val))
  | [] => .ok []
  | f :: fs =>
    let raw := (ns.lookup (dest ++ '.' :: f.name)).getD (defaultVal f.default)
    match postprocess f raw with
    | .raise e => .error e
    | .ok v => match postAll dest ns fs with
      | .error e => .error e
      | .ok rest => .ok ((f.name, v) :: rest)

def parseFlat (fenv : FEnv) (cfg : Cfg) (dest : Str) (fs : List FieldSpec) (argv : List Str) : POut :=
  match tableOf cfg dest fs with
  | none => .unmodelled "annotation outside the modelled fragment"
  | some tbl =>
    match runStrict fenv tbl (tbl.map (fun _ => 0)) argv with
    | .ok ns _ _ =>
      (match postAll dest ns fs with
       | .ok r => .ok r
       | .error e => .raise e)
    | .exit c k => .exit c k
    | .raise e => .raise e
    | .unmodelled w => .unmodelled w

end SpVerif
