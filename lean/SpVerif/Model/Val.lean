/-
  SpVerif.Model.Val — Python values and CLI type grammar of the command-line fragment.

  The command-line grammar has no nested containers (a `List[Tuple[..]]` field is outside what
  simple-parsing supports), so items are scalars and the inductives stay first-order — which keeps
  `DecidableEq` derivable and the proofs free of nested-induction plumbing.
-/
import SpVerif.Model.Core
namespace SpVerif

/-- a scalar Python value (the Python *type* is part of the value: `int 1 ≠ float "1.0" ≠ str "1"`) -/
inductive Scalar
  | int (i : Int)
  | float (repr : Str)          -- canonical `repr(x)`; float parsing itself is a parameter (`FEnv`)
  | str (s : Str)
  | bool (b : Bool)
  | none
  | path (s : Str)              -- `pathlib.Path(s)`, compared by its string
  | enum (cls : Str) (name : Str)
  deriving DecidableEq, Repr

inductive Val
  | sc (s : Scalar)
  | list (l : List Scalar)
  | tuple (l : List Scalar)
  deriving DecidableEq, Repr

/-- base (non-union) item types -/
inductive BTy
  | int | float | str | bool | path | any
  | enum (cls : Str) (members : List Str)
  deriving DecidableEq, Repr

/-- item types: a base type or a Union of base types (without None) -/
inductive ITy
  | base (b : BTy)
  | union (alts : List BTy)
  deriving DecidableEq, Repr

/-- non-optional field annotations of the command-line grammar -/
inductive NTy
  | sc (t : ITy)
  | literal (vals : List Scalar)
  | list (item : ITy)
  | tuple (items : List ITy)      -- `Tuple[t1, …, tn]`
  | vtuple (item : ITy)           -- `Tuple[t, ...]`
  deriving DecidableEq, Repr

/-- a field annotation: `Optional[inner]` when `optional` -/
structure FTy where
  inner : NTy
  optional : Bool
  deriving DecidableEq, Repr

/-- float parsing/printing is a parameter: `float(token)` as canonical repr, `none` = ValueError.
    A token absent from the table is outside the modelled fragment. -/
abbrev FEnv := List (Str × Option Str)

end SpVerif
