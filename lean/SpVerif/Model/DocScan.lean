/-
  SpVerif.Model.DocScan — mirrors the attribute-docstring extractor
  (simple_parsing/docstring.py:34-386) and the help precedence of `FieldWrapper.help`
  (simple_parsing/wrappers/field_wrapper.py:888-905, 253-258, 162).

  The extractor is a line-oriented scanner over `inspect.getsource(cls)`; the model is the same
  scanner over `List Str` (one `Str` per source line).  `str.strip`, `str.isidentifier`,
  `str.partition`, `str.split` and `str.splitlines` are modelled on ASCII.  `inspect.getsource`,
  `cls.__doc__` and the `docstring_parser` result (list of (arg_name, description)) are parameters.
-/
import SpVerif.Model.Core
import SpVerif.Model.BoolFlag
namespace SpVerif.DocScan
open SpVerif

/-! ### string primitives -/

/-- `s.partition(c)[0]` (everything before the first `c`; all of `s` when `c` is absent) -/
def before (c : Char) : Str → Str
  | [] => []
  | x :: xs => if x = c then [] else x :: before c xs

/-- `s.partition(c)[2]` (= `s.split(c, maxsplit=1)[1]` when `c in s`; empty when absent) -/
def after (c : Char) : Str → Str
  | [] => []
  | x :: xs => if x = c then xs else after c xs

def isIdStart (c : Char) : Bool := c.isAlpha || c = '_'
def isIdCont (c : Char) : Bool := c.isAlphanum || c = '_'

/-- `str.isidentifier()` on ASCII -/
def isIdentifier : Str → Bool
  | [] => false
  | c :: cs => isIdStart c && cs.all isIdCont

/-- first occurrence of the substring `tok`: `some (before, after)`; `none` when absent
    (`tok in s`, `s.index(tok)`, `s.split(tok, maxsplit=1)`). -/
def breakOn (tok : Str) : Str → Option (Str × Str)
  | [] => if tok.isEmpty then some ([], []) else none
  | c :: cs =>
    if startsWith (c :: cs) tok then some ([], (c :: cs).drop tok.length)
    else match breakOn tok cs with
      | some (a, b) => some (c :: a, b)
      | none => none

def tripleDouble : Str := ['"', '"', '"']
def tripleSingle : Str := ['\'', '\'', '\'']

/-- `'"""' in line or "'''" in line` -/
def hasTriple (l : Str) : Bool := (breakOn tripleDouble l).isSome || (breakOn tripleSingle l).isSome

/-- `"\n".join(parts)` -/
def joinNl (parts : List Str) : Str := joinWith '\n' parts

/-! ### line classifiers -/

/-- `_contains_field_definition` (docstring.py:168-217), branch by branch. -/
def containsFieldDef (line : Str) : Bool :=
  let l := before '#' line                       -- line.partition("#")
  if !(l.contains ':') then false                -- ":" not in line
  else
    let attrAndType := if l.contains '=' then before '=' l else l
    let fieldName := stripWs (before ':' attrAndType)
    let ty := after ':' attrAndType
    if ty.contains ':' then false                -- weird annotation or dictionary
    else if fieldName.isEmpty then false
    else isIdentifier fieldName

/-- `_line_contains_definition_for` (docstring.py:220-226). -/
def lineDefines (line name : Str) : Bool :=
  let l := stripWs line
  if !containsFieldDef l then false
  else
    let attr := stripWs (before ':' l)
    isIdentifier attr && attr == name            -- exact comparison of the identifier

/-- `_is_empty` (229-230): `line.strip() == ""` ⇔ `line.lstrip() == ""`. -/
def isEmptyLine (l : Str) : Bool := (lstripWs l).isEmpty

/-- `_is_comment` (233-234): `line.strip().startswith("#")` ⇔ the first non-blank char is `#`. -/
def isComment (l : Str) : Bool := (lstripWs l).head? == some '#'

/-- `_get_comment_at_line` (237-252) -/
def commentAt (l : Str) : Str := if !(l.contains '#') then [] else stripWs (after '#' l)

/-! ### inline comment: `_get_inline_comment_at_line` (259-285)

  The code takes the line's COMMENT token from `tokenize` (so a `#` inside a string literal of the
  default value is not a comment) and falls back to "everything after the first `#`" when the
  tokenizer raises.  The model does not contain a Python tokenizer: it scans the definition line
  for the first `#` outside a string literal, on the fragment "names, numbers, brackets, operators
  and one-line string literals in either quote kind without backslashes, prefixes or triple
  quotes"; every other line is `unmodelled` (a distinct outcome, see `lineModelled`). -/

inductive Prev
  | other | ident | number
  | closedEmpty            -- an empty string literal was just closed (a further quote = triple quote)
  deriving DecidableEq, Repr

structure TokSt where
  inStr : Option (Char × Bool)   -- inside a string literal: its quote, and "has content so far"
  depth : List Char              -- closing brackets still expected, innermost first
  prev : Prev
  deriving DecidableEq, Repr

def st0 : TokSt := ⟨none, [], .other⟩

inductive Step
  | next (s : TokSt)
  | comment              -- a `#` outside a string literal
  | unmodelled
  deriving DecidableEq, Repr

def closerOf (c : Char) : Option Char :=
  if c = '(' then some ')' else if c = '[' then some ']' else if c = '{' then some '}' else none

def isCloser (c : Char) : Bool := c = ')' || c = ']' || c = '}'

def isOperator (c : Char) : Bool :=
  c = ':' || c = '=' || c = ',' || c = '+' || c = '-' || c = '*' || c = '/' || c = '|' || c = '<' || c = '>'

def step (s : TokSt) (c : Char) : Step :=
  match s.inStr with
  | some (q, content) =>
    if c = q then .next { s with inStr := none, prev := if content then .other else .closedEmpty }
    else if c = '\\' then .unmodelled
    else .next { s with inStr := some (q, true) }
  | none =>
    if c = '#' then .comment
    else if c = '"' || c = '\'' then
      (if s.prev = .other then .next { s with inStr := some (c, false) } else .unmodelled)
    else if c.isAlpha || c = '_' then
      (if s.prev = .number then .unmodelled else .next { s with prev := .ident })
    else if c.isDigit then .next { s with prev := if s.prev = .ident then .ident else .number }
    else if c = '.' then .next { s with prev := if s.prev = .number then .number else .other }
    else if isSpace c || isOperator c then .next { s with prev := .other }
    else match closerOf c with
      | some cl => .next { s with depth := cl :: s.depth, prev := .other }
      | none =>
        if isCloser c then
          match s.depth with
          | d :: ds => if d = c then .next { s with depth := ds, prev := .other } else .unmodelled
          | [] => .unmodelled
        else .unmodelled

/-- what the tokenizer pass of the code yields for the line -/
inductive InlineTok
  | comment (body : Str)   -- a COMMENT token; `body` = `token.string[1:]`
  | noComment              -- tokenized to the end without a comment: ""
  | error                  -- TokenError / SyntaxError (unterminated string, open bracket at the
                           --   end of the line) before any comment: "" (since repo fix 9e297b8)
  | unmodelled
  deriving DecidableEq, Repr

def tokScan (s : TokSt) : Str → InlineTok
  | [] => if s.inStr.isSome then .error else if s.depth.isEmpty then .noComment else .error
  | c :: cs =>
    match step s c with
    | .next s' => tokScan s' cs
    | .comment => .comment cs
    | .unmodelled => .unmodelled

/-- the state after a prefix that is passed without reaching a comment or leaving the fragment -/
def runTok (s : TokSt) : Str → Option TokSt
  | [] => some s
  | c :: cs =>
    match step s c with
    | .next s' => runTok s' cs
    | _ => none

/-- the tokenizer pass on `line.strip()`; scanning `line.lstrip()` is equivalent (trailing blanks
    either follow the last token, end a comment whose text is stripped afterwards, or sit in an
    unterminated string, which is an error both ways). -/
def inlineTok (l : Str) : InlineTok := tokScan st0 (lstripWs l)

/-- is the definition line inside the modelled fragment of the inline-comment extraction? -/
def lineModelled (l : Str) : Bool := !(l.contains '#') || inlineTok l != .unmodelled

/-- `_get_inline_comment_at_line` (after repo fix 9e297b8: when the tokenizer raises before a
    comment token was produced, the `#` of the line sits inside a string literal and there is no
    inline comment).  For a line outside the modelled fragment (`lineModelled l = false`) the value
    is not claimed by the model: the drivers answer `unmodelled` for such sources. -/
def inlineComment (l : Str) : Str :=
  if !(l.contains '#') then []                         -- "#" not in line_str
  else match inlineTok l with
    | .comment body => stripWs body                    -- token.string[1:].strip()
    | .noComment => []
    | .error => []                                     -- except (TokenError, SyntaxError): return ""
    | .unmodelled => []

/-- the rule before 9e297b8 (kept for the regression example): on a tokenizer error, everything
    after the first `#` of the line — `line_str.split("#", maxsplit=1)[1].strip()` -/
def inlineCommentOld (l : Str) : Str :=
  if !(l.contains '#') then []
  else match inlineTok l with
    | .comment body => stripWs body
    | .noComment => []
    | .error => stripWs (after '#' l)
    | .unmodelled => stripWs (after '#' l)

/-! ### upward scan: `_get_comment_ending_at_line` (278-302) -/

/-- `line.lstrip().startswith(("class ", "@"))`: the class header or a decorator line -/
def isHeaderLine (l : Str) : Bool :=
  startsWith (lstripWs l) ['c', 'l', 'a', 's', 's', ' '] || startsWith (lstripWs l) ['@']

/-- the three `break` conditions of the upward loop: a field definition, a line with a triple
    quote, the class header / a decorator (a comment on those does not document a field) -/
def isStop (l : Str) : Bool := containsFieldDef l || hasTriple l || isHeaderLine l

/-- the `while start_line > 0` loop, on the lines above the field in nearest-first order
    (line 0 already removed: the loop never looks at index 0 and never includes it). -/
def scanUp : List Str → List Str
  | [] => []
  | l :: ls => if isStop l then [] else l :: scanUp ls

/-- `revBefore` = the lines strictly between source line 0 and the definition line, nearest
    first (source line 0 is never looked at by the loop and never included in the block). -/
def commentAbove (revBefore : List Str) : Str :=
  let blk := (scanUp revBefore).reverse
  stripWs (joinNl ((blk.filter (fun l => !isEmptyLine l)).map commentAt))

/-! ### downward scan: `_get_docstring_starting_at_line` (305-392) -/

/-- the `else` branch (374-383): the token is known; returns the remaining `docstring_contents`. -/
def docRest (tok : Str) : List Str → List Str
  | [] => []
  | l :: ls =>
    match breakOn tok l with
    | some (b, _) => [stripWs b]                 -- closing line: text before the token
    | none => stripWs l :: docRest tok ls        -- intermediate line

/-- token selection (329-347) -/
def chooseTok (l : Str) : Option Str :=
  match breakOn tripleSingle l, breakOn tripleDouble l with
  | some (a, _), some (b, _) => if a.length < b.length then some tripleSingle else some tripleDouble
  | none, some _ => some tripleDouble
  | some _, none => some tripleSingle
  | none, none => none

/-- the `token is None` branch (318-373); returns `docstring_contents`. -/
def docStart : List Str → List Str
  | [] => []
  | l :: ls =>
    if isEmptyLine l then docStart ls
    else if containsFieldDef l || isComment l then []
    else match chooseTok l with
      | none => []                               -- "Unable to parse attribute docstring"
      | some tok =>
        match breakOn tok l with
        | none => []                             -- unreachable: `chooseTok` found `tok` in `l`
        | some (_, r) =>
          match breakOn tok r with
          | some (mid, _) => [stripWs mid]       -- len(parts) == 3: opening and closing on one line
          | none => stripWs r :: docRest tok ls  -- len(parts) == 2

def docBelow (rest : List Str) : Str := joinNl (docStart rest)

/-! ### one class: `_get_attribute_docstring` (107-169) -/

structure Doc where
  above : Str
  inline : Str
  below : Str
  cls : Str
  deriving DecidableEq, Repr

def Doc.empty : Doc := ⟨[], [], [], []⟩

/-- the loop over `lines_with_field_defs` (150-165), carrying the lines already passed
    (nearest first). The `start_line_index` loop (141-148) computes a value that is never used. -/
def scanFrom (name : Str) : List Str → List Str → Option Doc
  | _, [] => none
  | rb, l :: rest =>
    if containsFieldDef l && lineDefines l name then
      some ⟨commentAbove rb, inlineComment l, docBelow rest, []⟩
    else scanFrom name (l :: rb) rest

/-- all source lines.  Line 0 (decorator or `class` line) is a candidate like any other line, but
    a definition found there has no comment above (`_get_comment_ending_at_line(lines, -1)` = ""),
    and line 0 is never part of another field's comment block. -/
def scanLines (lines : List Str) (name : Str) : Option Doc :=
  match lines with
  | [] => none
  | l0 :: rest =>
    if containsFieldDef l0 && lineDefines l0 name then
      some ⟨[], inlineComment l0, docBelow rest, []⟩
    else scanFrom name [] rest

/-- `source.replace(doc, "\n", 1)` when `doc and doc in source` (136-137) -/
def removeDoc (doc : Option Str) (src : Str) : Str :=
  match doc with
  | none => src
  | some d =>
    if d.isEmpty then src
    else match breakOn d src with
      | some (a, b) => a ++ '\n' :: b
      | none => src

/-- `str.splitlines()` for `\n`-separated ASCII text -/
def splitLines (s : Str) : List Str :=
  let parts := splitOnChar '\n' s
  if parts.getLast? == some [] then parts.dropLast else parts

/-- the loop over `docstring.params` (129-131): the last matching entry wins; `None` description
    has already been mapped to "" by the caller. -/
def clsDesc (params : List (Str × Str)) (name : Str) : Str :=
  params.foldl (fun acc p => if p.1 == name then p.2 else acc) []

/-- what the extractor sees of one class -/
structure ClassSrc where
  source : Option Str               -- inspect.getsource(cls); `none` = TypeError / OSError (no source file)
  doc : Option Str                  -- cls.__doc__
  params : List (Str × Str)         -- docstring_parser params of inspect.getdoc(cls)

/-- the lines the scanner works on: the source without `__doc__`; `none` = no source -/
def classLines (c : ClassSrc) : Option (List Str) :=
  c.source.map (fun src => splitLines (removeDoc c.doc src))

/-- a class that does not (re-)declare the field but documents it in its class docstring (a
    subclass describing an inherited field) contributes that entry (docstring.py:165-168). -/
def scanClass (c : ClassSrc) (name : Str) : Option Doc :=
  match classLines c with
  | none => none          -- docstring.py:115-124: returned BEFORE the class docstring is looked at
  | some ls =>
  match scanLines ls name with
  | some d => some { d with cls := clsDesc c.params name }
  | none =>
    if (clsDesc c.params name).isEmpty then none
    else some ⟨[], [], [], clsDesc c.params name⟩

/-- every field-definition line of the class is inside the modelled fragment -/
def classModelled (c : ClassSrc) : Bool :=
  match classLines c with
  | none => true
  | some ls => ls.all (fun l => !containsFieldDef l || lineModelled l)

/-! ### MRO accumulation: `get_attribute_docstring` (46-104) -/

/-- Python `a or b` on strings -/
def orStr (a b : Str) : Str := if a.isEmpty then b else a

def merge (c d : Doc) : Doc :=
  ⟨orStr c.above d.above, orStr c.inline d.inline, orStr c.below d.below, orStr c.cls d.cls⟩

/-- the `for base_class in mro` loop with `accumulate_from_bases=True`; `none` = the class does
    not define the field (or has no source). -/
def accumulate : Option Doc → List (Option Doc) → Option Doc
  | cur, [] => cur
  | cur, none :: ds => accumulate cur ds
  | none, some d :: ds => accumulate (some d) ds
  | some c, some d :: ds => accumulate (some (merge c d)) ds

def getAttributeDocstring (perClass : List (Option Doc)) : Doc :=
  (accumulate none perClass).getD Doc.empty

def attributeDoc (mro : List ClassSrc) (name : Str) : Doc :=
  getAttributeDocstring (mro.map (fun c => scanClass c name))

/-! ### the caches (docstring.py:107 `lru_cache` + the in-place merge of 76-99)

  `_get_attribute_docstring(cls, name)` is cached per class, and `get_attribute_docstring` uses the
  record returned for the FIRST class of the MRO that has one as its accumulator: the merged result
  is written into that cached record.  Classes are numbers here; `raw k` is the per-class result
  computed from the source, `cache` holds the records that were used as accumulators. -/

abbrev Cache := List (Nat × Doc)

/-- what `_get_attribute_docstring(k, name)` returns now -/
def entry (raw : Nat → Option Doc) (cache : Cache) (k : Nat) : Option Doc :=
  match cache.lookup k with
  | some d => some d
  | none => raw k

/-- the class whose cached record becomes the accumulator -/
def firstFound (raw : Nat → Option Doc) (cache : Cache) : List Nat → Option Nat
  | [] => none
  | k :: ks => if (entry raw cache k).isSome then some k else firstFound raw cache ks

/-- one `get_attribute_docstring` call: (answer, cache afterwards) -/
def lookupMut (raw : Nat → Option Doc) (cache : Cache) (mro : List Nat) : Doc × Cache :=
  let r := getAttributeDocstring (mro.map (entry raw cache))
  match firstFound raw cache mro with
  | some k0 => (r, (k0, r) :: cache)
  | none => (r, cache)

/-- a sequence of calls in one process -/
def runLookups (raw : Nat → Option Doc) (mroOf : Nat → List Nat) : Cache → List Nat → List Doc
  | _, [] => []
  | cache, q :: qs => (lookupMut raw cache (mroOf q)).1 :: runLookups raw mroOf (lookupMut raw cache (mroOf q)).2 qs

/-- the one-shot (fresh process) answer -/
def pureAnswer (raw : Nat → Option Doc) (mroOf : Nat → List Nat) (q : Nat) : Doc :=
  getAttributeDocstring ((mroOf q).map raw)

/-- a linear inheritance chain of `n` classes: class `i` derives from class `i+1` -/
def chainMro (n : Nat) (i : Nat) : List Nat := List.range' i (n - i)

/-- a sequence of look-ups `(mro of the queried class, field name)` made one after the other: the
    extractor is specified as a pure function, so the answers are the one-shot answers (the code's
    `lru_cache`s must be invisible). -/
def answerAll (queries : List (List ClassSrc × Str)) : List Doc :=
  queries.map (fun q => attributeDoc q.1 q.2)

/-! ### help precedence -/

/-- `AttributeDocString.help_string` (docstring.py:34-43) -/
def helpString (d : Doc) : Str := orStr d.below (orStr d.above (orStr d.inline d.cls))

/-- `FieldWrapper.help` (field_wrapper.py:888-905); `metaHelp` = `field.metadata.get("help")`. -/
def fieldHelp (metaHelp : Option Str) (d : Doc) : Option Str :=
  match metaHelp with
  | some h => if h.isEmpty then (if (helpString d).isEmpty then none else some (helpString d)) else some h
  | none => if (helpString d).isEmpty then none else some (helpString d)

/-- the `help` entry of the argparse action (field_wrapper.py:253-258 then 162): a `help=` passed
    through `simple_parsing.field(**custom_args)` overrides; the temporary token put in for the
    default display is not a help text (`none`). -/
def actionHelp (customHelp metaHelp : Option Str) (d : Doc) : Option Str :=
  match customHelp with
  | some h => some h
  | none => fieldHelp metaHelp d

/-! ### the layout grammar (DESIGN.md §5 C19): what "one field per line" sources look like

  header lines (decorators and `class` line, each with an optional trailing comment, what is left
  of the class docstring after its removal),
  then per field a block:
  [comment lines] [blank lines] definition line [inline comment] [blank lines]
  [docstring below, `"""` or `'''`, on one line or spanning several] [blank lines].
  The generator of the check renders exactly this grammar (op `doc.layout` compares the rendering
  with what `inspect.getsource` returns). -/

inductive Quote | dq | sq
  deriving DecidableEq, Repr

def Quote.tok : Quote → Str
  | .dq => tripleDouble
  | .sq => tripleSingle

def Quote.ch : Quote → Char
  | .dq => '"'
  | .sq => '\''

/-- the docstring below a field -/
inductive Below
  | none
  | one (q : Quote) (m : Str)                       -- `    """m"""`
  | multi (q : Quote) (first : Str) (rest : List Str) -- `    """first` / `    rest…` / `    """`
  deriving DecidableEq, Repr

structure Block where
  above : List Str          -- texts of the comment lines directly above
  gap1 : Nat                -- blank lines between the comment block and the definition
  name : Str
  tail : Str                -- what follows `name:` up to the inline comment, e.g. ` int = 0`
  inline : Option Str       -- text of the inline comment
  gap2 : Nat                -- blank lines between the definition and the docstring
  below : Below
  gap3 : Nat                -- blank lines after the block
  deriving DecidableEq, Repr

def indent : Str := [' ', ' ', ' ', ' ']

def blanks (n : Nat) : List Str := List.replicate n []

def commentLine (m : Str) : Str := indent ++ '#' :: ' ' :: m

def defLine (b : Block) : Str :=
  indent ++ b.name ++ ':' :: b.tail ++
    (match b.inline with
     | some m => ' ' :: ' ' :: '#' :: ' ' :: m
     | none => [])

def belowLines : Below → List Str
  | .none => []
  | .one q m => [indent ++ q.tok ++ m ++ q.tok]
  | .multi q f r => (indent ++ q.tok ++ f) :: r.map (indent ++ ·) ++ [indent ++ q.tok]

def renderBlock (b : Block) : List Str :=
  b.above.map commentLine ++ blanks b.gap1 ++ [defLine b] ++ blanks b.gap2 ++ belowLines b.below
    ++ blanks b.gap3

def renderBlocks : List Block → List Str
  | [] => []
  | b :: bs => renderBlock b ++ renderBlocks bs

/-- the text the layout attaches to the docstring position -/
def belowText : Below → Str
  | .none => []
  | .one _ m => stripWs m
  | .multi _ f r => joinNl (stripWs f :: r.map stripWs ++ [[]])

/-- **the documentation a block gives its own field** — a function of the block alone -/
def Block.doc (b : Block) : Doc :=
  { above := stripWs (joinNl (b.above.map stripWs)),
    inline := match b.inline with
      | some m => stripWs m
      | none => [],
    below := belowText b.below,
    cls := [] }

def Quote.other : Quote → Quote
  | .dq => .sq
  | .sq => .dq

/-- a comment text: the comment line must not contain a triple quote (the upward scan stops there) -/
def aboveOk (m : Str) : Bool := !hasTriple (commentLine m)

/-- the text after the opening quotes of a docstring line: the other kind of triple quote does not
    occur in it (single quote characters of the other kind, `:`, `=`, `#`, field names … are fine) -/
def openOk (q : Quote) (w : Str) : Bool := (breakOn q.other.tok w).isNone

/-- a docstring text: does not contain the quote character of its own delimiter -/
def docLineOk (q : Quote) (m : Str) : Bool := !m.contains q.ch

/-- named exclusion (finding C19-docstring-colon): an intermediate docstring line that the
    line-oriented scanner reads as a field definition, e.g. `b: is related` -/
def looksLikeDef (m : Str) : Bool := containsFieldDef (indent ++ m)

/-- the annotation / default part tokenizes inside the modelled fragment and ends outside any
    string literal with all brackets closed; string literals in it may contain `#` -/
def tailOk (tail : Str) : Bool :=
  match runTok ⟨none, [], .ident⟩ (':' :: tail) with
  | some s => s.inStr.isNone && s.depth.isEmpty
  | none => false

/-- `Block.wf` without the exclusion `looksLikeDef` on the intermediate docstring lines -/
def Block.wfLoose (b : Block) : Bool :=
  isIdentifier b.name && !b.tail.contains ':' && tailOk b.tail
  && b.above.all aboveOk
  && (match b.below with
      | .none => true
      | .one q m => docLineOk q m && openOk q (m ++ q.tok)
      | .multi q f r => docLineOk q f && openOk q f && r.all (docLineOk q))

def Block.docLooksLikeDef (b : Block) : Bool :=
  match b.below with
  | .multi _ _ r => r.any looksLikeDef
  | _ => false

/-- well-formed blocks: the name is an identifier; the annotation/default part has no `:` (so
    `lambda:` defaults and dict literals are outside the grammar) and is `tailOk` (names, numbers
    without exponent, brackets, operators, one-line string literals without backslashes); the
    inline comment is ARBITRARY text; comment lines contain no triple quote; docstring texts do not
    contain their own quote character nor the other triple quote; no intermediate line of a
    multi-line docstring looks like a field definition. -/
def Block.wf (b : Block) : Bool := b.wfLoose && !b.docLooksLikeDef

/-- header lines: at least one (source line 0), none looks like a field definition, and a `#` occurs
    only on the `class` line or on decorator lines (a trailing comment there is allowed) -/
def headerOk (hdr : List Str) : Bool :=
  !hdr.isEmpty && hdr.all (fun l => !containsFieldDef l && (isHeaderLine l || !l.contains '#'))

end SpVerif.DocScan
