/-
  SpVerif.Model.Engine — the optional-argument fragment of CPython 3.12.1 `argparse` that
  simple-parsing generates (DESIGN.md Appendix D): lexing into option/argument tokens, `--opt=value`,
  abbreviations, the negative-number rule, the five `nargs` shapes, `type=` / `choices=` /
  `required=`, defaults, leftovers.  Positionals, sub-parsers, groups, the help formatter and
  single-dash clusters are NOT modelled (`unmodelled`).

  Mirrors: `_parse_known_args`, `_parse_optional`, `_get_option_tuples`, `_match_argument`,
  `_get_values`, `_get_value`, `_check_value` of Lib/argparse.py (3.12.1), and the `type=` callables
  simple-parsing builds (wrappers/field_parsing.py:70-298, utils.py:119-132,198-227).
-/
import SpVerif.Model.Val
import SpVerif.Model.BoolFlag
namespace SpVerif

inductive NArgs
  | one                -- nargs=None
  | opt                -- '?'
  | star               -- '*'
  | plus               -- '+'
  | num (n : Nat)      -- N
  deriving DecidableEq, Repr

/-- the `type=` callables on base types -/
inductive BConv
  | int | float | str | bool | path | noop
  | enumName (cls : Str) (members : List Str)     -- `parse_enum`: `enum_type[v]`
  deriving DecidableEq, Repr

inductive Conv
  | base (b : BConv)
  | union (cs : List BConv)           -- `try_functions` in declaration order
  | tupleCounter (cs : List BConv)    -- `parse_tuple`'s closure: the k-th call uses item type k mod n
  deriving DecidableEq, Repr

inductive ConvOut
  | ok (v : Scalar)
  | typeErr                  -- ArgumentTypeError / TypeError / ValueError ⇒ argparse error, exit 2
  | raise (exc : Str)        -- any other exception propagates out of parse_args
  | unmodelled
  deriving DecidableEq, Repr

def isDigit (c : Char) : Bool := '0'.toNat ≤ c.toNat && c.toNat ≤ '9'.toNat

/-- decimal digits with single underscores between digits (Python's `int()` grammar, base 10) -/
def parseNatGo : List Char → Nat → Bool → Option Nat
  | [], acc, prev => if prev then some acc else none
  | c :: cs, acc, prev =>
    if isDigit c then parseNatGo cs (acc * 10 + (c.toNat - 48)) true
    else if c = '_' && prev && (match cs with | d :: _ => isDigit d | [] => false) then
      parseNatGo cs acc false
    else none

def parseNat (cs : List Char) : Option Nat := parseNatGo cs 0 false

def isAscii (s : Str) : Bool := s.all (fun c => c.toNat < 128)

/-- `int(token)`; non-ASCII tokens are outside the modelled fragment -/
def parseInt (s : Str) : ConvOut :=
  if !isAscii s then .unmodelled
  else
    match stripWs s with
    | '-' :: r => match parseNat r with
      | some n => .ok (.int (-(n : Int)))
      | none => .typeErr
    | '+' :: r => match parseNat r with
      | some n => .ok (.int n)
      | none => .typeErr
    | r => match parseNat r with
      | some n => .ok (.int n)
      | none => .typeErr

/-- `Path(token)` keeps the text for tokens without normalisable parts; others are unmodelled -/
def pathOk : List Char → Bool
  | [] => false
  | [_] => true
  | '/' :: '/' :: _ => false
  | '.' :: '/' :: _ => false
  | [_, '/'] => false
  | _ :: cs => pathOk cs

def parsePath (s : Str) : ConvOut :=
  if s = ['.'] then .ok (.path s)
  else if pathOk s && !(s.head? = some '.' && s.tail.head? = some '/') then .ok (.path s)
  else .unmodelled

def BConv.apply (fenv : FEnv) : BConv → Str → ConvOut
  | .int, s => parseInt s
  | .float, s => match fenv.lookup s with
    | some (some r) => .ok (.float r)
    | some none => .typeErr
    | none => .unmodelled
  | .str, s => .ok (.str s)
  | .bool, s => match str2bool s with
    | some b => .ok (.bool b)
    | none => .typeErr
  | .path, s => parsePath s
  | .noop, s => .ok (.str s)
  | .enumName cls members, s => if members.contains s then .ok (.enum cls s) else .typeErr   -- ValueError (after the D2 repair; was KeyError)

/-- `try_functions`: first success; every exception of a member is swallowed; none ⇒ ValueError -/
def unionApply (fenv : FEnv) : List BConv → Str → ConvOut
  | [], _ => .typeErr
  | c :: cs, s => match c.apply fenv s with
    | .ok v => .ok v
    | .unmodelled => .unmodelled
    | _ => unionApply fenv cs s

/-- apply a `type=` callable; `k` is the call counter of a `parse_tuple` closure -/
def Conv.apply (fenv : FEnv) (k : Nat) : Conv → Str → ConvOut
  | .base b, s => b.apply fenv s
  | .union cs, s => unionApply fenv cs s
  -- since fix b1a5942 the counter wraps around after the last item (`calls_count % len(types)`);
  -- the closure is never built over an empty list of item types
  | .tupleCounter cs, s => match cs[k % cs.length]? with
    | some b => b.apply fenv s
    | none => .raise "IndexError".toList

inductive ActKind
  | store
  | boolOpt (negs : List Str)     -- BooleanOptionalAction with its negative option strings
  | help
  deriving DecidableEq, Repr

structure Act where
  opts : List Str
  dest : Str
  kind : ActKind
  nargs : NArgs
  conv : Conv
  choices : Option (List Str)     -- simple-parsing only uses string choices (with `type=str`)
  required : Bool
  default : Option Val            -- `none` = argparse.SUPPRESS
  deriving DecidableEq, Repr

inductive ExitKind
  | required | choice | type | nargs | unrecognized | ambiguous | negflag | help | explicit
  deriving DecidableEq, Repr

inductive EOut
  | ok (ns : List (Str × Val)) (extras : List Str) (counters : List Nat)
  | exit (code : Nat) (kind : ExitKind)
  | raise (exc : Str)
  | unmodelled (why : String)
  deriving DecidableEq, Repr

/-! ### lexing (`_parse_optional`, `_get_option_tuples`) -/

inductive Tok
  | A                                                   -- argument
  | dd                                                  -- the literal `--`
  | O (act : Option Nat) (opt : Str) (explicit : Option Str)
  deriving DecidableEq, Repr

/-- `(index of action, option string)` for every option string, in `_option_string_actions` order -/
def optTable (tbl : List Act) : List (Str × Nat) :=
  (tbl.zipIdx).flatMap (fun (a, i) => a.opts.map (fun o => (o, i)))

/-- split at the first `=` -/
def splitEq : Str → Option (Str × Str)
  | [] => none
  | c :: cs => if c = '=' then some ([], cs) else
    match splitEq cs with
    | some (a, b) => some (c :: a, b)
    | none => none

def allDigits (s : Str) : Bool := s.all isDigit

/-- `'^-\d+$|^-\d*\.\d+$'` on ASCII -/
def looksNegNumber : Str → Bool
  | '-' :: r =>
    (!r.isEmpty && allDigits r) ||
    (match splitOnChar '.' r with
     | [a, b] => allDigits a && !b.isEmpty && allDigits b
     | _ => false)
  | _ => false

def hasNegNumberOpts (tbl : List Act) : Bool := (optTable tbl).any (fun p => looksNegNumber p.1)

/-- `_get_option_tuples` (allow_abbrev = True) -/
def optionTuples (ot : List (Str × Nat)) (arg : Str) : List (Nat × Str × Option Str) :=
  match arg with
  | '-' :: '-' :: _ =>
    let (pre, ex) := match splitEq arg with
      | some (a, b) => (a, some b)
      | none => (arg, none)
    (ot.filter (fun p => startsWith p.1 pre)).map (fun p => (p.2, p.1, ex))
  | '-' :: _ :: _ =>
    let short := arg.take 2
    let shortEx := arg.drop 2
    ot.filterMap (fun p =>
      if p.1 = short then some (p.2, p.1, some shortEx)
      else if startsWith p.1 arg then some (p.2, p.1, none)
      else none)
  | _ => []

/-- `_parse_optional`: `.error` = "ambiguous option" -/
def classify (tbl : List Act) (arg : Str) : Except Unit Tok :=
  let ot := optTable tbl
  match arg with
  | [] => .ok .A
  | c :: _ =>
    if c ≠ '-' then .ok .A
    else match ot.lookup arg with
    | some i => .ok (.O (some i) arg none)
    | none =>
      if arg.length = 1 then .ok .A
      else
        let viaEq : Option Tok := match splitEq arg with
          | some (o, e) => match ot.lookup o with
            | some i => some (.O (some i) o (some e))
            | none => none
          | none => none
        match viaEq with
        | some t => .ok t
        | none =>
          match optionTuples ot arg with
          | _ :: _ :: _ => .error ()
          | [(i, o, e)] => .ok (.O (some i) o e)
          | [] =>
            if looksNegNumber arg && !hasNegNumberOpts tbl then .ok .A
            else if arg.contains ' ' then .ok .A
            else .ok (.O none arg none)

/-- classify the whole argv: everything after the first literal `--` is an argument -/
def lexAll (tbl : List Act) : List Str → Except Unit (List Tok)
  | [] => .ok []
  | a :: rest =>
    if a = ['-', '-'] then .ok (.dd :: rest.map (fun _ => Tok.A))
    else match classify tbl a with
      | .error e => .error e
      | .ok t => match lexAll tbl rest with
        | .error e => .error e
        | .ok ts => .ok (t :: ts)

/-! ### consuming (`consume_optional`, `_match_argument`, `_get_values`) -/

def countA : List Tok → Nat
  | .A :: ts => countA ts + 1
  | _ => 0

/-- `_match_argument` for an optional: number of following tokens taken, or `none` = error -/
def matchCount (n : NArgs) (following : List Tok) : Option Nat :=
  let k := countA following
  match n with
  | .one => if k ≥ 1 then some 1 else none
  | .opt => some (min k 1)
  | .star => some k
  | .plus => if k ≥ 1 then some k else none
  | .num m => if k ≥ m then some m else none

structure St where
  ns : List (Str × Val)
  extras : List Str
  seen : List Nat
  counters : List Nat
  deriving Repr

def setKey (ns : List (Str × Val)) (k : Str) (v : Val) : List (Str × Val) :=
  if ns.any (fun p => p.1 = k) then ns.map (fun p => if p.1 = k then (k, v) else p) else ns ++ [(k, v)]

def bump (cs : List Nat) (i : Nat) : List Nat := cs.modify i (· + 1)

inductive VOut
  | ok (v : Val) (counters : List Nat)
  | bad (e : EOut)

/-- convert + choice-check one token for action `i` -/
def getValue (fenv : FEnv) (act : Act) (i : Nat) (counters : List Nat) (s : Str) :
    Except EOut (Scalar × List Nat) :=
  let k := counters.getD i 0
  -- `calls_count += 1` happens only after the item parsed successfully (field_parsing.py:245-254);
  -- a rejected item resets the closure's counter to 0 (fix b1a5942) — the run ends there, so within
  -- one run that is not observable: across runs every counter is a multiple of its arity
  let counters' := match act.conv, act.conv.apply fenv k s with
    | .tupleCounter _, .ok _ => bump counters i
    | _, _ => counters
  match act.conv.apply fenv k s with
  | .typeErr => .error (.exit 2 .type)
  | .raise e => .error (.raise e)
  | .unmodelled => .error (.unmodelled "type conversion outside the modelled fragment")
  | .ok v =>
    match act.choices with
    | some ch => (match v with
      | .str t => if ch.contains t then .ok (v, counters') else .error (.exit 2 .choice)
      | _ => .error (.exit 2 .choice))
    | none => .ok (v, counters')

def getValuesList (fenv : FEnv) (act : Act) (i : Nat) : List Nat → List Str →
    Except EOut (List Scalar × List Nat)
  | cs, [] => .ok ([], cs)
  | cs, s :: ss => match getValue fenv act i cs s with
    | .error e => .error e
    | .ok (v, cs') => match getValuesList fenv act i cs' ss with
      | .error e => .error e
      | .ok (vs, cs'') => .ok (v :: vs, cs'')

/-- `_get_values` (const of every simple-parsing action is None) -/
def getValues (fenv : FEnv) (act : Act) (i : Nat) (counters : List Nat) (args : List Str) :
    Except EOut (Val × List Nat) :=
  match args, act.nargs with
  | [], .opt => .ok (.sc .none, counters)
  | [s], .one => (getValue fenv act i counters s).map (fun (v, c) => (.sc v, c))
  | [s], .opt => (getValue fenv act i counters s).map (fun (v, c) => (.sc v, c))
  | _, _ => (getValuesList fenv act i counters args).map (fun (vs, c) => (.list vs, c))

/-- `take_action` -/
def takeAction (fenv : FEnv) (tbl : List Act) (st : St) (i : Nat) (optString : Str)
    (args : List Str) : Except EOut St :=
  match tbl[i]? with
  | none => .error (.unmodelled "bad action index")
  | some act =>
    match act.kind with
    | .help => .error (.exit 0 .help)
    | .store =>
      match getValues fenv act i st.counters args with
      | .error e => .error e
      | .ok (v, cs) => .ok { st with ns := setKey st.ns act.dest v, seen := i :: st.seen, counters := cs }
    | .boolOpt negs =>
      match getValues fenv act i st.counters args with
      | .error e => .error e
      | .ok (v, cs) =>
        let usedNeg := negs.contains optString
        match v with
        | .sc .none => .ok { st with ns := setKey st.ns act.dest (.sc (.bool (!usedNeg))),
                                     seen := i :: st.seen, counters := cs }
        | .sc (.bool b) =>
          if usedNeg then .error (.exit 2 .negflag)
          else .ok { st with ns := setKey st.ns act.dest (.sc (.bool b)), seen := i :: st.seen, counters := cs }
        | _ => .error (.raise "ValueError".toList)

/-- the main loop over (argument string, token) pairs; `fuel` ≥ number of pairs -/
def consume (fenv : FEnv) (tbl : List Act) : Nat → St → List (Str × Tok) → Except EOut St
  | 0, st, [] => .ok st
  | 0, _, _ :: _ => .error (.unmodelled "fuel")
  | _ + 1, st, [] => .ok st
  | fuel + 1, st, (a, t) :: rest =>
    match t with
    | .A => consume fenv tbl fuel { st with extras := st.extras ++ [a] } rest
    | .dd => consume fenv tbl fuel { st with extras := st.extras ++ [a] } rest
    | .O none _ _ => consume fenv tbl fuel { st with extras := st.extras ++ [a] } rest
    | .O (some i) o (some e) =>
      match tbl[i]? with
      | none => .error (.unmodelled "bad action index")
      | some act =>
        if act.kind = .help then
          -- zero-argument action with an explicit argument: `--help=x` is an error, `-hx` re-splits
          (match o with
           | '-' :: '-' :: _ => .error (.exit 2 .explicit)
           | _ => .error (.unmodelled "single-dash cluster"))
        else
          match act.nargs with
          | .num m => if m = 1 then
              (match takeAction fenv tbl st i o [e] with
               | .error x => .error x
               | .ok st' => consume fenv tbl fuel st' rest)
            else .error (.exit 2 .nargs)
          | _ =>
            match takeAction fenv tbl st i o [e] with
            | .error x => .error x
            | .ok st' => consume fenv tbl fuel st' rest
    | .O (some i) o none =>
      match tbl[i]? with
      | none => .error (.unmodelled "bad action index")
      | some act =>
        if act.kind = .help then .error (.exit 0 .help)
        else
          match matchCount act.nargs (rest.map (·.2)) with
          | none => .error (.exit 2 .nargs)
          | some k =>
            match takeAction fenv tbl st i o ((rest.take k).map (·.1)) with
            | .error x => .error x
            | .ok st' => consume fenv tbl fuel st' (rest.drop k)

/-- namespace initialisation: every action's default, first action wins per dest -/
def initNs (tbl : List Act) : List (Str × Val) :=
  tbl.foldl (fun ns a => match a.default with
    | some d => if ns.any (fun p => p.1 = a.dest) then ns else ns ++ [(a.dest, d)]
    | none => ns) []

/-- after the loop: required check, then conversion of string defaults of unseen actions -/
def finish (fenv : FEnv) (tbl : List Act) (st : St) : List (Act × Nat) → Except EOut St
  | [] => .ok st
  | (a, i) :: rest =>
    if st.seen.contains i then finish fenv tbl st rest
    else if a.required then .error (.exit 2 .required)
    else
      match a.default with
      | some (.sc (.str s)) =>
        if st.ns.lookup a.dest = some (.sc (.str s)) then
          match a.conv.apply fenv (st.counters.getD i 0) s with
          | .ok v => finish fenv tbl { st with ns := setKey st.ns a.dest (.sc v) } rest
          | .typeErr => .error (.exit 2 .type)
          | .raise e => .error (.raise e)
          | .unmodelled => .error (.unmodelled "default conversion")
        else finish fenv tbl st rest
      | _ => finish fenv tbl st rest

/-- `parse_known_args` of the engine: namespace, leftovers, and the closure counters afterwards -/
def run (fenv : FEnv) (tbl : List Act) (counters : List Nat) (argv : List Str) : EOut :=
  match lexAll tbl argv with
  | .error _ => .exit 2 .ambiguous
  | .ok toks =>
    let st0 : St := { ns := initNs tbl, extras := [], seen := [], counters := counters }
    match consume fenv tbl (argv.length + 1) st0 (argv.zip toks) with
    | .error e => e
    | .ok st =>
      match finish fenv tbl st tbl.zipIdx with
      | .error e => e
      | .ok st' => .ok st'.ns st'.extras st'.counters

/-- `parse_args`: leftovers are an error -/
def runStrict (fenv : FEnv) (tbl : List Act) (counters : List Nat) (argv : List Str) : EOut :=
  match run fenv tbl counters argv with
  | .ok ns [] cs => .ok ns [] cs
  | .ok _ (_ :: _) _ => .exit 2 .unrecognized
  | e => e

end SpVerif
