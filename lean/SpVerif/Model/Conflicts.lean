/-
  SpVerif.Model.Conflicts — mirrors `ConflictResolver` (simple_parsing/conflicts.py:65-315) for the
  NONE / EXPLICIT / AUTO modes.  (ALWAYS_MERGE restructures the wrapper list; it is modelled in
  `Model/Merge.lean`.)

  Resolution in these three modes only ever mutates `FieldWrapper.prefix`, so the state is the flat
  list of field wrappers in `_flatten_wrappers` order (roots in registration order, each followed by
  its descendants in pre-order; fields in declaration order), each carrying what the resolver reads:
  name, aliases, the parent wrapper's dest, the nesting level and the current prefix.
-/
import SpVerif.Model.Naming
namespace SpVerif

structure FieldRec where
  name : Str
  parentDest : Str        -- `field_wrapper.parent.dest`
  level : Nat             -- `field_wrapper.nesting_level`
  aliases : List Str
  pref : Str              -- `field_wrapper.prefix` (user prefix for a root wrapper's own fields, else "")
  deriving Repr, DecidableEq

def FieldRec.toFW (r : FieldRec) : FW :=
  { name := r.name, pref := r.pref, dest := r.parentDest ++ '.' :: r.name, aliases := r.aliases }

def FieldRec.opts (cfg : Cfg) (r : FieldRec) : List Str := optionStrings cfg r.toFW

/-- indices (in field order) of the wrappers owning option string `s` -/
def owners (cfg : Cfg) (recs : List FieldRec) (s : Str) : List Nat :=
  (List.range recs.length).filter (fun i => match recs[i]? with
    | some r => (r.opts cfg).contains s
    | none => false)

/-- all option strings in insertion order of the `conflicts` dict (conflicts.py:145-148) -/
def allOpts (cfg : Cfg) (recs : List FieldRec) : List Str := recs.flatMap (·.opts cfg)

/-- `get_conflict` (conflicts.py:131-154): the first option string, in dict insertion order, owned
    by more than one field wrapper, with its owners in field order. -/
def getConflict (cfg : Cfg) (recs : List FieldRec) : Option (Str × List Nat) :=
  match (allOpts cfg recs).find? (fun s => (owners cfg recs s).length > 1) with
  | some s => some (s, owners cfg recs s)
  | none => none

inductive CRErr
  | conflictResolutionError
  | assertionError
  deriving Repr, DecidableEq

/-- `list(filter(bool, s.split(".")))` -/
def words (s : Str) : List Str := (splitOnChar '.' s).filter (fun w => !w.isEmpty)

def setPref (recs : List FieldRec) (i : Nat) (p : Str) : List FieldRec :=
  recs.modify i (fun r => { r with pref := p })

/-- stable insertion by nesting level (`sorted(conflict.wrappers, key=nesting_level)`) -/
def insertByLevel (recs : List FieldRec) (i : Nat) : List Nat → List Nat
  | [] => [i]
  | j :: js =>
    if (recs[i]?.map (·.level)).getD 0 < (recs[j]?.map (·.level)).getD 0 then i :: j :: js
    else j :: insertByLevel recs i js

def sortByLevel (recs : List FieldRec) (l : List Nat) : List Nat :=
  l.foldl (fun acc i => insertByLevel recs i acc) []

/-- one wrapper's step of the loop at conflicts.py:280-315 -/
def autoOne (recs : List FieldRec) (i : Nat) : Except CRErr (List FieldRec) :=
  match recs[i]? with
  | none => .ok recs
  | some r =>
    let explicitP := r.parentDest ++ ['.']
    if r.pref = explicitP then .error .conflictResolutionError
    else
      let avail := words explicitP
      let used := words r.pref
      if avail.length > used.length then
        match avail[(avail.length - 1) - used.length]? with
        | some w => .ok (setPref recs i (w ++ '.' :: r.pref))
        | none => .error .assertionError   -- unreachable
      else .error .conflictResolutionError   -- (after fix 2: was a bare assert)

def autoAll : List FieldRec → List Nat → Except CRErr (List FieldRec)
  | recs, [] => .ok recs
  | recs, i :: is => match autoOne recs i with
    | .ok recs' => autoAll recs' is
    | .error e => .error e

/-- `_fix_conflict_auto` (conflicts.py:237-315) -/
def fixAuto (recs : List FieldRec) (ownersL : List Nat) : Except CRErr (List FieldRec) :=
  let sorted := sortByLevel recs ownersL
  let lvl (i : Nat) := (recs[i]?.map (·.level)).getD 0
  let work := match sorted with
    | a :: b :: rest => if lvl a < lvl b then b :: rest else a :: b :: rest
    | l => l
  if sorted.length < 2 then .error .assertionError else autoAll recs work

/-- `_fix_conflict_explicit` (conflicts.py:191-235) -/
def fixExplicit (cfg : Cfg) (recs : List FieldRec) (s : Str) (ownersL : List Nat) :
    Except CRErr (List FieldRec) :=
  if ownersL.any (fun i => match recs[i]? with | some r => !r.pref.isEmpty | none => false) then
    .error .conflictResolutionError
  else
    let recs' := ownersL.foldl (fun acc i => match acc[i]? with
      | some r => setPref acc i (r.parentDest ++ ['.'])
      | none => acc) recs
    let sub := ownersL.filterMap (fun i => recs'[i]?)
    match getConflict cfg sub with
    | some (s', _) => if s' = s then .error .conflictResolutionError else .ok recs'
    | none => .ok recs'

inductive CROut
  | ok (recs : List FieldRec)
  | err (e : CRErr)
  deriving Repr, DecidableEq

/-- one round of the `while conflict:` loop body for AUTO / EXPLICIT -/
def fixStep (cfg : Cfg) (mode : CR) (recs : List FieldRec) (s : Str) (ownersL : List Nat) :
    Except CRErr (List FieldRec) :=
  match mode with
  | .none => .error .conflictResolutionError
  | .explicit => fixExplicit cfg recs s ownersL
  | .auto => fixAuto recs ownersL
  | .always_merge => .error .assertionError   -- not modelled here (see Model/Merge)

/-- `resolve_and_flatten` loop (conflicts.py:81-126). `fuel` counts the attempts that are left
    (`max_attempts = 50`); the code raises after the 50th fix *whether or not* a conflict is left. -/
def resolveLoop (cfg : Cfg) (mode : CR) : Nat → List FieldRec → CROut
  | 0, _ => .err .conflictResolutionError
  | fuel + 1, recs =>
    match getConflict cfg recs with
    | none => .ok recs
    | some (s, ownersL) =>
      match fixStep cfg mode recs s ownersL with
      | .error e => .err e
      | .ok recs' => if fuel = 0 then .err .conflictResolutionError else resolveLoop cfg mode fuel recs'

def maxAttempts : Nat := 50

def resolve (cfg : Cfg) (mode : CR) (recs : List FieldRec) : CROut :=
  resolveLoop cfg mode maxAttempts recs

/-- Outcome of the whole setup (`_preprocessing`): resolution, then one `add_argument` per field.
    `reserved` are the option strings already taken on the parser when the dataclass arguments are
    added (`-h`, `--help` when `add_help=True`; conflicts with those are *not* seen by the resolver —
    conflicts.py:144 TODO #49 — and surface as `argparse.ArgumentError` from `add_argument`). -/
inductive SetupOut
  | ok (recs : List FieldRec)
  | conflictResolutionError
  | assertionError
  | argumentError
  deriving Repr, DecidableEq

def setup (cfg : Cfg) (mode : CR) (reserved : List Str) (recs : List FieldRec) : SetupOut :=
  match resolve cfg mode recs with
  | .err .conflictResolutionError => .conflictResolutionError
  | .err .assertionError => .assertionError
  | .ok recs' =>
    if (allOpts cfg recs').any (fun s => reserved.contains s) then .argumentError else .ok recs'

end SpVerif
