/-
  C12 — Boolean flags: bare means True, negative means False, values parse, last wins.
  Theorems about `SpVerif.Model.BoolFlag` (mirrors custom_actions.py / utils.str2bool).
-/
import SpVerif.Model.BoolFlag
namespace SpVerif.C12
open SpVerif

/-! ### the occurrence algebra: last occurrence wins, any error rejects -/

/-- an occurrence that argparse + the action accept -/
def Accepts (e : Nat) (o : Occ) (b : Bool) : Prop := callOne e o = .ok b

theorem runOccs_ok_append (e : Nat) (occs : List Occ) (o : Occ) (b : Bool) (cur : Option Bool)
    (hall : ∀ x ∈ occs, ∃ bx, Accepts e x bx) (ho : Accepts e o b) :
    runOccs e cur (occs ++ [o]) = .ok (some b) := by
  induction occs generalizing cur with
  | nil => simp [runOccs, Accepts] at *; simp [ho]
  | cons x xs ih =>
    obtain ⟨bx, hbx⟩ := hall x (by simp)
    simp only [List.cons_append, runOccs]
    unfold Accepts at hbx
    rw [hbx]
    exact ih (some bx) (fun y hy => hall y (by simp [hy]))

/-- **Last wins.** If every occurrence is acceptable, the value is the one named by the last
    occurrence — whatever came before and whatever the default is. Unbounded sequence length. -/
theorem c12_last_wins (e : Nat) (d : Option Bool) (occs : List Occ) (o : Occ) (b : Bool)
    (hall : ∀ x ∈ occs, ∃ bx, Accepts e x bx) (ho : Accepts e o b) :
    flagResult e d (occs ++ [o]) = .ok b := by
  unfold flagResult
  rw [runOccs_ok_append e occs o b none hall ho]

/-- the three acceptable forms and their values -/
theorem c12_bare (e : Nat) : Accepts e .bare true := rfl
theorem c12_negative (e : Nat) : Accepts e .neg false := rfl
theorem c12_valued (e : Nat) (w : Str) (b : Bool) (h : str2bool w = some b) :
    Accepts e (.valued w) b := by simp [Accepts, callOne, h]

/-- no occurrence: the default, or rejection (status 2) for a required flag -/
theorem c12_absent_default (e : Nat) (d : Bool) : flagResult e (some d) [] = .ok d := rfl
theorem c12_absent_required (e : Nat) : flagResult e none [] = .exit 2 := rfl

theorem runOccs_error_of_mem (e : Nat) (occs : List Occ) (cur : Option Bool) (o : Occ) (c : Nat)
    (hmem : o ∈ occs) (hbad : callOne e o = .exit c) : ∃ c', runOccs e cur occs = .error c' := by
  induction occs generalizing cur with
  | nil => cases hmem
  | cons x xs ih =>
    simp only [runOccs]
    cases hx : callOne e x with
    | exit c' => exact ⟨c', rfl⟩
    | ok bx =>
      simp only
      rcases List.mem_cons.mp hmem with h | h
      · subst h; rw [hbad] at hx; cases hx
      · exact ih (some bx) h

theorem runOccs_error_code (occs : List Occ) (cur : Option Bool) (c : Nat)
    (h : runOccs 2 cur occs = .error c) : c = 2 := by
  induction occs generalizing cur with
  | nil => simp [runOccs] at h
  | cons x xs ih =>
    simp only [runOccs] at h
    cases hx : callOne 2 x with
    | ok bx => rw [hx] at h; exact ih (some bx) h
    | exit c' =>
      rw [hx] at h
      have : c' = c := by simpa using h
      subst this
      cases x with
      | bare => simp [callOne] at hx
      | neg => simp [callOne] at hx
      | valued w => simp only [callOne] at hx; split at hx <;> simp_all
      | negValued w => simp only [callOne] at hx; split at hx <;> simp_all

/-- **A value on a negative flag is rejected with status 2**, wherever it occurs in the command
    line (stated for the repaired code, `exitNegValued = 2`). -/
theorem c12_neg_value_rejected (d : Option Bool) (occs : List Occ) (w : Str)
    (h : Occ.negValued w ∈ occs) : flagResult 2 d occs = .exit 2 := by
  have hbad : ∃ c, callOne 2 (.negValued w) = .exit c := by
    simp only [callOne]; split <;> exact ⟨_, rfl⟩
  obtain ⟨c, hc⟩ := hbad
  obtain ⟨c', hc'⟩ := runOccs_error_of_mem 2 occs none _ c h hc
  have := runOccs_error_code occs none c' hc'
  subst this
  simp [flagResult, hc']

/-- a value outside the vocabulary is rejected with status 2 -/
theorem c12_nonword_rejected (d : Option Bool) (occs : List Occ) (w : Str)
    (hw : str2bool w = none) (h : Occ.valued w ∈ occs) : flagResult 2 d occs = .exit 2 := by
  have hc : callOne 2 (.valued w) = .exit 2 := by simp [callOne, hw]
  obtain ⟨c', hc'⟩ := runOccs_error_of_mem 2 occs none _ 2 h hc
  have := runOccs_error_code occs none c' hc'
  subst this
  simp [flagResult, hc']

/-- the only non-zero... the only exit status the model ever produces (for the repaired code) is 2:
    never status 0, never any other code. -/
theorem c12_exit_is_2 (d : Option Bool) (occs : List Occ) (c : Nat)
    (h : flagResult 2 d occs = .exit c) : c = 2 := by
  unfold flagResult at h
  cases hr : runOccs 2 none occs with
  | error c' =>
    rw [hr] at h
    have : c' = c := by simpa using h
    subst this
    exact runOccs_error_code occs none c' hr
  | ok v =>
    rw [hr] at h
    cases v with
    | some b => simp at h
    | none => cases d <;> simp at h; exact h.symm

/-! ### vocabulary -/

/-- the vocabulary is exactly the ten words, compared after strip + lower-casing -/
theorem c12_vocab_true (w : Str) : str2bool w = some true ↔ lower (stripWs w) ∈ trueStrings := by
  unfold str2bool
  constructor
  · intro h
    by_cases h1 : lower (stripWs w) ∈ trueStrings
    · exact h1
    · simp only [h1, ↓reduceIte] at h
      split at h <;> simp at h
  · intro h; simp [h]

theorem true_false_disjoint (v : Str) : v ∈ trueStrings → v ∉ falseStrings := by
  intro h
  simp only [trueStrings, List.mem_cons, List.not_mem_nil, or_false] at h
  rcases h with h | h | h | h | h <;> subst h <;> decide

theorem c12_vocab_false (w : Str) : str2bool w = some false ↔ lower (stripWs w) ∈ falseStrings := by
  unfold str2bool
  constructor
  · intro h
    by_cases h1 : lower (stripWs w) ∈ trueStrings
    · simp [h1] at h
    · simp only [h1, ↓reduceIte] at h
      by_cases h2 : lower (stripWs w) ∈ falseStrings
      · exact h2
      · simp [h2] at h
  · intro h
    have : lower (stripWs w) ∉ trueStrings := fun ht => true_false_disjoint _ ht h
    simp [this, h]

theorem c12_vocab_reject (w : Str) :
    str2bool w = none ↔ (lower (stripWs w) ∉ trueStrings ∧ lower (stripWs w) ∉ falseStrings) := by
  unfold str2bool
  by_cases h1 : lower (stripWs w) ∈ trueStrings
  · simp [h1]
  · by_cases h2 : lower (stripWs w) ∈ falseStrings <;> simp [h1, h2]

/-- **Case-insensitive**: two tokens that differ only in letter case name the same boolean. -/
theorem c12_case_insensitive (w w' : Str) (h : lower (stripWs w) = lower (stripWs w')) :
    str2bool w = str2bool w' := by
  unfold str2bool; rw [h]

/-- concrete vocabulary table (all ten words, upper-cased too): a finite check by `decide`. -/
theorem c12_vocab_table :
    (trueStrings.all (fun w => str2bool w == some true && str2bool (w.map Char.toUpper) == some true)) = true ∧
    (falseStrings.all (fun w => str2bool w == some false && str2bool (w.map Char.toUpper) == some false)) = true := by
  decide

/-! non-vacuity -/
example : flagResult 2 (some true) [.bare, .valued "No".toList, .neg, .valued " TRUE ".toList] = .ok true := by decide
example : flagResult 2 (some true) [.bare, .negValued "true".toList] = .exit 2 := by decide
example : ∀ x ∈ [Occ.bare, .valued "No".toList, .neg], ∃ bx, Accepts 2 x bx := by
  intro x hx
  simp only [List.mem_cons, List.not_mem_nil, or_false] at hx
  rcases hx with h | h | h <;> subst h
  · exact ⟨true, rfl⟩
  · exact ⟨false, by show callOne _ _ = _; decide⟩
  · exact ⟨false, rfl⟩

end SpVerif.C12
