/-
  C12 — Boolean flags: bare means True, negative means False, values parse, last wins.
  Theorems about `SpVerif.Model.BoolFlag` (mirrors custom_actions.py / utils.str2bool) and about
  `SpVerif.Model.BoolFlagE2E` (option strings → negative option strings → which occurrence a token
  is → the occurrence algebra).  String lemmas live in `SpVerif.Lemmas.BoolFlag`.

  Sections: the occurrence algebra · the negative option STRINGS (shape, counterparts, injectivity /
  no collision, the explicit option — full statements since repo fixes 7335e5b / c681aea) · classification and the end-to-end
  path · vocabulary (exact words, case-insensitivity).
-/
import SpVerif.Model.BoolFlag
import SpVerif.Model.BoolFlagE2E
import SpVerif.Lemmas.BoolFlag
namespace SpVerif.C12
open SpVerif SpVerif.BoolFlagL

/-! ### the occurrence algebra: last occurrence wins, any error rejects -/

/-- an occurrence that argparse + the action accept -/
def Accepts (e : Nat) (o : Occ) (b : Bool) : Prop := callOne e o = .ok b

theorem runOccs_ok_append (e : Nat) (occs : List Occ) (o : Occ) (b : Bool) (cur : Option Bool)
    (hall : ∀ x ∈ occs, ∃ bx, Accepts e x bx) (ho : Accepts e o b) :
    runOccs e cur (occs ++ [o]) = .ok (some b) := by
  induction occs generalizing cur with
  | nil => simp [runOccs, Accepts] at *; simp [ho]
  | cons x xs ih =>
    obtain ⟨bx, hbx⟩ := hall x (by simp)
    simp only [List.cons_append, runOccs]
    unfold Accepts at hbx
    rw [hbx]
    exact ih (some bx) (fun y hy => hall y (by simp [hy]))

/-- **Last wins.** If every occurrence is acceptable, the value is the one named by the last
    occurrence — whatever came before and whatever the default is. Unbounded sequence length. -/
theorem c12_last_wins (e : Nat) (d : Option Bool) (occs : List Occ) (o : Occ) (b : Bool)
    (hall : ∀ x ∈ occs, ∃ bx, Accepts e x bx) (ho : Accepts e o b) :
    flagResult e d (occs ++ [o]) = .ok b := by
  unfold flagResult
  rw [runOccs_ok_append e occs o b none hall ho]

/-- the three acceptable forms and their values (which command-line token IS a bare / negative /
    valued occurrence is decided by `BoolE2E.classify`, see `c12_classify_neg`, `c12_e2e_last_wins`) -/
theorem c12_bare (e : Nat) : Accepts e .bare true := rfl
theorem c12_negative (e : Nat) : Accepts e .neg false := rfl
theorem c12_valued (e : Nat) (w : Str) (b : Bool) (h : str2bool w = some b) :
    Accepts e (.valued w) b := by simp [Accepts, callOne, h]

/-- no occurrence: the default, or rejection (status 2) for a required flag -/
theorem c12_absent_default (e : Nat) (d : Bool) : flagResult e (some d) [] = .ok d := rfl
theorem c12_absent_required (e : Nat) : flagResult e none [] = .exit 2 := rfl

theorem runOccs_error_of_mem (e : Nat) (occs : List Occ) (cur : Option Bool) (o : Occ) (c : Nat)
    (hmem : o ∈ occs) (hbad : callOne e o = .exit c) : ∃ c', runOccs e cur occs = .error c' := by
  induction occs generalizing cur with
  | nil => cases hmem
  | cons x xs ih =>
    simp only [runOccs]
    cases hx : callOne e x with
    | exit c' => exact ⟨c', rfl⟩
    | ok bx =>
      simp only
      rcases List.mem_cons.mp hmem with h | h
      · subst h; rw [hbad] at hx; cases hx
      · exact ih (some bx) h

theorem runOccs_error_code (occs : List Occ) (cur : Option Bool) (c : Nat)
    (h : runOccs 2 cur occs = .error c) : c = 2 := by
  induction occs generalizing cur with
  | nil => simp [runOccs] at h
  | cons x xs ih =>
    simp only [runOccs] at h
    cases hx : callOne 2 x with
    | ok bx => rw [hx] at h; exact ih (some bx) h
    | exit c' =>
      rw [hx] at h
      have : c' = c := by simpa using h
      subst this
      cases x with
      | bare => simp [callOne] at hx
      | neg => simp [callOne] at hx
      | valued w => simp only [callOne] at hx; split at hx <;> simp_all
      | negValued w => simp only [callOne] at hx; split at hx <;> simp_all

/-- **A value on a negative flag is rejected with status 2**, wherever it occurs in the command
    line (stated for the repaired code, `exitNegValued = 2`). -/
theorem c12_neg_value_rejected (d : Option Bool) (occs : List Occ) (w : Str)
    (h : Occ.negValued w ∈ occs) : flagResult 2 d occs = .exit 2 := by
  have hbad : ∃ c, callOne 2 (.negValued w) = .exit c := by
    simp only [callOne]; split <;> exact ⟨_, rfl⟩
  obtain ⟨c, hc⟩ := hbad
  obtain ⟨c', hc'⟩ := runOccs_error_of_mem 2 occs none _ c h hc
  have := runOccs_error_code occs none c' hc'
  subst this
  simp [flagResult, hc']

/-- a value outside the vocabulary is rejected with status 2 -/
theorem c12_nonword_rejected (d : Option Bool) (occs : List Occ) (w : Str)
    (hw : str2bool w = none) (h : Occ.valued w ∈ occs) : flagResult 2 d occs = .exit 2 := by
  have hc : callOne 2 (.valued w) = .exit 2 := by simp [callOne, hw]
  obtain ⟨c', hc'⟩ := runOccs_error_of_mem 2 occs none _ 2 h hc
  have := runOccs_error_code occs none c' hc'
  subst this
  simp [flagResult, hc']

/-- the only non-zero... the only exit status the model ever produces (for the repaired code) is 2:
    never status 0, never any other code. -/
theorem c12_exit_is_2 (d : Option Bool) (occs : List Occ) (c : Nat)
    (h : flagResult 2 d occs = .exit c) : c = 2 := by
  unfold flagResult at h
  cases hr : runOccs 2 none occs with
  | error c' =>
    rw [hr] at h
    have : c' = c := by simpa using h
    subst this
    exact runOccs_error_code occs none c' hr
  | ok v =>
    rw [hr] at h
    cases v with
    | some b => simp at h
    | none => cases d <;> simp at h; exact h.symm

/-! ### the negative option STRINGS (custom_actions.py:61-126)

  Second sentence of the property: unless a single explicit negative option is declared, each long
  spelling of the positive option has a negative counterpart with the same path prefix, so the negative
  options of same-named fields registered at different destinations never collide. -/

theorem contains_dot_iff (o : Str) : o.contains '.' = true ↔ '.' ∈ o := by simp

/-- **Shape, dotted spelling** (`rpartition` form): the negative prefix is inserted after the LAST
    dot, the path before it is kept, the leading dashes become those of the negative prefix. -/
theorem c12_neg_shape (np P leaf : Str) (hl : '.' ∉ leaf) :
    negOne np (P ++ '.' :: leaf) =
      some (List.replicate (leadingDashes np) '-' ++ lstripDash P ++ '.' :: (lstripDash np ++ leaf)) := by
  have hc : (P ++ '.' :: leaf).contains '.' = true := by simp
  unfold negOne
  rw [if_pos hc, splitOnChar_append_sep, splitOnChar_of_not_mem _ _ hl]
  cases hs : splitOnChar '.' P with
  | nil => exact absurd hs (splitOnChar_ne_nil _ _)
  | cons f mid =>
    have hP : joinWith '.' (f :: mid) = P := by rw [← hs]; exact joinWith_splitOnChar '.' P
    have hne : mid ++ [leaf] ≠ [] := by simp
    simp only [List.cons_append]
    cases hr : mid ++ [leaf] with
    | nil => exact absurd hr hne
    | cons r rs =>
      simp only [List.nil_append]
      rw [← hr, List.dropLast_concat, List.getLast?_concat, Option.getD_some,
        joinWith_append_singleton, joinWith_head_append, lstripDash_joinWith, hP]

/-- **Shape, undotted spelling**: the negative prefix replaces the leading dashes. -/
theorem c12_neg_shape_flat (np o : Str) (hd : '.' ∉ o) (hh : o.head? = some '-') :
    negOne np o = some (np ++ lstripDash o) := by
  unfold negOne
  have : ¬ (o.contains '.' = true) := by simpa using hd
  rw [if_neg this, if_pos hh]

/-- the review's form: `--path.leaf ↦ --path.noleaf` for every path (any number of dots) -/
theorem c12_neg_shape_long (path leaf : Str) (hp : path.head? ≠ some '-') (hl : '.' ∉ leaf) :
    negOne "--no".toList ("--".toList ++ path ++ '.' :: leaf) =
      some ("--".toList ++ path ++ ".no".toList ++ leaf) := by
  rw [c12_neg_shape _ _ _ hl]
  have e1 : lstripDash ("--".toList ++ path) = path := by
    show lstripDash ('-' :: '-' :: path) = path
    simp [lstripDash_of_head path hp]
  rw [e1]
  have : leadingDashes "--no".toList = 2 := by decide
  have : lstripDash "--no".toList = "no".toList := by decide
  simp_all

example : negOne "--no".toList "--train.a.debug".toList = some "--train.a.nodebug".toList :=
  c12_neg_shape_long "train.a".toList "debug".toList (by decide) (by decide)

/-- **When set-up raises**: exactly for a spelling without a dot that does not start with a dash
    (`NotImplementedError`, positional). -/
theorem c12_neg_fails_iff (np o : Str) :
    negOne np o = none ↔ ('.' ∉ o ∧ o.head? ≠ some '-') := by
  by_cases hd : '.' ∈ o
  · obtain ⟨P, leaf, he, hl⟩ := exists_rpartition o hd
    subst he
    rw [c12_neg_shape _ _ _ hl]
    simp
  · by_cases hh : o.head? = some '-'
    · rw [c12_neg_shape_flat np o hd hh]; simp [hh]
    · have : ¬ (o.contains '.' = true) := by simpa using hd
      unfold negOne
      rw [if_neg this, if_neg hh]
      simp [hd, hh]

theorem negLoop_spec (np : Str) (opts acc l : List Str) (h : negLoop np acc opts = some l) :
    (∀ a ∈ acc, a ∈ l) ∧ (∀ o ∈ opts, ∃ n ∈ l, negOne np o = some n) ∧
      (∀ n ∈ l, n ∈ acc ∨ ∃ o ∈ opts, negOne np o = some n) := by
  induction opts generalizing acc with
  | nil =>
    simp only [negLoop, Option.some.injEq] at h
    subst h
    simp
  | cons o os ih =>
    simp only [negLoop] at h
    cases hn : negOne np o with
    | none => rw [hn] at h; cases h
    | some n =>
      rw [hn] at h
      simp only at h
      -- both "append" branches and the "already present" branch
      have key : ∀ acc', (∀ a ∈ acc, a ∈ acc') → n ∈ acc' → (∀ x ∈ acc', x ∈ acc ∨ x = n) →
          negLoop np acc' os = some l →
          (∀ a ∈ acc, a ∈ l) ∧ (∀ o' ∈ o :: os, ∃ m ∈ l, negOne np o' = some m) ∧
            (∀ m ∈ l, m ∈ acc ∨ ∃ o' ∈ o :: os, negOne np o' = some m) := by
        intro acc' hsub hmem hsup h'
        obtain ⟨h1, h2, h3⟩ := ih acc' h'
        refine ⟨fun a ha => h1 a (hsub a ha), ?_, ?_⟩
        · intro o' ho'
          rcases List.mem_cons.mp ho' with e | e
          · subst e; exact ⟨n, h1 n hmem, hn⟩
          · exact h2 o' e
        · intro m hm
          rcases h3 m hm with e | ⟨o', ho', e⟩
          · rcases hsup m e with e | e
            · exact Or.inl e
            · subst e; exact Or.inr ⟨o, by simp, hn⟩
          · exact Or.inr ⟨o', by simp [ho'], e⟩
      split at h
      · exact key (acc ++ [n]) (by simp +contextual) (by simp) (by simp) h
      · split at h
        · rename_i hin
          exact key acc (fun a ha => ha) hin (fun x hx => Or.inl hx) h
        · exact key (acc ++ [n]) (by simp +contextual) (by simp) (by simp) h

/-- **Counterparts, both directions**: the generated negative options are exactly the images of the
    positive spellings — every spelling has its counterpart and nothing else is generated. -/
theorem c12_neg_counterpart_iff (np : Str) (opts l : List Str) (h : negLoop np [] opts = some l) (n : Str) :
    n ∈ l ↔ ∃ o ∈ opts, negOne np o = some n := by
  obtain ⟨_, h2, h3⟩ := negLoop_spec np opts [] l h
  constructor
  · intro hn
    rcases h3 n hn with e | e
    · cases e
    · exact e
  · rintro ⟨o, ho, e⟩
    obtain ⟨m, hm, e'⟩ := h2 o ho
    rw [e] at e'; cases e'; exact hm

theorem negLoop_total (np : Str) (opts acc : List Str) (h : ∀ o ∈ opts, negOne np o ≠ none) :
    ∃ l, negLoop np acc opts = some l := by
  induction opts generalizing acc with
  | nil => exact ⟨acc, rfl⟩
  | cons o os ih =>
    have ih' := fun a => ih a (fun x hx => h x (by simp [hx]))
    simp only [negLoop]
    cases hn : negOne np o with
    | none => exact absurd hn (h o (by simp))
    | some n =>
      simp only
      split
      · exact ih' _
      · split
        · exact ih' _
        · exact ih' _

/-- **Every spelling that starts with a dash gets a negative counterpart** (the option strings of a
    non-positional field all start with a dash, see `c12_e2e_counterpart`): set-up does not raise and
    each positive spelling `o` has `negOne np o` among the negative option strings. -/
theorem c12_neg_counterpart (np : Str) (opts : List Str) (h : ∀ o ∈ opts, o.head? = some '-') :
    ∃ l, negLoop np [] opts = some l ∧ ∀ o ∈ opts, ∃ n ∈ l, negOne np o = some n := by
  have hne : ∀ o ∈ opts, negOne np o ≠ none := by
    intro o ho hnone
    exact ((c12_neg_fails_iff np o).mp hnone).2 (h o ho)
  obtain ⟨l, hl⟩ := negLoop_total np opts [] hne
  exact ⟨l, hl, (negLoop_spec np opts [] l hl).2.1⟩

/-- set-up raises iff some spelling is positional-looking -/
theorem c12_neg_loop_fails_iff (np : Str) (opts : List Str) :
    negLoop np [] opts = none ↔ ∃ o ∈ opts, '.' ∉ o ∧ o.head? ≠ some '-' := by
  constructor
  · intro h
    apply Classical.byContradiction
    intro hno
    have hne : ∀ o ∈ opts, negOne np o ≠ none := by
      intro o ho hnone
      exact hno ⟨o, ho, (c12_neg_fails_iff np o).mp hnone⟩
    obtain ⟨l, hl⟩ := negLoop_total np opts [] hne
    rw [h] at hl; cases hl
  · rintro ⟨o, ho, hbad⟩
    cases hl : negLoop np [] opts with
    | none => rfl
    | some l =>
      obtain ⟨n, _, hn⟩ := (negLoop_spec np opts [] l hl).2.1 o ho
      rw [(c12_neg_fails_iff np o).mpr hbad] at hn; cases hn

example : ∀ o ∈ ["-v".toList, "--v".toList, "--a.b.v".toList, "--a.b.my-flag".toList], o.head? = some '-' := by decide

/-! #### no collisions -/

/-- the value of `negOne` on a dotted spelling determines the spelling up to its leading dashes -/
theorem neg_dotted_inj (np P leaf P' leaf' : Str) (hl : '.' ∉ leaf) (hl' : '.' ∉ leaf')
    (h : negOne np (P ++ '.' :: leaf) = negOne np (P' ++ '.' :: leaf')) :
    lstripDash P = lstripDash P' ∧ leaf = leaf' := by
  rw [c12_neg_shape _ _ _ hl, c12_neg_shape _ _ _ hl'] at h
  have h := Option.some.inj h
  rw [List.append_assoc, List.append_assoc] at h
  have h := List.append_cancel_left h
  -- compare what follows the last dot
  have hseg := congrArg lastSeg h
  rw [lastSeg_dot _ _ _ hl, lastSeg_dot _ _ _ hl'] at hseg
  have hleaf : leaf = leaf' := List.append_cancel_left hseg
  subst hleaf
  exact ⟨List.append_cancel_right h, rfl⟩

/-- **Injectivity**: two positive spellings with the same number of leading dashes and the same
    negative counterpart are the same spelling — for every negative prefix (even one that contains
    dots), every path depth. -/
theorem c12_neg_injective (np o o' n : Str) (hd : leadingDashes o = leadingDashes o')
    (h : negOne np o = some n) (h' : negOne np o' = some n) : o = o' := by
  have hnp := dashes_append_lstripDash np
  by_cases hdot : '.' ∈ o
  · obtain ⟨P, leaf, he, hl⟩ := exists_rpartition o hdot
    subst he
    by_cases hdot' : '.' ∈ o'
    · obtain ⟨P', leaf', he', hl'⟩ := exists_rpartition o' hdot'
      subst he'
      obtain ⟨hP, hleaf⟩ := neg_dotted_inj np P leaf P' leaf' hl hl' (by rw [h, h'])
      apply eq_of_dashes_of_body _ _ hd
      rw [lstripDash_append_ne _ _ _ (by decide), lstripDash_append_ne _ _ _ (by decide), hP, hleaf]
    · -- dotted against undotted: count the dots
      exfalso
      have hh' : o'.head? = some '-' := by
        apply Classical.byContradiction
        intro hx
        rw [(c12_neg_fails_iff np o').mpr ⟨hdot', hx⟩] at h'; cases h'
      rw [c12_neg_shape _ _ _ hl] at h
      rw [c12_neg_shape_flat np o' hdot' hh'] at h'
      have e := (Option.some.inj h).trans (Option.some.inj h').symm
      have e2 : np ++ lstripDash o' = List.replicate (leadingDashes np) '-' ++ (lstripDash np ++ lstripDash o') := by
        rw [← List.append_assoc, hnp]
      rw [e2, List.append_assoc] at e
      have e := congrArg (List.count '.') (List.append_cancel_left e)
      have c0 : (lstripDash o').count '.' = 0 := by
        apply count_dot_of_not_mem
        intro hm
        have := dashes_append_lstripDash o'
        exact hdot' (by rw [← this]; simp [hm])
      simp only [List.count_append, List.count_cons_self, c0] at e
      omega
  · have hh : o.head? = some '-' := by
      apply Classical.byContradiction
      intro hx
      rw [(c12_neg_fails_iff np o).mpr ⟨hdot, hx⟩] at h; cases h
    rw [c12_neg_shape_flat np o hdot hh] at h
    by_cases hdot' : '.' ∈ o'
    · exfalso
      obtain ⟨P', leaf', he', hl'⟩ := exists_rpartition o' hdot'
      subst he'
      rw [c12_neg_shape _ _ _ hl'] at h'
      have e := (Option.some.inj h').trans (Option.some.inj h).symm
      have e2 : np ++ lstripDash o = List.replicate (leadingDashes np) '-' ++ (lstripDash np ++ lstripDash o) := by
        rw [← List.append_assoc, hnp]
      rw [e2, List.append_assoc] at e
      have e := congrArg (List.count '.') (List.append_cancel_left e)
      have c0 : (lstripDash o).count '.' = 0 := by
        apply count_dot_of_not_mem
        intro hm
        have := dashes_append_lstripDash o
        exact hdot (by rw [← this]; simp [hm])
      simp only [List.count_append, List.count_cons_self, c0] at e
      omega
    · have hh' : o'.head? = some '-' := by
        apply Classical.byContradiction
        intro hx
        rw [(c12_neg_fails_iff np o').mpr ⟨hdot', hx⟩] at h'; cases h'
      rw [c12_neg_shape_flat np o' hdot' hh'] at h'
      have e := (Option.some.inj h).trans (Option.some.inj h').symm
      exact eq_of_dashes_of_body _ _ hd (List.append_cancel_left e)

/-- the full statement without the dash-count hypothesis is FALSE for the code: `-a` and `--a` share
    `--noa` (deliberately, custom_actions.py:118-120) -/
def NegInjectiveAll : Prop :=
  ∀ np o o' n : Str, negOne np o = some n → negOne np o' = some n → o = o'

theorem c12_neg_injective_witness : ¬ NegInjectiveAll := by
  intro h
  have := h "--no".toList "-a".toList "--a".toList "--noa".toList (by decide) (by decide)
  exact absurd this (by decide)

/-- **Same-named fields registered at different destinations never collide**: the option lists of
    two actions whose spellings all have the same number `k` of leading dashes (the long spellings,
    `k = 2`) and are pairwise different have disjoint negative option strings. -/
theorem c12_neg_no_collision (np : Str) (k : Nat) (opts opts' l l' : List Str)
    (hk : ∀ o ∈ opts, leadingDashes o = k) (hk' : ∀ o ∈ opts', leadingDashes o = k)
    (hdis : ∀ o ∈ opts, o ∉ opts')
    (hl : negLoop np [] opts = some l) (hl' : negLoop np [] opts' = some l') :
    ∀ n ∈ l, n ∉ l' := by
  intro n hn hn'
  obtain ⟨o, ho, e⟩ := (c12_neg_counterpart_iff np opts l hl n).mp hn
  obtain ⟨o', ho', e'⟩ := (c12_neg_counterpart_iff np opts' l' hl' n).mp hn'
  have := c12_neg_injective np o o' n ((hk o ho).trans (hk' o' ho').symm) e e'
  subst this
  exact hdis o ho ho'

example : negOne "--disable_".toList "--my-flag".toList = some "--disable_my-flag".toList :=
  c12_neg_shape_flat _ _ (by decide) (by decide)
-- hypotheses of `c12_neg_injective` / `c12_neg_no_collision` on the long spellings of two destinations
example : leadingDashes "--train.debug".toList = leadingDashes "--valid.debug".toList := by decide
example : (∀ o ∈ ["--train.debug".toList, "--train.my-debug".toList], leadingDashes o = 2) ∧
    (∀ o ∈ ["--train.debug".toList, "--train.my-debug".toList], o ∉ ["--valid.debug".toList]) := by decide
example : negLoop "--no".toList [] ["--train.debug".toList, "--train.my-debug".toList]
    = some ["--train.nodebug".toList, "--train.nomy-debug".toList] := by decide
example : negLoop "--no".toList [] ["--valid.debug".toList] = some ["--valid.nodebug".toList] := by decide

/-! #### the explicit `negative_option` (custom_actions.py:65-95)

  Both former open findings of this section are fixed in the code (repo 7335e5b: no `assert` on the
  conflict prefix; repo c681aea: the prefix is dashed under DASH), so the full statements are theorems. -/

/-- FULL statement of "the declared negative option carries the same conflict prefix as the positive
    one": exactly one negative option string, namely dashes + prefix + the declared word — for EVERY
    prefix (with or without a final dot, user prefix included). -/
def ExplicitCarriesPrefix : Prop :=
  ∀ no cp : Str, ∃ k, negExplicit no cp = some [List.replicate k '-' ++ cp ++ lstripDash no]

/-- the closed form, with the number of dashes: those of the declared option when it has some, else two
    — one only for an unprefixed single character -/
theorem c12_explicit_shape (no cp : Str) :
    ∃ k, negExplicit no cp = some [List.replicate k '-' ++ cp ++ lstripDash no] ∧
      (no.head? = some '-' → k = leadingDashes no) ∧
      (no.head? ≠ some '-' → k = if cp.length + no.length > 1 then 2 else 1) := by
  unfold negExplicit
  by_cases hd : no.head? = some '-'
  · refine ⟨leadingDashes no, ?_, fun _ => rfl, fun hx => absurd hd hx⟩
    simp [hd]
  · rw [lstripDash_of_head no hd]
    by_cases hlen : cp.length + no.length > 1
    · refine ⟨2, ?_, fun hx => absurd hx hd, fun _ => by rw [if_pos hlen]⟩
      have : 1 < cp.length + no.length := hlen
      simp [hd, this]
    · refine ⟨1, ?_, fun hx => absurd hx hd, fun _ => by rw [if_neg hlen]⟩
      have : ¬ 1 < cp.length + no.length := hlen
      simp [hd, this]

/-- **the full statement holds** (it was refuted by `"silent"`, `"x_"` before repo fix 7335e5b) -/
theorem c12_explicit_prefix : ExplicitCarriesPrefix := by
  intro no cp
  obtain ⟨k, hk, _⟩ := c12_explicit_shape no cp
  exact ⟨k, hk⟩

/-- set-up never raises on the explicit branch, whatever the conflict prefix -/
theorem c12_explicit_never_raises (no cp : Str) : negExplicit no cp ≠ none := by
  obtain ⟨k, hk, _⟩ := c12_explicit_shape no cp
  rw [hk]; simp

/-- **the declared negative options of the same field at different conflict prefixes never collide** -/
theorem c12_explicit_injective (no cp cp' : Str) (l : List Str)
    (h : negExplicit no cp = some l) (h' : negExplicit no cp' = some l) : cp = cp' := by
  obtain ⟨k, hk, hk1, hk2⟩ := c12_explicit_shape no cp
  obtain ⟨k', hk', hk1', hk2'⟩ := c12_explicit_shape no cp'
  rw [h] at hk; rw [h'] at hk'
  have e : List.replicate k '-' ++ cp ++ lstripDash no = List.replicate k' '-' ++ cp' ++ lstripDash no := by
    have := (Option.some.inj hk).symm.trans (Option.some.inj hk')
    exact List.head_eq_of_cons_eq this
  have e := List.append_cancel_right e
  by_cases hd : no.head? = some '-'
  · rw [hk1 hd, hk1' hd] at e
    exact List.append_cancel_left e
  · -- undashed word: one dash only for an unprefixed single character
    have hlen := congrArg List.length e
    simp only [List.length_append, List.length_replicate] at hlen
    have a1 := hk2 hd
    have a2 := hk2' hd
    have hkk : k = k' := by
      split at a1 <;> split at a2 <;> omega
    subst hkk
    exact List.append_cancel_left e

-- regression: the former witness of the open finding C12-explicit-neg-user-prefix (was `none`)
example : negExplicit "silent".toList "x_".toList = some ["--x_silent".toList] := by decide
example : negExplicit "--quiet".toList "x".toList = some ["--xquiet".toList] := by decide
example : negExplicit "silent".toList "train.".toList = some ["--train.silent".toList] := by decide
example : negExplicit "-s".toList "a.b.".toList = some ["-a.b.s".toList] := by decide
example : negExplicit "q".toList [] = some ["-q".toList] := by decide

/-! ### which occurrence a command-line token is, and the whole path of one bool field

  `BoolE2E.classify` mirrors `used_negative_flag = option_string in self.negative_option_strings`
  (custom_actions.py:156); `BoolE2E.run` composes option_strings (Model/Naming) → negative option
  strings → classification → the occurrence algebra, and is compared with the real parser end to end
  (op `bool.e2e`: real option strings, real negative option strings, real outcome). -/

open SpVerif.BoolE2E in
/-- **a negative option string IS a negative occurrence** (item: `n ∈ negStrings … → classify … n = .neg`) -/
theorem c12_classify_neg (pos : List Str) (np : Str) (no : Option Str) (cp : Str) (negs : List Str)
    (_h : negStrings pos np no cp = some negs) (n : Str) (hn : n ∈ negs) :
    classify pos negs ⟨n, none⟩ = some .neg ∧
      ∀ w, classify pos negs ⟨n, some w⟩ = some (.negValued w) := by
  simp [classify, hn]

open SpVerif.BoolE2E in
/-- a positive spelling that is not also a negative one is a bare / valued occurrence -/
theorem c12_classify_pos (pos negs : List Str) (p : Str) (hp : p ∈ pos) (hn : p ∉ negs) :
    classify pos negs ⟨p, none⟩ = some .bare ∧
      ∀ w, classify pos negs ⟨p, some w⟩ = some (.valued w) := by
  simp [classify, hp, hn]

open SpVerif.BoolE2E in
/-- the negative test comes first: a string that is both (alias `nox` next to `x`) is read as negative -/
theorem c12_classify_neg_first (pos negs : List Str) (p : Str) (hn : p ∈ negs) :
    classify pos negs ⟨p, none⟩ = some .neg := by
  simp [classify, hn]

open SpVerif.BoolE2E in
example : classify ["--x".toList, "--nox".toList] ["--nox".toList, "--nonox".toList] ⟨"--nox".toList, none⟩
    = some .neg := by decide
open SpVerif.BoolE2E in
example : classify ["-v".toList, "--v".toList] ["--nov".toList] ⟨"-v".toList, some "No".toList⟩
    = some (.valued "No".toList) := by decide

/-! option strings of a non-positional field start with a dash (Model/Naming) -/

theorem dashFor_head (x : Str) : (dashFor x).head? = some '-' := by
  unfold dashFor; split <;> rfl

theorem aliasPair_head (pref a : Str) : (aliasPair pref a).1.head? = some '-' := by
  unfold aliasPair
  split
  · rfl
  · rfl
  · exact dashFor_head _

theorem basePairs_head (cfg : Cfg) (fw : FW) (p : Str × Str) (h : p ∈ basePairs cfg fw) :
    p.1.head? = some '-' := by
  unfold basePairs at h
  simp only [List.mem_append, List.mem_map] at h
  rcases h with (⟨c, _, rfl⟩ | h) | ⟨a, _, rfl⟩
  · exact dashFor_head _
  · split at h
    · simp only [List.mem_map] at h
      obtain ⟨c, _, rfl⟩ := h
      rfl
    · cases h
  · exact aliasPair_head _ _

theorem optionList_head (cfg : Cfg) (fw : FW) (hpos : fw.positional = false) (o : Str)
    (h : o ∈ optionList cfg fw) : o.head? = some '-' := by
  unfold optionList at h
  simp only [hpos, Bool.false_eq_true, ↓reduceIte, List.mem_map, List.mem_append] at h
  obtain ⟨p, hp, rfl⟩ := h
  have hp1 : p.1.head? = some '-' := by
    rcases hp with hp | hp
    · exact basePairs_head cfg fw p hp
    · unfold extraPairs at hp
      split at hp
      · simp only [List.mem_map] at hp
        obtain ⟨q, _, rfl⟩ := hp
        exact dashFor_head _
      · cases hp
  cases h1 : p.1 with
  | nil => rw [h1] at hp1; cases hp1
  | cons c cs => rw [h1] at hp1; simpa using hp1

theorem mem_of_mem_dedup (l : List Str) (x : Str) (h : x ∈ dedup l) : x ∈ l := by
  induction l with
  | nil => cases h
  | cons y ys ih =>
    simp only [dedup, List.mem_cons, List.mem_filter] at h ⊢
    rcases h with h | h
    · exact Or.inl h
    · exact Or.inr (ih h.1)

theorem mem_insertByLen (x y : Str) (l : List Str) : y ∈ insertByLen x l ↔ y = x ∨ y ∈ l := by
  induction l with
  | nil => simp [insertByLen]
  | cons z zs ih =>
    simp only [insertByLen]
    split
    · simp
    · simp only [List.mem_cons, ih]
      constructor
      · rintro (h | h | h)
        · exact Or.inr (Or.inl h)
        · exact Or.inl h
        · exact Or.inr (Or.inr h)
      · rintro (h | h | h)
        · exact Or.inr (Or.inl h)
        · exact Or.inl h
        · exact Or.inr (Or.inr h)

theorem mem_sortByLen (l : List Str) (y : Str) : y ∈ sortByLen l ↔ y ∈ l := by
  have : ∀ acc : List Str, y ∈ l.foldl (fun acc x => insertByLen x acc) acc ↔ y ∈ acc ∨ y ∈ l := by
    induction l with
    | nil => simp
    | cons x xs ih =>
      intro acc
      simp only [List.foldl_cons, ih, mem_insertByLen, List.mem_cons]
      constructor
      · rintro ((h | h) | h)
        · exact Or.inr (Or.inl h)
        · exact Or.inl h
        · exact Or.inr (Or.inr h)
      · rintro (h | h | h)
        · exact Or.inl (Or.inr h)
        · exact Or.inl (Or.inl h)
        · exact Or.inr h
  simpa [sortByLen] using this []

theorem optionStrings_head (cfg : Cfg) (fw : FW) (hpos : fw.positional = false) (o : Str)
    (h : o ∈ optionStrings cfg fw) : o.head? = some '-' := by
  unfold optionStrings at h
  simp only [hpos, Bool.false_eq_true, ↓reduceIte, mem_sortByLen] at h
  exact optionList_head cfg fw hpos o (mem_of_mem_dedup _ _ h)

open SpVerif.BoolE2E in
/-- **End to end, every configuration**: for every dash variant, generation mode, nested mode, name,
    prefix, destination and alias list of a non-positional bool field and every negative prefix, the
    parser can be built (no explicit negative option ⇒ set-up never raises) and EVERY spelling of the
    positive option has its negative counterpart `negOne np p` among the negative option strings. -/
theorem c12_e2e_counterpart (s : Setup) (hpos : s.fw.positional = false) (hno : s.negOption = none) :
    ∃ negs, optionsOf s = some (optionStrings s.cfg s.fw, negs) ∧
      ∀ p ∈ optionStrings s.cfg s.fw, ∃ n ∈ negs, negOne s.negPrefix p = some n := by
  obtain ⟨l, hl, hc⟩ := c12_neg_counterpart s.negPrefix (optionStrings s.cfg s.fw)
    (optionStrings_head s.cfg s.fw hpos)
  refine ⟨l, ?_, hc⟩
  simp [optionsOf, negStrings, hno, hl]

open SpVerif.BoolE2E in
theorem mapM_classify_append (pos negs : List Str) (ts : List Tok) (t : Tok) (occs : List Occ) (o : Occ)
    (h1 : ts.mapM (classify pos negs) = some occs) (h2 : classify pos negs t = some o) :
    (ts ++ [t]).mapM (classify pos negs) = some (occs ++ [o]) := by
  induction ts generalizing occs with
  | nil =>
    simp only [List.mapM_nil, Option.pure_def, Option.some.injEq] at h1
    subst h1
    simp [h2]
  | cons x xs ih =>
    simp only [List.mapM_cons, Option.bind_eq_bind, Option.bind_eq_some_iff] at h1
    obtain ⟨ox, hx, rest, hr, e⟩ := h1
    simp only [Option.pure_def, Option.some.injEq] at e
    subst e
    simp [hx, ih rest hr]

open SpVerif.BoolE2E in
/-- **End to end, the negative option yields False and the positive one True, last wins**: on a parser
    that can be built, a command line of acceptable occurrences that ends with a negative option string
    gives `False`; ending with a positive spelling (that is not also a negative one) gives `True`, ending
    with `p v` gives the boolean named by `v` — whatever the default and whatever came before. -/
theorem c12_e2e_last_wins (e : Nat) (s : Setup) (d : Option Bool) (pos negs : List Str)
    (hs : optionsOf s = some (pos, negs)) (ts : List Tok) (occs : List Occ)
    (hts : ts.mapM (classify pos negs) = some occs) (hall : ∀ x ∈ occs, ∃ bx, Accepts e x bx) :
    (∀ n ∈ negs, run e s d (ts ++ [⟨n, none⟩]) = .res (.ok false)) ∧
    (∀ p ∈ pos, p ∉ negs → run e s d (ts ++ [⟨p, none⟩]) = .res (.ok true)) ∧
    (∀ p ∈ pos, p ∉ negs → ∀ w b, str2bool w = some b →
        run e s d (ts ++ [⟨p, some w⟩]) = .res (.ok b)) := by
  refine ⟨?_, ?_, ?_⟩
  · intro n hn
    have hc : classify pos negs ⟨n, none⟩ = some .neg := by simp [classify, hn]
    simp only [run, hs, mapM_classify_append pos negs ts _ occs _ hts hc]
    rw [c12_last_wins e d occs .neg false hall (c12_negative e)]
  · intro p hp hpn
    have hc := (c12_classify_pos pos negs p hp hpn).1
    simp only [run, hs, mapM_classify_append pos negs ts _ occs _ hts hc]
    rw [c12_last_wins e d occs .bare true hall (c12_bare e)]
  · intro p hp hpn w b hw
    have hc := (c12_classify_pos pos negs p hp hpn).2 w
    simp only [run, hs, mapM_classify_append pos negs ts _ occs _ hts hc]
    rw [c12_last_wins e d occs (.valued w) b hall (c12_valued e w b hw)]

open SpVerif.BoolE2E in
/-- a value on a negative option string is rejected with status 2, end to end -/
theorem c12_e2e_neg_value_rejected (s : Setup) (d : Option Bool) (pos negs : List Str)
    (hs : optionsOf s = some (pos, negs)) (ts : List Tok) (occs : List Occ)
    (hts : ts.mapM (classify pos negs) = some occs) (n w : Str) (hn : n ∈ negs)
    (hmem : (⟨n, some w⟩ : Tok) ∈ ts) : run 2 s d ts = .res (.exit 2) := by
  have hocc : Occ.negValued w ∈ occs := by
    clear hs
    induction ts generalizing occs with
    | nil => cases hmem
    | cons x xs ih =>
      simp only [List.mapM_cons, Option.bind_eq_bind, Option.bind_eq_some_iff] at hts
      obtain ⟨ox, hx, rest, hr, e⟩ := hts
      simp only [Option.pure_def, Option.some.injEq] at e
      subst e
      rcases List.mem_cons.mp hmem with h | h
      · subst h
        simp only [classify, hn, ↓reduceIte, Option.some.injEq] at hx
        subst hx; simp
      · exact List.mem_cons_of_mem _ (ih rest hr h)
  simp only [run, hs, hts]
  rw [c12_neg_value_rejected d occs w hocc]

/-! non-vacuity of the end-to-end theorems: a concrete configuration (DASH variant, BOTH generation
    mode, conflict prefix `train.`, name with an underscore) -/
section
open SpVerif.BoolE2E
def exSetup : Setup :=
  { cfg := ⟨.both, .both, .default⟩,
    fw := { name := "my_flag".toList, pref := "train.".toList, dest := "cfg.train.my_flag".toList, aliases := [] },
    negPrefix := "--no".toList, negOption := none }
example : optionsOf exSetup = some (
    ["--train.my_flag".toList, "--train.my-flag".toList, "--cfg.train.my_flag".toList, "--cfg.train.my-flag".toList],
    ["--train.nomy_flag".toList, "--train.nomy-flag".toList, "--cfg.train.nomy_flag".toList, "--cfg.train.nomy-flag".toList]) := by
  decide
example : exSetup.fw.positional = false ∧ exSetup.negOption = none := ⟨rfl, rfl⟩
example : run 2 exSetup (some true)
    [⟨"--train.my-flag".toList, none⟩, ⟨"--cfg.train.my_flag".toList, some "No".toList⟩,
     ⟨"--cfg.train.nomy-flag".toList, none⟩] = .res (.ok false) := by decide
-- regression (was `.setupRaise` before repo fix 7335e5b): a user prefix without a final dot
example : run 2 { exSetup with negOption := some "silent".toList, fw := { exSetup.fw with pref := "x_".toList } }
    (some true) [⟨"--x_silent".toList, none⟩] = .res (.ok false) := by decide
end

/-! #### the declared negative option against the prefix the POSITIVE option shows -/

/-- the conflict prefix as the positive flat spelling shows it (field_wrapper.py:598,602-603): the
    whole `prefix + name` is dashified under `DashVariant.DASH` -/
def posPrefix (cfg : Cfg) (fw : FW) : Str :=
  if cfg.dash = .dashOnly then dashify fw.pref else fw.pref

theorem flatCand_prefix (cfg : Cfg) (fw : FW) :
    ∃ leaf, flatCand cfg fw = posPrefix cfg fw ++ leaf := by
  unfold flatCand posPrefix
  by_cases h : cfg.dash = .dashOnly
  · exact ⟨dashify fw.name, by simp [h, dashify]⟩
  · exact ⟨fw.name, by simp [h]⟩

open SpVerif.BoolE2E in
/-- the prefix handed to the action is the prefix the positive option shows (repo fix c681aea) -/
theorem conflictPrefix_eq_posPrefix (cfg : Cfg) (fw : FW) : conflictPrefix cfg fw = posPrefix cfg fw := rfl

open SpVerif.BoolE2E in
/-- FULL statement, end to end: whenever the parser can be built with a declared negative option, that
    option is `dashes + (the prefix the positive option shows) + the declared word`. -/
def ExplicitMatchesPositive : Prop :=
  ∀ (s : Setup) (no : Str) (pos negs : List Str), s.negOption = some no → optionsOf s = some (pos, negs) →
    ∃ k, negs = [List.replicate k '-' ++ posPrefix s.cfg s.fw ++ lstripDash no]

open SpVerif.BoolE2E in
/-- **the full statement holds in every configuration** — every dash variant, generation mode, nested
    mode, name, prefix (it was refuted under DASH with an underscore in the prefix before repo fix
    c681aea: positive `--my-a.flag`, negative `--my_a.silent`). -/
theorem c12_explicit_matches_positive : ExplicitMatchesPositive := by
  intro s no pos negs hno hs
  unfold optionsOf at hs
  simp only [negStrings, hno, conflictPrefix_eq_posPrefix] at hs
  obtain ⟨k, hk, _⟩ := c12_explicit_shape no (posPrefix s.cfg s.fw)
  rw [hk] at hs
  simp only [Option.some.injEq, Prod.mk.injEq] at hs
  exact ⟨k, hs.2.symm⟩

open SpVerif.BoolE2E in
/-- with a declared negative option the parser can always be built, and there is exactly one negative
    option string -/
theorem c12_explicit_e2e_total (s : Setup) (no : Str) (hno : s.negOption = some no) :
    ∃ n, optionsOf s = some (optionStrings s.cfg s.fw, [n]) := by
  obtain ⟨k, hk, _⟩ := c12_explicit_shape no (conflictPrefix s.cfg s.fw)
  refine ⟨List.replicate k '-' ++ conflictPrefix s.cfg s.fw ++ lstripDash no, ?_⟩
  simp only [optionsOf, negStrings, hno, hk]

section
open SpVerif.BoolE2E
/-- regression: the former witness of the open finding C12-explicit-neg-dash-variant -/
def exDashSetup : Setup :=
  { cfg := ⟨.dashOnly, .flat, .default⟩,
    fw := { name := "flag".toList, pref := "my_a.".toList, dest := "my_a.flag".toList, aliases := [] },
    negPrefix := "--no".toList, negOption := some "silent".toList }
example : optionsOf exDashSetup = some (["--my-a.flag".toList], ["--my-a.silent".toList]) := by decide
example : exDashSetup.negOption = some "silent".toList := rfl
example : run 2 exDashSetup (some true) [⟨"--my-a.flag".toList, none⟩, ⟨"--my-a.silent".toList, none⟩]
    = .res (.ok false) := by decide
end

/-! ### vocabulary -/

/-- the vocabulary is exactly the ten words, compared after strip + lower-casing -/
theorem c12_vocab_true (w : Str) : str2bool w = some true ↔ lower (stripWs w) ∈ trueStrings := by
  unfold str2bool
  constructor
  · intro h
    by_cases h1 : lower (stripWs w) ∈ trueStrings
    · exact h1
    · simp only [h1, ↓reduceIte] at h
      split at h <;> simp at h
  · intro h; simp [h]

theorem true_false_disjoint (v : Str) : v ∈ trueStrings → v ∉ falseStrings := by
  intro h
  simp only [trueStrings, List.mem_cons, List.not_mem_nil, or_false] at h
  rcases h with h | h | h | h | h <;> subst h <;> decide

theorem c12_vocab_false (w : Str) : str2bool w = some false ↔ lower (stripWs w) ∈ falseStrings := by
  unfold str2bool
  constructor
  · intro h
    by_cases h1 : lower (stripWs w) ∈ trueStrings
    · simp [h1] at h
    · simp only [h1, ↓reduceIte] at h
      by_cases h2 : lower (stripWs w) ∈ falseStrings
      · exact h2
      · simp [h2] at h
  · intro h
    have : lower (stripWs w) ∉ trueStrings := fun ht => true_false_disjoint _ ht h
    simp [this, h]

theorem c12_vocab_reject (w : Str) :
    str2bool w = none ↔ (lower (stripWs w) ∉ trueStrings ∧ lower (stripWs w) ∉ falseStrings) := by
  unfold str2bool
  by_cases h1 : lower (stripWs w) ∈ trueStrings
  · simp [h1]
  · by_cases h2 : lower (stripWs w) ∈ falseStrings <;> simp [h1, h2]

/-- **Case-insensitive**: two tokens that differ only in letter case (equal after ASCII lower-casing,
    character by character) name the same boolean — or are both rejected.  Not definitional: `str2bool`
    strips first and lower-cases second, so this needs `strip ∘ lower = lower ∘ strip`. -/
theorem c12_case_insensitive (w w' : Str) (h : w.map lowerChar = w'.map lowerChar) :
    str2bool w = str2bool w' := by
  have h' : lower w = lower w' := h
  unfold str2bool
  simp only [← stripWs_lower, h']

/-- in particular the case of the letters never matters: `str2bool w = str2bool (lower w)` -/
theorem c12_lower_invariant (w : Str) : str2bool (lower w) = str2bool w :=
  c12_case_insensitive _ _ (by show lower (lower w) = lower w; exact lower_idem w)

/-- a token that IS one of the five true-words up to letter case yields `True` (no hypothesis about
    `stripWs`: none of the words starts or ends with a blank) -/
theorem c12_true_word_any_case (w : Str) (h : lower w ∈ trueStrings) : str2bool w = some true := by
  rw [← c12_lower_invariant]
  simp only [trueStrings, List.mem_cons, List.not_mem_nil, or_false] at h
  rcases h with h | h | h | h | h <;> rw [h] <;> decide

theorem c12_false_word_any_case (w : Str) (h : lower w ∈ falseStrings) : str2bool w = some false := by
  rw [← c12_lower_invariant]
  simp only [falseStrings, List.mem_cons, List.not_mem_nil, or_false] at h
  rcases h with h | h | h | h | h <;> rw [h] <;> decide

example : str2bool "tRuE".toList = str2bool "TRUE".toList := c12_case_insensitive _ _ (by decide)
example : str2bool "fAlSe".toList = some false := c12_false_word_any_case _ (by decide)
-- the separators \x1c-\x1f are blanks for `str.strip()` (isSpace) — these two change if `isSpace` changes
example : str2bool "\x1ctrue".toList = some true := by decide
example : str2bool "no\x1f".toList = some false := by decide

/-- concrete vocabulary table (all ten words, upper-cased too): a finite check by `decide`. -/
theorem c12_vocab_table :
    (trueStrings.all (fun w => str2bool w == some true && str2bool (w.map Char.toUpper) == some true)) = true ∧
    (falseStrings.all (fun w => str2bool w == some false && str2bool (w.map Char.toUpper) == some false)) = true := by
  decide

/-! non-vacuity -/
example : flagResult 2 (some true) [.bare, .valued "No".toList, .neg, .valued " TRUE ".toList] = .ok true := by decide
example : flagResult 2 (some true) [.bare, .negValued "true".toList] = .exit 2 := by decide
example : ∀ x ∈ [Occ.bare, .valued "No".toList, .neg], ∃ bx, Accepts 2 x bx := by
  intro x hx
  simp only [List.mem_cons, List.not_mem_nil, or_false] at hx
  rcases hx with h | h | h <;> subst h
  · exact ⟨true, rfl⟩
  · exact ⟨false, by show callOne _ _ = _; decide⟩
  · exact ⟨false, rfl⟩

end SpVerif.C12
