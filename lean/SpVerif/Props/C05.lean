/-
  C05 — to_dict/from_dict, JSON, YAML and file round-trips preserve every value and type.
  Theorems about `SpVerif.Model.Serial` (mirrors encoding.py / decoding.py / serializable.py).
-/
import SpVerif.Model.Serial
import SpVerif.Lemmas.Serial
namespace SpVerif.C05
open SpVerif SpVerif.Serial

/-! ### the type grammar of the property (`wf`), typing of values (`hasType`) -/

/-- key types of `Dict[K, V]` -/
def keyTy : FTy → Bool
  | .str | .int | .bool | .path => true
  | .enum _ _ => true
  | _ => false

mutual
/-- element types of `Set[T]`: hashable values -/
def hashTy : FTy → Bool
  | .int | .float | .str | .bool | .path => true
  | .enum _ _ => true
  | .vtuple t => hashTy t
  | .tuple ts => hashTyL ts
  | _ => false
def hashTyL : List FTy → Bool
  | [] => true
  | t :: ts => hashTy t && hashTyL ts
end

def litLeaf : Val → Bool
  | .str _ | .int _ | .bool _ => true
  | _ => false

mutual
/-- **InGrammar**: the type grammar of the property (no `Any`, no per-field hooks, every field in the dict) -/
def wf : FTy → Bool
  | .int | .float | .str | .bool | .path => true
  | .any | .noneT => false
  | .enum _ _ => true
  | .literal vals => vals.all litLeaf
  | .list t => wf t
  | .vtuple t => wf t
  | .set t => wf t && hashTy t
  | .tuple ts => wfL ts
  | .dict k v => keyTy k && wf v
  | .union alts => wfU alts
  | .dc _ _ fs => wfF fs
def wfL : List FTy → Bool
  | [] => true
  | t :: ts => wf t && wfL ts
def wfU : List FTy → Bool
  | [] => true
  | t :: ts => (t.isNoneT || wf t) && wfU ts
def wfF : List (Str × FMeta × Option Val × FTy) → Bool
  | [] => true
  | (n, m, _, t) :: fs =>
    m.toDict && m.enc.isNone && m.dec.isNone && wf t && !(n == DC_TYPE_KEY) && fs.all (fun f => !(f.1 == n)) && wfF fs
end

/-- set elements are pairwise different under Python `==` -/
def elemsDistinct : List Val → Bool
  | [] => true
  | x :: xs => xs.all (fun y => !pyEq x y) && elemsDistinct xs

mutual
/-- **HasType**: `v` is an instance of the annotation `t` (Dict fields described as plain dicts; an OrderedDict with the
    same items is written identically and comes back as that plain dict: `c05_ordered_dict`) -/
def hasType : FTy → Val → Bool
  | .int, .int _ => true
  | .float, .float _ => true
  | .str, .str _ => true
  | .bool, .bool _ => true
  | .path, .path s => normPath s == s
  | .noneT, .none => true
  | .enum c ms, .enum c' n => c == c' && ms.contains n
  | .literal vals, v => litLeaf v && vals.any (fun l => pyEq l v)
  | .list t, .list xs => xs.all (hasType t)
  | .vtuple t, .tuple xs => xs.all (hasType t)
  | .set t, .set xs => xs.all (hasType t) && elemsDistinct xs
  | .tuple ts, .tuple xs => hasTypeL ts xs
  | .dict k v, .dict false ps => ps.all (fun p => hasType k p.1 && hasType v p.2) && keysDistinct ps
  | .union alts, v => hasTypeU alts v
  | .dc c reg fs, .inst c' reg' ifs => c == c' && reg == reg' && hasTypeF fs ifs
  | _, _ => false
def hasTypeL : List FTy → List Val → Bool
  | [], [] => true
  | t :: ts, x :: xs => hasType t x && hasTypeL ts xs
  | _, _ => false
def hasTypeU : List FTy → Val → Bool
  | [], _ => false
  | t :: ts, v => hasType t v || hasTypeU ts v
def hasTypeF : List (Str × FMeta × Option Val × FTy) → List (Str × FMeta × Val) → Bool
  | [], [] => true
  | (n, m, _, t) :: fs, (n', m', v) :: ifs => n == n' && m == m' && hasType t v && hasTypeF fs ifs
  | _, _ => false
end

def h0' : HEnv := fun _ v => .ok v

variable (henv : HEnv) (tr : Tr)

/-- what `from_dict` receives for `v`: `transport(encode(v))` -/
def wire (v : Val) : Out Val := (encode henv v).bind (transport tr)

def isNone : Val → Bool
  | .none => true
  | _ => false

mutual
/-- **UnionSafe**: at every Union node that has a non-primitive member, the first member whose decoder accepts the received value is a
    member the value is an instance of ("no earlier member's decoder accepts the encoded value of a
    later member").  Decidable: it is a boolean function that runs the decoders. -/
def unionSafe : FTy → Val → Bool
  | .list t, .list xs => xs.all (unionSafe t)
  | .vtuple t, .tuple xs => xs.all (unionSafe t)
  | .set t, .set xs => xs.all (unionSafe t)
  | .tuple ts, .tuple xs => unionSafeL ts xs
  | .dict _ v, .dict _ ps => ps.all (fun p => unionSafe v p.2)
  | .union alts, v =>
    if unionOfPrims alts then true     -- Unions of primitives need no side condition (decoding.py:361-371)
    else match wire henv tr v with
      | .ok r => unionSafeU (alts.any FTy.isNoneT) alts v r
      | _ => false
  | .dc _ _ fs, .inst _ _ ifs => unionSafeF fs ifs
  | _, _ => true
def unionSafeL : List FTy → List Val → Bool
  | t :: ts, x :: xs => unionSafe t x && unionSafeL ts xs
  | _, _ => true
/-- mirrors `decodeU` member by member -/
def unionSafeU (optional : Bool) : List FTy → Val → Val → Bool
  | [], _, _ => false
  | t :: ts, v, r =>
    if t.isNoneT then unionSafeU optional ts v r
    else if optional && isNone r then isNone v     -- `decode_optional` answers None
    else match decode henv t r with
      | .ok _ => hasType t v && unionSafe t v
      | .raise _ => unionSafeU optional ts v r
      | .unmodelled _ => false
def unionSafeF : List (Str × FMeta × Option Val × FTy) → List (Str × FMeta × Val) → Bool
  | (_, _, _, t) :: fs, (_, _, v) :: ifs => unionSafe t v && unionSafeF fs ifs
  | _, _ => true
end

/-! ### how values travel: `wire` on each constructor -/

/-- the received value (projection of `wire`) -/
def W (v : Val) : Val := match wire henv tr v with | .ok r => r | _ => .none
/-- the encoded value (projection of `encode`) -/
def E (v : Val) : Val := match encode henv v with | .ok e => e | _ => .none

/-- the transported value (projection of `transport`) -/
def Tv (e : Val) : Val := match transport tr e with | .ok r => r | _ => .none

theorem wire_split {v r : Val} (h : wire henv tr v = .ok r) :
    encode henv v = .ok (E henv v) ∧ transport tr (E henv v) = .ok r := by
  unfold wire at h
  obtain ⟨e, h1, h2⟩ := Out.bind_eq_ok h
  simp [E, h1, h2]

theorem W_of_wire {v r : Val} (h : wire henv tr v = .ok r) : W henv tr v = r := by simp [W, h]

theorem encodeL_eq (xs : List Val) : encodeL henv xs = mapOut (encode henv) xs := by
  induction xs with
  | nil => simp [encodeL]
  | cons x xs ih => simp [encodeL, ih]

theorem jsonTrL_eq (xs : List Val) : jsonTrL xs = mapOut jsonTr xs := by
  induction xs with
  | nil => simp [jsonTrL]
  | cons x xs ih => simp [jsonTrL, ih]

theorem isPrimL_iff (xs : List Val) : isPrimL xs = true ↔ ∀ x ∈ xs, isPrim x = true := by
  induction xs with
  | nil => simp [isPrimL]
  | cons x xs ih => simp [isPrimL, ih]

theorem yamlTr_ok {e r : Val} (h : yamlTr e = .ok r) : isPrim e = true ∧ r = e := by
  unfold yamlTr at h
  by_cases hp : isPrim e = true
  · simp [hp] at h; exact ⟨hp, h.symm⟩
  · simp only [hp, Bool.false_eq_true, ↓reduceIte] at h
    split at h <;> simp at h

/-- transports act element-wise on lists -/
theorem transport_list (es : List Val) (g : Val → Val)
    (h : ∀ e ∈ es, transport tr e = .ok (g e)) : transport tr (.list es) = .ok (.list (es.map g)) := by
  cases tr with
  | id =>
    have : es.map g = es := by
      conv => rhs; rw [← List.map_id es]
      apply List.map_congr_left
      intro e he
      have := h e he
      simp [transport] at this
      exact this.symm
    simp [transport, this]
  | json =>
    simp only [transport] at h ⊢
    simp only [jsonTr, jsonTrL_eq, mapOut_ok_of_forall jsonTr g es h, Out.ok_bind]
  | yaml =>
    simp only [transport] at h ⊢
    have hp : ∀ e ∈ es, isPrim e = true ∧ g e = e := fun e he => yamlTr_ok (h e he)
    have : es.map g = es := by
      conv => rhs; rw [← List.map_id es]
      apply List.map_congr_left
      intro e he
      simp [(hp e he).2]
    have hl : isPrim (.list es) = true := by
      simp only [isPrim]; exact (isPrimL_iff es).mpr (fun e he => (hp e he).1)
    simp [yamlTr, hl, this]

theorem wire_listlike (xs : List Val) (h : ∀ x ∈ xs, wire henv tr x = .ok (W henv tr x)) :
    wire henv tr (.list xs) = .ok (.list (xs.map (W henv tr))) ∧
    wire henv tr (.tuple xs) = .ok (.list (xs.map (W henv tr))) ∧
    wire henv tr (.set xs) = .ok (.list (xs.map (W henv tr))) := by
  have he : encodeL henv xs = .ok (xs.map (E henv)) := by
    rw [encodeL_eq]
    exact mapOut_ok_of_forall _ _ _ (fun x hx => (wire_split henv tr (h x hx)).1)
  have ht : transport tr (.list (xs.map (E henv))) = .ok (.list (xs.map (W henv tr))) := by
    have := transport_list tr (xs.map (E henv)) (fun e => match transport tr e with | .ok r => r | _ => .none) (by
      intro e he'
      obtain ⟨x, hx, rfl⟩ := List.mem_map.mp he'
      simp [(wire_split henv tr (h x hx)).2])
    rw [this]
    simp only [List.map_map]
    congr 2
    apply List.map_congr_left
    intro x hx
    simp [(wire_split henv tr (h x hx)).2]
  refine ⟨?_, ?_, ?_⟩ <;> simp [wire, encode, he, ht]

/-! ### dicts on the wire -/

/-- the text json.dumps writes for a key (projection of `jsonKey`) -/
def jks (k : Val) : Str := match jsonKey k with | .ok s => s | _ => []

/-- the key as received: JSON stringifies it, the other transports keep it -/
def rk : Tr → Val → Val
  | .json, k => .str (jks k)
  | _, k => k

theorem jsonKey_leaf (k : Val) (h : isPrimLeaf k = true) : jsonKey k = .ok (jks k) := by
  cases k <;> simp [isPrimLeaf] at h <;> simp [jks, jsonKey]

theorem jsonTrP_map (ps : List (Val × Val)) (g : Val → Val)
    (hk : ∀ p ∈ ps, isPrimLeaf p.1 = true) (hv : ∀ p ∈ ps, jsonTr p.2 = .ok (g p.2)) :
    jsonTrP ps = .ok (ps.map fun p => (Val.str (jks p.1), g p.2)) := by
  induction ps with
  | nil => simp [jsonTrP]
  | cons p ps ih =>
    obtain ⟨k, v⟩ := p
    have h1 := jsonKey_leaf k (hk (k, v) (by simp))
    have h2 := hv (k, v) (by simp)
    simp only at h2
    simp only [jsonTrP, h1, h2, Out.ok_bind, List.map_cons,
      ih (fun q hq => hk q (by simp [hq])) (fun q hq => hv q (by simp [hq]))]

theorem isPrimP_of (ps : List (Val × Val)) (hk : ∀ p ∈ ps, isPrimLeaf p.1 = true)
    (hv : ∀ p ∈ ps, isPrim p.2 = true) : isPrimP ps = true := by
  induction ps with
  | nil => simp [isPrimP]
  | cons p ps ih =>
    obtain ⟨k, v⟩ := p
    simp only [isPrimP, Bool.and_eq_true]
    exact ⟨⟨hk (k, v) (by simp), hv (k, v) (by simp)⟩,
      ih (fun q hq => hk q (by simp [hq])) (fun q hq => hv q (by simp [hq]))⟩

theorem foldl_insert_eq (qs : List (Val × Val)) (h : keysDistinct qs = true) :
    qs.foldl (fun acc (x : Val × Val) => match x with | (k, v) => dictInsert k v acc) [] = qs := by
  have hf : (fun acc (x : Val × Val) => match x with | (k, v) => dictInsert k v acc) =
      (fun a (p : Val × Val) => dictInsert p.1 p.2 a) := by
    funext a p; cases p; rfl
  rw [hf, foldl_dictInsert_distinct qs [] (distinctFrom_nil qs h)]
  simp

/-- a dict with primitive-leaf keys travels entry by entry; keys as `rk` says -/
theorem transport_dict (ps : List (Val × Val)) (g : Val → Val)
    (hk : ∀ p ∈ ps, isPrimLeaf p.1 = true) (hv : ∀ p ∈ ps, transport tr p.2 = .ok (g p.2))
    (hd : keysDistinct (ps.map fun p => (rk tr p.1, g p.2)) = true) :
    transport tr (.dict false ps) = .ok (.dict false (ps.map fun p => (rk tr p.1, g p.2))) := by
  cases tr with
  | id =>
    have : (ps.map fun p => (rk .id p.1, g p.2)) = ps := by
      conv => rhs; rw [← List.map_id ps]
      apply List.map_congr_left
      intro p hp
      have := hv p hp
      simp only [transport, Out.ok.injEq] at this
      simp [rk, ← this]
    simp [transport, this]
  | json =>
    simp only [transport] at hv ⊢
    simp only [jsonTr, Bool.false_eq_true, ↓reduceIte, jsonTrP_map ps g hk hv, Out.ok_bind]
    simp only [rk] at hd
    rw [foldl_insert_eq _ hd]
    rfl
  | yaml =>
    simp only [transport] at hv ⊢
    have hp : ∀ p ∈ ps, isPrim p.2 = true ∧ g p.2 = p.2 := fun p hp => yamlTr_ok (hv p hp)
    have : (ps.map fun p => (rk .yaml p.1, g p.2)) = ps := by
      conv => rhs; rw [← List.map_id ps]
      apply List.map_congr_left
      intro p hp'
      simp [rk, (hp p hp').2]
    have hl : isPrim (.dict false ps) = true := by
      simp only [isPrim, Bool.not_false, Bool.true_and]
      exact isPrimP_of ps hk (fun p hp' => (hp p hp').1)
    simp [yamlTr, hl, this]

/-! ### instances on the wire: field names as keys -/

def namesDistinct : List (Str × FMeta × Val) → Bool
  | [] => true
  | f :: fs => fs.all (fun g => !(g.1 == f.1)) && namesDistinct fs

theorem pyEq_str (a b : Str) : pyEq (.str a) (.str b) = (a == b) := by simp [pyEq]

theorem keysDistinct_strmap (ifs : List (Str × FMeta × Val)) (h : Str × FMeta × Val → Val)
    (hd : namesDistinct ifs = true) : keysDistinct (ifs.map fun f => (Val.str f.1, h f)) = true := by
  induction ifs with
  | nil => rfl
  | cons f fs ih =>
    simp only [namesDistinct, Bool.and_eq_true, List.all_eq_true, Bool.not_eq_eq_eq_not, Bool.not_true] at hd
    simp only [List.map_cons, keysDistinct, Bool.and_eq_true, List.all_eq_true, List.mem_map,
      Bool.not_eq_eq_eq_not, Bool.not_true, forall_exists_index, and_imp]
    refine ⟨?_, ih hd.2⟩
    intro p g hg hp
    subst hp
    simp only [pyEq_str]
    have := hd.1 g hg
    simp only [beq_eq_false_iff_ne, ne_eq] at this ⊢
    exact fun e => this e.symm

theorem lookup_strmap (ifs : List (Str × FMeta × Val)) (h : Str × FMeta × Val → Val)
    (hd : namesDistinct ifs = true) (f : Str × FMeta × Val) (hf : f ∈ ifs) :
    lookupKey (.str f.1) (ifs.map fun f => (Val.str f.1, h f)) = some (h f) := by
  induction ifs with
  | nil => cases hf
  | cons g gs ih =>
    simp only [namesDistinct, Bool.and_eq_true, List.all_eq_true, Bool.not_eq_eq_eq_not, Bool.not_true] at hd
    simp only [List.map_cons, lookupKey, pyEq_str]
    rcases List.mem_cons.mp hf with rfl | hf'
    · simp
    · have := hd.1 f hf'
      simp only [beq_eq_false_iff_ne, ne_eq] at this
      have hne : (g.1 == f.1) = false := by simpa using fun e => this e.symm
      simp only [hne, Bool.false_eq_true, ↓reduceIte]
      exact ih hd.2 hf'

theorem lookup_none_strmap (ifs : List (Str × FMeta × Val)) (h : Str × FMeta × Val → Val) (n : Str)
    (hn : ∀ f ∈ ifs, (f.1 == n) = false) :
    lookupKey (.str n) (ifs.map fun f => (Val.str f.1, h f)) = none := by
  induction ifs with
  | nil => rfl
  | cons g gs ih =>
    simp only [List.map_cons, lookupKey, pyEq_str, hn g (by simp), Bool.false_eq_true, ↓reduceIte]
    exact ih (fun f hf => hn f (by simp [hf]))

theorem names_all_of_hasTypeF (n : Str) :
    ∀ (fs : List (Str × FMeta × Option Val × FTy)) (ifs : List (Str × FMeta × Val)),
      hasTypeF fs ifs = true → fs.all (fun f => !(f.1 == n)) = true → ifs.all (fun g => !(g.1 == n)) = true
  | [], [], _, _ => rfl
  | [], _ :: _, h, _ => by simp [hasTypeF] at h
  | _ :: _, [], h, _ => by simp [hasTypeF] at h
  | (a, m, d, t) :: fs, (a', m', v) :: ifs, h, hall => by
    simp only [hasTypeF, Bool.and_eq_true, beq_iff_eq] at h
    simp only [List.all_cons, Bool.and_eq_true] at hall ⊢
    obtain ⟨⟨⟨ha, _⟩, _⟩, hr⟩ := h
    exact ⟨by rw [← ha]; exact hall.1, names_all_of_hasTypeF n fs ifs hr hall.2⟩

theorem names_of_hasTypeF :
    ∀ (fs : List (Str × FMeta × Option Val × FTy)) (ifs : List (Str × FMeta × Val)),
      wfF fs = true → hasTypeF fs ifs = true →
      namesDistinct ifs = true ∧ ∀ f ∈ ifs, (f.1 == DC_TYPE_KEY) = false
  | [], [], _, _ => ⟨rfl, fun _ h => nomatch h⟩
  | [], _ :: _, _, h => by simp [hasTypeF] at h
  | _ :: _, [], _, h => by simp [hasTypeF] at h
  | (a, m, d, t) :: fs, (a', m', v) :: ifs, hw, h => by
    simp only [wfF, Bool.and_eq_true] at hw
    have hall := names_all_of_hasTypeF a fs ifs (by simp only [hasTypeF, Bool.and_eq_true] at h; exact h.2) hw.1.2
    simp only [hasTypeF, Bool.and_eq_true, beq_iff_eq] at h
    obtain ⟨⟨⟨ha, _⟩, _⟩, hr⟩ := h
    obtain ⟨h1, h2⟩ := names_of_hasTypeF fs ifs hw.2 hr
    refine ⟨?_, ?_⟩
    · simp only [namesDistinct, Bool.and_eq_true]
      exact ⟨by rw [← ha]; exact hall, h1⟩
    · intro f hf
      rcases List.mem_cons.mp hf with rfl | hf
      · have := hw.1.1.2
        simp only [Bool.not_eq_eq_eq_not, Bool.not_true] at this
        rw [← ha]; exact this
      · exact h2 f hf

/-! ### dict keys and set elements -/

theorem all_imp {xs : List Val} {p : Val → Bool} (h : xs.all p = true) : ∀ x ∈ xs, p x = true := by
  simpa [List.all_eq_true] using h


/-- `encode` on a key -/
def encKey : Val → Val
  | .enum _ n => .str n
  | .path s => .str s
  | k => k

theorem key_encode (K : FTy) (k : Val) (hK : keyTy K = true) (hk : hasType K k = true) :
    encode henv k = .ok (encKey k) ∧ isPrimLeaf (encKey k) = true ∧ hashable (encKey k) = true ∧
    hashable k = true := by
  cases K <;> simp [keyTy] at hK <;> cases k <;> simp [hasType] at hk <;>
    simp [encode, encKey, isPrimLeaf, hashable]

theorem key_decode (K : FTy) (k : Val) (hK : keyTy K = true) (hk : hasType K k = true) :
    decode henv K (rk tr (encKey k)) = .ok k := by
  cases K <;> simp [keyTy] at hK <;> cases k <;> simp [hasType] at hk
  · -- int
    rename_i n
    cases tr
    · simp only [rk, encKey]; rw [decode_int]; exact decodeInt_int n
    · simp only [rk, encKey, jks, jsonKey]; rw [decode_int]; exact decodeInt_str_showInt n
    · simp only [rk, encKey]; rw [decode_int]; exact decodeInt_int n
  · -- str
    cases tr <;> simp only [rk, encKey, jks, jsonKey] <;> rw [decode_str] <;> rfl
  · -- bool
    rename_i b
    cases tr
    · simp only [rk, encKey]; rw [decode_bool]; rfl
    · simp only [rk, encKey, jks, jsonKey]; rw [decode_bool]; cases b <;> rfl
    · simp only [rk, encKey]; rw [decode_bool]; rfl
  · -- path
    rename_i p
    cases tr <;> simp only [rk, encKey, jks, jsonKey] <;> rw [decode_path, decodePath_str, hk]
  · -- enum
    rename_i c ms c' n
    cases tr <;> simp only [rk, encKey, jks, jsonKey] <;> rw [decode_enum, decodeEnum_ok c ms n (by simpa using hk.2), hk.1]

theorem bool_key_ne (a b : Bool) (h : (a == b) = false) :
    ((if a = true then "true".toList else "false".toList) == (if b = true then "true".toList else "false".toList)) = false := by
  cases a <;> cases b <;> simp at h <;> decide

theorem key_distinct (K : FTy) (k k' : Val) (hK : keyTy K = true) (hk : hasType K k = true)
    (hk' : hasType K k' = true) (hne : pyEq k k' = false) :
    pyEq (encKey k) (encKey k') = false ∧ pyEq (rk tr (encKey k)) (rk tr (encKey k')) = false := by
  cases K <;> simp [keyTy] at hK <;> cases k <;> simp [hasType] at hk <;> cases k' <;> simp [hasType] at hk'
  · -- int
    rename_i n n'
    have : n ≠ n' := by simpa [pyEq] using hne
    refine ⟨by simpa [encKey, pyEq] using this, ?_⟩
    cases tr <;> simp only [rk, encKey, jks, jsonKey, pyEq_str] <;> try simpa [pyEq] using this
    simpa using fun e => this (showInt_injective e)
  · -- str
    rename_i a b
    have : a ≠ b := by simpa [pyEq] using hne
    refine ⟨by simpa [encKey, pyEq] using this, ?_⟩
    cases tr <;> simp only [rk, encKey, jks, jsonKey, pyEq_str] <;> simpa using this
  · -- bool
    rename_i a b
    have : (a == b) = false := by simpa [pyEq] using hne
    refine ⟨by simpa [encKey, pyEq] using this, ?_⟩
    cases tr <;> simp only [rk, encKey, jks, jsonKey, pyEq_str]
    · simpa [pyEq] using this
    · exact bool_key_ne a b this
    · simpa [pyEq] using this
  · -- path
    rename_i a b
    have : a ≠ b := by simpa [pyEq] using hne
    refine ⟨by simpa [encKey, pyEq] using this, ?_⟩
    cases tr <;> simp only [rk, encKey, jks, jsonKey, pyEq_str] <;> simpa using this
  · -- enum
    rename_i c ms c1 a c2 b
    have : a ≠ b := by
      intro e
      simp [pyEq, ← hk.1, ← hk'.1, e] at hne
    refine ⟨by simpa [encKey, pyEq] using this, ?_⟩
    cases tr <;> simp only [rk, encKey, jks, jsonKey, pyEq_str] <;> simpa using this

/-- typed, pairwise different keys stay pairwise different under any key map that preserves difference -/
theorem keysDistinct_map (K : FTy) (ps : List (Val × Val)) (f : Val → Val) (g : Val × Val → Val)
    (hty : ∀ p ∈ ps, hasType K p.1 = true)
    (hf : ∀ k k', hasType K k = true → hasType K k' = true → pyEq k k' = false → pyEq (f k) (f k') = false)
    (hd : keysDistinct ps = true) : keysDistinct (ps.map fun p => (f p.1, g p)) = true := by
  induction ps with
  | nil => rfl
  | cons p ps ih =>
    obtain ⟨k, v⟩ := p
    simp only [keysDistinct, Bool.and_eq_true, List.all_eq_true, Bool.not_eq_eq_eq_not, Bool.not_true] at hd
    simp only [List.map_cons, keysDistinct, Bool.and_eq_true, List.all_eq_true, List.mem_map,
      Bool.not_eq_eq_eq_not, Bool.not_true, forall_exists_index, and_imp]
    refine ⟨?_, ih (fun q hq => hty q (by simp [hq])) hd.2⟩
    intro q q0 hq0 hq
    subst hq
    exact hf k q0.1 (hty (k, v) (by simp)) (hty q0 (by simp [hq0])) (hd.1 q0 hq0)

theorem encodeP_keys (K : FTy) (ps : List (Val × Val)) (hK : keyTy K = true)
    (hty : ∀ p ∈ ps, hasType K p.1 = true) (hv : ∀ p ∈ ps, encode henv p.2 = .ok (E henv p.2)) :
    encodeP henv ps = .ok (ps.map fun p => (encKey p.1, E henv p.2)) := by
  induction ps with
  | nil => simp [encodeP]
  | cons p ps ih =>
    obtain ⟨k, v⟩ := p
    have h1 := (key_encode henv K k hK (hty (k, v) (by simp))).1
    have h2 := hv (k, v) (by simp)
    simp only at h2
    simp only [encodeP, h1, h2, Out.ok_bind, List.map_cons,
      ih (fun q hq => hty q (by simp [hq])) (fun q hq => hv q (by simp [hq]))]

theorem encDictFold_distinct (qs acc : List (Val × Val)) (hh : ∀ q ∈ qs, hashable q.1 = true)
    (hd : distinctFrom acc qs) : encDictFold (.dict acc) qs = .ok (.dict (acc ++ qs)) := by
  induction qs generalizing acc with
  | nil => simp [encDictFold]
  | cons q qs ih =>
    obtain ⟨k, v⟩ := q
    obtain ⟨h1, h2⟩ := distinctFrom_step hd
    simp only [encDictFold, encDictStep, hh (k, v) (by simp), ↓reduceIte, Out.ok_bind]
    rw [dictInsert_fresh k v acc h1, ih _ (fun q hq => hh q (by simp [hq])) h2]
    simp

theorem decodeItems_distinct (dk dv : Val → Out Val) (f : Val → Val) (g : Val → Val) (ps acc : List (Val × Val))
    (hk : ∀ p ∈ ps, dk (f p.1) = .ok p.1 ∧ hashable p.1 = true) (hv : ∀ p ∈ ps, dv (g p.2) = .ok p.2)
    (hd : distinctFrom acc ps) :
    decodeItems dk dv (ps.map fun p => Val.tuple [f p.1, g p.2]) acc = .ok (acc ++ ps) := by
  induction ps generalizing acc with
  | nil => simp [decodeItems]
  | cons p ps ih =>
    obtain ⟨k, v⟩ := p
    obtain ⟨h1, h2⟩ := distinctFrom_step hd
    have hk0 := hk (k, v) (by simp)
    have hv0 := hv (k, v) (by simp)
    simp only at hk0 hv0
    simp only [List.map_cons, decodeItems, unpackPair, Out.ok_bind, hk0.1, hv0, hk0.2, ↓reduceIte]
    rw [dictInsert_fresh k v acc h1, ih _ (fun q hq => hk q (by simp [hq])) (fun q hq => hv q (by simp [hq])) h2]
    simp

theorem hashableL_iff (xs : List Val) : hashableL xs = true ↔ ∀ x ∈ xs, hashable x = true := by
  induction xs with
  | nil => simp [hashableL]
  | cons x xs ih => simp [hashableL, ih]

mutual
theorem hashable_of_hashTy (t : FTy) (v : Val) (h : hashTy t = true) (ht : hasType t v = true) :
    hashable v = true := by
  match t, h with
  | .int, _ => cases v <;> simp [hasType] at ht <;> rfl
  | .float, _ => cases v <;> simp [hasType] at ht <;> rfl
  | .str, _ => cases v <;> simp [hasType] at ht <;> rfl
  | .bool, _ => cases v <;> simp [hasType] at ht <;> rfl
  | .path, _ => cases v <;> simp [hasType] at ht <;> rfl
  | .enum _ _, _ => cases v <;> simp [hasType] at ht <;> rfl
  | .vtuple t, h =>
    cases v with
    | tuple xs =>
      simp only [hashTy] at h
      simp only [hasType] at ht
      simp only [hashable]
      exact (hashableL_iff xs).mpr (fun x hx => hashable_of_hashTy t x h (all_imp ht x hx))
    | _ => simp [hasType] at ht
  | .tuple ts, h =>
    cases v with
    | tuple xs =>
      simp only [hashTy] at h
      simp only [hasType] at ht
      simp only [hashable]
      exact hashableL_of_hashTyL ts xs h ht
    | _ => simp [hasType] at ht
  | .any, h | .noneT, h | .literal _, h | .list _, h | .set _, h | .dict _ _, h | .union _, h | .dc _ _ _, h =>
    simp [hashTy] at h
theorem hashableL_of_hashTyL (ts : List FTy) (xs : List Val) (h : hashTyL ts = true) (ht : hasTypeL ts xs = true) :
    hashableL xs = true := by
  match ts, xs, h, ht with
  | [], [], _, _ => rfl
  | [], _ :: _, _, ht => simp [hasTypeL] at ht
  | _ :: _, [], _, ht => simp [hasTypeL] at ht
  | t :: ts, x :: xs, h, ht =>
    simp only [hashTyL, Bool.and_eq_true] at h
    simp only [hasTypeL, Bool.and_eq_true] at ht
    simp only [hashableL, Bool.and_eq_true]
    exact ⟨hashable_of_hashTy t x h.1 ht.1, hashableL_of_hashTyL ts xs h.2 ht.2⟩
end

theorem setOfList_distinct (xs acc : List Val) (h1 : ∀ a ∈ acc, ∀ x ∈ xs, pyEq a x = false)
    (h2 : elemsDistinct xs = true) : setOfList acc xs = acc ++ xs := by
  induction xs generalizing acc with
  | nil => simp [setOfList]
  | cons x xs ih =>
    simp only [elemsDistinct, Bool.and_eq_true, List.all_eq_true, Bool.not_eq_eq_eq_not, Bool.not_true] at h2
    have hno : acc.any (fun y => pyEq y x) = false := by
      simp only [List.any_eq_false]
      intro a ha
      simp [h1 a ha x (by simp)]
    simp only [setOfList, hno, Bool.false_eq_true, ↓reduceIte]
    rw [ih (acc ++ [x]) ?_ h2.2]
    · simp
    · intro a ha y hy
      rcases List.mem_append.mp ha with ha | ha
      · exact h1 a ha y (by simp [hy])
      · simp only [List.mem_singleton] at ha
        subst ha
        exact h2.1 y hy

/-! ### the round trip -/

/-- the round-trip statement at one node: the writer/reader pair succeeds and decoding gives `v` back -/
def RT (t : FTy) (v : Val) : Prop :=
  wire henv tr v = .ok (W henv tr v) ∧ decode henv t (W henv tr v) = .ok v

/-- `to_dict` of a nested instance (serializable.py:760-763) agrees with `encode` of it (what a container
    applies to its items) — carried through the induction for the fields that hold instances -/
def TD (v : Val) : Prop := ∀ c r ifs, v = Val.inst c r ifs → toDictF henv ifs = encode henv v

theorem RT_of {t : FTy} {v r : Val} (h : wire henv tr v = .ok r) (hd : decode henv t r = .ok v) :
    RT henv tr t v := by
  unfold RT
  rw [W_of_wire henv tr h]
  exact ⟨h, hd⟩

theorem wire_leaf (v : Val) (h : isPrimLeaf v = true) : wire henv tr v = .ok v := by
  cases v <;> simp [isPrimLeaf] at h <;> cases tr <;> simp [wire, encode, transport, jsonTr, yamlTr, isPrim]

theorem wire_path (s : Str) : wire henv tr (.path s) = .ok (.str s) := by
  cases tr <;> simp [wire, encode, transport, jsonTr, yamlTr, isPrim]

theorem wire_enum (c n : Str) : wire henv tr (.enum c n) = .ok (.str n) := by
  cases tr <;> simp [wire, encode, transport, jsonTr, yamlTr, isPrim]

theorem litLeaf_primLeaf {v : Val} (h : litLeaf v = true) : isPrimLeaf v = true := by
  cases v <;> simp [litLeaf] at h <;> simp [isPrimLeaf]

/-- generic comprehension step: element-wise round trips give the round trip of the comprehension -/
theorem mapOut_decode (d : Val → Out Val) (xs : List Val)
    (h : ∀ x ∈ xs, d (W henv tr x) = .ok x) : mapOut d (xs.map (W henv tr)) = .ok xs := by
  induction xs with
  | nil => rfl
  | cons x xs ih =>
    simp only [List.map_cons, mapOut_cons]
    rw [h x (by simp), ih (fun y hy => h y (by simp [hy]))]
    rfl

theorem decodeOptional_none (d : Val → Out Val) : decodeOptional true d .none = .ok .none := rfl

theorem decodeOptional_other (optional : Bool) (d : Val → Out Val) (r : Val)
    (h : (optional && isNone r) = false) : decodeOptional optional d r = d r := by
  unfold decodeOptional
  split
  · simp [isNone] at h
  · rfl

/-! ### Unions of primitives (decoding.py:361-371) -/

theorem primMember_none (t : FTy) : primMember .none t = false := by cases t <;> rfl

theorem decodeU_none (alts : List FTy) : decodeU henv true alts .none = .ok .none := by
  induction alts with
  | nil => simp [decodeU]
  | cons t ts ih =>
    unfold decodeU
    by_cases hn : t.isNoneT = true
    · simp only [hn, ↓reduceIte]; exact ih
    · simp only [hn, Bool.false_eq_true, ↓reduceIte, decodeOptional_none]

theorem unionOfPrims_mem {alts : List FTy} (hp : unionOfPrims alts = true) :
    ∀ t ∈ alts, t.isNoneT = true ∨ t.isPrimTy = true := by
  intro t ht
  simp only [unionOfPrims, Bool.and_eq_true, List.all_eq_true, List.mem_filter, Bool.not_eq_eq_eq_not, Bool.not_true,
    and_imp] at hp
  by_cases hn : t.isNoneT = true
  · exact Or.inl hn
  · exact Or.inr (hp.2 t ht (by simpa using hn))

/-- a value of a Union of primitives is None (and the Union is Optional) or a primitive whose exact type is a member -/
theorem hasTypeU_prims (alts : List FTy) (v : Val) (hall : ∀ t ∈ alts, t.isNoneT = true ∨ t.isPrimTy = true)
    (ht : hasTypeU alts v = true) :
    (v = .none ∧ alts.any FTy.isNoneT = true) ∨ (isPrimLeaf v = true ∧ alts.any (primMember v) = true) := by
  induction alts with
  | nil => simp [hasTypeU] at ht
  | cons t ts ih =>
    simp only [hasTypeU, Bool.or_eq_true] at ht
    rcases ht with h | h
    · rcases hall t (by simp) with hn | hp
      · cases t <;> simp [FTy.isNoneT] at hn
        cases v <;> simp [hasType] at h
        exact Or.inl ⟨rfl, by simp [FTy.isNoneT]⟩
      · cases t <;> simp [FTy.isPrimTy] at hp <;> cases v <;> simp [hasType] at h <;>
          exact Or.inr ⟨rfl, by simp [primMember]⟩
    · rcases ih (fun u hu => hall u (by simp [hu])) h with ⟨h1, h2⟩ | ⟨h1, h2⟩
      · exact Or.inl ⟨h1, by simp [h2]⟩
      · exact Or.inr ⟨h1, by simp [h2]⟩

mutual
theorem rt (t : FTy) (v : Val) (hw : wf t = true) (ht : hasType t v = true)
    (hs : unionSafe henv tr t v = true) : RT henv tr t v ∧ TD henv v := by
  match t, hw with
  | .any, hw => simp [wf] at hw
  | .noneT, hw => simp [wf] at hw
  | .int, _ =>
    cases v with
    | int n =>
      refine ⟨RT_of henv tr (wire_leaf henv tr _ rfl) ?_, fun _ _ _ h => nomatch h⟩
      rw [decode_int]; exact decodeInt_int n
    | _ => simp [hasType] at ht
  | .float, _ =>
    cases v with
    | float r => exact ⟨RT_of henv tr (wire_leaf henv tr _ rfl) (by rw [decode_float]; rfl), fun _ _ _ h => nomatch h⟩
    | _ => simp [hasType] at ht
  | .str, _ =>
    cases v with
    | str r => exact ⟨RT_of henv tr (wire_leaf henv tr _ rfl) (by rw [decode_str]; rfl), fun _ _ _ h => nomatch h⟩
    | _ => simp [hasType] at ht
  | .bool, _ =>
    cases v with
    | bool r => exact ⟨RT_of henv tr (wire_leaf henv tr _ rfl) (by rw [decode_bool]; rfl), fun _ _ _ h => nomatch h⟩
    | _ => simp [hasType] at ht
  | .path, _ =>
    cases v with
    | path p =>
      refine ⟨RT_of henv tr (wire_path henv tr p) ?_, fun _ _ _ h => nomatch h⟩
      simp only [hasType, beq_iff_eq] at ht
      rw [decode_path, decodePath_str, ht]
    | _ => simp [hasType] at ht
  | .enum c ms, _ =>
    cases v with
    | enum c' n =>
      refine ⟨RT_of henv tr (wire_enum henv tr c' n) ?_, fun _ _ _ h => nomatch h⟩
      simp only [hasType, Bool.and_eq_true, beq_iff_eq] at ht
      rw [decode_enum, decodeEnum_ok c ms n ht.2, ht.1]
    | _ => simp [hasType] at ht
  | .literal vals, _ =>
    simp only [hasType, Bool.and_eq_true] at ht
    refine ⟨RT_of henv tr (wire_leaf henv tr v (litLeaf_primLeaf ht.1)) ?_, ?_⟩
    · rw [decode_literal]
      have h1 := ht.1
      cases v <;> simp [litLeaf] at h1 <;> simp only [decodeLiteral, ht.2, ↓reduceIte]
    · intro c r ifs h; subst h; simp [litLeaf] at ht
  | .list t, hw =>
    cases v with
    | list xs =>
      simp only [wf] at hw
      simp only [hasType] at ht
      simp only [unionSafe] at hs
      have ih : ∀ x ∈ xs, RT henv tr t x := fun x hx => (rt t x hw (all_imp ht x hx) (all_imp hs x hx)).1
      have hwire := (wire_listlike henv tr xs (fun x hx => (ih x hx).1)).1
      refine ⟨RT_of henv tr hwire ?_, fun _ _ _ h => nomatch h⟩
      rw [decode_list]
      simp only [iterOf, Out.ok_bind, mapOut_decode henv tr (decode henv t) xs (fun x hx => (ih x hx).2)]
    | _ => simp [hasType] at ht
  | .vtuple t, hw =>
    cases v with
    | tuple xs =>
      simp only [wf] at hw
      simp only [hasType] at ht
      simp only [unionSafe] at hs
      have ih : ∀ x ∈ xs, RT henv tr t x := fun x hx => (rt t x hw (all_imp ht x hx) (all_imp hs x hx)).1
      have hwire := (wire_listlike henv tr xs (fun x hx => (ih x hx).1)).2.1
      refine ⟨RT_of henv tr hwire ?_, fun _ _ _ h => nomatch h⟩
      rw [decode_vtuple]
      simp only [iterOf, Out.ok_bind, mapOut_decode henv tr (decode henv t) xs (fun x hx => (ih x hx).2)]
    | _ => simp [hasType] at ht
  | .tuple ts, hw =>
    cases v with
    | tuple xs =>
      simp only [wf] at hw
      simp only [hasType] at ht
      simp only [unionSafe] at hs
      obtain ⟨h1, h2⟩ := rtL ts xs hw ht hs
      have hwire := (wire_listlike henv tr xs h1).2.1
      refine ⟨RT_of henv tr hwire ?_, fun _ _ _ h => nomatch h⟩
      rw [decode_tuple]
      simp only [iterOf, Out.ok_bind, h2]
    | _ => simp [hasType] at ht
  | .set t, hw =>
    cases v with
    | set xs =>
      simp only [wf, Bool.and_eq_true] at hw
      simp only [hasType, Bool.and_eq_true] at ht
      simp only [unionSafe] at hs
      have ih : ∀ x ∈ xs, RT henv tr t x := fun x hx => (rt t x hw.1 (all_imp ht.1 x hx) (all_imp hs x hx)).1
      have hwire := (wire_listlike henv tr xs (fun x hx => (ih x hx).1)).2.2
      refine ⟨RT_of henv tr hwire ?_, fun _ _ _ h => nomatch h⟩
      rw [decode_set]
      have hh : xs.all hashable = true := by
        simp only [List.all_eq_true]
        exact fun x hx => hashable_of_hashTy t x hw.2 (all_imp ht.1 x hx)
      simp only [iterOf, Out.ok_bind, mapOut_decode henv tr (decode henv t) xs (fun x hx => (ih x hx).2), hh, ↓reduceIte]
      rw [setOfList_distinct xs [] (fun _ h => nomatch h) ht.2]
      simp
    | _ => simp [hasType] at ht
  | .dict k vt, hw =>
    cases v with
    | dict o ps =>
      cases o with
      | true => simp [hasType] at ht
      | false =>
      simp only [wf, Bool.and_eq_true] at hw
      simp only [hasType, Bool.and_eq_true, List.all_eq_true] at ht
      simp only [unionSafe, List.all_eq_true] at hs
      obtain ⟨hty, hdist⟩ := ht
      have ih : ∀ p ∈ ps, RT henv tr vt p.2 := fun p hp => (rt vt p.2 hw.2 (hty p hp).2 (hs p hp)).1
      have hkt : ∀ p ∈ ps, hasType k p.1 = true := fun p hp => (hty p hp).1
      -- encode
      have hencP := encodeP_keys henv k ps hw.1 hkt (fun p hp => (wire_split henv tr (ih p hp).1).1)
      have hd1 : keysDistinct (ps.map fun p => (encKey p.1, E henv p.2)) = true :=
        keysDistinct_map k ps encKey (fun p => E henv p.2) hkt
          (fun a b ha hb hne => (key_distinct tr k a b hw.1 ha hb hne).1) hdist
      have hfold := encDictFold_distinct (ps.map fun p => (encKey p.1, E henv p.2)) []
        (by
          intro q hq
          obtain ⟨p, hp, rfl⟩ := List.mem_map.mp hq
          exact (key_encode henv k p.1 hw.1 (hkt p hp)).2.2.1)
        (distinctFrom_nil _ hd1)
      have henc : encode henv (.dict false ps) = .ok (.dict false (ps.map fun p => (encKey p.1, E henv p.2))) := by
        simp [encode, hencP, hfold, DAcc.toVal]
      -- transport
      have hmap : ((ps.map fun p => (encKey p.1, E henv p.2)).map fun q => (rk tr q.1, Tv tr q.2)) =
          ps.map fun p => (rk tr (encKey p.1), W henv tr p.2) := by
        simp only [List.map_map]
        apply List.map_congr_left
        intro p hp
        simp [Tv, (wire_split henv tr (ih p hp).1).2]
      have hd2 : keysDistinct (ps.map fun p => (rk tr (encKey p.1), W henv tr p.2)) = true :=
        keysDistinct_map k ps (fun a => rk tr (encKey a)) (fun p => W henv tr p.2) hkt
          (fun a b ha hb hne => (key_distinct tr k a b hw.1 ha hb hne).2) hdist
      have htr : transport tr (.dict false (ps.map fun p => (encKey p.1, E henv p.2))) =
          .ok (.dict false (ps.map fun p => (rk tr (encKey p.1), W henv tr p.2))) := by
        rw [← hmap]
        refine transport_dict tr _ (Tv tr) ?_ ?_ ?_
        · intro q hq
          obtain ⟨p, hp, rfl⟩ := List.mem_map.mp hq
          exact (key_encode henv k p.1 hw.1 (hkt p hp)).2.1
        · intro q hq
          obtain ⟨p, hp, rfl⟩ := List.mem_map.mp hq
          simp [Tv, (wire_split henv tr (ih p hp).1).2]
        · rw [hmap]; exact hd2
      have hwire : wire henv tr (.dict false ps) =
          .ok (.dict false (ps.map fun p => (rk tr (encKey p.1), W henv tr p.2))) := by
        simp [wire, henc, htr]
      refine ⟨RT_of henv tr hwire ?_, fun _ _ _ h => nomatch h⟩
      rw [decode_dict]
      simp only [dictItems, Out.ok_bind, List.map_map]
      have := decodeItems_distinct (decode henv k) (decode henv vt) (fun a => rk tr (encKey a)) (W henv tr) ps []
        (fun p hp => ⟨key_decode henv tr k p.1 hw.1 (hkt p hp), (key_encode henv k p.1 hw.1 (hkt p hp)).2.2.2⟩)
        (fun p hp => (ih p hp).2) (distinctFrom_nil ps hdist)
      simp only [List.nil_append] at this
      have hm : (ps.map ((fun x => match x with | (k, v) => Val.tuple [k, v]) ∘ fun p => (rk tr (encKey p.1), W henv tr p.2))) =
          ps.map fun p => Val.tuple [rk tr (encKey p.1), W henv tr p.2] := by
        apply List.map_congr_left
        intro p _
        rfl
      rw [hm, this]
      rfl
    | _ => simp [hasType] at ht
  | .union alts, hw =>
    simp only [wf] at hw
    by_cases hp : unionOfPrims alts = true
    · -- a Union of primitives: no side condition
      simp only [hasType] at ht
      rcases hasTypeU_prims alts v (unionOfPrims_mem hp) ht with ⟨hv, hopt⟩ | ⟨hleaf, hmem⟩
      · subst hv
        refine ⟨RT_of henv tr (wire_leaf henv tr .none rfl) ?_, fun _ _ _ h => nomatch h⟩
        rw [decode_union]
        have hno : alts.any (primMember .none) = false := by
          simp only [List.any_eq_false]; intro t _; simp [primMember_none]
        simp only [hno, Bool.and_false, Bool.false_eq_true, ↓reduceIte, hopt]
        exact decodeU_none henv alts
      · refine ⟨RT_of henv tr (wire_leaf henv tr v hleaf) ?_, ?_⟩
        · rw [decode_union]; simp only [hp, hmem, Bool.and_self, ↓reduceIte]
        · intro c r ifs h; subst h; simp [isPrimLeaf] at hleaf
    · have hp' : unionOfPrims alts = false := by simpa using hp
      simp only [unionSafe, hp', Bool.false_eq_true, ↓reduceIte] at hs
      split at hs
      · next r hr =>
        obtain ⟨hd, htd⟩ := rtU (alts.any FTy.isNoneT) alts v r hw hr hs
        refine ⟨RT_of henv tr hr ?_, htd⟩
        rw [decode_union]
        simp only [hp', Bool.false_and, Bool.false_eq_true, ↓reduceIte]
        exact hd
      · simp at hs
  | .dc c reg fs, hw =>
    cases v with
    | inst c' reg' ifs =>
      simp only [wf] at hw
      simp only [hasType, Bool.and_eq_true, beq_iff_eq] at ht
      simp only [unionSafe] at hs
      obtain ⟨⟨hc, hreg⟩, htf⟩ := ht
      obtain ⟨h1, h2, h4⟩ := rtF fs ifs hw htf hs
      obtain ⟨hnd, hnt⟩ := names_of_hasTypeF fs ifs hw htf
      have henc : encode henv (.inst c' reg' ifs) = .ok (.dict false (ifs.map fun f => (Val.str f.1, E henv f.2.2))) := by
        simp [encode, h2]
      have htd : toDictF henv ifs = .ok (.dict false (ifs.map fun f => (Val.str f.1, E henv f.2.2))) := by
        simp [toDictF, h2]
      have htr : transport tr (.dict false (ifs.map fun f => (Val.str f.1, E henv f.2.2))) =
          .ok (.dict false (ifs.map fun f => (Val.str f.1, W henv tr f.2.2))) := by
        have hrk : ∀ n : Str, rk tr (.str n) = .str n := by intro n; cases tr <;> simp [rk, jks, jsonKey]
        have hmap : ((ifs.map fun f => (Val.str f.1, E henv f.2.2)).map fun p => (rk tr p.1, Tv tr p.2)) =
            ifs.map fun f => (Val.str f.1, W henv tr f.2.2) := by
          simp only [List.map_map]
          apply List.map_congr_left
          intro f hf
          simp [hrk, Tv, (wire_split henv tr (h1 f hf)).2]
        rw [← hmap]
        refine transport_dict tr _ (Tv tr) ?_ ?_ ?_
        · intro p hp
          obtain ⟨f, _, rfl⟩ := List.mem_map.mp hp
          rfl
        · intro p hp
          obtain ⟨f, hf, rfl⟩ := List.mem_map.mp hp
          simp [Tv, (wire_split henv tr (h1 f hf)).2]
        · rw [hmap]
          exact keysDistinct_strmap ifs _ hnd
      have hwire : wire henv tr (.inst c' reg' ifs) = .ok (.dict false (ifs.map fun f => (Val.str f.1, W henv tr f.2.2))) := by
        simp [wire, henc, htr]
      refine ⟨RT_of henv tr hwire ?_, ?_⟩
      · rw [decode_dc]
        simp only [fromDictWith, lookup_none_strmap ifs _ DC_TYPE_KEY hnt, Option.isSome_none,
          Bool.false_eq_true, ↓reduceIte]
        rw [h4 _ (fun f hf => lookup_strmap ifs (fun f => W henv tr f.2.2) hnd f hf)]
        simp [hc, hreg]
      · intro c2 r2 ifs2 he
        cases he
        rw [htd, henc]
    | _ => simp [hasType] at ht
theorem rtL (ts : List FTy) (xs : List Val) (hw : wfL ts = true) (ht : hasTypeL ts xs = true)
    (hs : unionSafeL henv tr ts xs = true) :
    (∀ x ∈ xs, wire henv tr x = .ok (W henv tr x)) ∧ decodeT henv ts (xs.map (W henv tr)) = .ok xs := by
  match ts, xs, hw, ht, hs with
  | [], [], _, _, _ => exact ⟨fun _ h => (nomatch h), by simp [decodeT]⟩
  | t :: ts, x :: xs, hw, ht, hs =>
    simp only [wfL, Bool.and_eq_true] at hw
    simp only [hasTypeL, Bool.and_eq_true] at ht
    simp only [unionSafeL, Bool.and_eq_true] at hs
    have h0 := (rt t x hw.1 ht.1 hs.1).1
    obtain ⟨h1, h2⟩ := rtL ts xs hw.2 ht.2 hs.2
    refine ⟨?_, ?_⟩
    · intro y hy
      rcases List.mem_cons.mp hy with rfl | hy
      · exact h0.1
      · exact h1 y hy
    · simp [decodeT, h0.2, h2]
theorem rtF (fs : List (Str × FMeta × Option Val × FTy)) (ifs : List (Str × FMeta × Val))
    (hw : wfF fs = true) (ht : hasTypeF fs ifs = true) (hs : unionSafeF henv tr fs ifs = true) :
    (∀ f ∈ ifs, wire henv tr f.2.2 = .ok (W henv tr f.2.2)) ∧
    toDictL henv ifs = .ok (ifs.map fun f => (Val.str f.1, E henv f.2.2)) ∧
    ∀ d, (∀ f ∈ ifs, lookupKey (.str f.1) d = some (W henv tr f.2.2)) → decodeFields henv d fs false = .ok ifs := by
  match fs, ifs, hw, ht, hs with
  | [], [], _, _, _ =>
    exact ⟨fun _ h => (nomatch h), by simp [toDictL], fun _ _ => by simp [decodeFields]⟩
  | [], _ :: _, _, ht, _ => simp [hasTypeF] at ht
  | _ :: _, [], _, ht, _ => simp [hasTypeF] at ht
  | (n, m, dflt, t) :: fs, (n', m', v) :: ifs, hw, ht, hs =>
    simp only [wfF, Bool.and_eq_true] at hw
    simp only [hasTypeF, Bool.and_eq_true, beq_iff_eq] at ht
    simp only [unionSafeF, Bool.and_eq_true] at hs
    obtain ⟨⟨⟨hn, hm⟩, htv⟩, htr⟩ := ht
    obtain ⟨⟨⟨⟨⟨⟨hmd, hme⟩, hmdec⟩, hwt⟩, _⟩, _⟩, hwr⟩ := hw
    subst hn; subst hm
    obtain ⟨⟨h0w, h0d⟩, h0td⟩ := rt t v hwt htv hs.1
    obtain ⟨h1, h2, h4⟩ := rtF fs ifs hwr htr hs.2
    have hev := (wire_split henv tr h0w).1
    have hme' : m.enc = none := by simpa using hme
    have hmd' : m.dec = none := by simpa using hmdec
    refine ⟨?_, ?_, ?_⟩
    · intro f hf
      rcases List.mem_cons.mp hf with rfl | hf
      · exact h0w
      · exact h1 f hf
    · cases v with
      | inst c2 r2 fs2 =>
        have htd2 := h0td c2 r2 fs2 rfl
        unfold toDictF at htd2
        simp only [toDictL, hmd, Bool.not_true, Bool.false_eq_true, ↓reduceIte, hme', htd2, hev, Out.ok_bind, h2,
          List.map_cons]
      | _ =>
        simp only [toDictL, hmd, Bool.not_true, Bool.false_eq_true, ↓reduceIte, hme', hev, Out.ok_bind, h2,
          List.map_cons]
    · intro d hd
      have hl := hd (n, m, v) (by simp)
      simp only at hl
      simp only [decodeFields, hl, hmd', h0d, Out.ok_bind,
        h4 d (fun f hf => hd f (by simp [hf]))]
theorem rtU (optional : Bool) (alts : List FTy) (v r : Val) (hw : wfU alts = true)
    (hr : wire henv tr v = .ok r) (hs : unionSafeU henv tr optional alts v r = true) :
    decodeU henv optional alts r = .ok v ∧ TD henv v := by
  match alts, hw, hs with
  | [], _, hs => simp [unionSafeU] at hs
  | t :: ts, hw, hs =>
    simp only [wfU, Bool.and_eq_true, Bool.or_eq_true] at hw
    unfold unionSafeU at hs
    unfold decodeU
    by_cases hn : t.isNoneT = true
    · simp only [hn, ↓reduceIte] at hs ⊢
      exact rtU optional ts v r hw.2 hr hs
    · simp only [hn, Bool.false_eq_true, ↓reduceIte] at hs ⊢
      have hwt : wf t = true := by rcases hw.1 with h | h; exact absurd h hn; exact h
      by_cases ho : (optional && isNone r) = true
      · simp only [ho, ↓reduceIte] at hs
        simp only [Bool.and_eq_true] at ho
        have hv : v = .none := by cases v <;> simp [isNone] at hs; rfl
        have hrn : r = .none := by cases r <;> simp [isNone] at ho; rfl
        rw [ho.1, hrn, decodeOptional_none, hv]
        exact ⟨rfl, fun _ _ _ h => nomatch h⟩
      · have ho' : (optional && isNone r) = false := by simpa using ho
        simp only [ho', Bool.false_eq_true, ↓reduceIte] at hs
        rw [decodeOptional_other optional _ r ho']
        split at hs
        · next x hx =>
          simp only [Bool.and_eq_true] at hs
          obtain ⟨h0, htd⟩ := rt t v hwt hs.1 hs.2
          unfold RT at h0
          rw [W_of_wire henv tr hr] at h0
          rw [h0.2]
          exact ⟨rfl, htd⟩
        · next e he =>
          rw [he]
          exact rtU optional ts v r hw.2 hr hs
        · simp at hs
end

/-! ### the property -/

/-- `decode t (transport (encode v))` — one value through writer, transport and reader -/
def wireDecode (t : FTy) (v : Val) : Out Val := (wire henv tr v).bind (decode henv t)

/-- **C05, value level, any Union (partial: named exclusion `UnionSafe` at Unions with a non-primitive member).**
    For every annotation of the grammar (any nesting depth), every value of that type, every hook environment and
    each of the three transports: decoding what was written gives the value back — same constructors at every
    node, i.e. tuples as tuples, sets as sets, enum members, paths, dict keys in their key type, instances. -/
theorem c05_roundtrip_partial (t : FTy) (v : Val) (hw : wf t = true) (ht : hasType t v = true)
    (hs : unionSafe henv tr t v = true) : wireDecode henv tr t v = .ok v := by
  obtain ⟨⟨h1, h2⟩, _⟩ := rt henv tr t v hw ht hs
  simp [wireDecode, h1, h2]

/-- **C05, instance level, any Union (partial)**: `from_dict(cls, transport(to_dict(x))) = x` for dataclass
    trees (Serializable or plain at every level), incl. Optional / List / Dict of dataclasses. -/
theorem c05_instance_partial (c : Str) (reg : Bool) (fs : List (Str × FMeta × Option Val × FTy)) (x : Val)
    (hw : wf (.dc c reg fs) = true) (ht : hasType (.dc c reg fs) x = true)
    (hs : unionSafe henv tr (.dc c reg fs) x = true) : roundTrip henv tr (.dc c reg fs) x = .ok x := by
  obtain ⟨⟨h1, h2⟩, h3⟩ := rt henv tr _ x hw ht hs
  cases x with
  | inst c' reg' ifs =>
    have htd := h3 c' reg' ifs rfl
    unfold wire at h1
    simp only [roundTrip, toDict, fromDict, htd]
    obtain ⟨e, he, hte⟩ := Out.bind_eq_ok h1
    simp only [he, Out.ok_bind, hte, h2]
  | _ => simp [hasType] at ht

/-! #### the property's own grammar: every Union is `Optional[T]` or a Union of primitives (possibly with None) -/

def isUnionTy : FTy → Bool
  | .union _ => true
  | _ => false

/-- number of non-None members -/
def nMembers (alts : List FTy) : Nat := (alts.filter fun t => !t.isNoneT).length

mutual
/-- every Union node either has only primitive non-None members ("Union of primitives") or a single non-None
    member (`Optional[T]`, any `T` of the grammar) -/
def primUnions : FTy → Bool
  | .list t => primUnions t
  | .set t => primUnions t
  | .vtuple t => primUnions t
  | .tuple ts => primUnionsL ts
  | .dict k v => primUnions k && primUnions v
  | .union alts => unionOfPrims alts || (nMembers alts == 1 && primUnionsU alts)
  | .dc _ _ fs => primUnionsF fs
  | _ => true
def primUnionsL : List FTy → Bool
  | [] => true
  | t :: ts => primUnions t && primUnionsL ts
def primUnionsU : List FTy → Bool
  | [] => true
  | t :: ts => (t.isNoneT || (primUnions t && !isUnionTy t)) && primUnionsU ts   -- typing flattens nested Unions
def primUnionsF : List (Str × FMeta × Option Val × FTy) → Bool
  | [] => true
  | (_, _, _, t) :: fs => primUnions t && primUnionsF fs
end

theorem encode_none {v : Val} (he : encode henv v = .ok .none) : v = .none := by
  cases v with
  | none => rfl
  | bool _ | int _ | float _ | str _ | path _ | enum _ _ => simp [encode] at he
  | list xs | tuple xs | set xs =>
    simp only [encode] at he
    obtain ⟨_, _, h2⟩ := Out.bind_eq_ok he
    cases h2
  | inst c r fs =>
    simp only [encode] at he
    obtain ⟨_, _, h2⟩ := Out.bind_eq_ok he
    cases h2
  | dict o ps =>
    simp only [encode] at he
    obtain ⟨_, _, h2⟩ := Out.bind_eq_ok he
    obtain ⟨acc, _, h3⟩ := Out.bind_eq_ok h2
    cases acc <;> simp [DAcc.toVal] at h3

theorem jsonTr_none {e : Val} (h : jsonTr e = .ok .none) : e = .none := by
  cases e with
  | none => rfl
  | bool _ | int _ | float _ | str _ | path _ | enum _ _ | set _ | inst _ _ _ => simp [jsonTr] at h
  | list xs | tuple xs =>
    simp only [jsonTr] at h
    obtain ⟨_, _, h2⟩ := Out.bind_eq_ok h
    cases h2
  | dict o ps =>
    simp only [jsonTr] at h
    obtain ⟨_, _, h2⟩ := Out.bind_eq_ok h
    cases h2

/-- only None is written as None -/
theorem wire_none {v : Val} (h : wire henv tr v = .ok .none) : v = .none := by
  unfold wire at h
  obtain ⟨e, he, hte⟩ := Out.bind_eq_ok h
  have hen : e = .none := by
    cases tr with
    | id => simpa [transport] using hte
    | yaml => exact ((yamlTr_ok (by simpa [transport] using hte)).2).symm
    | json => exact jsonTr_none (by simpa [transport] using hte)
  subst hen
  exact encode_none henv he

theorem nMembers_zero {ts : List FTy} (h : nMembers ts = 0) : ∀ u ∈ ts, u.isNoneT = true := by
  intro u hu
  by_cases hn : u.isNoneT = true
  · exact hn
  · have : u ∈ ts.filter fun t => !t.isNoneT := List.mem_filter.mpr ⟨hu, by simpa using hn⟩
    simp only [nMembers, List.length_eq_zero_iff] at h
    rw [h] at this; cases this

theorem hasTypeU_allNone {ts : List FTy} (h : ∀ u ∈ ts, u.isNoneT = true) {v : Val} (ht : hasTypeU ts v = true) :
    v = .none := by
  induction ts with
  | nil => simp [hasTypeU] at ht
  | cons u us ih =>
    simp only [hasTypeU, Bool.or_eq_true] at ht
    rcases ht with h1 | h1
    · have := h u (by simp)
      cases u <;> simp [FTy.isNoneT] at this
      cases v <;> simp [hasType] at h1
      rfl
    · exact ih (fun w hw => h w (by simp [hw])) h1

theorem optional_of_none (alts : List FTy) (hpu : primUnionsU alts = true) (ht : hasTypeU alts .none = true) :
    alts.any FTy.isNoneT = true := by
  induction alts with
  | nil => simp [hasTypeU] at ht
  | cons u us ih =>
    simp only [primUnionsU, Bool.and_eq_true, Bool.or_eq_true] at hpu
    simp only [hasTypeU, Bool.or_eq_true] at ht
    rcases ht with h1 | h1
    · cases u <;> simp [hasType, litLeaf] at h1
      · simp [FTy.isNoneT]
      · rcases hpu.1 with h2 | h2 <;> simp [FTy.isNoneT, isUnionTy] at h2
    · simp [ih hpu.2 h1]

theorem unionSafeU_none (alts : List FTy) (h : nMembers alts ≥ 1) :
    unionSafeU henv tr true alts .none .none = true := by
  induction alts with
  | nil => simp [nMembers] at h
  | cons t ts ih =>
    unfold unionSafeU
    by_cases hn : t.isNoneT = true
    · simp only [hn, ↓reduceIte]
      apply ih
      simpa [nMembers, List.filter, hn] using h
    · simp [hn, isNone]

mutual
theorem unionSafe_of_primUnions (t : FTy) (v : Val) (hw : wf t = true) (h : primUnions t = true)
    (ht : hasType t v = true) : unionSafe henv tr t v = true := by
  match t, hw, h with
  | .list t, hw, h =>
    cases v with
    | list xs =>
      simp only [wf] at hw; simp only [primUnions] at h; simp only [hasType] at ht
      simp only [unionSafe, List.all_eq_true]
      exact fun x hx => unionSafe_of_primUnions t x hw h (all_imp ht x hx)
    | _ => simp [hasType] at ht
  | .set t, hw, h =>
    cases v with
    | set xs =>
      simp only [wf, Bool.and_eq_true] at hw; simp only [primUnions] at h
      simp only [hasType, Bool.and_eq_true] at ht
      simp only [unionSafe, List.all_eq_true]
      exact fun x hx => unionSafe_of_primUnions t x hw.1 h (all_imp ht.1 x hx)
    | _ => simp [hasType] at ht
  | .vtuple t, hw, h =>
    cases v with
    | tuple xs =>
      simp only [wf] at hw; simp only [primUnions] at h; simp only [hasType] at ht
      simp only [unionSafe, List.all_eq_true]
      exact fun x hx => unionSafe_of_primUnions t x hw h (all_imp ht x hx)
    | _ => simp [hasType] at ht
  | .tuple ts, hw, h =>
    cases v with
    | tuple xs =>
      simp only [wf] at hw; simp only [primUnions] at h; simp only [hasType] at ht
      simp only [unionSafe]
      exact unionSafeL_of_primUnions ts xs hw h ht
    | _ => simp [hasType] at ht
  | .dict k vt, hw, h =>
    cases v with
    | dict o ps =>
      cases o with
      | true => simp [hasType] at ht
      | false =>
        simp only [wf, Bool.and_eq_true] at hw; simp only [primUnions, Bool.and_eq_true] at h
        simp only [hasType, Bool.and_eq_true, List.all_eq_true] at ht
        simp only [unionSafe, List.all_eq_true]
        exact fun p hp => unionSafe_of_primUnions vt p.2 hw.2 h.2 (ht.1 p hp).2
    | _ => simp [hasType] at ht
  | .union alts, hw, h =>
    simp only [primUnions, Bool.or_eq_true, Bool.and_eq_true, beq_iff_eq] at h
    simp only [unionSafe]
    by_cases hp : unionOfPrims alts = true
    · simp only [hp, ↓reduceIte]
    · have hp' : unionOfPrims alts = false := by simpa using hp
      rcases h with h | ⟨hc, hpu⟩
      · exact absurd h hp
      · simp only [hp', Bool.false_eq_true, ↓reduceIte]
        simp only [wf] at hw
        simp only [hasType] at ht
        by_cases hv : v = .none
        · subst hv
          rw [wire_leaf henv tr .none rfl]
          have hopt := optional_of_none alts hpu ht
          simp only [hopt]
          exact unionSafeU_none henv tr alts (by omega)
        · obtain ⟨r, hr, hu⟩ := unionSafeU_of_single (alts.any FTy.isNoneT) alts v hw hpu hc hv ht
          rw [hr]; exact hu
  | .dc c reg fs, hw, h =>
    cases v with
    | inst c' reg' ifs =>
      simp only [wf] at hw; simp only [primUnions] at h
      simp only [hasType, Bool.and_eq_true] at ht
      simp only [unionSafe]
      exact unionSafeF_of_primUnions fs ifs hw h ht.2
    | _ => simp [hasType] at ht
  | .int, _, _ | .float, _, _ | .str, _, _ | .bool, _, _ | .path, _, _ | .any, _, _ | .noneT, _, _ | .enum _ _, _, _
  | .literal _, _, _ =>
    cases v <;> simp only [unionSafe]
theorem unionSafeL_of_primUnions (ts : List FTy) (xs : List Val) (hw : wfL ts = true) (h : primUnionsL ts = true)
    (ht : hasTypeL ts xs = true) : unionSafeL henv tr ts xs = true := by
  match ts, xs, hw, h, ht with
  | [], [], _, _, _ => simp [unionSafeL]
  | [], _ :: _, _, _, _ => simp [unionSafeL]
  | _ :: _, [], _, _, _ => simp [unionSafeL]
  | t :: ts, x :: xs, hw, h, ht =>
    simp only [wfL, Bool.and_eq_true] at hw
    simp only [primUnionsL, Bool.and_eq_true] at h
    simp only [hasTypeL, Bool.and_eq_true] at ht
    simp only [unionSafeL, Bool.and_eq_true]
    exact ⟨unionSafe_of_primUnions t x hw.1 h.1 ht.1, unionSafeL_of_primUnions ts xs hw.2 h.2 ht.2⟩
/-- `Optional[T]`: the single non-None member is the one the (non-None) value belongs to, and its decoder accepts
    what was written (by the round trip of `T`) -/
theorem unionSafeU_of_single (optional : Bool) (alts : List FTy) (v : Val) (hw : wfU alts = true)
    (hpu : primUnionsU alts = true) (hc : nMembers alts = 1) (hv : v ≠ .none) (ht : hasTypeU alts v = true) :
    ∃ r, wire henv tr v = .ok r ∧ unionSafeU henv tr optional alts v r = true := by
  match alts, hw, hpu, hc, ht with
  | [], _, _, hc, _ => simp [nMembers] at hc
  | t :: ts, hw, hpu, hc, ht =>
    simp only [wfU, Bool.and_eq_true, Bool.or_eq_true] at hw
    simp only [primUnionsU, Bool.and_eq_true, Bool.or_eq_true] at hpu
    by_cases hn : t.isNoneT = true
    · have hc' : nMembers ts = 1 := by simpa [nMembers, List.filter, hn] using hc
      have ht' : hasTypeU ts v = true := by
        simp only [hasTypeU, Bool.or_eq_true] at ht
        rcases ht with h1 | h1
        · cases t <;> simp [FTy.isNoneT] at hn
          cases v <;> simp [hasType] at h1
          exact absurd rfl hv
        · exact h1
      obtain ⟨r, hr, ih⟩ := unionSafeU_of_single optional ts v hw.2 hpu.2 hc' hv ht'
      refine ⟨r, hr, ?_⟩
      unfold unionSafeU; simp only [hn, ↓reduceIte]; exact ih
    · have hc' : nMembers ts = 0 := by
        have : nMembers (t :: ts) = nMembers ts + 1 := by simp [nMembers, List.filter, hn]
        omega
      have htv : hasType t v = true := by
        simp only [hasTypeU, Bool.or_eq_true] at ht
        rcases ht with h1 | h1
        · exact h1
        · exact absurd (hasTypeU_allNone (nMembers_zero hc') h1) hv
      have hwt : wf t = true := by rcases hw.1 with h1 | h1; exact absurd h1 hn; exact h1
      have hpt : primUnions t = true := by
        rcases hpu.1 with h1 | h1
        · exact absurd h1 hn
        · exact h1.1
      have hus := unionSafe_of_primUnions t v hwt hpt htv
      obtain ⟨⟨h1, h2⟩, _⟩ := rt henv tr t v hwt htv hus
      refine ⟨W henv tr v, h1, ?_⟩
      have hrn : isNone (W henv tr v) = false := by
        cases hW : W henv tr v <;> simp [isNone]
        rw [hW] at h1
        exact hv (wire_none henv tr h1)
      unfold unionSafeU
      simp only [hn, Bool.false_eq_true, ↓reduceIte, hrn, Bool.and_false, h2, htv, hus, Bool.and_self]
theorem unionSafeF_of_primUnions (fs : List (Str × FMeta × Option Val × FTy)) (ifs : List (Str × FMeta × Val))
    (hw : wfF fs = true) (h : primUnionsF fs = true) (ht : hasTypeF fs ifs = true) :
    unionSafeF henv tr fs ifs = true := by
  match fs, ifs, hw, h, ht with
  | [], [], _, _, _ => simp [unionSafeF]
  | [], _ :: _, _, _, _ => simp [unionSafeF]
  | _ :: _, [], _, _, _ => simp [unionSafeF]
  | (n, m, d, t) :: fs, (n', m', x) :: ifs, hw, h, ht =>
    simp only [wfF, Bool.and_eq_true] at hw
    simp only [primUnionsF, Bool.and_eq_true] at h
    simp only [hasTypeF, Bool.and_eq_true] at ht
    simp only [unionSafeF, Bool.and_eq_true]
    exact ⟨unionSafe_of_primUnions t x hw.1.1.1.2 h.1 ht.1.2, unionSafeF_of_primUnions fs ifs hw.2 h.2 ht.2⟩
end

/-- **C05, value level, full strength on the property's grammar** (`Optional[T]` and Unions of primitives):
    no side condition.  Every value of the declared type comes back equal and with every node of its declared
    type, for every transport and every hook environment. -/
theorem c05_roundtrip (t : FTy) (v : Val) (hw : wf t = true) (hu : primUnions t = true) (ht : hasType t v = true) :
    wireDecode henv tr t v = .ok v :=
  c05_roundtrip_partial henv tr t v hw ht (unionSafe_of_primUnions henv tr t v hw hu ht)

/-- **C05, instance level, full strength on the property's grammar.** -/
theorem c05_instance (c : Str) (reg : Bool) (fs : List (Str × FMeta × Option Val × FTy)) (x : Val)
    (hw : wf (.dc c reg fs) = true) (hu : primUnions (.dc c reg fs) = true) (ht : hasType (.dc c reg fs) x = true) :
    roundTrip henv tr (.dc c reg fs) x = .ok x :=
  c05_instance_partial henv tr c reg fs x hw ht (unionSafe_of_primUnions henv tr _ x hw hu ht)

/-- **the four file formats**: `load(save(x, "f" + ext))` for `.json`, `.yaml`, `.yml`, `.pkl` — the suffix picks the codec
    (`extTr`, mirroring `extensions`), and every codec of the four gives the instance back -/
theorem c05_files (ext : Str) (hext : ext ∈ [".json".toList, ".yaml".toList, ".yml".toList, ".pkl".toList])
    (c : Str) (reg : Bool) (fs : List (Str × FMeta × Option Val × FTy)) (x : Val)
    (hw : wf (.dc c reg fs) = true) (hu : primUnions (.dc c reg fs) = true) (ht : hasType (.dc c reg fs) x = true) :
    saveLoad henv ext (.dc c reg fs) x = .ok x := by
  have key : ∃ tr, extTr ext = .ok tr := by
    simp only [List.mem_cons, List.not_mem_nil, or_false] at hext
    rcases hext with h | h | h | h <;> subst h
    · exact ⟨.json, by rfl⟩
    · exact ⟨.yaml, by rfl⟩
    · exact ⟨.yaml, by rfl⟩
    · exact ⟨.id, by rfl⟩
  obtain ⟨tr, htr⟩ := key
  simp only [saveLoad, htr, Out.ok_bind]
  exact c05_instance henv tr c reg fs x hw hu ht

/-- an unknown suffix is refused (`get_extension`) -/
example : saveLoad h0' ".txt".toList (.dc [] true []) (.inst [] true []) = .raise "RuntimeError".toList := by rfl

/-- **the Union clause**: a value that already is an instance of one member of a Union of primitives comes back
    unchanged (member = EXACT type, as in the code's `type(val) in types`: `True` is not taken as an `int` member — it is
    outside `hasType .int` and the code answers `1`, see the example below) — whatever the order of the members, whatever the other members' decoders would make of it -/
theorem c05_union_member_unchanged (alts : List FTy) (v : Val) (hw : wf (.union alts) = true)
    (hp : unionOfPrims alts = true) (ht : hasType (.union alts) v = true) :
    wireDecode henv tr (.union alts) v = .ok v :=
  c05_roundtrip henv tr (.union alts) v hw (by simp [primUnions, hp]) ht

/-- … and directly at the decoder: the raw value is not even looked at by the members' decoders -/
theorem c05_union_exact_member (alts : List FTy) (raw : Val) (hp : unionOfPrims alts = true)
    (hm : alts.any (primMember raw) = true) : decode henv (.union alts) raw = .ok raw := by
  rw [decode_union]; simp [hp, hm]

/-- the statement for every Union (members of any type), without the side condition -/
def FullStatement : Prop :=
  ∀ (henv : HEnv) (tr : Tr) (t : FTy) (v : Val), wf t = true → hasType t v = true → wireDecode henv tr t v = .ok v

def h0 : HEnv := fun _ v => .ok v

-- closed-term evaluations below meet `2 ^ 1024` (`float(int)` in the model's `floatOfInt`)
set_option exponentiation.threshold 2048

/-- outside the property's grammar: `Union[str, Path]` holding a Path comes back as the str (members are still
    tried in declaration order when one of them is not a primitive) -/
theorem c05_union_nonprim_witness :
    wireDecode h0 .id (.union [.str, .path]) (.path ['a']) = .ok (.str ['a']) := by
  simp only [wireDecode, wire, encode, transport, Out.ok_bind]; rfl

theorem c05_full_statement_witness : ¬ FullStatement := by
  intro h
  have := h h0 .id (.union [.str, .path]) (.path ['a']) rfl rfl
  rw [c05_union_nonprim_witness] at this
  cases this

/-! regression examples for the repaired defects (D14 — commit bc9d63e, int beyond the float range — fa1139b) -/
example : wireDecode h0 .id (.union [.int, .str]) (.str "12".toList) = .ok (.str "12".toList) := by
  simp only [wireDecode, wire, encode, transport, Out.ok_bind]; rfl
example : wireDecode h0 .id (.union [.str, .int]) (.int 5) = .ok (.int 5) := by
  simp only [wireDecode, wire, encode, transport, Out.ok_bind]; rfl
example : wireDecode h0 .json (.union [.float, .int]) (.int 2) = .ok (.int 2) := by
  simp only [wireDecode, wire, encode, transport, jsonTr, Out.ok_bind]; rfl
example : wireDecode h0 .yaml (.union [.bool, .str, .noneT]) (.str "yes".toList) = .ok (.str "yes".toList) := by rfl
example : wireDecode h0 .yaml (.union [.bool, .str, .noneT]) .none = .ok .none := by rfl
/-- a value whose exact type is NOT a member still goes through the members in order: True in Union[int, str] -/
example : decode h0 (.union [.int, .str]) (.bool true) = .ok (.int 1) := by rfl
example : wireDecode h0 .id .int (.int (2 ^ 1024)) = .ok (.int (2 ^ 1024)) := by
  simp only [wireDecode, wire, encode, transport, Out.ok_bind]; rfl

/-- outside the grammar (`keyTy`): a dict with tuple keys is written as a list of `(key, value)` tuples, which
    the YAML route cannot read back; the direct route answers an OrderedDict -/
theorem c05_tuple_key_yaml_witness :
    wire h0 .yaml (.dict false [(.tuple [.int 1, .int 2], .str ['a'])]) = .raise "ConstructorError".toList := by
  rfl

/-- repaired by 36b622d (was the open finding C05-ordereddict-yaml): `encode_dict` builds a plain dict whatever Mapping it
    is given, so an OrderedDict is written exactly like the dict with the same items … -/
theorem wire_ordered (ps : List (Val × Val)) : wire henv tr (.dict true ps) = wire henv tr (.dict false ps) := by
  simp only [wire, encode]

/-- … and a Dict annotation holding an OrderedDict comes back, on every transport, as the plain dict with the same items
    (equal to the OrderedDict under Python `==`, which is all the property asks: "all equal x").  `hasType` describes
    instances whose Dict fields hold plain dicts; this theorem is the Dict-node form for an OrderedDict, deeper positions
    (an OrderedDict inside a list / a nested instance) are covered by the examples below and by the generator (p = 0.1). -/
theorem c05_ordered_dict (k vt : FTy) (ps : List (Val × Val)) (hw : wf (.dict k vt) = true)
    (hu : primUnions (.dict k vt) = true) (ht : hasType (.dict k vt) (.dict false ps) = true) :
    wireDecode henv tr (.dict k vt) (.dict true ps) = .ok (.dict false ps) := by
  have := c05_roundtrip henv tr (.dict k vt) (.dict false ps) hw hu ht
  unfold wireDecode at this ⊢
  rw [wire_ordered]; exact this

/-! regression examples for 36b622d: every route gives the equal plain dict back, also from inside a list of an instance -/
example : wireDecode h0 .yaml (.dict .str .int) (.dict true [(.str ['a'], .int 1)]) = .ok (.dict false [(.str ['a'], .int 1)]) := by
  rfl
example : wireDecode h0 .id (.dict .str .int) (.dict true [(.str ['a'], .int 1)]) = .ok (.dict false [(.str ['a'], .int 1)]) := by
  rfl
example : wireDecode h0 .json (.dict .int .str) (.dict true [(.int 1, .str ['x'])]) = .ok (.dict false [(.int 1, .str ['x'])]) := by
  rfl
example :
    roundTrip h0 .yaml (.dc ['K'] true [(['l'], FMeta.plain, none, .list (.dict .int .str))])
      (.inst ['K'] true [(['l'], FMeta.plain, .list [.dict true [(.int 1, .str ['x'])]])]) =
    .ok (.inst ['K'] true [(['l'], FMeta.plain, .list [.dict false [(.int 1, .str ['x'])]])]) := by rfl

theorem c05_tuple_key_direct_witness :
    wireDecode h0 .id (.dict (.tuple [.int, .int]) .str) (.dict false [(.tuple [.int 1, .int 2], .str ['a'])]) =
      .ok (.dict true [(.tuple [.int 1, .int 2], .str ['a'])]) := by
  rfl

/-! ### non-vacuity: the hypotheses hold for non-trivial inputs -/

/-- `class K: a: Dict[int, Tuple[Color, Path]]; b: Optional[Union[int, str]]; c: Set[int]` -/
def exTy : FTy :=
  .dc "K".toList true
    [("a".toList, FMeta.plain, none, .dict .int (.tuple [.enum "Color".toList ["RED".toList, "BLUE".toList], .path])),
     ("b".toList, FMeta.plain, some .none, .union [.int, .str, .noneT]),
     ("c".toList, FMeta.plain, none, .set .int)]

def exVal : Val :=
  .inst "K".toList true
    [("a".toList, FMeta.plain, .dict false [(.int (-5), .tuple [.enum "Color".toList "BLUE".toList, .path "a/b".toList])]),
     ("b".toList, FMeta.plain, .str "abc".toList),
     ("c".toList, FMeta.plain, .set [.int 3, .int 1])]

example : wf exTy = true := by decide
example : hasType exTy exVal = true := by rfl
example : unionSafe h0 .json exTy exVal = true := by rfl
example : roundTrip h0 .json exTy exVal = .ok exVal :=
  c05_instance_partial h0 .json _ _ _ exVal (by decide) (by rfl) (by rfl)

/-- `unionSafe` on Unions with non-primitive members: true when the first accepting decoder is the value's member … -/
example : unionSafe h0 .json (.union [.path, .list .int]) (.list [.int 1]) = true := by rfl
example : unionSafe h0 .id (.union [.enum ['C'] [['R']], .str]) (.str ['x']) = true := by rfl
/-- … false when an earlier non-primitive member accepts the text of a later one: `Union[Color, str]` holding "RED"
    comes back as `Color.RED` (open finding C05-union-nonprim-order) -/
theorem c05_union_enum_str_witness :
    wireDecode h0 .id (.union [.enum ['C'] [['R']], .str]) (.str ['R']) = .ok (.enum ['C'] ['R']) := by
  simp only [wireDecode, wire, encode, transport, Out.ok_bind]; rfl
example : unionSafe h0 .id (.union [.enum ['C'] [['R']], .str]) (.str ['R']) = false := by rfl

/-- the side condition is void on Unions of primitives and really excludes the lossy non-primitive cases -/
example : unionSafe h0 .id (.union [.int, .str]) (.str "12".toList) = true := by rfl
example : unionSafe h0 .id (.union [.str, .path]) (.path ['a']) = false := by rfl
example : primUnions exTy = true ∧ wf exTy = true := by decide
example : primUnions (.list (.union [.noneT, .dict .str (.set .int)])) = true := by decide
example : roundTrip h0 .yaml exTy exVal = .ok exVal := c05_instance h0 .yaml _ _ _ exVal (by decide) (by decide) (by rfl)

/-! ### lenient raw encodings (numbers / bools as strings, tuples as lists) -/

/-- an int written as its decimal text decodes to the int -/
theorem c05_lenient_int (n : Int) : decode henv .int (.str (showInt n)) = .ok (.int n) := by
  rw [decode_int]; exact decodeInt_str_showInt n

/-- … also with surrounding whitespace (`" 12 "`), as the lenient stream of the generator writes it -/
theorem c05_lenient_int_padded (n : Int) (ws ws' : Str) (hw : ws.all isSpace = true) (hw' : ws'.all isSpace = true) :
    decode henv .int (.str (ws ++ showInt n ++ ws')) = .ok (.int n) := by
  rw [decode_int]
  have hasc : isAscii (ws ++ showInt n ++ ws') = true := by
    simp only [isAscii, List.all_append, Bool.and_eq_true, List.all_eq_true, decide_eq_true_eq]
    refine ⟨⟨fun c hc => isSpace_ascii c (List.all_eq_true.mp hw c hc), ?_⟩,
      fun c hc => isSpace_ascii c (List.all_eq_true.mp hw' c hc)⟩
    have := isAscii_showInt n
    simpa [isAscii, List.all_eq_true] using this
  simp only [decodeInt, hasc, Bool.not_true, Bool.false_eq_true, ↓reduceIte, parseInt_padded n ws ws' hw hw']

/-- … and with an explicit plus sign (`"+12"`) -/
theorem c05_lenient_int_plus (m : Nat) : decode henv .int (.str ('+' :: showNat m)) = .ok (.int (Int.ofNat m)) := by
  rw [decode_int]
  have hasc : isAscii ('+' :: showNat m) = true := by
    simp only [isAscii, List.all_cons, Bool.and_eq_true, decide_eq_true_eq]
    have := digitsAux_ascii (m + 1) m [] rfl
    exact ⟨by decide, by simpa [isAscii, showNat] using this⟩
  simp only [decodeInt, hasc, Bool.not_true, Bool.false_eq_true, ↓reduceIte, parseInt_plus]

example : decode h0 .int (.str " -12\t".toList) = .ok (.int (-12)) := by rfl

/-- leniency lifts through containers pointwise: if every raw item decodes to the item, the raw list decodes to the
    list / the variadic tuple / (for pairwise different hashable items) the set — so a loosened leaf inside
    `List[...]`, `Tuple[..., ...]` is covered by the leaf lemmas -/
theorem c05_lenient_list (t : FTy) (rs xs : List Val) (h : mapOut (decode henv t) rs = .ok xs) :
    decode henv (.list t) (.list rs) = .ok (.list xs) ∧ decode henv (.vtuple t) (.list rs) = .ok (.tuple xs) := by
  constructor
  · rw [decode_list]; simp only [iterOf, Out.ok_bind, h]
  · rw [decode_vtuple]; simp only [iterOf, Out.ok_bind, h]

/-- … and through `Optional[T]` -/
theorem c05_lenient_optional (t : FTy) (r x : Val) (hr : isNone r = false) (hn : t.isNoneT = false)
    (hp : unionOfPrims [t, .noneT] = false) (h : decode henv t r = .ok x) :
    decode henv (.union [t, .noneT]) r = .ok x := by
  rw [decode_union]
  simp only [hp, Bool.false_and, Bool.false_eq_true, ↓reduceIte]
  unfold decodeU
  simp only [hn, Bool.false_eq_true, ↓reduceIte]
  rw [decodeOptional_other _ _ r (by simp [hr]), h]

/-- float leniency is proved for the reprs the model's `float()` recognises as canonical (plain decimals of at most 15
    significant digits, inf, nan); exponent and 16-17-digit reprs are `unmodelled` in the model and sampled only -/
example : floatOfStr "0.1".toList = .ok "0.1".toList ∧ floatOfStr "-2.25".toList = .ok "-2.25".toList ∧
    floatOfStr "inf".toList = .ok "inf".toList := by
  refine ⟨by rfl, by rfl, by rfl⟩
example : decode h0 (.list .float) (.list [.str "1.5".toList, .float "2.0".toList]) =
    .ok (.list [.float "1.5".toList, .float "2.0".toList]) := by rfl

/-- a bool written as any word of the boolean vocabulary decodes to that bool -/
theorem c05_lenient_bool (w : Str) (b : Bool) (h : str2bool w = some b) :
    decode henv .bool (.str w) = .ok (.bool b) := by
  rw [decode_bool]; simp [decodeBool, h]

/-- a float written as its repr decodes to the float, for every repr the model's `float()` recognises as canonical -/
theorem c05_lenient_float (r : Str) (h : floatOfStr r = .ok r) : decode henv .float (.str r) = .ok (.float r) := by
  rw [decode_float]; simp [decodeFloat, h]

/-- a tuple given as a list (JSON has no tuples) decodes exactly like the tuple, for every annotation -/
theorem c05_lenient_tuple_as_list (t : FTy) (xs : List Val) (ht : match t with
    | .list _ | .vtuple _ | .tuple _ | .set _ => True
    | _ => False) : decode henv t (.tuple xs) = decode henv t (.list xs) := by
  cases t <;> simp at ht
  · rw [decode_list, decode_list]; rfl
  · rw [decode_set, decode_set]; rfl
  · rw [decode_vtuple, decode_vtuple]; rfl
  · rw [decode_tuple, decode_tuple]; rfl

end SpVerif.C05
