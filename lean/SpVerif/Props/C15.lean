/-
  C15 — a file written by save() reproduces the instance when used as a config file.

  `c15_loop` : for every class tree `spec` and every instance `x` that conforms to it (every leaf in the
  command-line grammar and of its declared type) and is `fileSafe`, `parse(config = save x) = x`, for both
  front ends (`parse()` with a root-less file, `ArgumentParser` with a dest-keyed file).

  The full statement (without `fileSafe`) does not hold for the code as it is: `c15_full_witness_items`,
  `c15_full_witness_none`, `c15_full_witness_class_none`, `c15_full_witness_literal`, `c15_full_witness_union` refute it
  on the five open findings.  Two decidable predicates carry every exclusion: `fileSafe` (defects of the code; the
  harness asserts on real loops, op `cl.filesafe`, that it is true exactly when the real result equals `x`) and `inModel`
  (limits of the model: Any, Union items, Optional[Literal], Enum-valued Literals, paths to normalise).  `Conforms` is
  `inModel` + the typing `HasType` + the shape; `c15_loop_syntactic` replaces the one semantic clause of `fileSafe`
  (`quietNone`) by the syntactic `defaultsQuiet`; `c15_loop_decidable` takes all hypotheses in executable form.
  Not proved here: the four file formats and the two routes (`config_path=` / `--config_path`) are exercised on real
  runs only (sampled), the model has one `set_defaults` entry point.
-/
import SpVerif.Model.ConfigLoop
namespace SpVerif.C15
open SpVerif SpVerif.ConfigLoop

/-! The decidable predicates (`InCliGrammar`, `inModel`, `HasType`, `leafSafe`, `fileSafe`, `conformsB`, …) live in
    `Model/ConfigLoop.lean` so that the driver can evaluate them (op `cl.filesafe`). -/

/-- what the literal lemma needs: membership, and for a str value that its name finds it back -/
def litOk (vals : List Scalar) (s : Scalar) : Bool :=
  match s with
  | .str n => vals.reverse.find? (fun v => literalName v = some n) == some s   -- last match wins, as in `choice_dict`
  | .int _ => vals.contains s
  | .bool _ => vals.contains s
  | _ => false

theorem litOk_of (vals : List Scalar) (s : Scalar) (hm : litMember vals s = true) (hs : litSafe vals s = true) :
    litOk vals s = true := by
  cases s <;> simp_all [litMember, litValOk, litSafe, litOk]

/-! ### encode facts -/

theorem map_encScalar_safe (l : List Scalar) (h : l.all safeItem = true) : l.map encScalar = l := by
  induction l with
  | nil => rfl
  | cons s ss ih =>
    simp only [List.all_cons, Bool.and_eq_true] at h
    simp only [List.map_cons, ih h.2]
    cases s <;> simp_all [safeItem, encScalar]

theorem encode_ne_none (v : Val) (h : v ≠ .sc .none) : encode v ≠ .sc .none := by
  cases v with
  | sc s => cases s <;> simp_all [encode, encScalar]
  | list l => simp [encode]
  | tuple l => simp [encode]

/-! ### one leaf, by type constructor

  `dflt` is the field's *definition* default and is arbitrary in every lemma — also `None` for a non-Optional annotation
  (`a: int = None`), where `get_arg_options` takes the Optional branch (`argOptionsEff`). -/

theorem pathGood_eq (s : Str) (h : pathGood s = true) : parsePath s = .ok (.path s) := by
  simpa [pathGood] using h

/-- plain scalars (int, float, str, bool, Path, Enum), non-Optional: per-constructor agreement of `encode` with the
    default path (Enum: name ↔ member through `choices`/`postprocess`; Path: `str` ↔ `Path` through `type=`) -/
theorem leaf_scalar (fenv : FEnv) (force : Bool) (name : Str) (b : BTy) (dflt : DefaultV) (al : List Str) (s : Scalar)
    (ht : hasBTy b s = true) (hp : scalarPathGood s = true) :
    leafWithDefault fenv force ⟨name, ⟨.sc (.base b), false⟩, dflt, al⟩ (.value (encode (.sc s)))
      = .ok (.sc s, decide (Val.sc s = encode (.sc s))) := by
  by_cases hd : dflt = .value (.sc .none)
  · subst hd
    cases b <;> cases s <;> simp [hasBTy] at ht <;>
      simp_all [leafWithDefault, argOptionsEff, argOptions, encode, encScalar, defaultVal, emptyArgvValue, postprocessC,
        postprocess, bconvOf, convOfItem, Conv.apply, BConv.apply, scalarPathGood, pathGood_eq]
  · cases b <;> cases s <;> simp [hasBTy] at ht <;>
      simp_all [leafWithDefault, argOptionsEff, argOptions, encode, encScalar, defaultVal, emptyArgvValue, postprocessC,
        postprocess, bconvOf, Conv.apply, BConv.apply, scalarPathGood, pathGood_eq]

/-- Optional scalars holding a value: the `type=` of the wrapped type converts the string default -/
theorem leaf_opt_scalar (fenv : FEnv) (force : Bool) (name : Str) (b : BTy) (dflt : DefaultV) (al : List Str) (s : Scalar)
    (ht : hasBTy b s = true) (hp : scalarPathGood s = true) :
    leafWithDefault fenv force ⟨name, ⟨.sc (.base b), true⟩, dflt, al⟩ (.value (encode (.sc s)))
      = .ok (.sc s, decide (Val.sc s = encode (.sc s))) := by
  cases b <;> cases s <;> simp [hasBTy] at ht <;>
    simp_all [leafWithDefault, argOptionsEff, argOptions, encode, encScalar, defaultVal, emptyArgvValue, postprocessC,
      postprocess, bconvOf, convOfItem, Conv.apply, BConv.apply, scalarPathGood, pathGood_eq]

/-- a member of a Union of int / float / str / bool is one of those four kinds of value -/
theorem union_value_kind (alts : List BTy) (s : Scalar) (ha : alts.all unionAltOk = true)
    (ht : alts.any (fun b => hasBTy b s) = true) :
    (∃ i, s = .int i) ∨ (∃ r, s = .float r) ∨ (∃ t, s = .str t) ∨ (∃ b, s = .bool b) := by
  rw [List.any_eq_true] at ht
  obtain ⟨b, hb, hbs⟩ := ht
  have hok := (List.all_eq_true.mp ha) b hb
  cases b <;> cases s <;> simp_all [unionAltOk, hasBTy]

/-- `Union[...]` (Optional or not): non-str members are stored untouched; a str member is parsed again by the Union's
    `type=` and survives exactly when `unionSafe` holds -/
theorem leaf_union (fenv : FEnv) (force : Bool) (name : Str) (alts : List BTy) (opt : Bool) (dflt : DefaultV) (al : List Str)
    (s : Scalar) (ha : alts.all unionAltOk = true) (ht : alts.any (fun b => hasBTy b s) = true)
    (hs : unionSafe fenv ⟨.sc (.union alts), opt⟩ (.sc s) = true) :
    leafWithDefault fenv force ⟨name, ⟨.sc (.union alts), opt⟩, dflt, al⟩ (.value (encode (.sc s))) = .ok (.sc s, true) := by
  rcases union_value_kind alts s ha ht with ⟨i, rfl⟩ | ⟨r, rfl⟩ | ⟨t, rfl⟩ | ⟨b, rfl⟩
  · by_cases hd : dflt = .value (.sc .none) <;> cases opt <;>
      simp_all [leafWithDefault, argOptionsEff, argOptions, encode, encScalar, defaultVal, emptyArgvValue, postprocessC,
        postprocess, convOfItem]
  · by_cases hd : dflt = .value (.sc .none) <;> cases opt <;>
      simp_all [leafWithDefault, argOptionsEff, argOptions, encode, encScalar, defaultVal, emptyArgvValue, postprocessC,
        postprocess, convOfItem]
  · have hu : unionApply fenv (alts.map bconvOf) t = .ok (.str t) := by simpa [unionSafe] using hs
    by_cases hd : dflt = .value (.sc .none) <;> cases opt <;>
      simp_all [leafWithDefault, argOptionsEff, argOptions, encode, encScalar, defaultVal, emptyArgvValue, postprocessC,
        postprocess, convOfItem, Conv.apply]
  · by_cases hd : dflt = .value (.sc .none) <;> cases opt <;>
      simp_all [leafWithDefault, argOptionsEff, argOptions, encode, encScalar, defaultVal, emptyArgvValue, postprocessC,
        postprocess, convOfItem]

/-- `List[T]`: the list default is stored as it is — equal to `x`'s list exactly when no item needed conversion -/
theorem leaf_list (fenv : FEnv) (force : Bool) (name : Str) (item : ITy) (opt : Bool) (dflt : DefaultV) (al : List Str)
    (l : List Scalar) (hc : (containerConv item).isSome = true) (hs : l.all safeItem = true) :
    leafWithDefault fenv force ⟨name, ⟨.list item, opt⟩, dflt, al⟩ (.value (encode (.list l))) = .ok (.list l, true) := by
  obtain ⟨c, hc'⟩ := Option.isSome_iff_exists.mp hc
  by_cases hd : dflt = .value (.sc .none) <;> cases opt <;>
    simp_all [leafWithDefault, argOptionsEff, argOptions, encode, map_encScalar_safe, defaultVal, emptyArgvValue, postprocessC,
      postprocess, tupleToList]

/-- `Tuple[T1, …, Tn]`: written as a list, `postprocess` turns the list default back into a tuple -/
theorem leaf_tuple (fenv : FEnv) (force : Bool) (name : Str) (items : List ITy) (opt : Bool) (dflt : DefaultV) (al : List Str)
    (l : List Scalar) (hc : (tupleConv items).isSome = true) (hs : l.all safeItem = true) :
    leafWithDefault fenv force ⟨name, ⟨.tuple items, opt⟩, dflt, al⟩ (.value (encode (.tuple l))) = .ok (.tuple l, false) := by
  obtain ⟨c, hc'⟩ := Option.isSome_iff_exists.mp hc
  by_cases hd : dflt = .value (.sc .none) <;> cases opt <;>
    simp_all [leafWithDefault, argOptionsEff, argOptions, encode, map_encScalar_safe, defaultVal, emptyArgvValue, postprocessC,
      postprocess, listToTuple]

/-- `Tuple[T, ...]` -/
theorem leaf_vtuple (fenv : FEnv) (force : Bool) (name : Str) (item : ITy) (opt : Bool) (dflt : DefaultV) (al : List Str)
    (l : List Scalar) (hs : l.all safeItem = true) :
    leafWithDefault fenv force ⟨name, ⟨.vtuple item, opt⟩, dflt, al⟩ (.value (encode (.tuple l))) = .ok (.tuple l, false) := by
  by_cases hd : dflt = .value (.sc .none) <;> cases opt <;>
    simp_all [leafWithDefault, argOptionsEff, argOptions, encode, map_encScalar_safe, defaultVal, emptyArgvValue, postprocessC,
      postprocess, listToTuple]

/-- `Literal[…]`: a string value is found back by its name (last value of that name), other values are kept -/
theorem leaf_literal (fenv : FEnv) (force : Bool) (name : Str) (vals : List Scalar) (dflt : DefaultV) (al : List Str)
    (s : Scalar) (hn : (vals.mapM literalName).isSome = true) (ht : litOk vals s = true) :
    leafWithDefault fenv force ⟨name, ⟨.literal vals, false⟩, dflt, al⟩ (.value (encode (.sc s))) = .ok (.sc s, true) := by
  obtain ⟨names, hn'⟩ := Option.isSome_iff_exists.mp hn
  by_cases hd : dflt = .value (.sc .none) <;> cases s <;> simp [litOk] at ht <;>
    simp_all [leafWithDefault, argOptionsEff, argOptions, encode, encScalar, defaultVal, emptyArgvValue, postprocessC,
      postprocess, Conv.apply, BConv.apply]

/-- an Optional leaf whose effective default is None (or missing) yields None -/
theorem leaf_opt_none (fenv : FEnv) (force : Bool) (name : Str) (inner : NTy) (dflt : DefaultV) (al : List Str) (eff : DefaultV)
    (hg : InCliGrammar ⟨inner, true⟩ = true) (he : eff = .missing ∨ eff = .value (.sc .none)) :
    leafWithDefault fenv force ⟨name, ⟨inner, true⟩, dflt, al⟩ eff = .ok (.sc .none, true) := by
  cases inner with
  | literal vals => simp [InCliGrammar] at hg
  | sc i =>
    rcases he with he | he <;> subst he <;>
      simp [leafWithDefault, argOptionsEff, argOptions, defaultVal, emptyArgvValue, postprocessC, postprocess]
  | list i =>
    simp only [InCliGrammar, Bool.and_eq_true] at hg
    obtain ⟨c, hc'⟩ := Option.isSome_iff_exists.mp hg.2
    rcases he with he | he <;> subst he <;>
      simp [leafWithDefault, argOptionsEff, argOptions, defaultVal, emptyArgvValue, postprocessC, postprocess, hc']
  | tuple items =>
    simp only [InCliGrammar, Bool.and_eq_true] at hg
    obtain ⟨c, hc'⟩ := Option.isSome_iff_exists.mp hg.2
    rcases he with he | he <;> subst he <;>
      simp [leafWithDefault, argOptionsEff, argOptions, defaultVal, emptyArgvValue, postprocessC, postprocess, hc', listToTuple]
  | vtuple i =>
    rcases he with he | he <;> subst he <;>
      simp [leafWithDefault, argOptionsEff, argOptions, defaultVal, emptyArgvValue, postprocessC, postprocess, listToTuple]

theorem cascade_some_ne (pd : PD) (f : FieldSpec) (w : Val) (h : w ≠ .sc .none) :
    cascade pd f (some w) = some (.value w) := by
  simp [cascade, h]

theorem cascade_some_none (pd : PD) (f : FieldSpec) : cascade pd f (some (.sc .none)) = cascade pd f none := by
  simp [cascade]

theorem hasNTy_ne_none (t : NTy) (h : hasNTy t (.sc .none) = true) : False := by
  cases t with
  | sc i => cases i with
    | base b => cases b <;> simp [hasNTy, hasITy, hasBTy] at h
    | union a =>
      simp only [hasNTy, hasITy, List.any_eq_true] at h
      obtain ⟨b, -, hb⟩ := h
      cases b <;> simp [hasBTy] at hb
  | literal vals => simp [hasNTy, litMember, litValOk] at h
  | list i => simp [hasNTy] at h
  | tuple items => simp [hasNTy] at h
  | vtuple i => simp [hasNTy] at h

/-- one leaf: the value `save` wrote comes back as the value `x` held -/
theorem leaf_loop (fenv : FEnv) (force : Bool) (pd : PD) (f : FieldSpec) (v : Val)
    (hm : inModel f v = true) (ht : HasType f.ty v = true) (hs : leafSafe fenv pd f v = true) :
    ∃ eq, parseLeaf fenv force pd f (some (.val (encode v))) = .ok (v, eq) := by
  obtain ⟨name, ⟨inner, opt⟩, dflt, al⟩ := f
  simp only [inModel, Bool.and_eq_true] at hm
  obtain ⟨hg, hpg⟩ := hm
  simp only [leafSafe, Bool.and_eq_true] at hs
  obtain ⟨⟨⟨hitems, hlit⟩, hunion⟩, hnone⟩ := hs
  by_cases hv : v = .sc .none
  · -- None: only an Optional annotation holds it, and the cascade gives None
    subst hv
    have hopt : opt = true := by
      cases opt with
      | true => rfl
      | false =>
        simp only [HasType, Bool.false_and, Bool.false_or] at ht
        exact (hasNTy_ne_none inner ht).elim
    subst hopt
    have hn : noneDefault pd ⟨name, ⟨inner, true⟩, dflt, al⟩ = true := by simpa using hnone
    simp only [parseLeaf, encode, encScalar, cascade_some_none]
    simp only [noneDefault] at hn
    cases hc : cascade pd ⟨name, ⟨inner, true⟩, dflt, al⟩ none with
    | none => simp [hc] at hn
    | some eff =>
      have he : eff = .missing ∨ eff = .value (.sc .none) := by
        rw [hc] at hn
        cases eff with
        | missing => exact Or.inl rfl
        | value w =>
          cases w with
          | sc s => cases s <;> simp at hn ⊢
          | list l => simp at hn
          | tuple l => simp at hn
      exact ⟨true, leaf_opt_none fenv force name inner dflt al eff hg he⟩
  · -- a value: it is stored as `_default`
    have hty : hasNTy inner v = true := by
      simp only [HasType, Bool.or_eq_true, Bool.and_eq_true, beq_iff_eq] at ht
      rcases ht with ht | ht
      · exact (hv ht.2).elim
      · exact ht
    simp only [parseLeaf, cascade_some_ne pd _ (encode v) (encode_ne_none v hv)]
    cases inner with
    | sc i =>
      cases v with
      | sc s =>
        cases i with
        | base b =>
          cases opt with
          | true =>
            exact ⟨_, leaf_opt_scalar fenv force name b dflt al s (by simpa [hasNTy, hasITy] using hty)
              (by simpa [pathsGood] using hpg)⟩
          | false =>
            exact ⟨_, leaf_scalar fenv force name b dflt al s (by simpa [hasNTy, hasITy] using hty)
              (by simpa [pathsGood] using hpg)⟩
        | union alts =>
          have hg' : alts.all unionAltOk = true := by
            simp only [InCliGrammar, scalarTyOk, Bool.and_eq_true] at hg
            exact hg.2
          exact ⟨_, leaf_union fenv force name alts opt dflt al s hg' (by simpa [hasNTy, hasITy] using hty) hunion⟩
      | list l => simp [hasNTy] at hty
      | tuple l => simp [hasNTy] at hty
    | literal vals =>
      cases v with
      | sc s =>
        cases opt with
        | true => simp [InCliGrammar] at hg
        | false =>
          have hg' : (vals.mapM literalName).isSome = true := by
            simp only [InCliGrammar, Bool.and_eq_true] at hg
            exact hg.2
          exact ⟨_, leaf_literal fenv force name vals dflt al s hg'
            (litOk_of vals s (by simpa [hasNTy] using hty) (by simpa [literalSafe] using hlit))⟩
      | list l => simp [hasNTy] at hty
      | tuple l => simp [hasNTy] at hty
    | list i =>
      cases v with
      | list l =>
        simp only [InCliGrammar, Bool.and_eq_true] at hg
        exact ⟨_, leaf_list fenv force name i opt dflt al l hg.2 (by simpa [itemsSafe] using hitems)⟩
      | sc s => simp [hasNTy] at hty
      | tuple l => simp [hasNTy] at hty
    | tuple items =>
      cases v with
      | tuple l =>
        simp only [InCliGrammar, Bool.and_eq_true] at hg
        exact ⟨_, leaf_tuple fenv force name items opt dflt al l hg.2 (by simpa [itemsSafe] using hitems)⟩
      | sc s => simp [hasNTy] at hty
      | list l => simp [hasNTy] at hty
    | vtuple i =>
      cases v with
      | tuple l => exact ⟨_, leaf_vtuple fenv force name i opt dflt al l (by simpa [itemsSafe] using hitems)⟩
      | sc s => simp [hasNTy] at hty
      | list l => simp [hasNTy] at hty

/-! ### class trees -/

/-- `x` is an instance of the class tree `spec`: same fields in the same order, every leaf in the grammar and of its
    declared type, `None` only in Optional positions -/
def Conforms : Spec → Inst → Prop
  | .nil, x => x = .nil
  | .leaf f rest, x =>
    ∃ v xr, x = .leaf f.name v xr ∧ inModel f v = true ∧ HasType f.ty v = true ∧ Conforms rest xr
  | .sub name cls opt _ child rest, x =>
    (∃ xc xr, x = .sub name cls xc xr ∧ Conforms child xc ∧ Conforms rest xr) ∨
    (∃ xr, x = .subNone name xr ∧ opt = true ∧ Conforms rest xr)

/-- field names are unique within each class (a dataclass guarantees it) -/
def WF : Spec → Prop
  | .nil => True
  | .leaf f rest => f.name ∉ rest.names ∧ WF rest
  | .sub name _ _ _ child rest => name ∉ rest.names ∧ WF child ∧ WF rest

theorem keys_fileOf : ∀ (spec : Spec) (x : Inst), Conforms spec x → (fileOf x).keys = spec.names := by
  intro spec
  induction spec with
  | nil => intro x h; simp only [Conforms] at h; subst h; rfl
  | leaf f rest ih =>
    intro x h
    obtain ⟨v, xr, rfl, -, -, hr⟩ := h
    simp [fileOf, File.keys, Spec.names, ih xr hr]
  | sub name cls opt dflt child rest _ ihr =>
    intro x h
    rcases h with ⟨xc, xr, rfl, -, hr⟩ | ⟨xr, rfl, -, hr⟩
    · simp [fileOf, File.keys, Spec.names, ihr xr hr]
    · simp [fileOf, File.keys, Spec.names, ihr xr hr]

/-- `F` answers like `G` on the given keys -/
def AgreeOn (ks : List Str) (F G : File) : Prop := ∀ k ∈ ks, F.get k = G.get k

theorem agree_tail_leaf (ks : List Str) (F : File) (n : Str) (w : Val) (G : File) (hn : n ∉ ks)
    (h : AgreeOn (n :: ks) F (.leaf n w G)) : AgreeOn ks F G := by
  intro k hk
  have := h k (List.mem_cons_of_mem _ hk)
  have hne : n ≠ k := fun e => hn (e ▸ hk)
  simpa [File.get, hne] using this

theorem agree_tail_sub (ks : List Str) (F : File) (n : Str) (c : File) (G : File) (hn : n ∉ ks)
    (h : AgreeOn (n :: ks) F (.sub n c G)) : AgreeOn ks F G := by
  intro k hk
  have := h k (List.mem_cons_of_mem _ hk)
  have hne : n ≠ k := fun e => hn (e ▸ hk)
  simpa [File.get, hne] using this

/-- the class-tree induction: every wrapper reproduces its part of `x` from its part of the file -/
theorem parseSpec_loop (fenv : FEnv) : ∀ (spec : Spec) (x : Inst) (force : Bool) (pd : PD) (F : File),
    Conforms spec x → WF spec → fileSafe fenv spec pd x = true → AgreeOn spec.names F (fileOf x) →
    ∃ b, parseSpec fenv force spec pd F = .ok (x, b) := by
  intro spec
  induction spec with
  | nil =>
    intro x force pd F hc _ _ _
    simp only [Conforms] at hc
    subst hc
    exact ⟨true, rfl⟩
  | leaf f rest ih =>
    intro x force pd F hc hw hs ha
    obtain ⟨v, xr, rfl, hm, ht, hr⟩ := hc
    simp only [fileSafe, Bool.and_eq_true] at hs
    simp only [fileOf, Spec.names] at ha
    have hget : F.get f.name = some (.val (encode v)) := by
      have := ha f.name (List.mem_cons_self ..)
      simpa [File.get] using this
    obtain ⟨eq, hl⟩ := leaf_loop fenv force pd f v hm ht hs.1
    obtain ⟨b, hrest⟩ := ih xr force pd F hr hw.2 hs.2 (agree_tail_leaf _ F _ _ _ hw.1 ha)
    exact ⟨eq && b, by simp [parseSpec, hget, hl, hrest, Out.both]⟩
  | sub name cls opt dflt child rest ihc ihr =>
    intro x force pd F hc hw hs ha
    rcases hc with ⟨xc, xr, rfl, hcc, hr⟩ | ⟨xr, rfl, ho, hr⟩
    · simp only [fileSafe, Bool.and_eq_true] at hs
      simp only [fileOf, Spec.names] at ha
      have hget : F.get name = some (.obj (fileOf xc)) := by
        have := ha name (List.mem_cons_self ..)
        simpa [File.get] using this
      cases hp : childPD pd name dflt with
      | none => simp [hp] at hs
      | some cpd =>
        rw [hp] at hs
        obtain ⟨bc, hchild⟩ := ihc xc (force || opt) cpd (fileOf xc) hcc hw.2.1 hs.1 (fun _ _ => rfl)
        obtain ⟨b, hrest⟩ := ihr xr force pd F hr hw.2.2 hs.2 (agree_tail_sub _ F _ _ _ hw.1 ha)
        exact ⟨bc && b, by simp [parseSpec, hget, hp, hchild, hrest, Out.both, Out.map, Out.demote]⟩
    · subst ho
      simp only [fileSafe, Bool.and_eq_true] at hs
      simp only [fileOf, Spec.names] at ha
      have hget : F.get name = some (.val (.sc .none)) := by
        have := ha name (List.mem_cons_self ..)
        simpa [File.get] using this
      cases hp : childPD pd name dflt with
      | none => simp [hp] at hs
      | some cpd =>
        rw [hp] at hs
        have hs1 := hs.1
        simp only [Bool.and_eq_true] at hs1
        have hpn : cpd.isNone = true := hs1.1
        have hq := hs1.2
        simp only [quietNone] at hq
        obtain ⟨b, hrest⟩ := ihr xr force pd F hr hw.2.2 hs.2 (agree_tail_leaf _ F _ _ _ hw.1 ha)
        cases hpc : parseSpec fenv true child cpd .nil with
        | ok r =>
          obtain ⟨i, all⟩ := r
          cases all with
          | false => simp [hpc] at hq
          | true => exact ⟨b, by simp [parseSpec, hget, hp, hpc, hpn, hrest, Out.both, Out.map, Out.demote]⟩
        | exit2 => simp [hpc] at hq
        | raise e o => simp [hpc] at hq
        | unmodelled w => simp [hpc] at hq


/-- `set_default` accepts the file `save` wrote: no unknown names, every nested entry a dict or null -/
theorem checkDefaults_ok : ∀ (spec : Spec) (x : Inst) (names : List Str) (F : File),
    Conforms spec x → WF spec → AgreeOn spec.names F (fileOf x) → (∀ k ∈ F.keys, k ∈ names) →
    checkDefaults spec names F = none := by
  intro spec
  induction spec with
  | nil =>
    intro x names F _ _ _ hk
    simp only [checkDefaults]
    have : F.keys.any (fun k => !names.contains k) = false := by
      rw [List.any_eq_false]
      intro k hkm
      have hm : names.contains k = true := List.contains_iff_mem.mpr (hk k hkm)
      rw [hm]
      decide
    rw [this]
    rfl
  | leaf f rest ih =>
    intro x names F hc hw ha hk
    obtain ⟨v, xr, rfl, -, -, hr⟩ := hc
    simp only [fileOf, Spec.names] at ha
    simp only [checkDefaults]
    exact ih xr names F hr hw.2 (agree_tail_leaf _ F _ _ _ hw.1 ha) hk
  | sub name cls opt dflt child rest ihc ihr =>
    intro x names F hc hw ha hk
    rcases hc with ⟨xc, xr, rfl, hcc, hr⟩ | ⟨xr, rfl, -, hr⟩
    · simp only [fileOf, Spec.names] at ha
      have hget : F.get name = some (.obj (fileOf xc)) := by
        have := ha name (List.mem_cons_self ..)
        simpa [File.get] using this
      have hchild : checkDefaults child child.names (fileOf xc) = none :=
        ihc xc child.names (fileOf xc) hcc hw.2.1 (fun _ _ => rfl) (by
          intro k hkm
          rw [keys_fileOf child xc hcc] at hkm
          exact hkm)
      have hrest := ihr xr names F hr hw.2.2 (agree_tail_sub _ F _ _ _ hw.1 ha) hk
      simp [checkDefaults, hget, hchild, hrest]
    · simp only [fileOf, Spec.names] at ha
      have hget : F.get name = some (.val (.sc .none)) := by
        have := ha name (List.mem_cons_self ..)
        simpa [File.get] using this
      have hrest := ihr xr names F hr hw.2.2 (agree_tail_leaf _ F _ _ _ hw.1 ha) hk
      simp [checkDefaults, hget, hrest]

/-! ### the property -/

/-- **C15 (partial: `fileSafe` names the three open findings).**  For every class tree, every conforming instance `x`
    and both front ends — `parse()` with the root-less file `save(x)` writes, `ArgumentParser` with the file keyed by the
    destination — parsing an empty command line with the saved file as config file returns exactly `x`.  (Both routes,
    `config_path=` and `--config_path`, end in the same `set_defaults` call, which is what `loop` models; the four formats
    are the file parameter.) -/
theorem c15_loop (fenv : FEnv) (api : Api) (dest : Str) (spec : Spec) (x : Inst)
    (hc : Conforms spec x) (hw : WF spec) (hs : fileSafe fenv spec .empty x = true) :
    loop fenv api dest spec x = .ok x := by
  have hchk : checkDefaults spec spec.names (fileOf x) = none :=
    checkDefaults_ok spec x spec.names (fileOf x) hc hw (fun _ _ => rfl) (by
      intro k hk
      rw [keys_fileOf spec x hc] at hk
      exact hk)
  obtain ⟨b, hp⟩ := parseSpec_loop fenv spec x false .empty (fileOf x) hc hw hs (fun _ _ => rfl)
  cases api <;> simp [loop, ConfigLoop.run, layoutFile, File.get, hchk, hp, Out.map]

/-- the statement without the exclusion -/
def FullStatement : Prop :=
  ∀ (fenv : FEnv) (api : Api) (dest : Str) (spec : Spec) (x : Inst), Conforms spec x → WF spec →
    loop fenv api dest spec x = .ok x



/-! ### executable forms of the hypotheses (what the driver op `cl.filesafe` evaluates) -/

theorem conforms_of_B : ∀ (spec : Spec) (x : Inst), conformsB spec x = true → Conforms spec x := by
  intro spec
  induction spec with
  | nil => intro x h; cases x <;> simp_all [conformsB, Conforms]
  | leaf f rest ih =>
    intro x h
    cases x with
    | leaf n v xr =>
      simp only [conformsB, Bool.and_eq_true, beq_iff_eq] at h
      obtain ⟨⟨⟨hn, hm⟩, ht⟩, hr⟩ := h
      subst hn
      exact ⟨v, xr, rfl, hm, ht, ih xr hr⟩
    | nil => simp [conformsB] at h
    | sub n c xc xr => simp [conformsB] at h
    | subNone n xr => simp [conformsB] at h
  | sub name cls opt dflt child rest ihc ihr =>
    intro x h
    cases x with
    | sub n c xc xr =>
      simp only [conformsB, Bool.and_eq_true, beq_iff_eq] at h
      obtain ⟨⟨⟨hn, hcl⟩, hcc⟩, hr⟩ := h
      subst hn; subst hcl
      exact Or.inl ⟨xc, xr, rfl, ihc xc hcc, ihr xr hr⟩
    | subNone n xr =>
      simp only [conformsB, Bool.and_eq_true, beq_iff_eq] at h
      obtain ⟨⟨hn, ho⟩, hr⟩ := h
      subst hn
      exact Or.inr ⟨xr, rfl, ho, ihr xr hr⟩
    | nil => simp [conformsB] at h
    | leaf n v xr => simp [conformsB] at h

theorem wf_of_B : ∀ (spec : Spec), wfB spec = true → WF spec := by
  intro spec
  induction spec with
  | nil => intro _; trivial
  | leaf f rest ih =>
    intro h
    simp only [wfB, Bool.and_eq_true, Bool.not_eq_true', List.contains_eq_mem, decide_eq_false_iff_not] at h
    exact ⟨h.1, ih h.2⟩
  | sub name cls opt dflt child rest ihc ihr =>
    intro h
    simp only [wfB, Bool.and_eq_true, Bool.not_eq_true', List.contains_eq_mem, decide_eq_false_iff_not] at h
    exact ⟨h.1.1, ihc h.1.2, ihr h.2⟩

/-- `c15_loop` with all hypotheses in their executable form: what `cl.filesafe` returns `true` for round-trips -/
theorem c15_loop_decidable (fenv : FEnv) (api : Api) (dest : Str) (spec : Spec) (x : Inst)
    (h : (conformsB spec x && wfB spec && fileSafe fenv spec .empty x) = true) :
    loop fenv api dest spec x = .ok x := by
  simp only [Bool.and_eq_true] at h
  exact c15_loop fenv api dest spec x (conforms_of_B spec x h.1.1) (wf_of_B spec h.1.2) h.2

/-! ### when does an `Optional[Dataclass]` holding None come back as None?  (a syntactic sufficient condition) -/

/-- a leaf default that passes through the pipeline unchanged: a well-typed value (no shadowed Literal string, no
    re-parsed Union string), or nothing at all -/
def leafQuiet (fenv : FEnv) (f : FieldSpec) (eff : DefaultV) : Bool :=
  InCliGrammar f.ty &&
  match eff with
  | .value d => HasType f.ty d && literalSafe f.ty d && unionSafe fenv f.ty d
  | .missing => true

/-- a well-typed scalar default (not encoded: the Enum member, the Path object) comes out as it went in -/
theorem default_scalar (fenv : FEnv) (force : Bool) (name : Str) (b : BTy) (opt : Bool) (dflt : DefaultV) (al : List Str)
    (s : Scalar) (ht : hasBTy b s = true) :
    leafWithDefault fenv force ⟨name, ⟨.sc (.base b), opt⟩, dflt, al⟩ (.value (.sc s)) = .ok (.sc s, true) := by
  by_cases hd : dflt = .value (.sc .none) <;> cases opt <;> cases b <;> cases s <;> simp [hasBTy] at ht <;>
    simp_all [leafWithDefault, argOptionsEff, argOptions, defaultVal, emptyArgvValue, postprocessC, postprocess, bconvOf,
      convOfItem, Conv.apply, BConv.apply]

theorem default_union (fenv : FEnv) (force : Bool) (name : Str) (alts : List BTy) (opt : Bool) (dflt : DefaultV) (al : List Str)
    (s : Scalar) (ha : alts.all unionAltOk = true) (ht : alts.any (fun b => hasBTy b s) = true)
    (hs : unionSafe fenv ⟨.sc (.union alts), opt⟩ (.sc s) = true) :
    leafWithDefault fenv force ⟨name, ⟨.sc (.union alts), opt⟩, dflt, al⟩ (.value (.sc s)) = .ok (.sc s, true) := by
  rcases union_value_kind alts s ha ht with ⟨i, rfl⟩ | ⟨r, rfl⟩ | ⟨t, rfl⟩ | ⟨b, rfl⟩
  · by_cases hd : dflt = .value (.sc .none) <;> cases opt <;>
      simp_all [leafWithDefault, argOptionsEff, argOptions, defaultVal, emptyArgvValue, postprocessC, postprocess, convOfItem]
  · by_cases hd : dflt = .value (.sc .none) <;> cases opt <;>
      simp_all [leafWithDefault, argOptionsEff, argOptions, defaultVal, emptyArgvValue, postprocessC, postprocess, convOfItem]
  · have hu : unionApply fenv (alts.map bconvOf) t = .ok (.str t) := by simpa [unionSafe] using hs
    by_cases hd : dflt = .value (.sc .none) <;> cases opt <;>
      simp_all [leafWithDefault, argOptionsEff, argOptions, defaultVal, emptyArgvValue, postprocessC, postprocess, convOfItem,
        Conv.apply]
  · by_cases hd : dflt = .value (.sc .none) <;> cases opt <;>
      simp_all [leafWithDefault, argOptionsEff, argOptions, defaultVal, emptyArgvValue, postprocessC, postprocess, convOfItem]

theorem default_container (fenv : FEnv) (force : Bool) (name : Str) (inner : NTy) (opt : Bool) (dflt : DefaultV) (al : List Str)
    (d : Val) (hg : InCliGrammar ⟨inner, opt⟩ = true)
    (hi : ∀ i, inner ≠ .sc i) (hl : ∀ vs, inner ≠ .literal vs) (ht : hasNTy inner d = true) :
    leafWithDefault fenv force ⟨name, ⟨inner, opt⟩, dflt, al⟩ (.value d) = .ok (d, true) := by
  cases inner with
  | sc i => exact (hi i rfl).elim
  | literal vs => exact (hl vs rfl).elim
  | list i =>
    simp only [InCliGrammar, Bool.and_eq_true] at hg
    obtain ⟨c, hc'⟩ := Option.isSome_iff_exists.mp hg.2
    cases d <;> simp [hasNTy] at ht
    by_cases hd : dflt = .value (.sc .none) <;> cases opt <;>
      simp_all [leafWithDefault, argOptionsEff, argOptions, defaultVal, emptyArgvValue, postprocessC, postprocess, tupleToList]
  | tuple items =>
    simp only [InCliGrammar, Bool.and_eq_true] at hg
    obtain ⟨c, hc'⟩ := Option.isSome_iff_exists.mp hg.2
    cases d <;> simp [hasNTy] at ht
    by_cases hd : dflt = .value (.sc .none) <;> cases opt <;>
      simp_all [leafWithDefault, argOptionsEff, argOptions, defaultVal, emptyArgvValue, postprocessC, postprocess, listToTuple]
  | vtuple i =>
    cases d <;> simp [hasNTy] at ht
    by_cases hd : dflt = .value (.sc .none) <;> cases opt <;>
      simp_all [leafWithDefault, argOptionsEff, argOptions, defaultVal, emptyArgvValue, postprocessC, postprocess, listToTuple]

theorem default_literal (fenv : FEnv) (force : Bool) (name : Str) (vals : List Scalar) (dflt : DefaultV) (al : List Str)
    (s : Scalar) (hn : (vals.mapM literalName).isSome = true) (ht : litOk vals s = true) :
    leafWithDefault fenv force ⟨name, ⟨.literal vals, false⟩, dflt, al⟩ (.value (.sc s)) = .ok (.sc s, true) := by
  obtain ⟨names, hn'⟩ := Option.isSome_iff_exists.mp hn
  by_cases hd : dflt = .value (.sc .none) <;> cases s <;> simp [litOk] at ht <;>
    simp_all [leafWithDefault, argOptionsEff, argOptions, defaultVal, emptyArgvValue, postprocessC, postprocess,
      Conv.apply, BConv.apply]

/-- no default at all, `required` forced off: None goes through every annotation untouched (for Tuples since the
    repair of `tuple(None)`) -/
theorem default_missing (fenv : FEnv) (name : Str) (inner : NTy) (dflt : DefaultV) (al : List Str)
    (hg : InCliGrammar ⟨inner, false⟩ = true) :
    leafWithDefault fenv true ⟨name, ⟨inner, false⟩, dflt, al⟩ .missing = .ok (.sc .none, true) := by
  cases inner with
  | tuple items =>
    simp only [InCliGrammar, Bool.and_eq_true] at hg
    obtain ⟨c, hc'⟩ := Option.isSome_iff_exists.mp hg.2
    by_cases hd : dflt = .value (.sc .none) <;>
      simp_all [leafWithDefault, argOptionsEff, argOptions, defaultVal, emptyArgvValue, postprocessC, postprocess, tupleOfScalar,
        listToTuple]
  | vtuple i =>
    by_cases hd : dflt = .value (.sc .none) <;>
      simp_all [leafWithDefault, argOptionsEff, argOptions, defaultVal, emptyArgvValue, postprocessC, postprocess, tupleOfScalar,
        listToTuple]
  | sc i =>
    cases i with
    | union a =>
      by_cases hd : dflt = .value (.sc .none) <;>
        simp_all [leafWithDefault, argOptionsEff, argOptions, defaultVal, emptyArgvValue, postprocessC, postprocess]
    | base b =>
      by_cases hd : dflt = .value (.sc .none) <;> cases b <;>
        simp_all [leafWithDefault, argOptionsEff, argOptions, defaultVal, emptyArgvValue, postprocessC, postprocess, bconvOf,
          InCliGrammar, scalarTyOk]
  | literal vals =>
    simp only [InCliGrammar, Bool.not_false, Bool.true_and, Bool.and_eq_true] at hg
    obtain ⟨names, hn'⟩ := Option.isSome_iff_exists.mp hg.2
    by_cases hd : dflt = .value (.sc .none) <;>
      simp_all [leafWithDefault, argOptionsEff, argOptions, defaultVal, emptyArgvValue, postprocessC, postprocess]
  | list i =>
    simp only [InCliGrammar, Bool.and_eq_true] at hg
    obtain ⟨c, hc'⟩ := Option.isSome_iff_exists.mp hg.2
    by_cases hd : dflt = .value (.sc .none) <;>
      simp_all [leafWithDefault, argOptionsEff, argOptions, defaultVal, emptyArgvValue, postprocessC, postprocess, tupleToList]

/-- a quiet leaf default reaches the constructor unchanged, and the argument equals the default -/
theorem leafQuiet_ok (fenv : FEnv) (f : FieldSpec) (eff : DefaultV) (h : leafQuiet fenv f eff = true) :
    leafWithDefault fenv true f eff = .ok (defaultVal eff, true) := by
  obtain ⟨name, ⟨inner, opt⟩, dflt, al⟩ := f
  simp only [leafQuiet, Bool.and_eq_true] at h
  obtain ⟨hg, hrest⟩ := h
  cases eff with
  | missing =>
    cases opt with
    | true => exact leaf_opt_none fenv true name inner dflt al .missing hg (Or.inl rfl)
    | false => exact default_missing fenv name inner dflt al hg
  | value d =>
    simp only [defaultVal]
    simp only [Bool.and_eq_true] at hrest
    obtain ⟨⟨hrest, hlit⟩, hunion⟩ := hrest
    by_cases hv : d = .sc .none
    · subst hv
      have hopt : opt = true := by
        cases opt with
        | true => rfl
        | false =>
          simp only [HasType, Bool.false_and, Bool.false_or] at hrest
          exact (hasNTy_ne_none inner hrest).elim
      subst hopt
      exact leaf_opt_none fenv true name inner dflt al _ hg (Or.inr rfl)
    · have hty : hasNTy inner d = true := by
        simp only [HasType, Bool.or_eq_true, Bool.and_eq_true, beq_iff_eq] at hrest
        rcases hrest with ht | ht
        · exact (hv ht.2).elim
        · exact ht
      cases inner with
      | sc i =>
        cases d with
        | sc s =>
          cases i with
          | base b => exact default_scalar fenv true name b opt dflt al s (by simpa [hasNTy, hasITy] using hty)
          | union alts =>
            have hg' : alts.all unionAltOk = true := by
              simp only [InCliGrammar, scalarTyOk, Bool.and_eq_true] at hg
              exact hg.2
            exact default_union fenv true name alts opt dflt al s hg' (by simpa [hasNTy, hasITy] using hty) hunion
        | list l => simp [hasNTy] at hty
        | tuple l => simp [hasNTy] at hty
      | literal vals =>
        cases d with
        | sc s =>
          cases opt with
          | true => simp [InCliGrammar] at hg
          | false =>
            have hg' : (vals.mapM literalName).isSome = true := by
              simp only [InCliGrammar, Bool.and_eq_true] at hg
              exact hg.2
            exact default_literal fenv true name vals dflt al s hg'
              (litOk_of vals s (by simpa [hasNTy] using hty) (by simpa [literalSafe] using hlit))
        | list l => simp [hasNTy] at hty
        | tuple l => simp [hasNTy] at hty
      | list i => exact default_container fenv true name _ opt dflt al d hg (by simp) (by simp) hty
      | tuple items => exact default_container fenv true name _ opt dflt al d hg (by simp) (by simp) hty
      | vtuple i => exact default_container fenv true name _ opt dflt al d hg (by simp) (by simp) hty

/-- every leaf default below this wrapper is quiet (with the wrappers' `defaults` threaded as the code does) -/
def defaultsQuiet (fenv : FEnv) : Spec → PD → Bool
  | .nil, _ => true
  | .leaf f rest, pd =>
    (match cascade pd f none with
     | some eff => leafQuiet fenv f eff
     | none => false) && defaultsQuiet fenv rest pd
  | .sub name _ _ dflt child rest, pd =>
    (match childPD pd name dflt with
     | some cpd => defaultsQuiet fenv child cpd
     | none => false) && defaultsQuiet fenv rest pd

theorem parseSpec_quiet (fenv : FEnv) : ∀ (spec : Spec) (pd : PD), defaultsQuiet fenv spec pd = true →
    ∃ i, parseSpec fenv true spec pd .nil = .ok (i, true) := by
  intro spec
  induction spec with
  | nil => intro pd _; exact ⟨_, rfl⟩
  | leaf f rest ih =>
    intro pd h
    simp only [defaultsQuiet, Bool.and_eq_true] at h
    obtain ⟨i, hi⟩ := ih pd h.2
    cases hc : cascade pd f none with
    | none => simp [hc] at h
    | some eff =>
      rw [hc] at h
      have hl := leafQuiet_ok fenv f eff h.1
      exact ⟨Inst.leaf f.name (defaultVal eff) i, by simp [parseSpec, File.get, parseLeaf, hc, hl, hi, Out.both]⟩
  | sub name cls opt dflt child rest ihc ihr =>
    intro pd h
    simp only [defaultsQuiet, Bool.and_eq_true] at h
    obtain ⟨i, hi⟩ := ihr pd h.2
    cases hp : childPD pd name dflt with
    | none => simp [hp] at h
    | some cpd =>
      rw [hp] at h
      obtain ⟨ic, hic⟩ := ihc cpd h.1
      cases opt with
      | true =>
        cases hn : cpd.isNone with
        | true => exact ⟨Inst.subNone name i, by simp [parseSpec, File.get, hp, hic, hi, hn, Out.both, Out.map, Out.demote]⟩
        | false => exact ⟨Inst.sub name cls ic i, by simp [parseSpec, File.get, hp, hic, hi, hn, Out.both, Out.map, Out.demote]⟩
      | false => exact ⟨Inst.sub name cls ic i, by simp [parseSpec, File.get, hp, hic, hi, Out.both, Out.map, Out.demote]⟩

/-- the third exclusion holds whenever the class's defaults are well-typed and no non-Optional Tuple lacks one -/
theorem quietNone_of_defaults (fenv : FEnv) (child : Spec) (cpd : PD) (h : defaultsQuiet fenv child cpd = true) :
    quietNone fenv child cpd = true := by
  obtain ⟨i, hi⟩ := parseSpec_quiet fenv child cpd h
  simp [quietNone, hi]

/-- `fileSafe` with the None-class clause in its *syntactic* form: no default instance for the member, and every leaf
    default below it well-typed (`defaultsQuiet`) — no reference to the model's own `parseSpec` -/
def fileSafeSyn (fenv : FEnv) : Spec → PD → Inst → Bool
  | .nil, _, .nil => true
  | .leaf f rest, pd, .leaf _ v xr => leafSafe fenv pd f v && fileSafeSyn fenv rest pd xr
  | .sub name _ _ dflt child rest, pd, .sub _ _ xc xr =>
    (match childPD pd name dflt with
     | some cpd => fileSafeSyn fenv child cpd xc
     | none => false) && fileSafeSyn fenv rest pd xr
  | .sub name _ _ dflt child rest, pd, .subNone _ xr =>
    (match childPD pd name dflt with
     | some cpd => cpd.isNone && defaultsQuiet fenv child cpd
     | none => false) && fileSafeSyn fenv rest pd xr
  | _, _, _ => false

theorem fileSafe_of_syn (fenv : FEnv) : ∀ (spec : Spec) (pd : PD) (x : Inst),
    fileSafeSyn fenv spec pd x = true → fileSafe fenv spec pd x = true := by
  intro spec
  induction spec with
  | nil => intro pd x h; cases x <;> simp_all [fileSafeSyn, fileSafe]
  | leaf f rest ih =>
    intro pd x h
    cases x with
    | leaf n v xr =>
      simp only [fileSafeSyn, Bool.and_eq_true] at h
      simp only [fileSafe, Bool.and_eq_true]
      exact ⟨h.1, ih pd xr h.2⟩
    | nil => simp [fileSafeSyn] at h
    | sub n c xc xr => simp [fileSafeSyn] at h
    | subNone n xr => simp [fileSafeSyn] at h
  | sub name cls opt dflt child rest ihc ihr =>
    intro pd x h
    cases x with
    | sub n c xc xr =>
      simp only [fileSafeSyn, Bool.and_eq_true] at h
      simp only [fileSafe, Bool.and_eq_true]
      refine ⟨?_, ihr pd xr h.2⟩
      cases hp : childPD pd name dflt with
      | none => simp [hp] at h
      | some cpd =>
        have h1 := h.1
        rw [hp] at h1
        exact ihc cpd xc h1
    | subNone n xr =>
      simp only [fileSafeSyn, Bool.and_eq_true] at h
      simp only [fileSafe, Bool.and_eq_true]
      refine ⟨?_, ihr pd xr h.2⟩
      cases hp : childPD pd name dflt with
      | none => simp [hp] at h
      | some cpd =>
        have h1 := h.1
        rw [hp] at h1
        simp only [Bool.and_eq_true] at h1
        simp only [Bool.and_eq_true]
        exact ⟨h1.1, quietNone_of_defaults fenv child cpd h1.2⟩
    | nil => simp [fileSafeSyn] at h
    | leaf n v xr => simp [fileSafeSyn] at h

/-- **C15, purely syntactic exclusion**: the same conclusion as `c15_loop` from `fileSafeSyn` -/
theorem c15_loop_syntactic (fenv : FEnv) (api : Api) (dest : Str) (spec : Spec) (x : Inst)
    (hc : Conforms spec x) (hw : WF spec) (hs : fileSafeSyn fenv spec .empty x = true) :
    loop fenv api dest spec x = .ok x :=
  c15_loop fenv api dest spec x hc hw (fileSafe_of_syn fenv spec .empty x hs)

/-! ### the per-action shortcut agrees with the argparse engine model on an empty command line -/

/-- the action `Fields.fieldAct` builds from `get_arg_options` (store actions) -/
def actOf (ao : ArgOpts) (opts : List Str) (dest : Str) : Act :=
  { opts := opts, dest := dest, kind := .store, nargs := ao.nargs, conv := ao.conv, choices := ao.choices,
    required := ao.required, default := some ao.default }

/-- `Engine.run` on `[]` for one non-required store action stores exactly `emptyArgvValue` (Appendix D rules 1, 6) -/
theorem emptyArgv_engine_ok (fenv : FEnv) (ao : ArgOpts) (opts : List Str) (dest : Str) (v : Val)
    (hr : ao.required = false) (h : emptyArgvValue fenv ao = .ok v) :
    SpVerif.run fenv [actOf ao opts dest] [0] [] = .ok [(dest, v)] [] [0] := by
  obtain ⟨nargs, conv, choices, required, dflt, isBool⟩ := ao
  simp only at hr
  subst hr
  simp only [emptyArgvValue] at h
  cases dflt with
  | sc sc =>
    cases sc with
    | str str =>
      simp only at h
      cases hc : conv.apply fenv 0 str with
      | ok w =>
        rw [hc] at h
        simp only [Out.ok.injEq] at h
        subst h
        simp [SpVerif.run, actOf, lexAll, consume, initNs, finish, List.zipIdx, List.lookup, hc, setKey]
      | typeErr => rw [hc] at h; cases h
      | raise e => rw [hc] at h; cases h
      | unmodelled => rw [hc] at h; cases h
    | _ =>
      simp only [Out.ok.injEq] at h
      subst h
      simp [SpVerif.run, actOf, lexAll, consume, initNs, finish, List.zipIdx]
  | list l =>
    simp only [Out.ok.injEq] at h
    subst h
    simp [SpVerif.run, actOf, lexAll, consume, initNs, finish, List.zipIdx]
  | tuple l =>
    simp only [Out.ok.injEq] at h
    subst h
    simp [SpVerif.run, actOf, lexAll, consume, initNs, finish, List.zipIdx]

/-- … and an `exit2` of the shortcut is the engine's `invalid … value` error -/
theorem emptyArgv_engine_exit (fenv : FEnv) (ao : ArgOpts) (opts : List Str) (dest : Str)
    (hr : ao.required = false) (h : emptyArgvValue fenv ao = .exit2) :
    SpVerif.run fenv [actOf ao opts dest] [0] [] = .exit 2 .type := by
  obtain ⟨nargs, conv, choices, required, dflt, isBool⟩ := ao
  simp only at hr
  subst hr
  simp only [emptyArgvValue] at h
  cases dflt with
  | sc sc =>
    cases sc with
    | str str =>
      simp only at h
      cases hc : conv.apply fenv 0 str with
      | ok w => rw [hc] at h; cases h
      | typeErr => simp [SpVerif.run, actOf, lexAll, consume, initNs, finish, List.zipIdx, List.lookup, hc]
      | raise e => rw [hc] at h; cases h
      | unmodelled => rw [hc] at h; cases h
    | _ => cases h
  | list l => cases h
  | tuple l => cases h

/-- a required action that was not given is the engine's `required` error (the shortcut's first check) -/
theorem emptyArgv_engine_required (fenv : FEnv) (ao : ArgOpts) (opts : List Str) (dest : Str) (hr : ao.required = true) :
    SpVerif.run fenv [actOf ao opts dest] [0] [] = .exit 2 .required := by
  simp [SpVerif.run, actOf, lexAll, consume, initNs, finish, List.zipIdx, hr]

/-! ### the open findings: the model reproduces them, so the full statement is false -/

def colorTy : BTy := .enum "Color".toList ["RED".toList, "GREEN".toList, "BLUE".toList]

/-- `items: List[Color] = []` holding `[Color.GREEN]` -/
def specItems : Spec := .leaf ⟨"items".toList, ⟨.list (.base colorTy), false⟩, .value (.list []), []⟩ .nil
def xItems : Inst := .leaf "items".toList (.list [.enum "Color".toList "GREEN".toList]) .nil

/-- `opt: Optional[str] = "q"` holding `None` -/
def specNone : Spec := .leaf ⟨"opt".toList, ⟨.sc (.base .str), true⟩, .value (.sc (.str "q".toList)), []⟩ .nil
def xNone : Inst := .leaf "opt".toList (.sc .none) .nil

/-- `sub: Optional[K1] = field(default_factory=K1)` holding `None`, with `class K1: k: int = 0` -/
def specClassNone : Spec :=
  .sub "sub".toList "K1".toList true (.inst (.leaf "k".toList (.sc (.int 0)) .nil))
    (.leaf ⟨"k".toList, ⟨.sc (.base .int), false⟩, .value (.sc (.int 0)), []⟩ .nil) .nil
def xClassNone : Inst := .subNone "sub".toList .nil

/-- `sub: Optional[K1] = None` holding `None`, with `class K1: w: Tuple[bool, ...]` (no default): repaired upstream
    (`tuple(None)` no longer raised), kept as a regression example -/
def specTupleNone : Spec :=
  .sub "sub".toList "K1".toList true .none (.leaf ⟨"w".toList, ⟨.vtuple (.base .bool), false⟩, .missing, []⟩ .nil) .nil
def xTupleNone : Inst := .subNone "sub".toList .nil

/-- `k: Literal["0", 0]` holding `"0"` -/
def specLit : Spec :=
  .leaf ⟨"k".toList, ⟨.literal [.str "0".toList, .int 0], false⟩, .missing, []⟩ .nil
def xLit : Inst := .leaf "k".toList (.sc (.str "0".toList)) .nil

/-- `u: Union[int, str] = 1` holding `"3"` -/
def specUnion : Spec := .leaf ⟨"u".toList, ⟨.sc (.union [.int, .str]), false⟩, .value (.sc (.int 1)), []⟩ .nil
def xUnion : Inst := .leaf "u".toList (.sc (.str "3".toList)) .nil

/-- C15-D17a: the enum item comes back as the string `"GREEN"` -/
theorem c15_items_witness (api : Api) :
    loop [] api "config".toList specItems xItems = .ok (.leaf "items".toList (.list [.str "GREEN".toList]) .nil) := by
  cases api <;> rfl

/-- C15-D17b: the saved `None` comes back as the definition default `"q"` -/
theorem c15_none_witness (api : Api) :
    loop [] api "config".toList specNone xNone = .ok (.leaf "opt".toList (.sc (.str "q".toList)) .nil) := by
  cases api <;> rfl

/-- C15-none-class-is-absent: the saved `None` comes back as the `default_factory` instance `K1(k=0)` -/
theorem c15_class_none_witness (api : Api) :
    loop [] api "config".toList specClassNone xClassNone
      = .ok (.sub "sub".toList "K1".toList (.leaf "k".toList (.sc (.int 0)) .nil) .nil) := by
  cases api <;> rfl

/-- C15-literal-name-collision: the saved `"0"` comes back as the int `0` (the later value with the same `str()`) -/
theorem c15_literal_witness (api : Api) :
    loop [] api "config".toList specLit xLit = .ok (.leaf "k".toList (.sc (.int 0)) .nil) := by
  cases api <;> rfl

/-- C15-union-str-reparsed: the saved `"3"` is a string default, parsed again by `type=` (int first): it comes back `3` -/
theorem c15_union_witness (api : Api) :
    loop [] api "config".toList specUnion xUnion = .ok (.leaf "u".toList (.sc (.int 3)) .nil) := by
  cases api <;> rfl

/-- the former finding (a Tuple field without default inside a None class) now round-trips -/
theorem c15_tuple_none_fixed (api : Api) : loop [] api "config".toList specTupleNone xTupleNone = .ok xTupleNone := by
  cases api <;> rfl

theorem conforms_items : Conforms specItems xItems := conforms_of_B _ _ (by rfl)
theorem conforms_none : Conforms specNone xNone := conforms_of_B _ _ (by rfl)
theorem conforms_classNone : Conforms specClassNone xClassNone := conforms_of_B _ _ (by rfl)
theorem conforms_lit : Conforms specLit xLit := conforms_of_B _ _ (by rfl)
theorem conforms_union : Conforms specUnion xUnion := conforms_of_B _ _ (by rfl)

theorem c15_full_witness_items : ¬ FullStatement := by
  intro h
  have := h [] .parse "config".toList specItems xItems conforms_items (wf_of_B _ (by rfl))
  rw [c15_items_witness] at this
  simp [xItems] at this

theorem c15_full_witness_none : ¬ FullStatement := by
  intro h
  have := h [] .parse "config".toList specNone xNone conforms_none (wf_of_B _ (by rfl))
  rw [c15_none_witness] at this
  simp [xNone] at this

theorem c15_full_witness_class_none : ¬ FullStatement := by
  intro h
  have := h [] .parser "config".toList specClassNone xClassNone conforms_classNone (wf_of_B _ (by rfl))
  rw [c15_class_none_witness] at this
  simp [xClassNone] at this

theorem c15_full_witness_literal : ¬ FullStatement := by
  intro h
  have := h [] .parse "config".toList specLit xLit conforms_lit (wf_of_B _ (by rfl))
  rw [c15_literal_witness] at this
  simp [xLit] at this

theorem c15_full_witness_union : ¬ FullStatement := by
  intro h
  have := h [] .parse "config".toList specUnion xUnion conforms_union (wf_of_B _ (by rfl))
  rw [c15_union_witness] at this
  simp [xUnion] at this

/-- the exclusion is the right one: `fileSafe` rejects these inputs … -/
example : fileSafe [] specItems .empty xItems = false := by rfl
example : fileSafe [] specNone .empty xNone = false := by rfl
example : fileSafe [] specClassNone .empty xClassNone = false := by rfl
example : fileSafe [] specLit .empty xLit = false := by rfl
example : fileSafe [] specUnion .empty xUnion = false := by rfl
/-- … and exactly these: the repaired Tuple case, the int `0` of the same Literal, `"0"` when it comes last in the Literal,
    an int or a non-numeric str in the same Union are all safe -/
example : fileSafe [] specTupleNone .empty xTupleNone = true := by rfl
example : fileSafe [] specLit .empty (.leaf "k".toList (.sc (.int 0)) .nil) = true := by rfl
example : fileSafe [] (.leaf ⟨"k".toList, ⟨.literal [.int 0, .str "0".toList], false⟩, .missing, []⟩ .nil) .empty xLit = true := by rfl
example : fileSafe [] specUnion .empty (.leaf "u".toList (.sc (.int 3)) .nil) = true := by rfl
example : fileSafe [] specUnion .empty (.leaf "u".toList (.sc (.str "x3".toList)) .nil) = true := by rfl

/-! ### `inModel`: what is outside the *model* (one example per clause; none of these is a claim about the code) -/

example : inModel ⟨"a".toList, ⟨.sc (.base .any), false⟩, .missing, []⟩ (.sc (.str "x".toList)) = false := by rfl          -- Any
example : inModel ⟨"l".toList, ⟨.list (.union [.int, .str]), false⟩, .missing, []⟩ (.list []) = false := by rfl            -- List[Union]
example : inModel ⟨"u".toList, ⟨.sc (.union [.int, .path]), false⟩, .missing, []⟩ (.sc (.int 1)) = false := by rfl         -- Union with Path
example : inModel ⟨"o".toList, ⟨.literal [.int 1], true⟩, .missing, []⟩ (.sc (.int 1)) = false := by rfl                  -- Optional[Literal]
example : inModel ⟨"m".toList, ⟨.literal [.enum "Color".toList "RED".toList], false⟩, .missing, []⟩
    (.sc (.enum "Color".toList "RED".toList)) = false := by rfl                                                           -- Enum-valued Literal
example : inModel ⟨"p".toList, ⟨.sc (.base .path), false⟩, .missing, []⟩ (.sc (.path "a//b".toList)) = false := by rfl      -- path to normalise
/-- a non-Optional annotation with a `None` default (`a: int = None`) IS in the model and round-trips -/
example : loop [] .parse "config".toList (.leaf ⟨"a".toList, ⟨.sc (.base .int), false⟩, .value (.sc .none), []⟩ .nil)
    (.leaf "a".toList (.sc (.int 5)) .nil) = .ok (.leaf "a".toList (.sc (.int 5)) .nil) :=
  c15_loop_decidable [] .parse _ _ _ (by rfl)

/-! ### both front ends see the same defaults -/

/-- the root-less file given to `parse()` and the dest-keyed file given to `ArgumentParser` are the same defaults, for
    *every* file (a restatement of the two layout definitions, kept as a simp lemma) -/
@[simp] theorem c15_layouts_agree (fenv : FEnv) (dest : Str) (spec : Spec) (f : File) :
    ConfigLoop.run fenv .parse dest spec (layoutFile .parse dest f) = ConfigLoop.run fenv .parser dest spec (layoutFile .parser dest f) := by
  simp [ConfigLoop.run, layoutFile]

/-! ### non-vacuity: a nested class tree with an enum, a path, tuples, a Union, Optionals and an Optional class -/

/-- ```
    class Inner:  e: Color = RED ; p: Optional[Path] = None ; t: Tuple[int, str] = (1, "a")
    class Outer:  n: int ; name: str = "x" ; l: List[float] = [] ; inner: Inner = Inner() ; maybe: Optional[Inner] = None
                  other: Optional[Inner] = None ; o: Optional[int] = None ; u: Union[int, str] = 0 ; a: int = None
    ``` -/
def exInner : Spec :=
  .leaf ⟨"e".toList, ⟨.sc (.base colorTy), false⟩, .value (.sc (.enum "Color".toList "RED".toList)), []⟩ <|
  .leaf ⟨"p".toList, ⟨.sc (.base .path), true⟩, .value (.sc .none), []⟩ <|
  .leaf ⟨"t".toList, ⟨.tuple [.base .int, .base .str], false⟩, .value (.tuple [.int 1, .str "a".toList]), []⟩ .nil

def exInnerDefault : Inst :=
  .leaf "e".toList (.sc (.enum "Color".toList "RED".toList)) <| .leaf "p".toList (.sc .none) <|
  .leaf "t".toList (.tuple [.int 1, .str "a".toList]) .nil

def exOuter : Spec :=
  .leaf ⟨"n".toList, ⟨.sc (.base .int), false⟩, .missing, []⟩ <|
  .leaf ⟨"name".toList, ⟨.sc (.base .str), false⟩, .value (.sc (.str "x".toList)), []⟩ <|
  .leaf ⟨"l".toList, ⟨.list (.base .float), false⟩, .value (.list []), []⟩ <|
  .sub "inner".toList "Inner".toList false (.inst exInnerDefault) exInner <|
  .sub "maybe".toList "Inner".toList true .none exInner <|
  .sub "other".toList "Inner".toList true .none exInner <|
  .leaf ⟨"o".toList, ⟨.sc (.base .int), true⟩, .value (.sc .none), []⟩ <|
  .leaf ⟨"u".toList, ⟨.sc (.union [.int, .str]), false⟩, .value (.sc (.int 0)), []⟩ <|
  .leaf ⟨"a".toList, ⟨.sc (.base .int), false⟩, .value (.sc .none), []⟩ .nil

def exX : Inst :=
  .leaf "n".toList (.sc (.int (-5))) <|
  .leaf "name".toList (.sc (.str "None".toList)) <|
  .leaf "l".toList (.list [.float "1e-07".toList, .float "inf".toList]) <|
  .sub "inner".toList "Inner".toList
    (.leaf "e".toList (.sc (.enum "Color".toList "BLUE".toList)) <| .leaf "p".toList (.sc (.path "a/b".toList)) <|
     .leaf "t".toList (.tuple [.int 0, .str "".toList]) .nil) <|
  .sub "maybe".toList "Inner".toList
    (.leaf "e".toList (.sc (.enum "Color".toList "RED".toList)) <| .leaf "p".toList (.sc .none) <|
     .leaf "t".toList (.tuple [.int 1, .str "a".toList]) .nil) <|
  .subNone "other".toList <|
  .leaf "o".toList (.sc .none) <|
  .leaf "u".toList (.sc (.str "three".toList)) <|
  .leaf "a".toList (.sc (.int 7)) .nil

theorem exOuter_conforms : Conforms exOuter exX := conforms_of_B _ _ (by rfl)
theorem exOuter_wf : WF exOuter := wf_of_B _ (by rfl)

/-- the hypotheses of `c15_loop` (and of its syntactic and decidable forms) hold for this input, so the theorems are not
    vacuous; the conclusion is the concrete equation one can also compute -/
example : loop [] .parse "config".toList exOuter exX = .ok exX :=
  c15_loop [] .parse _ exOuter exX exOuter_conforms exOuter_wf (by rfl)
example : loop [] .parser "cfg".toList exOuter exX = .ok exX :=
  c15_loop_syntactic [] .parser _ exOuter exX exOuter_conforms exOuter_wf (by rfl)
example : loop [] .parser "cfg".toList exOuter exX = .ok exX := c15_loop_decidable [] .parser _ exOuter exX (by rfl)
example : fileSafe [] exOuter .empty exX = true := fileSafe_of_syn [] exOuter .empty exX (by rfl)

example : defaultsQuiet [] exInner .none = true := by rfl
example : quietNone [] exInner .none = true := quietNone_of_defaults [] exInner .none (by rfl)
example : defaultsQuiet [] (.leaf ⟨"w".toList, ⟨.vtuple (.base .bool), false⟩, .missing, []⟩ .nil) .none = true := by rfl

/-! non-vacuity of the per-constructor lemmas and of the auxiliary theorems: each hypothesis list is satisfied by a
    concrete, non-trivial input -/
example := leaf_scalar [] false "e".toList colorTy (.value (.sc .none)) [] (.enum "Color".toList "GREEN".toList) (by rfl) (by rfl)
example := leaf_scalar [] false "p".toList .path .missing [] (.path "a/b".toList) (by rfl) (by rfl)
example := leaf_opt_scalar [] false "p".toList .path (.value (.sc .none)) [] (.path "a/b".toList) (by rfl) (by rfl)
example := leaf_opt_scalar [] false "e".toList colorTy .missing [] (.enum "Color".toList "BLUE".toList) (by rfl) (by rfl)
example := leaf_union [] false "u".toList [.int, .str] false .missing [] (.str "x".toList) (by rfl) (by rfl) (by rfl)
example := leaf_union [("1.5".toList, some "1.5".toList)] false "u".toList [.str, .float] true .missing [] (.str "1.5".toList)
  (by rfl) (by rfl) (by rfl)
example := leaf_list [] false "l".toList (.base .int) false .missing [] [.int 1, .int (-2)] (by rfl) (by rfl)
example := leaf_tuple [] false "t".toList [.base .int, .base .str, .base .float] true (.value (.sc .none)) []
  [.int 1, .str "a b".toList, .float "2.5".toList] (by rfl) (by rfl)
example := leaf_vtuple [] false "t".toList (.base .bool) false (.value (.tuple [])) [] [.bool true, .bool false] (by rfl)
example := leaf_literal [] false "m".toList [.int 0, .str "zero".toList, .int 1] .missing [] (.str "zero".toList) (by rfl) (by rfl)
example := leaf_opt_none [] false "o".toList (.tuple [.base .int, .base .int]) .missing [] .missing (by rfl) (Or.inl rfl)
example : ∃ eq, parseLeaf [] false .empty ⟨"e".toList, ⟨.sc (.base colorTy), true⟩, .value (.sc .none), []⟩
    (some (.val (encode (.sc (.enum "Color".toList "GREEN".toList))))) = .ok (.sc (.enum "Color".toList "GREEN".toList), eq) :=
  leaf_loop [] false .empty _ _ (by rfl) (by rfl) (by rfl)
example : ∃ b, parseSpec [] false exOuter .empty (fileOf exX) = .ok (exX, b) :=
  parseSpec_loop [] exOuter exX false .empty _ exOuter_conforms exOuter_wf (by rfl) (fun _ _ => rfl)
example : checkDefaults exOuter exOuter.names (fileOf exX) = none :=
  checkDefaults_ok exOuter exX _ _ exOuter_conforms exOuter_wf (fun _ _ => rfl) (by
    intro k hk; rw [keys_fileOf exOuter exX exOuter_conforms] at hk; exact hk)
example := leafQuiet_ok [] ⟨"t".toList, ⟨.tuple [.base .path, .base colorTy], false⟩,
  .value (.tuple [.path "a".toList, .enum "Color".toList "RED".toList]), []⟩
  (.value (.tuple [.path "a".toList, .enum "Color".toList "RED".toList])) (by rfl)
example := default_missing [] "w".toList (.vtuple (.base .bool)) .missing [] (by rfl)
example := default_union [] true "u".toList [.int, .str] false .missing [] (.int 4) (by rfl) (by rfl) (by rfl)
/-- `p: Optional[Path]` with the raw file value `"a/b"`: the engine converts the string default with `type=Path` -/
example := emptyArgv_engine_ok [] ⟨.opt, .base .path, none, false, .sc (.str "a/b".toList), false⟩ ["--p".toList] "config.p".toList
  (.sc (.path "a/b".toList)) rfl (by rfl)
/-- `i: int` with the ill-typed raw file value `"ab"` -/
example := emptyArgv_engine_exit [] ⟨.one, .base .int, none, false, .sc (.str "ab".toList), false⟩ ["--i".toList] "config.i".toList
  rfl (by rfl)
example := emptyArgv_engine_required [] ⟨.one, .base .int, none, true, .sc .none, false⟩ ["--i".toList] "config.i".toList rfl

end SpVerif.C15
