/-
  C17 — how a dataclass is written does not change its command line.
  Theorems about `SpVerif.Model.Annot`.  Main result: `c17_style_invariant_partial` (options + `postprocess` arm equal in
  all six renderings on `InCliGrammar`; named gap `ListItemsNotContainers` = open finding C17-list-of-containers, witness
  `c17_list_of_containers_witness`, `FullStatement` refuted).  `c17_post_live` needs no grammar restriction.
  Inheritance: `c17_inherit_order`, `c17_inherit_last_wins` (any chain, re-declared fields included), `c17_inherit`.
-/
import SpVerif.Model.Annot
namespace SpVerif.C17
open SpVerif SpVerif.Annot

/-! ### the command-line type grammar (decidable) -/

def isAtom : TyExpr → Bool
  | .atom _ => true
  | _ => false

def isUnionOrOpt : TyExpr → Bool
  | .union _ => true
  | .opt _ => true
  | _ => false

def allAtoms : List TyExpr → Bool
  | [] => true
  | e :: es => isAtom e && allAtoms es

mutual
/-- type expressions on which `get_parsing_fn` is representation-independent: arbitrary nesting of lists, variadic
    tuples, unions and optionals; fixed tuples have atomic items (their homogeneity test compares annotation objects);
    union members are not themselves unions/optionals and an optional is not nested in an optional (CPython would
    flatten those); `Optional[Union[…]]` has atomic members (the code re-builds the union of the non-`None` members). -/
def robust : TyExpr → Bool
  | .atom _ => true
  | .dc _ => false
  | .list e => robust e
  | .tuple es => allAtoms es
  | .vtuple e => robust e
  | .opt (.union es) => allAtoms es
  | .opt e => robust e && !isUnionOrOpt e
  | .union es => robustMembers es
termination_by structural e => e
def robustMembers : List TyExpr → Bool
  | [] => true
  | e :: es => robust e && !isUnionOrOpt e && robustMembers es
end

/-- what a list item may be on the command line: an atom or a union / optional (converted member by member).  A list
    whose items are themselves containers is not a command-line type: `List[List[int]]` hands argparse a `typing` alias
    that cannot be called, `list[list[int]]` a builtin alias that splits the token into characters — neither spelling
    yields a usable option, and they are the one place left where the spelling shows (see `c17_grammar_boundary`). -/
def itemOk (x : TyExpr) : Bool := isAtom x || isUnionOrOpt x

/-- the named restriction of the grammar: wherever `get_argparse_type_for_container` is applied — a top-level list or
    an optional list — the item is not itself a container -/
def ListItemsNotContainers : TyExpr → Bool
  | .list x => itemOk x
  | .opt (.list x) => itemOk x
  | _ => true

/-- field types of the command-line grammar -/
def InCliGrammar : TyExpr → Bool
  | .dc _ => true
  | .opt (.dc _) => true
  | e => robust e && ListItemsNotContainers e

/-! ### representation-independent facts -/

theorem denote_atom (l l' : Live) (e : TyExpr) (h : isAtom e = true) : denoteLive l e = denoteLive l' e := by
  cases e <;> simp [isAtom] at h
  simp [denoteLive]

theorem denoteL_atoms (l l' : Live) : ∀ es : List TyExpr, allAtoms es = true → denoteLiveL l es = denoteLiveL l' es
  | [], _ => by simp [denoteLiveL]
  | e :: es, h => by
    simp [allAtoms] at h
    simp [denoteLiveL, denote_atom l l' e h.1, denoteL_atoms l l' es h.2]

/-- no rendering of a type expression is `NoneType` itself -/
theorem not_none (l : Live) : ∀ e : TyExpr, isNoneType (denoteLive l e) = false
  | .atom a => by cases a <;> simp [denoteLive, atomCls, isNoneType]
  | .dc _ => by simp [denoteLive, isNoneType]
  | .list _ => by cases l <;> simp [denoteLive, mkList, isNoneType]
  | .tuple _ => by cases l <;> simp [denoteLive, mkTuple, isNoneType]
  | .vtuple _ => by cases l <;> simp [denoteLive, mkTuple, isNoneType]
  | .union _ => by cases l <;> simp [denoteLive, mkUnion, isNoneType]
  | .opt e => by cases e <;> cases l <;> simp [denoteLive, mkUnion, isNoneType]

theorem any_none_denoteL (l : Live) : ∀ es : List TyExpr, (denoteLiveL l es).any isNoneType = false
  | [] => by simp [denoteLiveL]
  | e :: es => by simp [denoteLiveL, not_none l e, any_none_denoteL l es]

theorem parsingFn_mkList (l : Live) (x : Ann) : parsingFn (mkList l x) = parsingFn x := by
  cases l <;> simp [mkList, parsingFn, parsingFnHead]

theorem parsingFn_mkTuple (l l' : Live) (xs : List Ann) : parsingFn (mkTuple l xs) = parsingFn (mkTuple l' xs) := by
  cases l <;> cases l' <;> simp [mkTuple, parsingFn]

theorem parsingFn_vtuple (l : Live) (x : Ann) : parsingFn (mkTuple l [x, .ellipsis]) = parsingFn x := by
  cases l <;> simp [mkTuple, parsingFn, isHomogeneous, parsingFnHead]

theorem parsingFn_mkUnion (l : Live) (xs : List Ann) :
    parsingFn (mkUnion l xs) = if xs.any isNoneType then .tryFns (parsingFnOpt xs) else .tryFns (parsingFnL xs) := by
  cases l <;> simp [mkUnion, parsingFn]

theorem parsingFnOpt_append_none : ∀ xs : List Ann, xs.any isNoneType = false →
    parsingFnOpt (xs ++ [.cls .none]) = (parsingFnL xs).map .optWrap
  | [], _ => by simp [parsingFnOpt, parsingFnL, isNoneType]
  | x :: xs, h => by
    simp at h
    have hx : isNoneType x = false := h.1
    have hxs : xs.any isNoneType = false := by
      simp; exact h.2
    simp [parsingFnOpt, parsingFnL, hx, parsingFnOpt_append_none xs hxs]

mutual
/-- **`get_parsing_fn` does not depend on how the type is written** — by structural induction on the type
    expression, for nesting of any depth and tuples / unions of any width. -/
theorem parsingFn_style (l l' : Live) : ∀ e : TyExpr, robust e = true →
    parsingFn (denoteLive l e) = parsingFn (denoteLive l' e)
  | .atom a, _ => by simp [denoteLive]
  | .dc _, h => by simp [robust] at h
  | .list e, h => by
    simp only [robust] at h
    simp only [denoteLive, parsingFn_mkList]
    exact parsingFn_style l l' e h
  | .tuple es, h => by
    simp only [robust] at h
    simp only [denoteLive, denoteL_atoms l l' es h]
    exact parsingFn_mkTuple l l' _
  | .vtuple e, h => by
    simp only [robust] at h
    simp only [denoteLive, parsingFn_vtuple]
    exact parsingFn_style l l' e h
  | .union es, h => by
    simp only [robust] at h
    simp only [denoteLive, parsingFn_mkUnion, any_none_denoteL]
    simp [parsingFnL_style l l' es h]
  | .opt (.union es), h => by
    simp only [robust] at h
    simp only [denoteLive, parsingFn_mkUnion]
    simp [parsingFnOpt_append_none _ (any_none_denoteL _ es), denoteL_atoms l l' es h]
  | .opt (.atom a), _ => by
    simp [denoteLive, parsingFn_mkUnion, isNoneType, parsingFnOpt]
  | .opt (.dc n), h => by simp [robust] at h
  | .opt (.list e), h => by
    have h' : robust (.list e) = true := by simpa [robust, isUnionOrOpt] using h
    have ih := parsingFn_style l l' (.list e) h'
    have n1 := not_none l (.list e)
    have n2 := not_none l' (.list e)
    simp [denoteLive, parsingFn_mkUnion, isNoneType, parsingFnOpt] at ih n1 n2 ⊢
    simp [n1, n2, ih]
  | .opt (.tuple es), h => by
    have h' : robust (.tuple es) = true := by simpa [robust, isUnionOrOpt] using h
    have ih := parsingFn_style l l' (.tuple es) h'
    have n1 := not_none l (.tuple es)
    have n2 := not_none l' (.tuple es)
    simp [denoteLive, parsingFn_mkUnion, isNoneType, parsingFnOpt] at ih n1 n2 ⊢
    simp [n1, n2, ih]
  | .opt (.vtuple e), h => by
    have h' : robust (.vtuple e) = true := by simpa [robust, isUnionOrOpt] using h
    have ih := parsingFn_style l l' (.vtuple e) h'
    have n1 := not_none l (.vtuple e)
    have n2 := not_none l' (.vtuple e)
    simp [denoteLive, parsingFn_mkUnion, isNoneType, parsingFnOpt] at ih n1 n2 ⊢
    simp [n1, n2, ih]
  | .opt (.opt e), h => by simp [robust, isUnionOrOpt] at h
theorem parsingFnL_style (l l' : Live) : ∀ es : List TyExpr, robustMembers es = true →
    parsingFnL (denoteLiveL l es) = parsingFnL (denoteLiveL l' es)
  | [], _ => by simp [denoteLiveL]
  | e :: es, h => by
    simp [robustMembers] at h
    simp [denoteLiveL, parsingFnL, parsingFn_style l l' e h.1.1, parsingFnL_style l l' es h.2]
end

/-! ### the options a field gets -/

theorem noDc_denote (l : Live) : ∀ e : TyExpr, robust e = true → isDataclass (denoteLive l e) = false
  | .atom a, _ => by cases a <;> simp [denoteLive, atomCls, isDataclass]
  | .dc _, h => by simp [robust] at h
  | .list _, _ => by cases l <;> simp [denoteLive, mkList, isDataclass]
  | .tuple _, _ => by cases l <;> simp [denoteLive, mkTuple, isDataclass]
  | .vtuple _, _ => by cases l <;> simp [denoteLive, mkTuple, isDataclass]
  | .union _, _ => by cases l <;> simp [denoteLive, mkUnion, isDataclass]
  | .opt e, _ => by cases e <;> cases l <;> simp [denoteLive, mkUnion, isDataclass]

theorem noDc_denoteL (l : Live) : ∀ es : List TyExpr, robustMembers es = true → (denoteLiveL l es).any isDataclass = false
  | [], _ => by simp [denoteLiveL]
  | e :: es, h => by
    simp [robustMembers] at h
    have ih := noDc_denoteL l es h.2
    simp only [denoteLiveL, List.any_cons, noDc_denote l e h.1.1, ih]
    rfl

theorem kind_mkList (l l' : Live) (x : Ann) (d : Dflt) : kind (mkList l x) d = kind (mkList l' x) d := by
  cases l <;> cases l' <;> rfl

theorem kind_mkTuple (l l' : Live) (xs : List Ann) (d : Dflt) : kind (mkTuple l xs) d = kind (mkTuple l' xs) d := by
  cases l <;> cases l' <;> rfl

theorem kind_union_repr (xs : List Ann) (d : Dflt) : kind (.unionType xs) d = kind (.typing .union xs) d := by
  have e1 : isOptional (.unionType xs) = isOptional (.typing .union xs) := rfl
  have e2 : wrappedType (.unionType xs) = wrappedType (.typing .union xs) := rfl
  have e3 : parsingFn (.unionType xs) = parsingFn (.typing .union xs) := by simp [parsingFn]
  have e0 : containsDc (.unionType xs) = containsDc (.typing .union xs) := rfl
  by_cases hc : containsDc (.typing .union xs) = true
  · simp [kind, e0, hc]
  · simp at hc
    by_cases h : isOptional (.typing .union xs) = true
    · simp [kind, e0, hc, e1, e2, h]
    · simp at h
      cases d <;> simp [kind, e0, hc, e1, e3, h, isUnion, isTuple, isList, mro, required0]

theorem kind_mkUnion (l l' : Live) (xs : List Ann) (d : Dflt) : kind (mkUnion l xs) d = kind (mkUnion l' xs) d := by
  cases l <;> cases l' <;> simp [mkUnion, kind_union_repr]

theorem kind_vtuple (l l' : Live) (x x' : Ann) (d : Dflt) (hp : parsingFn x = parsingFn x') :
    kind (mkTuple l [x, .ellipsis]) d = kind (mkTuple l' [x', .ellipsis]) d := by
  cases l <;> cases l' <;> cases d <;>
    simp [kind, mkTuple, containsDc, isDataclass, isOptional, isUnion, isEnum, isList, isTuple, mro, required0,
      containerNargs, getArgs, parsingFn, isHomogeneous, parsingFnHead, hp]

theorem kind_union_plain (xs xs' : List Ann) (d : Dflt) (h1 : xs.any isNoneType = false)
    (h2 : xs'.any isNoneType = false) (g1 : xs.any isDataclass = false) (g2 : xs'.any isDataclass = false)
    (hp : parsingFnL xs = parsingFnL xs') :
    kind (.typing .union xs) d = kind (.typing .union xs') d := by
  have d0 : ∀ ys, isDataclass (.typing .union ys) = false := fun _ => rfl
  have c1 : containsDc (.typing .union xs) = false := by simp only [containsDc, d0, isUnion, getArgs, g1]; rfl
  have c2 : containsDc (.typing .union xs') = false := by simp only [containsDc, d0, isUnion, getArgs, g2]; rfl
  have o1 : isOptional (.typing .union xs) = false := by simp [isOptional, isUnion, getArgs]; simpa using h1
  have o2 : isOptional (.typing .union xs') = false := by simp [isOptional, isUnion, getArgs]; simpa using h2
  have p1 : parsingFn (.typing .union xs) = .tryFns (parsingFnL xs) := by simp [parsingFn, h1]
  have p2 : parsingFn (.typing .union xs') = .tryFns (parsingFnL xs') := by simp [parsingFn, h2]
  cases d <;> simp [kind, c1, c2, o1, o2, p1, p2, hp, isUnion, isTuple, isList, mro, required0]

theorem denote_unionish (l : Live) (x : TyExpr) (h : isUnionOrOpt x = true) : ∃ ys, denoteLive l x = mkUnion l ys := by
  cases x with
  | union es => exact ⟨_, by simp only [denoteLive]; rfl⟩
  | opt e => cases e <;> exact ⟨_, by simp only [denoteLive]; rfl⟩
  | _ => simp [isUnionOrOpt] at h

/-- a list of unions: the item conversion is `get_parsing_fn` of the union, whichever way list and union are written -/
theorem ctf_list_union (l m : Live) (ys : List Ann) :
    containerTypeFn (mkList l (mkUnion m ys)) = parsingFn (mkUnion m ys) := by
  cases l <;> cases m <;> simp [mkList, mkUnion, containerTypeFn, getArgs, isUnion]

theorem kind_list_union (l l' m m' : Live) (ys ys' : List Ann) (d : Dflt)
    (hp : parsingFn (mkUnion m ys) = parsingFn (mkUnion m' ys')) :
    kind (mkList l (mkUnion m ys)) d = kind (mkList l' (mkUnion m' ys')) d := by
  have c1 := ctf_list_union l m ys
  have c2 := ctf_list_union l' m' ys'
  cases l <;> cases l' <;> cases d <;>
    simp [kind, mkList, containsDc, isDataclass, isOptional, isUnion, isEnum, isList, isTuple, mro, required0, getArgs] at c1 c2 ⊢ <;>
    simp [mkList, c1, c2, hp]

/-- an `Optional[w]` field: the branch is chosen on the wrapped type `w` -/
theorem kind_opt_single (w : Ann) (d : Dflt) (hn : isNoneType w = false) (hdc : isDataclass w = false) :
    kind (.typing .union [w, .cls .none]) d =
      (if isTuple w then ⟨.optional, false, containerNargs w, some (parsingFn w), Option.none⟩
       else if isList w then ⟨.optional, false, .star, some (containerTypeFn w), Option.none⟩
       else ⟨.optional, false, .opt, some (parsingFn w), Option.none⟩) := by
  have o : isOptional (.typing .union [w, .cls .none]) = true := by simp [isOptional, isUnion, getArgs, isNoneType]
  have ww : wrappedType (.typing .union [w, .cls .none]) = w := by
    have hc : isNoneType (.cls .none) = true := rfl
    simp [wrappedType, getArgs, List.filter, hn, hc]
  have c : containsDc (.typing .union [w, .cls .none]) = false := by
    have d0 : isDataclass (.typing .union [w, .cls .none]) = false := rfl
    have d1 : isDataclass (.cls .none) = false := rfl
    simp only [containsDc, d0, isUnion, getArgs, List.any_cons, List.any_nil, hdc, d1]
    rfl
  simp [kind, c, o, ww]

/-- **Live renderings.** For every field type of the command-line grammar the options a field gets do not depend on
    whether the annotation is written with `typing` generics, builtin generics or PEP 604 unions. -/
theorem c17_live_invariant (l l' : Live) (d : Dflt) : ∀ e : TyExpr, InCliGrammar e = true →
    kind (denoteLive l e) d = kind (denoteLive l' e) d
  | .atom a, _ => by simp [denoteLive]
  | .dc n, _ => by simp [denoteLive]
  | .list x, h => by
    simp [InCliGrammar, ListItemsNotContainers, robust, itemOk] at h
    simp only [denoteLive]
    rcases h.2 with ha | hu
    · rw [denote_atom l l' x ha]
      exact kind_mkList l l' _ d
    · obtain ⟨ys, e1⟩ := denote_unionish l x hu
      obtain ⟨ys', e2⟩ := denote_unionish l' x hu
      have hp := parsingFn_style l l' x h.1
      rw [e1, e2] at hp ⊢
      exact kind_list_union l l' l l' ys ys' d hp
  | .tuple es, h => by
    simp [InCliGrammar, robust, ListItemsNotContainers] at h
    simp only [denoteLive, denoteL_atoms l l' es h]
    exact kind_mkTuple l l' _ d
  | .vtuple x, h => by
    simp [InCliGrammar, robust, ListItemsNotContainers] at h
    simp only [denoteLive]
    exact kind_vtuple l l' _ _ d (parsingFn_style l l' x h)
  | .union es, h => by
    simp [InCliGrammar, robust, ListItemsNotContainers] at h
    simp only [denoteLive]
    rw [kind_mkUnion l .typing, kind_mkUnion l' .typing]
    simp only [mkUnion]
    exact kind_union_plain _ _ d (any_none_denoteL l es) (any_none_denoteL l' es) (noDc_denoteL l es h)
      (noDc_denoteL l' es h) (parsingFnL_style l l' es h)
  | .opt (.union es), h => by
    simp [InCliGrammar, robust, ListItemsNotContainers] at h
    simp only [denoteLive, denoteL_atoms l l' es h]
    exact kind_mkUnion l l' _ d
  | .opt (.atom a), _ => by
    simp only [denoteLive]
    exact kind_mkUnion l l' _ d
  | .opt (.dc n), _ => by
    simp only [denoteLive]
    exact kind_mkUnion l l' _ d
  | .opt (.opt e), h => by simp [InCliGrammar, robust, isUnionOrOpt] at h
  | .opt (.list x), h => by
    simp [InCliGrammar, robust, ListItemsNotContainers, isUnionOrOpt, itemOk] at h
    simp only [denoteLive]
    rw [kind_mkUnion l .typing, kind_mkUnion l' .typing]
    simp only [mkUnion]
    rw [kind_opt_single _ d (by cases l <;> simp [mkList, isNoneType]) (by cases l <;> simp [mkList, isDataclass]),
        kind_opt_single _ d (by cases l' <;> simp [mkList, isNoneType]) (by cases l' <;> simp [mkList, isDataclass])]
    rcases h.2 with ha | hu
    · rw [denote_atom l l' x ha]
      cases l <;> cases l' <;> simp [mkList, isTuple, isList, mro, containerTypeFn, getArgs]
    · obtain ⟨ys, e1⟩ := denote_unionish l x hu
      obtain ⟨ys', e2⟩ := denote_unionish l' x hu
      have hp := parsingFn_style l l' x h.1
      rw [e1, e2] at hp ⊢
      have t1 : isTuple (mkList l (mkUnion l ys)) = false := by cases l <;> simp [mkList, isTuple, mro]
      have t2 : isTuple (mkList l' (mkUnion l' ys')) = false := by cases l' <;> simp [mkList, isTuple, mro]
      have l1 : isList (mkList l (mkUnion l ys)) = true := by cases l <;> simp [mkList, isList, mro]
      have l2 : isList (mkList l' (mkUnion l' ys')) = true := by cases l' <;> simp [mkList, isList, mro]
      simp [t1, t2, l1, l2, ctf_list_union, hp]
  | .opt (.tuple es), h => by
    simp [InCliGrammar, robust, ListItemsNotContainers, isUnionOrOpt] at h
    simp only [denoteLive, denoteL_atoms l l' es h]
    rw [kind_mkUnion l .typing, kind_mkUnion l' .typing]
    simp only [mkUnion]
    rw [kind_opt_single _ d (by cases l <;> simp [mkTuple, isNoneType]) (by cases l <;> simp [mkTuple, isDataclass]),
        kind_opt_single _ d (by cases l' <;> simp [mkTuple, isNoneType]) (by cases l' <;> simp [mkTuple, isDataclass])]
    cases l <;> cases l' <;> simp [mkTuple, isTuple, mro, containerNargs, getArgs, parsingFn]
  | .opt (.vtuple x), h => by
    simp [InCliGrammar, robust, ListItemsNotContainers, isUnionOrOpt] at h
    have hp := parsingFn_style l l' x h
    simp only [denoteLive]
    rw [kind_mkUnion l .typing, kind_mkUnion l' .typing]
    simp only [mkUnion]
    rw [kind_opt_single _ d (by cases l <;> simp [mkTuple, isNoneType]) (by cases l <;> simp [mkTuple, isDataclass]),
        kind_opt_single _ d (by cases l' <;> simp [mkTuple, isNoneType]) (by cases l' <;> simp [mkTuple, isDataclass])]
    cases l <;> cases l' <;>
      simp [mkTuple, isTuple, mro, containerNargs, getArgs, parsingFn, isHomogeneous, parsingFnHead, hp]

/-! ### postponed annotations -/

/-- the assumption on CPython's evaluator, for one field: the text of the annotation evaluates to the object the same
    text yields when it is not postponed -/
def EvalOk (ev : Str → EvOut) : Style → TyExpr → Prop
  | .live _, _ => True
  | .postponed l, e => ev (render l e) = .ok (denoteLive l e)

/-- what a field ends up with: its options, or nothing when resolution raised -/
def kindOf : ROut → Dflt → Option FieldKind
  | .ok a, d => some (kind a d)
  | .raise _, _ => Option.none

/-- a live annotation object is used as it is — so resolution is idempotent and the in-place update of `Field.type`
    (dataclass_wrapper.py:90) cannot change a later parser built from the same class -/
theorem resolve_live (ev : Str → EvOut) (l : Live) : ∀ e : TyExpr, resolve ev (denoteLive l e) = .ok (denoteLive l e)
  | .atom a => by simp [denoteLive, resolve]
  | .dc _ => by simp [denoteLive, resolve]
  | .list _ => by cases l <;> simp [denoteLive, mkList, resolve]
  | .tuple _ => by cases l <;> simp [denoteLive, mkTuple, resolve]
  | .vtuple _ => by cases l <;> simp [denoteLive, mkTuple, resolve]
  | .union _ => by cases l <;> simp [denoteLive, mkUnion, resolve]
  | .opt e => by cases e <;> cases l <;> simp [denoteLive, mkUnion, resolve]

/-- postponed text whose value is not a top-level `X | Y`: resolution returns the evaluated object unchanged -/
theorem resolve_postponed_plain (ev : Str → EvOut) (l : Live) (e : TyExpr)
    (hev : ev (render l e) = .ok (denoteLive l e)) (h : l ≠ .pep604 ∨ isUnionOrOpt e = false) :
    resolve ev (denote (.postponed l) e) = .ok (denoteLive l e) := by
  simp only [denote, resolve, hev]
  cases e with
  | atom a => simp [denoteLive]
  | dc n => simp [denoteLive]
  | list x => cases l <;> simp [denoteLive, mkList]
  | tuple es => cases l <;> simp [denoteLive, mkTuple]
  | vtuple x => cases l <;> simp [denoteLive, mkTuple]
  | union es =>
    cases l <;> simp [denoteLive, mkUnion, isUnionOrOpt] at h ⊢
  | opt x =>
    cases l <;> simp [isUnionOrOpt] at h <;> cases x <;> simp [denoteLive, mkUnion]

theorem replaceL_atoms (l : Live) : ∀ es : List TyExpr, allAtoms es = true →
    replaceUnionL (denoteLiveL l es) = .ok (denoteLiveL l es)
  | [], _ => by simp [denoteLiveL, replaceUnionL]; rfl
  | e :: es, h => by
    simp [allAtoms] at h
    cases e <;> simp [isAtom] at h
    simp [denoteLiveL, denoteLive, replaceUnionL, replaceUnion, replaceL_atoms l es h]
    rfl

/-! #### `_replace_UnionType_with_typing_Union` turns the PEP 604 object into the builtin-style object -/

def isTypingUnion : Ann → Bool
  | .typing .union _ => true
  | _ => false

/-- pairwise different under Python `==` -/
def distinctL : List Ann → Bool
  | [] => true
  | x :: r => r.all (fun y => !annEq x y) && distinctL r

mutual
/-- CPython's own normal form of a type expression: a union has at least two members and they are pairwise different
    (`Union[int]` *is* `int`, `int | int` *is* `int`) — a condition on the expression, not on the code -/
def normal : TyExpr → Bool
  | .atom _ => true
  | .dc _ => true
  | .list e => normal e
  | .tuple es => normalL es && !es.isEmpty        -- `Tuple[]` is not an expression CPython accepts
  | .vtuple e => normal e
  | .opt (.union es) => normalL es && distinctL (denoteLiveL .builtin es) && decide (2 ≤ es.length)
  | .opt e => normal e
  | .union es => normalL es && distinctL (denoteLiveL .builtin es) && decide (2 ≤ es.length)
termination_by structural e => e
def normalL : List TyExpr → Bool
  | [] => true
  | e :: es => normal e && normalL es
end

theorem flatten_id : ∀ xs : List Ann, xs.all (fun a => !isTypingUnion a) = true → flattenUnion xs = xs
  | [], _ => rfl
  | x :: xs, h => by
    simp at h
    have ih := flatten_id xs (by simpa using h.2)
    cases x with
    | typing o ys => cases o <;> simp [isTypingUnion] at h <;> simp [flattenUnion, ih]
    | _ => simp [flattenUnion, ih]

theorem dedup_id : ∀ xs : List Ann, distinctL xs = true → dedupAnn xs = xs
  | [], _ => rfl
  | x :: r, h => by
    simp [distinctL] at h
    simp only [dedupAnn, dedup_id r h.2]
    congr 1
    apply List.filter_eq_self.mpr
    intro y hy
    simpa using h.1 y hy

theorem mkTU_id (xs : List Ann) (hf : xs.all (fun a => !isTypingUnion a) = true) (hd : distinctL xs = true)
    (hl : 2 ≤ xs.length) : mkTypingUnion xs = .typing .union xs := by
  simp only [mkTypingUnion, flatten_id xs hf, dedup_id xs hd]
  match xs, hl with
  | _ :: _ :: _, _ => rfl

theorem distinct_snoc : ∀ (xs : List Ann) (z : Ann), distinctL xs = true → (∀ y ∈ xs, annEq y z = false) →
    distinctL (xs ++ [z]) = true
  | [], _, _, _ => by simp [distinctL]
  | x :: r, z, h, hz => by
    simp [distinctL] at h
    have ih := distinct_snoc r z h.2 (fun y hy => hz y (by simp [hy]))
    simp [distinctL, ih]
    refine ⟨?_, hz x (by simp)⟩
    intro y hy; exact h.1 y hy

theorem annEq_none (l : Live) : ∀ e : TyExpr, annEq (denoteLive l e) (.cls .none) = false
  | .atom a => by cases a <;> simp [denoteLive, atomCls, annEq]
  | .dc _ => by simp [denoteLive, annEq]
  | .list _ => by cases l <;> simp [denoteLive, mkList, annEq]
  | .tuple _ => by cases l <;> simp [denoteLive, mkTuple, annEq]
  | .vtuple _ => by cases l <;> simp [denoteLive, mkTuple, annEq]
  | .union _ => by cases l <;> simp [denoteLive, mkUnion, annEq]
  | .opt e => by cases e <;> cases l <;> simp [denoteLive, mkUnion, annEq]

theorem annEq_none_L (l : Live) : ∀ es : List TyExpr, ∀ y ∈ denoteLiveL l es, annEq y (.cls .none) = false
  | [], y, hy => by simp [denoteLiveL] at hy
  | e :: es, y, hy => by
    simp [denoteLiveL] at hy
    rcases hy with h | h
    · rw [h]; exact annEq_none l e
    · exact annEq_none_L l es y h

theorem notTU (e : TyExpr) (h : isUnionOrOpt e = false) : isTypingUnion (denoteLive .builtin e) = false := by
  cases e <;> simp [isUnionOrOpt] at h <;> simp [denoteLive, mkList, mkTuple, isTypingUnion]

theorem notTU_members : ∀ es : List TyExpr, robustMembers es = true →
    (denoteLiveL .builtin es).all (fun a => !isTypingUnion a) = true
  | [], _ => by simp [denoteLiveL]
  | e :: es, h => by
    simp [robustMembers] at h
    have ih := notTU_members es h.2
    simp only [denoteLiveL, List.all_cons, notTU e h.1.2, ih]
    rfl

theorem notTU_atoms : ∀ es : List TyExpr, allAtoms es = true →
    (denoteLiveL .builtin es).all (fun a => !isTypingUnion a) = true
  | [], _ => by simp [denoteLiveL]
  | e :: es, h => by
    simp [allAtoms] at h
    have : isUnionOrOpt e = false := by cases e <;> simp [isAtom] at h <;> rfl
    have ih := notTU_atoms es h.2
    simp only [denoteLiveL, List.all_cons, notTU e this, ih]
    rfl

theorem replaceL_append_none : ∀ (xs ys : List Ann), replaceUnionL xs = .ok ys →
    replaceUnionL (xs ++ [.cls .none]) = .ok (ys ++ [.cls .none])
  | [], ys, h => by
    simp [replaceUnionL, pure, Except.pure] at h
    subst h
    simp [replaceUnionL, replaceUnion, bind, Except.bind, pure, Except.pure]
  | x :: xs, ys, h => by
    simp only [List.cons_append, replaceUnionL, bind, Except.bind] at h ⊢
    cases hx : replaceUnion x with
    | error e => simp [hx] at h
    | ok y =>
      simp only [hx] at h ⊢
      cases hxs : replaceUnionL xs with
      | error e => simp [hxs] at h
      | ok ys' =>
        simp only [hxs] at h
        simp [pure, Except.pure] at h
        subst h
        simp [replaceL_append_none xs ys' hxs, pure, Except.pure]

theorem replace_union_helper (xs xs' : List Ann) (h : replaceUnionL xs = .ok xs')
    (hf : xs'.all (fun a => !isTypingUnion a) = true) (hd : distinctL xs' = true) (hl : 2 ≤ xs'.length) :
    replaceUnion (.unionType xs) = .ok (.typing .union xs') := by
  simp [replaceUnion, h, bind, Except.bind, pure, Except.pure, mkTU_id xs' hf hd hl]

theorem denoteLiveL_length (l : Live) : ∀ es : List TyExpr, (denoteLiveL l es).length = es.length
  | [] => by simp [denoteLiveL]
  | e :: es => by simp [denoteLiveL, denoteLiveL_length l es]

/-- `X | None` over a non-union `X` -/
theorem opt_case (e : TyExpr) (hu : isUnionOrOpt e = false)
    (ih : replaceUnion (denoteLive .pep604 e) = .ok (denoteLive .builtin e))
    (d1 : denoteLive .pep604 (.opt e) = .unionType [denoteLive .pep604 e, .cls .none])
    (d2 : denoteLive .builtin (.opt e) = .typing .union [denoteLive .builtin e, .cls .none]) :
    replaceUnion (denoteLive .pep604 (.opt e)) = .ok (denoteLive .builtin (.opt e)) := by
  rw [d1, d2]
  refine replace_union_helper _ _ ?_ ?_ ?_ (by simp)
  · simp [replaceUnionL, ih, replaceUnion, bind, Except.bind, pure, Except.pure]
  · simp only [List.all_cons, List.all_nil, notTU e hu]
    rfl
  · simp [distinctL, annEq_none .builtin e]

mutual
/-- **The recursive replacement produces exactly the builtin-style object**, for nesting of any depth -/
theorem replace_denote : ∀ e : TyExpr, robust e = true → normal e = true →
    replaceUnion (denoteLive .pep604 e) = .ok (denoteLive .builtin e)
  | .atom a, _, _ => by simp [denoteLive, replaceUnion]; rfl
  | .dc _, h, _ => by simp [robust] at h
  | .list e, h, n => by
    simp only [robust] at h
    simp only [normal] at n
    simp [denoteLive, mkList, replaceUnion, replaceUnionL, replace_denote e h n, bind, Except.bind, pure, Except.pure]
  | .tuple es, h, _ => by
    simp only [robust] at h
    simp [denoteLive, mkTuple, replaceUnion, replaceL_atoms .pep604 es h, denoteL_atoms .builtin .pep604 es h, bind,
      Except.bind, pure, Except.pure]
  | .vtuple e, h, n => by
    simp only [robust] at h
    simp only [normal] at n
    simp [denoteLive, mkTuple, replaceUnion, replaceUnionL, replace_denote e h n, bind, Except.bind, pure, Except.pure]
  | .union es, h, n => by
    simp only [robust] at h
    simp [normal] at n
    simp only [denoteLive, mkUnion]
    exact replace_union_helper _ _ (replaceL_denote es h n.1.1) (notTU_members es h) n.1.2
      (by simpa [denoteLiveL_length] using n.2)
  | .opt (.union es), h, n => by
    simp only [robust] at h
    simp [normal] at n
    simp only [denoteLive, mkUnion]
    have r := replaceL_append_none _ _ (replaceL_atoms .pep604 es h)
    rw [denoteL_atoms .pep604 .builtin es h] at r ⊢
    refine replace_union_helper _ _ r ?_ ?_ ?_
    · simpa [isTypingUnion] using notTU_atoms es h
    · exact distinct_snoc _ _ n.1.2 (annEq_none_L .builtin es)
    · simp [denoteLiveL_length]; omega
  | .opt (.atom a), _, _ => opt_case (.atom a) rfl (replace_denote (.atom a) rfl rfl) rfl rfl
  | .opt (.dc n), h, _ => by simp [robust] at h
  | .opt (.opt e), h, _ => by simp [robust, isUnionOrOpt] at h
  | .opt (.list e), h, n =>
    opt_case (.list e) rfl (replace_denote (.list e) (by simpa [robust, isUnionOrOpt] using h) (by simpa [normal] using n)) rfl rfl
  | .opt (.tuple es), h, n =>
    opt_case (.tuple es) rfl (replace_denote (.tuple es) (by simpa [robust, isUnionOrOpt] using h) (by simpa [normal] using n)) rfl rfl
  | .opt (.vtuple e), h, n =>
    opt_case (.vtuple e) rfl (replace_denote (.vtuple e) (by simpa [robust, isUnionOrOpt] using h) (by simpa [normal] using n)) rfl rfl
theorem replaceL_denote : ∀ es : List TyExpr, robustMembers es = true → normalL es = true →
    replaceUnionL (denoteLiveL .pep604 es) = .ok (denoteLiveL .builtin es)
  | [], _, _ => by simp [denoteLiveL, replaceUnionL]; rfl
  | e :: es, h, n => by
    simp [robustMembers] at h
    simp [normalL] at n
    simp [denoteLiveL, replaceUnionL, replace_denote e h.1.1 n.1, replaceL_denote es h.2 n.2, bind, Except.bind, pure,
      Except.pure]
end

/-! ### the property -/

/-- postponed text resolves to a live rendering of the same expression: unchanged when its value is not a top-level
    `X | Y`, and to the builtin-style object (by the recursive replacement) when it is -/
theorem resolve_postponed (ev : Str → EvOut) (l : Live) (e : TyExpr) (hg : InCliGrammar e = true)
    (hn : normal e = true) (hev : ev (render l e) = .ok (denoteLive l e)) :
    ∃ l', resolve ev (denote (.postponed l) e) = .ok (denoteLive l' e) := by
  by_cases hu : isUnionOrOpt e = true
  · cases l with
    | typing => exact ⟨.typing, resolve_postponed_plain ev .typing e hev (Or.inl (by decide))⟩
    | builtin => exact ⟨.builtin, resolve_postponed_plain ev .builtin e hev (Or.inl (by decide))⟩
    | pep604 =>
      obtain ⟨ys, e1⟩ := denote_unionish .pep604 e hu
      have r : replaceUnion (denoteLive .pep604 e) = .ok (denoteLive .builtin e) := by
        match e, hg, hn with
        | .opt (.dc n), _, _ =>
          simp [denoteLive, mkUnion, replaceUnion, replaceUnionL, mkTypingUnion, flattenUnion, dedupAnn, annEq, bind,
            Except.bind, pure, Except.pure]
        | .opt (.atom a), hg, hn => exact replace_denote _ (by simpa [InCliGrammar] using And.left (by simpa [InCliGrammar] using hg)) hn
        | .opt (.list x), hg, hn => exact replace_denote _ (by simp [InCliGrammar] at hg; exact hg.1) hn
        | .opt (.tuple x), hg, hn => exact replace_denote _ (by simp [InCliGrammar] at hg; exact hg.1) hn
        | .opt (.vtuple x), hg, hn => exact replace_denote _ (by simp [InCliGrammar] at hg; exact hg.1) hn
        | .opt (.opt x), hg, hn => exact replace_denote _ (by simp [InCliGrammar] at hg; exact hg.1) hn
        | .opt (.union x), hg, hn => exact replace_denote _ (by simp [InCliGrammar] at hg; exact hg.1) hn
        | .union x, hg, hn => exact replace_denote _ (by simp [InCliGrammar] at hg; exact hg.1) hn
      refine ⟨.builtin, ?_⟩
      simp only [denote, resolve, hev]
      rw [e1] at r ⊢
      simp only [mkUnion] at r ⊢
      simp [r]
  · exact ⟨l, resolve_postponed_plain ev l e hev (Or.inr (by simpa using hu))⟩

theorem resolve_any (ev : Str → EvOut) (s : Style) (e : TyExpr) (hg : InCliGrammar e = true) (hn : normal e = true)
    (hev : EvalOk ev s e) : ∃ l, resolve ev (denote s e) = .ok (denoteLive l e) := by
  match s, hev with
  | .live l, _ => exact ⟨l, resolve_live ev l e⟩
  | .postponed l, hev => exact resolve_postponed ev l e hg hn hev

/-! #### `postprocess`: the second look at the annotation -/

theorem isTuple_denote (l l' : Live) (e : TyExpr) : isTuple (denoteLive l e) = isTuple (denoteLive l' e) := by
  cases e with
  | opt x => cases x <;> cases l <;> cases l' <;> simp [denoteLive, mkUnion, isTuple, mro]
  | atom a => simp [denoteLive]
  | dc n => simp [denoteLive]
  | _ => cases l <;> cases l' <;> simp [denoteLive, mkList, mkTuple, mkUnion, isTuple, mro]

theorem postBranch_union_repr (xs : List Ann) : postBranch (.unionType xs) = postBranch (.typing .union xs) := by
  simp [postBranch, isEnum, isTuple, isBool, isList, mro, isOptional, isUnion, getArgs]

theorem postBranch_mkUnion (l l' : Live) (xs : List Ann) : postBranch (mkUnion l xs) = postBranch (mkUnion l' xs) := by
  cases l <;> cases l' <;> simp [mkUnion, postBranch_union_repr]

theorem postBranch_typing_union (ys : List Ann) :
    postBranch (.typing .union ys) =
      if ys.any isNoneType then
        (match ys with
         | item :: _ => if isTuple item then .optTuple else .same
         | [] => .same)
      else .callFails := by
  have e1 : isEnum (.typing .union ys) = false := rfl
  have e2 : isTuple (.typing .union ys) = false := rfl
  have e3 : isBool (.typing .union ys) = false := rfl
  have e4 : isList (.typing .union ys) = false := rfl
  have e5 : isOptional (.typing .union ys) = ys.any isNoneType := by simp [isOptional, isUnion, getArgs]
  have e6 : getArgs (.typing .union ys) = ys := rfl
  unfold postBranch
  simp only [e1, e2, e3, e4, e5, e6, Bool.false_eq_true, ↓reduceIte]
  split <;> rfl

/-- the arm of `postprocess` taken by a union depends on its first member only through `is_tuple` -/
theorem postBranch_union_head (x x' : Ann) (xs xs' : List Ann) (ht : isTuple x = isTuple x')
    (hn : (x :: xs).any isNoneType = (x' :: xs').any isNoneType) :
    postBranch (.typing .union (x :: xs)) = postBranch (.typing .union (x' :: xs')) := by
  rw [postBranch_typing_union, postBranch_typing_union, hn]
  simp only [ht]

/-- **`postprocess` takes the same arm in every live rendering — for every type expression, no grammar restriction.** -/
theorem c17_post_live (l l' : Live) : ∀ e : TyExpr, postBranch (denoteLive l e) = postBranch (denoteLive l' e)
  | .atom a => by simp [denoteLive]
  | .dc n => by simp [denoteLive]
  | .list x => by cases l <;> cases l' <;> simp [denoteLive, mkList, postBranch, isEnum, isTuple, isBool, isList, mro]
  | .tuple es => by cases l <;> cases l' <;> simp [denoteLive, mkTuple, postBranch, isEnum, isTuple, mro]
  | .vtuple x => by cases l <;> cases l' <;> simp [denoteLive, mkTuple, postBranch, isEnum, isTuple, mro]
  | .union [] => by simp only [denoteLive, denoteLiveL]; exact postBranch_mkUnion l l' _
  | .union (e :: es) => by
    simp only [denoteLive, denoteLiveL]
    rw [postBranch_mkUnion l .typing, postBranch_mkUnion l' .typing]
    simp only [mkUnion]
    refine postBranch_union_head _ _ _ _ (isTuple_denote l l' e) ?_
    have a1 := any_none_denoteL l (e :: es)
    have a2 := any_none_denoteL l' (e :: es)
    simp only [denoteLiveL] at a1 a2
    rw [a1, a2]
  | .opt (.union []) => by simp only [denoteLive, denoteLiveL]; exact postBranch_mkUnion l l' _
  | .opt (.union (e :: es)) => by
    simp only [denoteLive, denoteLiveL, List.cons_append]
    rw [postBranch_mkUnion l .typing, postBranch_mkUnion l' .typing]
    simp only [mkUnion]
    refine postBranch_union_head _ _ _ _ (isTuple_denote l l' e) ?_
    simp [isNoneType]
  | .opt (.atom a) => by simp only [denoteLive]; exact postBranch_mkUnion l l' _
  | .opt (.dc n) => by simp only [denoteLive]; exact postBranch_mkUnion l l' _
  | .opt (.list x) => by
    simp only [denoteLive]
    rw [postBranch_mkUnion l .typing, postBranch_mkUnion l' .typing]
    simp only [mkUnion]
    exact postBranch_union_head _ _ _ _ (by simpa [denoteLive] using isTuple_denote l l' (.list x)) (by simp [isNoneType])
  | .opt (.tuple x) => by
    simp only [denoteLive]
    rw [postBranch_mkUnion l .typing, postBranch_mkUnion l' .typing]
    simp only [mkUnion]
    exact postBranch_union_head _ _ _ _ (by simpa [denoteLive] using isTuple_denote l l' (.tuple x)) (by simp [isNoneType])
  | .opt (.vtuple x) => by
    simp only [denoteLive]
    rw [postBranch_mkUnion l .typing, postBranch_mkUnion l' .typing]
    simp only [mkUnion]
    exact postBranch_union_head _ _ _ _ (by simpa [denoteLive] using isTuple_denote l l' (.vtuple x)) (by simp [isNoneType])
  | .opt (.opt x) => by
    simp only [denoteLive]
    rw [postBranch_mkUnion l .typing, postBranch_mkUnion l' .typing]
    simp only [mkUnion]
    exact postBranch_union_head _ _ _ _ (isTuple_denote l l' (.opt x)) (by simp [isNoneType])

/-- everything simple_parsing derives from a field's annotation: the `add_argument` options and the `postprocess` arm;
    nothing when resolution raised -/
def optionsOf : ROut → Dflt → Option (FieldKind × PostK)
  | .ok a, d => some (kind a d, postBranch a)
  | .raise _, _ => Option.none

/-- **The full statement** (kept visible; refuted by `c17_list_of_containers_witness`): however a field type in CPython's
    normal form is written, the field gets the same options and the same post-processing. -/
def FullStatement : Prop :=
  ∀ (ev : Str → EvOut) (e : TyExpr) (s₁ s₂ : Style) (d : Dflt), normal e = true → EvalOk ev s₁ e → EvalOk ev s₂ e →
    optionsOf (resolve ev (denote s₁ e)) d = optionsOf (resolve ev (denote s₂ e)) d

/-- **Style invariance (partial — named gap `ListItemsNotContainers`, finding C17-list-of-containers).**  For every field
    type of `InCliGrammar` in CPython's normal form, every pair of renderings — `typing` generics, builtin generics,
    PEP 604 unions, postponed text of any of these — gives the field the same argparse options (same branch of
    `get_arg_options`, same `required`, `nargs`, `type=` callable) and the same `postprocess` arm, under the assumption
    that CPython evaluates the postponed text to the object it denotes.  No rendering is excluded.  (`InCliGrammar`
    further restricts, for the proof only, fixed-tuple items and `Optional[Union[…]]` members to atoms:
    `TupleItemsAtomic`, `OptionalUnionMembersAtomic` below name these; the differential check covers them.) -/
theorem c17_style_invariant_partial (ev : Str → EvOut) (e : TyExpr) (s₁ s₂ : Style) (d : Dflt)
    (hg : InCliGrammar e = true) (hn : normal e = true) (h₁ : EvalOk ev s₁ e) (h₂ : EvalOk ev s₂ e) :
    optionsOf (resolve ev (denote s₁ e)) d = optionsOf (resolve ev (denote s₂ e)) d := by
  obtain ⟨l₁, r₁⟩ := resolve_any ev s₁ e hg hn h₁
  obtain ⟨l₂, r₂⟩ := resolve_any ev s₂ e hg hn h₂
  rw [r₁, r₂]
  simp only [optionsOf]
  rw [c17_live_invariant l₁ l₂ d e hg, c17_post_live l₁ l₂ e]

/-- the earlier statement about the options alone -/
theorem c17_style_invariant_kind (ev : Str → EvOut) (e : TyExpr) (s₁ s₂ : Style) (d : Dflt)
    (hg : InCliGrammar e = true) (hn : normal e = true) (h₁ : EvalOk ev s₁ e) (h₂ : EvalOk ev s₂ e) :
    kindOf (resolve ev (denote s₁ e)) d = kindOf (resolve ev (denote s₂ e)) d := by
  obtain ⟨l₁, r₁⟩ := resolve_any ev s₁ e hg hn h₁
  obtain ⟨l₂, r₂⟩ := resolve_any ev s₂ e hg hn h₂
  rw [r₁, r₂]
  simp only [kindOf]
  rw [c17_live_invariant l₁ l₂ d e hg]

/-- **Resolution is idempotent** on the grammar: what a postponed annotation resolves to is a live object, and resolving
    that again (a second parser built from the same class, whose `Field.type` was updated in place) changes nothing -/
theorem c17_resolve_idem (ev : Str → EvOut) (s : Style) (e : TyExpr) (hg : InCliGrammar e = true)
    (hn : normal e = true) (hev : EvalOk ev s e) :
    ∃ b, resolve ev (denote s e) = .ok b ∧ resolve ev b = .ok b := by
  obtain ⟨l, r⟩ := resolve_any ev s e hg hn hev
  exact ⟨_, r, resolve_live ev l e⟩

/-- the proof-only restrictions inside `InCliGrammar`, by name (decidable) -/
def TupleItemsAtomic : TyExpr → Bool
  | .tuple es => allAtoms es
  | .opt (.tuple es) => allAtoms es
  | _ => true
def OptionalUnionMembersAtomic : TyExpr → Bool
  | .opt (.union es) => allAtoms es
  | _ => true

/-! non-vacuity: a deep type of the grammar; the evaluator assumption is satisfiable for every style -/
def exTy : TyExpr :=
  .union [.atom .int, .list (.vtuple (.union [.atom .str, .list (.atom (.enum "Color".toList))])), .tuple [.atom .bool, .atom .path]]
def exEv (e : TyExpr) : Str → EvOut := fun t =>
  if t = render .pep604 e then .ok (denoteLive .pep604 e)
  else if t = render .typing e then .ok (denoteLive .typing e)
  else if t = render .builtin e then .ok (denoteLive .builtin e) else .otherError
example : InCliGrammar exTy = true ∧ normal exTy = true := by decide
example : EvalOk (exEv exTy) (.postponed .pep604) exTy := by simp [EvalOk, exEv]
example : InCliGrammar (.opt (.list (.union [.atom .int, .atom .str]))) = true ∧
    normal (.opt (.list (.union [.atom .int, .atom .str]))) = true := by decide
example : InCliGrammar (.opt (.dc "Child".toList)) = true ∧ normal (.opt (.dc "Child".toList)) = true := by decide
example : (kind (denoteLive .pep604 (.opt (.dc "Child".toList))) .isNone).branch = .nested := by decide

/-! ### regression examples for the two repaired defects -/

def d18Ty : TyExpr := .list (.union [.atom .int, .atom .str])

/-- (repaired, b180b4e) `list[int | str]` used to hand argparse the un-callable `types.UnionType`; all spellings now
    get the try-in-order parser of the union -/
example : InCliGrammar d18Ty = true ∧ normal d18Ty = true := by decide
example : notCallable (kind (denoteLive .typing d18Ty) .value).conv = false ∧
    notCallable (kind (denoteLive .pep604 d18Ty) .value).conv = false := by decide
example : (match resolve (exEv d18Ty) (denote (.postponed .pep604) d18Ty) with
     | .ok a => notCallable (kind a .value).conv
     | .raise _ => true) = false := by decide

def vtTy : TyExpr := .opt (.vtuple (.atom .int))

/-- (repaired, 8cc8cdd) postponed `tuple[int, ...] | None` used to raise `NotImplementedError` on the `...` -/
example : InCliGrammar vtTy = true ∧ normal vtTy = true := by decide
example : (match resolve (exEv vtTy) (denote (.postponed .pep604) vtTy) with
     | .ok _ => true
     | .raise _ => false) = true := by decide

/-! ### witness: the open finding C17-list-of-containers -/

def locTy : TyExpr := .list (.list (.atom .int))

/-- **List of containers.** `List[List[int]]` hands argparse the `typing` alias itself (calling it raises `TypeError`:
    every use of the option exits 2), `list[list[int]]` the builtin alias (`list(token)`: the token is split into
    characters) — `get_argparse_type_for_container` returns the item annotation as the callable. -/
theorem c17_list_of_containers_witness :
    normal locTy = true ∧ InCliGrammar locTy = false ∧
    (match (kind (denoteLive .typing locTy) .value).conv, (kind (denoteLive .builtin locTy) .value).conv with
     | some (.typingAlias .list), some (.builtinAlias .list) => true
     | _, _ => false) = true := by
  decide

theorem c17_full_statement_fails : ¬ FullStatement := by
  intro h
  have := h (exEv locTy) locTy (.live .typing) (.live .builtin) .value (by decide) trivial trivial
  have h2 : (optionsOf (resolve (exEv locTy) (denote (.live .typing) locTy)) .value).map
        (fun k => match k.1.conv with | some (.typingAlias _) => true | _ => false)
      = (optionsOf (resolve (exEv locTy) (denote (.live .builtin) locTy)) .value).map
        (fun k => match k.1.conv with | some (.typingAlias _) => true | _ => false) := by
    rw [this]
  revert h2
  decide

/-! ### inherited fields -/

def keys {β : Type} (l : List (Str × β)) : List Str := l.map (·.1)

theorem dictSet_new {β : Type} : ∀ (acc : List (Str × β)) (k : Str) (v : β), k ∉ keys acc →
    dictSet acc k v = acc ++ [(k, v)]
  | [], _, _, _ => rfl
  | (k', v') :: r, k, v, h => by
    simp [keys] at h
    have hne : ¬ k' = k := fun e => h.1 e.symm
    have ih := dictSet_new r k v (by simpa [keys] using h.2)
    simp [dictSet, hne, ih]

theorem addOwn_fresh {β : Type} : ∀ (own acc : List (Str × β)), (keys (acc ++ own)).Nodup → addOwn acc own = acc ++ own
  | [], acc, _ => by simp [addOwn]
  | (k, v) :: r, acc, h => by
    have hk : k ∉ keys acc := by
      simp [keys, List.nodup_append] at h
      intro hmem
      simp [keys] at hmem
      obtain ⟨b, hb⟩ := hmem
      exact (h.2.2 k b hb).1 rfl
    have h' : (keys ((acc ++ [(k, v)]) ++ r)).Nodup := by simpa [keys] using h
    simp [addOwn, dictSet_new acc k v hk, addOwn_fresh r (acc ++ [(k, v)]) h']

theorem foldl_addOwn {β : Type} : ∀ (chain : List (List (Str × β))) (acc : List (Str × β)),
    (keys (acc ++ chain.flatten)).Nodup → chain.foldl addOwn acc = acc ++ chain.flatten
  | [], acc, _ => by simp
  | own :: rest, acc, h => by
    have h1 : (keys (acc ++ own)).Nodup := by
      simp [keys, List.nodup_append] at h ⊢
      refine ⟨h.1, h.2.1.1, ?_⟩
      intro a b hab a' b' hab' e
      exact h.2.2 a b hab a' (Or.inl ⟨b', hab'⟩) e
    have h2 : (keys ((acc ++ own) ++ rest.flatten)).Nodup := by simpa using h
    simp [List.foldl, addOwn_fresh own acc h1, foldl_addOwn rest (acc ++ own) h2]

/-- **Inherited fields.** A class whose (distinct) fields are declared along a linear inheritance chain of any length,
    in any contiguous split, has exactly the field list of the class that declares them all itself. -/
theorem c17_inherit {β : Type} (chain : List (List (Str × β))) (h : (keys chain.flatten).Nodup) :
    dcFields chain = dcFields [chain.flatten] := by
  have a := foldl_addOwn chain [] (by simpa using h)
  have b := foldl_addOwn [chain.flatten] [] (by simpa using h)
  simp [dcFields] at a b ⊢
  rw [a]; simpa using b.symm

example : dcFields [[("a".toList, 1), ("b".toList, 2)], [("c".toList, 3)], [("b".toList, 9)]]
    = [("a".toList, 1), ("b".toList, 9), ("c".toList, 3)] := by decide

example : (keys [[("f0".toList, 0), ("f1".toList, 1)], [], [("f2".toList, 2)]].flatten).Nodup := by decide

/-! #### arbitrary chains, re-declared fields included: first-declaration order, last definition wins -/

/-- names in first-occurrence order -/
def firstOcc (acc : List Str) : List Str → List Str
  | [] => acc
  | k :: r => firstOcc (if k ∈ acc then acc else acc ++ [k]) r

theorem keys_dictSet {β : Type} : ∀ (acc : List (Str × β)) (k : Str) (v : β),
    keys (dictSet acc k v) = if k ∈ keys acc then keys acc else keys acc ++ [k]
  | [], k, v => by simp [dictSet, keys]
  | (k', v') :: r, k, v => by
    by_cases h : k' = k
    · simp [dictSet, keys, h]
    · have ih := keys_dictSet r k v
      have h' : ¬ k = k' := fun e => h e.symm
      simp only [keys] at ih
      by_cases hk : k ∈ List.map (fun x => x.fst) r
      · simp [dictSet, h, keys, h', hk, ih]
      · simp [dictSet, h, keys, h', hk, ih]

theorem keys_addOwn {β : Type} : ∀ (own acc : List (Str × β)), keys (addOwn acc own) = firstOcc (keys acc) (keys own)
  | [], acc => by simp [addOwn, keys, firstOcc]
  | (k, v) :: r, acc => by
    show keys (addOwn (dictSet acc k v) r) = firstOcc (keys acc) (k :: keys r)
    rw [keys_addOwn r, keys_dictSet]
    rfl

theorem firstOcc_append (acc a b : List Str) : firstOcc acc (a ++ b) = firstOcc (firstOcc acc a) b := by
  induction a generalizing acc with
  | nil => simp [firstOcc]
  | cons k r ih => simp [firstOcc, ih]

/-- **Field order of any chain**: every declared name once, in the order of its *first* declaration along the chain -/
theorem c17_inherit_order {β : Type} (chain : List (List (Str × β))) :
    keys (dcFields chain) = firstOcc [] (keys chain.flatten) := by
  have gen : ∀ (chain : List (List (Str × β))) (acc : List (Str × β)),
      keys (chain.foldl addOwn acc) = firstOcc (keys acc) (keys chain.flatten) := by
    intro chain
    induction chain with
    | nil => intro acc; simp [firstOcc, keys]
    | cons own rest ih =>
      intro acc
      rw [List.foldl_cons, ih (addOwn acc own), keys_addOwn]
      simp [keys, firstOcc_append]
  simpa [dcFields, keys] using gen chain []

/-- `d.get(k)` -/
def dget {β : Type} : List (Str × β) → Str → Option β
  | [], _ => Option.none
  | (k', v) :: r, k => if k' = k then some v else dget r k

/-- the last definition of `k` in a declaration sequence (`o` when there is none) -/
def lastDef {β : Type} (o : Option β) (decls : List (Str × β)) (k : Str) : Option β :=
  decls.foldl (fun o p => if p.1 = k then some p.2 else o) o

theorem dget_dictSet {β : Type} : ∀ (acc : List (Str × β)) (k k' : Str) (v : β),
    dget (dictSet acc k v) k' = if k = k' then some v else dget acc k'
  | [], k, k', v => by simp [dictSet, dget]
  | (k0, v0) :: r, k, k', v => by
    have ih := dget_dictSet r k k' v
    by_cases h0 : k0 = k
    · subst h0
      by_cases h : k0 = k' <;> simp [dictSet, dget, h]
    · by_cases h1 : k0 = k'
      · subst h1
        have : ¬ k = k0 := fun e => h0 e.symm
        simp [dictSet, h0, dget, this]
      · simp [dictSet, h0, dget, h1, ih]

theorem dget_addOwn {β : Type} : ∀ (own acc : List (Str × β)) (k : Str),
    dget (addOwn acc own) k = lastDef (dget acc k) own k
  | [], acc, k => by simp [addOwn, lastDef]
  | (k0, v0) :: r, acc, k => by
    show dget (addOwn (dictSet acc k0 v0) r) k = lastDef (dget acc k) ((k0, v0) :: r) k
    rw [dget_addOwn r, dget_dictSet]
    simp [lastDef]

/-- **Field definition of any chain**: the *last* declaration of a name along the chain is the one in force -/
theorem c17_inherit_last_wins {β : Type} (chain : List (List (Str × β))) (k : Str) :
    dget (dcFields chain) k = lastDef Option.none chain.flatten k := by
  have gen : ∀ (chain : List (List (Str × β))) (acc : List (Str × β)),
      dget (chain.foldl addOwn acc) k = lastDef (dget acc k) chain.flatten k := by
    intro chain
    induction chain with
    | nil => intro acc; simp [lastDef]
    | cons own rest ih =>
      intro acc
      rw [List.foldl_cons, ih (addOwn acc own), dget_addOwn]
      simp [lastDef, List.foldl_append]
  simpa [dcFields, dget] using gen chain []

/-- so two chains that declare the same names in the same first-declaration order with the same final definitions give
    the same class — in particular a chain that re-declares fields and the flat class that declares each once -/
example : dcFields [[("a".toList, 1), ("b".toList, 2)], [("c".toList, 3), ("a".toList, 7)]]
    = dcFields [[("a".toList, 7), ("b".toList, 2), ("c".toList, 3)]] := by decide

/-! ### the textual `A | B` rewriter -/

/-- text without `|` is returned unchanged -/
theorem c17_rewrite_no_bar (text : Str) (h : text.contains '|' = false) : rewrite text = .ok text := by
  have h' : '|' ∉ text := by simpa using h
  simp [rewrite, rewriteF, h']

/-- a bracket-free union `a | b | …` becomes `Union[a, b, …]` with the members stripped -/
theorem c17_rewrite_flat (text : Str) (h : text.contains '|' = true) (h1 : (stripWs text).contains '[' = false)
    (h2 : (stripWs text).contains ']' = false) :
    rewrite text = .ok ("Union[".toList ++ joinCommaSp ((splitOnChar '|' (stripWs text)).map stripWs) ++ [']']) := by
  have h' : '|' ∈ text := by simpa using h
  have h1' : '[' ∉ stripWs text := by simpa using h1
  have h2' : ']' ∉ stripWs text := by simpa using h2
  simp [rewrite, rewriteF, h', h1', h2']

example : rewrite " int | None".toList = .ok "Union[int, None]".toList := by decide
example : rewrite "tuple[int | None, str | float]".toList = .ok "tuple[Union[int, None], Union[str, float]]".toList := by
  decide

/-- connection with the renderings: the PEP 604 text of an optional builtin atom is rewritten to the `typing` spelling
    (on 3.12 this path is reached only through the `TypeError` arm of `resolve`, e.g. `"int" | None`) -/
theorem c17_rewrite_optional_atom (a : Atom) (h : ∀ n, a ≠ .enum n) :
    rewrite (render .pep604 (.opt (.atom a))) = .ok ("Union[".toList ++ atomText a ++ ", None]".toList) := by
  cases a with
  | enum n => exact absurd rfl (h n)
  | _ => decide

example : rewrite (render .pep604 (.union [.atom .int, .atom (.enum "Color".toList), .atom .path]))
    = .ok "Union[int, Color, Path]".toList := by decide

/-- the rewriter's documented gap (`# BUG: Need to handle things like bob[int] | None`): an assertion error -/
theorem c17_rewrite_gap_witness : rewrite "list[int] | None".toList = .assertion := by decide

/-- a union whose first member is plain and a later one subscripted is refused -/
theorem c17_rewrite_not_supported_witness : rewrite "int | list[int]".toList = .notSupported := by decide

end SpVerif.C17
