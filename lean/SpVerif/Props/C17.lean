/-
  C17 — how a dataclass is written does not change its command line.
  Theorems about `SpVerif.Model.Annot`.
-/
import SpVerif.Model.Annot
namespace SpVerif.C17
open SpVerif SpVerif.Annot

/-! ### the command-line type grammar (decidable) -/

def isAtom : TyExpr → Bool
  | .atom _ => true
  | _ => false

def isUnionOrOpt : TyExpr → Bool
  | .union _ => true
  | .opt _ => true
  | _ => false

def allAtoms : List TyExpr → Bool
  | [] => true
  | e :: es => isAtom e && allAtoms es

mutual
/-- type expressions on which `get_parsing_fn` is representation-independent: arbitrary nesting of lists, variadic
    tuples, unions and optionals; fixed tuples have atomic items (their homogeneity test compares annotation objects);
    union members are not themselves unions/optionals and an optional is not nested in an optional (CPython would
    flatten those); `Optional[Union[…]]` has atomic members (the code re-builds the union of the non-`None` members). -/
def robust : TyExpr → Bool
  | .atom _ => true
  | .dc _ => false
  | .list e => robust e
  | .tuple es => allAtoms es
  | .vtuple e => robust e
  | .opt (.union es) => allAtoms es
  | .opt e => robust e && !isUnionOrOpt e
  | .union es => robustMembers es
termination_by structural e => e
def robustMembers : List TyExpr → Bool
  | [] => true
  | e :: es => robust e && !isUnionOrOpt e && robustMembers es
end

/-- the named exclusion of finding D18 (and of lists of containers): wherever `get_argparse_type_for_container` is
    applied — a top-level list or an optional list — the item type is an atom -/
def ListItemsAtomic : TyExpr → Bool
  | .list x => isAtom x
  | .opt (.list x) => isAtom x
  | _ => true

/-- field types of the command-line grammar -/
def InCliGrammar : TyExpr → Bool
  | .dc _ => true
  | e => robust e && ListItemsAtomic e

/-! ### representation-independent facts -/

theorem denote_atom (l l' : Live) (e : TyExpr) (h : isAtom e = true) : denoteLive l e = denoteLive l' e := by
  cases e <;> simp [isAtom] at h
  simp [denoteLive]

theorem denoteL_atoms (l l' : Live) : ∀ es : List TyExpr, allAtoms es = true → denoteLiveL l es = denoteLiveL l' es
  | [], _ => by simp [denoteLiveL]
  | e :: es, h => by
    simp [allAtoms] at h
    simp [denoteLiveL, denote_atom l l' e h.1, denoteL_atoms l l' es h.2]

/-- no rendering of a type expression is `NoneType` itself -/
theorem not_none (l : Live) : ∀ e : TyExpr, isNoneType (denoteLive l e) = false
  | .atom a => by cases a <;> simp [denoteLive, atomCls, isNoneType]
  | .dc _ => by simp [denoteLive, isNoneType]
  | .list _ => by cases l <;> simp [denoteLive, mkList, isNoneType]
  | .tuple _ => by cases l <;> simp [denoteLive, mkTuple, isNoneType]
  | .vtuple _ => by cases l <;> simp [denoteLive, mkTuple, isNoneType]
  | .union _ => by cases l <;> simp [denoteLive, mkUnion, isNoneType]
  | .opt e => by cases e <;> cases l <;> simp [denoteLive, mkUnion, isNoneType]

theorem any_none_denoteL (l : Live) : ∀ es : List TyExpr, (denoteLiveL l es).any isNoneType = false
  | [] => by simp [denoteLiveL]
  | e :: es => by simp [denoteLiveL, not_none l e, any_none_denoteL l es]

theorem parsingFn_mkList (l : Live) (x : Ann) : parsingFn (mkList l x) = parsingFn x := by
  cases l <;> simp [mkList, parsingFn, parsingFnHead]

theorem parsingFn_mkTuple (l l' : Live) (xs : List Ann) : parsingFn (mkTuple l xs) = parsingFn (mkTuple l' xs) := by
  cases l <;> cases l' <;> simp [mkTuple, parsingFn]

theorem parsingFn_vtuple (l : Live) (x : Ann) : parsingFn (mkTuple l [x, .ellipsis]) = parsingFn x := by
  cases l <;> simp [mkTuple, parsingFn, isHomogeneous, parsingFnHead]

theorem parsingFn_mkUnion (l : Live) (xs : List Ann) :
    parsingFn (mkUnion l xs) = if xs.any isNoneType then .tryFns (parsingFnOpt xs) else .tryFns (parsingFnL xs) := by
  cases l <;> simp [mkUnion, parsingFn]

theorem parsingFnOpt_append_none : ∀ xs : List Ann, xs.any isNoneType = false →
    parsingFnOpt (xs ++ [.cls .none]) = (parsingFnL xs).map .optWrap
  | [], _ => by simp [parsingFnOpt, parsingFnL, isNoneType]
  | x :: xs, h => by
    simp at h
    have hx : isNoneType x = false := h.1
    have hxs : xs.any isNoneType = false := by
      simp; exact h.2
    simp [parsingFnOpt, parsingFnL, hx, parsingFnOpt_append_none xs hxs]

mutual
/-- **`get_parsing_fn` does not depend on how the type is written** — by structural induction on the type
    expression, for nesting of any depth and tuples / unions of any width. -/
theorem parsingFn_style (l l' : Live) : ∀ e : TyExpr, robust e = true →
    parsingFn (denoteLive l e) = parsingFn (denoteLive l' e)
  | .atom a, _ => by simp [denoteLive]
  | .dc _, h => by simp [robust] at h
  | .list e, h => by
    simp only [robust] at h
    simp only [denoteLive, parsingFn_mkList]
    exact parsingFn_style l l' e h
  | .tuple es, h => by
    simp only [robust] at h
    simp only [denoteLive, denoteL_atoms l l' es h]
    exact parsingFn_mkTuple l l' _
  | .vtuple e, h => by
    simp only [robust] at h
    simp only [denoteLive, parsingFn_vtuple]
    exact parsingFn_style l l' e h
  | .union es, h => by
    simp only [robust] at h
    simp only [denoteLive, parsingFn_mkUnion, any_none_denoteL]
    simp [parsingFnL_style l l' es h]
  | .opt (.union es), h => by
    simp only [robust] at h
    simp only [denoteLive, parsingFn_mkUnion]
    simp [parsingFnOpt_append_none _ (any_none_denoteL _ es), denoteL_atoms l l' es h]
  | .opt (.atom a), _ => by
    simp [denoteLive, parsingFn_mkUnion, isNoneType, parsingFnOpt]
  | .opt (.dc n), h => by simp [robust] at h
  | .opt (.list e), h => by
    have h' : robust (.list e) = true := by simpa [robust, isUnionOrOpt] using h
    have ih := parsingFn_style l l' (.list e) h'
    have n1 := not_none l (.list e)
    have n2 := not_none l' (.list e)
    simp [denoteLive, parsingFn_mkUnion, isNoneType, parsingFnOpt] at ih n1 n2 ⊢
    simp [n1, n2, ih]
  | .opt (.tuple es), h => by
    have h' : robust (.tuple es) = true := by simpa [robust, isUnionOrOpt] using h
    have ih := parsingFn_style l l' (.tuple es) h'
    have n1 := not_none l (.tuple es)
    have n2 := not_none l' (.tuple es)
    simp [denoteLive, parsingFn_mkUnion, isNoneType, parsingFnOpt] at ih n1 n2 ⊢
    simp [n1, n2, ih]
  | .opt (.vtuple e), h => by
    have h' : robust (.vtuple e) = true := by simpa [robust, isUnionOrOpt] using h
    have ih := parsingFn_style l l' (.vtuple e) h'
    have n1 := not_none l (.vtuple e)
    have n2 := not_none l' (.vtuple e)
    simp [denoteLive, parsingFn_mkUnion, isNoneType, parsingFnOpt] at ih n1 n2 ⊢
    simp [n1, n2, ih]
  | .opt (.opt e), h => by simp [robust, isUnionOrOpt] at h
theorem parsingFnL_style (l l' : Live) : ∀ es : List TyExpr, robustMembers es = true →
    parsingFnL (denoteLiveL l es) = parsingFnL (denoteLiveL l' es)
  | [], _ => by simp [denoteLiveL]
  | e :: es, h => by
    simp [robustMembers] at h
    simp [denoteLiveL, parsingFnL, parsingFn_style l l' e h.1.1, parsingFnL_style l l' es h.2]
end

/-! ### the options a field gets -/

theorem kind_mkList (l l' : Live) (x : Ann) (d : Dflt) : kind (mkList l x) d = kind (mkList l' x) d := by
  cases l <;> cases l' <;> rfl

theorem kind_mkTuple (l l' : Live) (xs : List Ann) (d : Dflt) : kind (mkTuple l xs) d = kind (mkTuple l' xs) d := by
  cases l <;> cases l' <;> rfl

theorem kind_union_repr (xs : List Ann) (d : Dflt) : kind (.unionType xs) d = kind (.typing .union xs) d := by
  have e1 : isOptional (.unionType xs) = isOptional (.typing .union xs) := rfl
  have e2 : wrappedType (.unionType xs) = wrappedType (.typing .union xs) := rfl
  have e3 : parsingFn (.unionType xs) = parsingFn (.typing .union xs) := by simp [parsingFn]
  by_cases h : isOptional (.typing .union xs) = true
  · simp [kind, e1, e2, h, isDataclass]
  · simp at h
    cases d <;> simp [kind, e1, e3, h, isDataclass, isUnion, isTuple, isList, mro, required0]

theorem kind_mkUnion (l l' : Live) (xs : List Ann) (d : Dflt) : kind (mkUnion l xs) d = kind (mkUnion l' xs) d := by
  cases l <;> cases l' <;> simp [mkUnion, kind_union_repr]

theorem kind_vtuple (l l' : Live) (x x' : Ann) (d : Dflt) (hp : parsingFn x = parsingFn x') :
    kind (mkTuple l [x, .ellipsis]) d = kind (mkTuple l' [x', .ellipsis]) d := by
  cases l <;> cases l' <;> cases d <;>
    simp [kind, mkTuple, isDataclass, isOptional, isUnion, isEnum, isList, isTuple, mro, required0, containerNargs,
      getArgs, parsingFn, isHomogeneous, parsingFnHead, hp]

theorem kind_union_plain (xs xs' : List Ann) (d : Dflt) (h1 : xs.any isNoneType = false)
    (h2 : xs'.any isNoneType = false) (hp : parsingFnL xs = parsingFnL xs') :
    kind (.typing .union xs) d = kind (.typing .union xs') d := by
  have o1 : isOptional (.typing .union xs) = false := by simp [isOptional, isUnion, getArgs]; simpa using h1
  have o2 : isOptional (.typing .union xs') = false := by simp [isOptional, isUnion, getArgs]; simpa using h2
  have p1 : parsingFn (.typing .union xs) = .tryFns (parsingFnL xs) := by simp [parsingFn, h1]
  have p2 : parsingFn (.typing .union xs') = .tryFns (parsingFnL xs') := by simp [parsingFn, h2]
  cases d <;> simp [kind, isDataclass, o1, o2, p1, p2, hp, isUnion, isTuple, isList, mro, required0]

/-- an `Optional[w]` field: the branch is chosen on the wrapped type `w` -/
theorem kind_opt_single (w : Ann) (d : Dflt) (hn : isNoneType w = false) :
    kind (.typing .union [w, .cls .none]) d =
      (if isTuple w then ⟨.optional, false, containerNargs w, some (parsingFn w), Option.none⟩
       else if isList w then ⟨.optional, false, .star, some (containerTypeFn w), Option.none⟩
       else ⟨.optional, false, .opt, some (parsingFn w), Option.none⟩) := by
  have o : isOptional (.typing .union [w, .cls .none]) = true := by simp [isOptional, isUnion, getArgs, isNoneType]
  have ww : wrappedType (.typing .union [w, .cls .none]) = w := by
    have hc : isNoneType (.cls .none) = true := rfl
    simp [wrappedType, getArgs, List.filter, hn, hc]
  simp [kind, isDataclass, o, ww]

/-- **Live renderings.** For every field type of the command-line grammar the options a field gets do not depend on
    whether the annotation is written with `typing` generics, builtin generics or PEP 604 unions. -/
theorem c17_live_invariant (l l' : Live) (d : Dflt) : ∀ e : TyExpr, InCliGrammar e = true →
    kind (denoteLive l e) d = kind (denoteLive l' e) d
  | .atom a, _ => by simp [denoteLive]
  | .dc n, _ => by simp [denoteLive]
  | .list x, h => by
    simp [InCliGrammar, ListItemsAtomic] at h
    simp only [denoteLive]
    rw [denote_atom l l' x h.2]
    exact kind_mkList l l' _ d
  | .tuple es, h => by
    simp [InCliGrammar, robust, ListItemsAtomic] at h
    simp only [denoteLive, denoteL_atoms l l' es h]
    exact kind_mkTuple l l' _ d
  | .vtuple x, h => by
    simp [InCliGrammar, robust, ListItemsAtomic] at h
    simp only [denoteLive]
    exact kind_vtuple l l' _ _ d (parsingFn_style l l' x h)
  | .union es, h => by
    simp [InCliGrammar, robust, ListItemsAtomic] at h
    simp only [denoteLive]
    rw [kind_mkUnion l .typing, kind_mkUnion l' .typing]
    simp only [mkUnion]
    exact kind_union_plain _ _ d (any_none_denoteL l es) (any_none_denoteL l' es) (parsingFnL_style l l' es h)
  | .opt (.union es), h => by
    simp [InCliGrammar, robust, ListItemsAtomic] at h
    simp only [denoteLive, denoteL_atoms l l' es h]
    exact kind_mkUnion l l' _ d
  | .opt (.atom a), _ => by
    simp only [denoteLive]
    exact kind_mkUnion l l' _ d
  | .opt (.dc n), h => by simp [InCliGrammar, robust] at h
  | .opt (.opt e), h => by simp [InCliGrammar, robust, isUnionOrOpt] at h
  | .opt (.list x), h => by
    simp [InCliGrammar, robust, ListItemsAtomic, isUnionOrOpt] at h
    simp only [denoteLive]
    rw [kind_mkUnion l .typing, kind_mkUnion l' .typing, denote_atom l l' x h.2]
    simp only [mkUnion]
    rw [kind_opt_single _ d (by cases l <;> simp [mkList, isNoneType]),
        kind_opt_single _ d (by cases l' <;> simp [mkList, isNoneType])]
    cases l <;> cases l' <;> simp [mkList, isTuple, isList, mro, containerTypeFn, getArgs]
  | .opt (.tuple es), h => by
    simp [InCliGrammar, robust, ListItemsAtomic, isUnionOrOpt] at h
    simp only [denoteLive, denoteL_atoms l l' es h]
    rw [kind_mkUnion l .typing, kind_mkUnion l' .typing]
    simp only [mkUnion]
    rw [kind_opt_single _ d (by cases l <;> simp [mkTuple, isNoneType]),
        kind_opt_single _ d (by cases l' <;> simp [mkTuple, isNoneType])]
    cases l <;> cases l' <;> simp [mkTuple, isTuple, mro, containerNargs, getArgs, parsingFn]
  | .opt (.vtuple x), h => by
    simp [InCliGrammar, robust, ListItemsAtomic, isUnionOrOpt] at h
    have hp := parsingFn_style l l' x h
    simp only [denoteLive]
    rw [kind_mkUnion l .typing, kind_mkUnion l' .typing]
    simp only [mkUnion]
    rw [kind_opt_single _ d (by cases l <;> simp [mkTuple, isNoneType]),
        kind_opt_single _ d (by cases l' <;> simp [mkTuple, isNoneType])]
    cases l <;> cases l' <;>
      simp [mkTuple, isTuple, mro, containerNargs, getArgs, parsingFn, isHomogeneous, parsingFnHead, hp]

/-! ### postponed annotations -/

/-- the assumption on CPython's evaluator, for one field: the text of the annotation evaluates to the object the same
    text yields when it is not postponed -/
def EvalOk (ev : Str → EvOut) : Style → TyExpr → Prop
  | .live _, _ => True
  | .postponed l, e => ev (render l e) = .ok (denoteLive l e)

/-- what a field ends up with: its options, or nothing when resolution raised -/
def kindOf : ROut → Dflt → Option FieldKind
  | .ok a, d => some (kind a d)
  | .raise _, _ => Option.none

/-- a live annotation object is used as it is — so resolution is idempotent and the in-place update of `Field.type`
    (dataclass_wrapper.py:90) cannot change a later parser built from the same class -/
theorem resolve_live (ev : Str → EvOut) (l : Live) : ∀ e : TyExpr, resolve ev (denoteLive l e) = .ok (denoteLive l e)
  | .atom a => by simp [denoteLive, resolve]
  | .dc _ => by simp [denoteLive, resolve]
  | .list _ => by cases l <;> simp [denoteLive, mkList, resolve]
  | .tuple _ => by cases l <;> simp [denoteLive, mkTuple, resolve]
  | .vtuple _ => by cases l <;> simp [denoteLive, mkTuple, resolve]
  | .union _ => by cases l <;> simp [denoteLive, mkUnion, resolve]
  | .opt e => by cases e <;> cases l <;> simp [denoteLive, mkUnion, resolve]

theorem resolve_idem (ev : Str → EvOut) (a b : Ann) (h : resolve ev a = .ok b) (hb : ∀ t, b ≠ .strAnn t) :
    resolve ev b = .ok b := by
  cases b <;> simp [resolve]
  exact absurd rfl (hb _)

/-- postponed text whose value is not a top-level `X | Y`: resolution returns the evaluated object unchanged -/
theorem resolve_postponed_plain (ev : Str → EvOut) (l : Live) (e : TyExpr)
    (hev : ev (render l e) = .ok (denoteLive l e)) (h : l ≠ .pep604 ∨ isUnionOrOpt e = false) :
    resolve ev (denote (.postponed l) e) = .ok (denoteLive l e) := by
  simp only [denote, resolve, hev]
  cases e with
  | atom a => simp [denoteLive]
  | dc n => simp [denoteLive]
  | list x => cases l <;> simp [denoteLive, mkList]
  | tuple es => cases l <;> simp [denoteLive, mkTuple]
  | vtuple x => cases l <;> simp [denoteLive, mkTuple]
  | union es =>
    cases l <;> simp [denoteLive, mkUnion, isUnionOrOpt] at h ⊢
  | opt x =>
    cases l <;> simp [isUnionOrOpt] at h <;> cases x <;> simp [denoteLive, mkUnion]

theorem replaceL_atoms (l : Live) : ∀ es : List TyExpr, allAtoms es = true →
    replaceUnionL (denoteLiveL l es) = .ok (denoteLiveL l es)
  | [], _ => by simp [denoteLiveL, replaceUnionL]; rfl
  | e :: es, h => by
    simp [allAtoms] at h
    cases e <;> simp [isAtom] at h
    simp [denoteLiveL, denoteLive, replaceUnionL, replaceUnion, replaceL_atoms l es h]
    rfl

/-- optionals whose postponed PEP 604 text `X | None` is normalised to exactly the builtin-style object -/
def SimpleOptional : TyExpr → Bool
  | .opt (.atom _) => true
  | .opt (.list x) => isAtom x
  | .opt (.tuple es) => allAtoms es
  | _ => false

theorem resolve_postponed_604_optional (ev : Str → EvOut) (e : TyExpr) (hs : SimpleOptional e = true)
    (hev : ev (render .pep604 e) = .ok (denoteLive .pep604 e)) :
    resolve ev (denote (.postponed .pep604) e) = .ok (denoteLive .builtin e) := by
  simp only [denote, resolve, hev]
  match e, hs with
  | .opt (.atom a), _ =>
    cases a <;> simp [denoteLive, mkUnion, replaceUnion, replaceUnionL, atomCls, mkTypingUnion, flattenUnion, dedupAnn,
      annEq, bind, Except.bind, pure, Except.pure]
  | .opt (.list x), h =>
    simp [SimpleOptional] at h
    cases x <;> simp [isAtom] at h
    simp [denoteLive, mkUnion, mkList, replaceUnion, replaceUnionL, mkTypingUnion, flattenUnion, dedupAnn,
      annEq, bind, Except.bind, pure, Except.pure]
  | .opt (.tuple es), h =>
    simp [SimpleOptional] at h
    simp [denoteLive, mkUnion, mkTuple, replaceUnion, replaceUnionL, replaceL_atoms .pep604 es h, mkTypingUnion,
      flattenUnion, dedupAnn, annEq, bind, Except.bind, pure, Except.pure, denoteL_atoms .builtin .pep604 es h]

/-! ### the property -/

mutual
/-- well-formed (normalised) type expressions: no union directly inside a union, no optional of an optional — the
    spellings CPython itself would flatten; no dataclass inside a container -/
def wf : TyExpr → Bool
  | .atom _ => true
  | .dc _ => true
  | .list e => wf e && !isDc e
  | .tuple es => wfL es
  | .vtuple e => wf e && !isDc e
  | .opt (.union es) => wfMembers es
  | .opt e => wf e && !isUnionOrOpt e && !isDc e
  | .union es => wfMembers es
termination_by structural e => e
def wfL : List TyExpr → Bool
  | [] => true
  | e :: es => wf e && !isDc e && wfL es
def wfMembers : List TyExpr → Bool
  | [] => true
  | e :: es => wf e && !isUnionOrOpt e && !isDc e && wfMembers es
def isDc : TyExpr → Bool
  | .dc _ => true
  | _ => false
end

/-- **The full statement** (kept visible; refuted below): however a well-formed field type is written, the field gets
    the same options. -/
def FullStatement : Prop :=
  ∀ (ev : Str → EvOut) (e : TyExpr) (s₁ s₂ : Style) (d : Dflt), wf e = true → EvalOk ev s₁ e → EvalOk ev s₂ e →
    kindOf (resolve ev (denote s₁ e)) d = kindOf (resolve ev (denote s₂ e)) d

/-- the renderings for which resolution is proved to return a live object: every non-postponed style, postponed text
    without a top-level PEP 604 union, and postponed `X | None` over an atom / list / fixed tuple.  The second named
    exclusion (finding *postponed union over a variadic tuple*) lives here: `tuple[X, ...] | None` is not covered. -/
def Covered : Style → TyExpr → Bool
  | .live _, _ => true
  | .postponed .pep604, e => !isUnionOrOpt e || SimpleOptional e
  | .postponed _, _ => true

theorem resolve_covered (ev : Str → EvOut) (s : Style) (e : TyExpr) (hc : Covered s e = true) (hev : EvalOk ev s e) :
    ∃ l, resolve ev (denote s e) = .ok (denoteLive l e) := by
  match s, hc, hev with
  | .live l, _, _ => exact ⟨l, resolve_live ev l e⟩
  | .postponed .typing, _, hev => exact ⟨.typing, resolve_postponed_plain ev .typing e hev (Or.inl (by decide))⟩
  | .postponed .builtin, _, hev => exact ⟨.builtin, resolve_postponed_plain ev .builtin e hev (Or.inl (by decide))⟩
  | .postponed .pep604, hc, hev =>
    simp [Covered] at hc
    rcases hc with h | h
    · exact ⟨.pep604, resolve_postponed_plain ev .pep604 e hev (Or.inr h)⟩
    · exact ⟨.builtin, resolve_postponed_604_optional ev e h hev⟩

/-- **Style invariance (partial).**  For every field type of the command-line grammar (`InCliGrammar`: the named
    exclusion `ListItemsAtomic` is finding D18) and every pair of covered renderings (`Covered`: the exclusion is the
    postponed-variadic-tuple finding), under the evaluator assumption, the field gets the same argparse options:
    same branch of `get_arg_options`, same `required`, `nargs` and `type=` callable. -/
theorem c17_style_invariant_partial (ev : Str → EvOut) (e : TyExpr) (s₁ s₂ : Style) (d : Dflt)
    (hg : InCliGrammar e = true) (c₁ : Covered s₁ e = true) (c₂ : Covered s₂ e = true)
    (h₁ : EvalOk ev s₁ e) (h₂ : EvalOk ev s₂ e) :
    kindOf (resolve ev (denote s₁ e)) d = kindOf (resolve ev (denote s₂ e)) d := by
  obtain ⟨l₁, r₁⟩ := resolve_covered ev s₁ e c₁ h₁
  obtain ⟨l₂, r₂⟩ := resolve_covered ev s₂ e c₂ h₂
  rw [r₁, r₂]
  simp only [kindOf]
  rw [c17_live_invariant l₁ l₂ d e hg]

/-! non-vacuity: a deep type of the grammar, all five renderings covered, evaluator assumption satisfiable -/
def exTy : TyExpr :=
  .union [.atom .int, .list (.vtuple (.union [.atom .str, .list (.atom (.enum "Color".toList))])), .tuple [.atom .bool, .atom .path]]
def exEv (e : TyExpr) : Str → EvOut := fun t =>
  if t = render .typing e then .ok (denoteLive .typing e)
  else if t = render .pep604 e then .ok (denoteLive .pep604 e)
  else if t = render .builtin e then .ok (denoteLive .builtin e) else .otherError
example : InCliGrammar exTy = true := by decide
example : wf exTy = true := by decide
example : Covered (.postponed .typing) exTy = true ∧ Covered (.live .pep604) exTy = true := by decide
example : EvalOk (exEv exTy) (.postponed .typing) exTy := by simp [EvalOk, exEv]
example : InCliGrammar (.opt (.list (.atom .int))) = true ∧ Covered (.postponed .pep604) (.opt (.list (.atom .int))) = true := by
  decide
example : EvalOk (fun t => if t = render .pep604 (.opt (.list (.atom .int))) then
      .ok (denoteLive .pep604 (.opt (.list (.atom .int)))) else .otherError)
    (.postponed .pep604) (.opt (.list (.atom .int))) := by
  simp [EvalOk]

/-! ### witnesses: the full statement does not hold for the code as it is -/

def d18Ty : TyExpr := .list (.union [.atom .int, .atom .str])

/-- **D18.** `List[Union[int, str]]` hands argparse a (callable) typing alias, `list[int | str]` a `types.UnionType`
    that is not callable: `add_argument` raises `ValueError`. -/
theorem c17_d18_witness :
    notCallable (kind (denoteLive .typing d18Ty) .value).conv = false ∧
    notCallable (kind (denoteLive .pep604 d18Ty) .value).conv = true := by
  decide

/-- the same for the postponed text `list[int | str]`: only a *top-level* union is normalised -/
theorem c17_d18_postponed_witness :
    (match resolve (exEv d18Ty) (denote (.postponed .pep604) d18Ty) with
     | .ok a => notCallable (kind a .value).conv
     | .raise _ => false) = true := by
  decide

def vtTy : TyExpr := .opt (.vtuple (.atom .int))

/-- **Postponed union over a variadic tuple.** `tuple[int, ...] | None` under postponed evaluation raises
    `NotImplementedError` (the recursive replacement rejects `...`), `Optional[Tuple[int, ...]]` resolves. -/
theorem c17_vtuple_witness :
    (match resolve (exEv vtTy) (denote (.postponed .pep604) vtTy) with
     | .raise .notImplemented => true
     | _ => false) = true ∧
    (match resolve (exEv vtTy) (denote (.postponed .typing) vtTy) with
     | .ok _ => true
     | _ => false) = true := by
  decide

theorem c17_full_statement_fails : ¬ FullStatement := by
  intro h
  have := h (exEv d18Ty) d18Ty (.live .typing) (.live .pep604) .value (by decide) trivial trivial
  have h2 : (kindOf (resolve (exEv d18Ty) (denote (.live .typing) d18Ty)) .value).map (fun k => notCallable k.conv)
      = (kindOf (resolve (exEv d18Ty) (denote (.live .pep604) d18Ty)) .value).map (fun k => notCallable k.conv) := by
    rw [this]
  revert h2
  decide

/-! ### inherited fields -/

def keys {β : Type} (l : List (Str × β)) : List Str := l.map (·.1)

theorem dictSet_new {β : Type} : ∀ (acc : List (Str × β)) (k : Str) (v : β), k ∉ keys acc →
    dictSet acc k v = acc ++ [(k, v)]
  | [], _, _, _ => rfl
  | (k', v') :: r, k, v, h => by
    simp [keys] at h
    have hne : ¬ k' = k := fun e => h.1 e.symm
    have ih := dictSet_new r k v (by simpa [keys] using h.2)
    simp [dictSet, hne, ih]

theorem addOwn_fresh {β : Type} : ∀ (own acc : List (Str × β)), (keys (acc ++ own)).Nodup → addOwn acc own = acc ++ own
  | [], acc, _ => by simp [addOwn]
  | (k, v) :: r, acc, h => by
    have hk : k ∉ keys acc := by
      simp [keys, List.nodup_append] at h
      intro hmem
      simp [keys] at hmem
      obtain ⟨b, hb⟩ := hmem
      exact (h.2.2 k b hb).1 rfl
    have h' : (keys ((acc ++ [(k, v)]) ++ r)).Nodup := by simpa [keys] using h
    simp [addOwn, dictSet_new acc k v hk, addOwn_fresh r (acc ++ [(k, v)]) h']

theorem foldl_addOwn {β : Type} : ∀ (chain : List (List (Str × β))) (acc : List (Str × β)),
    (keys (acc ++ chain.flatten)).Nodup → chain.foldl addOwn acc = acc ++ chain.flatten
  | [], acc, _ => by simp
  | own :: rest, acc, h => by
    have h1 : (keys (acc ++ own)).Nodup := by
      simp [keys, List.nodup_append] at h ⊢
      refine ⟨h.1, h.2.1.1, ?_⟩
      intro a b hab a' b' hab' e
      exact h.2.2 a b hab a' (Or.inl ⟨b', hab'⟩) e
    have h2 : (keys ((acc ++ own) ++ rest.flatten)).Nodup := by simpa using h
    simp [List.foldl, addOwn_fresh own acc h1, foldl_addOwn rest (acc ++ own) h2]

/-- **Inherited fields.** A class whose (distinct) fields are declared along a linear inheritance chain of any length,
    in any contiguous split, has exactly the field list of the class that declares them all itself. -/
theorem c17_inherit {β : Type} (chain : List (List (Str × β))) (h : (keys chain.flatten).Nodup) :
    dcFields chain = dcFields [chain.flatten] := by
  have a := foldl_addOwn chain [] (by simpa using h)
  have b := foldl_addOwn [chain.flatten] [] (by simpa using h)
  simp [dcFields] at a b ⊢
  rw [a]; simpa using b.symm

example : dcFields [[("a".toList, 1), ("b".toList, 2)], [("c".toList, 3)], [("b".toList, 9)]]
    = [("a".toList, 1), ("b".toList, 9), ("c".toList, 3)] := by decide

example : (keys [[("f0".toList, 0), ("f1".toList, 1)], [], [("f2".toList, 2)]].flatten).Nodup := by decide

/-! ### the textual `A | B` rewriter -/

/-- text without `|` is returned unchanged -/
theorem c17_rewrite_no_bar (text : Str) (h : text.contains '|' = false) : rewrite text = .ok text := by
  have h' : '|' ∉ text := by simpa using h
  simp [rewrite, rewriteF, h']

/-- a bracket-free union `a | b | …` becomes `Union[a, b, …]` with the members stripped -/
theorem c17_rewrite_flat (text : Str) (h : text.contains '|' = true) (h1 : (stripWs text).contains '[' = false)
    (h2 : (stripWs text).contains ']' = false) :
    rewrite text = .ok ("Union[".toList ++ joinCommaSp ((splitOnChar '|' (stripWs text)).map stripWs) ++ [']']) := by
  have h' : '|' ∈ text := by simpa using h
  have h1' : '[' ∉ stripWs text := by simpa using h1
  have h2' : ']' ∉ stripWs text := by simpa using h2
  simp [rewrite, rewriteF, h', h1', h2']

example : rewrite " int | None".toList = .ok "Union[int, None]".toList := by decide
example : rewrite "tuple[int | None, str | float]".toList = .ok "tuple[Union[int, None], Union[str, float]]".toList := by
  decide

/-- the rewriter's documented gap (`# BUG: Need to handle things like bob[int] | None`): an assertion error -/
theorem c17_rewrite_gap_witness : rewrite "list[int] | None".toList = .assertion := by decide

/-- a union whose first member is plain and a later one subscripted is refused -/
theorem c17_rewrite_not_supported_witness : rewrite "int | list[int]".toList = .notSupported := by decide

end SpVerif.C17
