/-
  C03 — Every generated option addresses exactly one field of one destination.
  Theorems about `SpVerif.Model.Conflicts` (mirrors ConflictResolver, conflicts.py:65-315).
-/
import SpVerif.Model.Conflicts
import SpVerif.Model.BoolFlag
namespace SpVerif.C03
open SpVerif

/-! ### `get_conflict` = none  ⇔  no option string has two owners -/

theorem getConflict_none_iff (cfg : Cfg) (recs : List FieldRec) :
    getConflict cfg recs = none ↔ ∀ s ∈ allOpts cfg recs, (owners cfg recs s).length ≤ 1 := by
  unfold getConflict
  constructor
  · intro h s hs
    cases hf : (allOpts cfg recs).find? (fun s => decide ((owners cfg recs s).length > 1)) with
    | some s' => rw [hf] at h; cases h
    | none =>
      have := List.find?_eq_none.mp hf s hs
      simpa using this
  · intro h
    have : (allOpts cfg recs).find? (fun s => decide ((owners cfg recs s).length > 1)) = none := by
      apply List.find?_eq_none.mpr
      intro s hs
      have := h s hs
      simp; omega
    rw [this]

theorem getConflict_some_owners (cfg : Cfg) (recs : List FieldRec) (s : Str) (os : List Nat)
    (h : getConflict cfg recs = some (s, os)) : os = owners cfg recs s ∧ os.length > 1 := by
  unfold getConflict at h
  cases hf : (allOpts cfg recs).find? (fun s => decide ((owners cfg recs s).length > 1)) with
  | none => rw [hf] at h; cases h
  | some s' =>
    rw [hf] at h
    simp only [Option.some.injEq, Prod.mk.injEq] at h
    obtain ⟨rfl, rfl⟩ := h
    have := List.find?_some hf
    exact ⟨rfl, by simpa using this⟩

/-- an option string that some field owns appears in `allOpts` -/
theorem mem_allOpts_of_owner (cfg : Cfg) (recs : List FieldRec) (s : Str) (i : Nat)
    (hi : i ∈ owners cfg recs s) : s ∈ allOpts cfg recs := by
  unfold owners at hi
  simp only [List.mem_filter, List.mem_range] at hi
  obtain ⟨hlt, hc⟩ := hi
  have hget : recs[i]? = some recs[i] := List.getElem?_eq_getElem hlt
  rw [hget] at hc
  unfold allOpts
  simp only [List.mem_flatMap]
  exact ⟨recs[i], List.getElem_mem hlt, by simpa using hc⟩

/-- **No conflict ⇒ every option string has at most one owner** (also strings nobody offers). -/
theorem unique_of_no_conflict (cfg : Cfg) (recs : List FieldRec) (h : getConflict cfg recs = none)
    (s : Str) : (owners cfg recs s).length ≤ 1 := by
  by_cases hs : s ∈ allOpts cfg recs
  · exact (getConflict_none_iff cfg recs).mp h s hs
  · cases ho : owners cfg recs s with
    | nil => simp
    | cons i rest =>
      exact absurd (mem_allOpts_of_owner cfg recs s i (by rw [ho]; simp)) hs

/-! ### the resolution loop -/

theorem resolveLoop_ok_no_conflict (cfg : Cfg) (mode : CR) (fuel : Nat) (recs recs' : List FieldRec)
    (h : resolveLoop cfg mode fuel recs = .ok recs') : getConflict cfg recs' = none := by
  induction fuel generalizing recs with
  | zero => simp [resolveLoop] at h
  | succ n ih =>
    simp only [resolveLoop] at h
    cases hc : getConflict cfg recs with
    | none => rw [hc] at h; simp only [CROut.ok.injEq] at h; subst h; exact hc
    | some c =>
      obtain ⟨s, os⟩ := c
      rw [hc] at h
      simp only at h
      cases hf : fixStep cfg mode recs s os with
      | error e => rw [hf] at h; cases h
      | ok r2 =>
        rw [hf] at h
        simp only at h
        split at h
        · cases h
        · exact ih r2 h

/-- **C03 (unique owner).** Whenever setup's conflict resolution returns — NONE, EXPLICIT or AUTO
    (under `always_merge` this loop only returns when there was no conflict at all, see
    `c03_merge_never_ok`; merging is C11's), for any forest, with or without user prefixes, after any
    number of rounds — every string belongs to at most one field wrapper. For the strings the parser
    actually offers the count is exactly one: `c03_exactly_one`, and the owner is the generating
    field: `c03_owner_eq`. That resolution does return `.ok` on forests with real clashes is shown by
    the `decide` examples at the end of the file and by `fixAuto_progress`. -/
theorem c03_unique (cfg : Cfg) (mode : CR) (recs recs' : List FieldRec)
    (h : resolve cfg mode recs = .ok recs') (s : Str) : (owners cfg recs' s).length ≤ 1 :=
  unique_of_no_conflict cfg recs' (resolveLoop_ok_no_conflict cfg mode _ recs recs' h) s

/-- two different fields never share an option string after a successful resolution -/
theorem c03_disjoint (cfg : Cfg) (mode : CR) (recs recs' : List FieldRec)
    (h : resolve cfg mode recs = .ok recs') (i j : Nat) (ri rj : FieldRec)
    (hi : recs'[i]? = some ri) (hj : recs'[j]? = some rj) (hij : i ≠ j) (s : Str)
    (hsi : s ∈ ri.opts cfg) (hsj : s ∈ rj.opts cfg) : False := by
  have hu := c03_unique cfg mode recs recs' h s
  have hlt_i : i < recs'.length := by
    rcases Nat.lt_or_ge i recs'.length with h | h
    · exact h
    · rw [List.getElem?_eq_none h] at hi; cases hi
  have hlt_j : j < recs'.length := by
    rcases Nat.lt_or_ge j recs'.length with h | h
    · exact h
    · rw [List.getElem?_eq_none h] at hj; cases hj
  have hmi : i ∈ owners cfg recs' s := by
    unfold owners; simp only [List.mem_filter, List.mem_range]; exact ⟨hlt_i, by rw [hi]; simpa using hsi⟩
  have hmj : j ∈ owners cfg recs' s := by
    unfold owners; simp only [List.mem_filter, List.mem_range]; exact ⟨hlt_j, by rw [hj]; simpa using hsj⟩
  match ho : owners cfg recs' s, hu, hmi, hmj with
  | [], _, hmi, _ => simp at hmi
  | [a], _, hmi, hmj =>
    simp only [List.mem_singleton] at hmi hmj
    exact hij (hmi.trans hmj.symm)
  | _ :: _ :: _, hu, _, _ => simp at hu

/-- **NONE mode raises exactly when a clash exists** (and otherwise changes nothing). -/
theorem c03_none_iff (cfg : Cfg) (recs : List FieldRec) :
    (resolve cfg .none recs = .err .conflictResolutionError ↔ getConflict cfg recs ≠ none) ∧
    (resolve cfg .none recs = .ok recs ↔ getConflict cfg recs = none) := by
  have key : ∀ n, (resolveLoop cfg .none (n + 1) recs = .err .conflictResolutionError ↔ getConflict cfg recs ≠ none) ∧
      (resolveLoop cfg .none (n + 1) recs = .ok recs ↔ getConflict cfg recs = none) := by
    intro n
    rw [resolveLoop]
    cases hc : getConflict cfg recs with
    | none => simp
    | some c => obtain ⟨s, os⟩ := c; simp [fixStep]
  exact key 49

/-! ### resolution only rewrites prefixes -/

/-- everything about a field except its prefix -/
def strip (r : FieldRec) : FieldRec := { r with pref := [] }

theorem setPref_strip (recs : List FieldRec) (i : Nat) (p : Str) :
    (setPref recs i p).map strip = recs.map strip := by
  unfold setPref
  induction recs generalizing i with
  | nil => simp
  | cons r rs ih =>
    cases i with
    | zero => simp [List.modify, strip]
    | succ n => simp only [List.modify_succ_cons, List.map_cons, ih]

theorem autoOne_strip (recs recs' : List FieldRec) (i : Nat) (h : autoOne recs i = .ok recs') :
    recs'.map strip = recs.map strip := by
  unfold autoOne at h
  split at h
  · simp only [Except.ok.injEq] at h; subst h; rfl
  · simp only at h
    split at h
    · cases h
    · split at h
      · split at h
        · simp only [Except.ok.injEq] at h; subst h; exact setPref_strip _ _ _
        · cases h
      · cases h

theorem autoAll_strip (recs recs' : List FieldRec) (is : List Nat) (h : autoAll recs is = .ok recs') :
    recs'.map strip = recs.map strip := by
  induction is generalizing recs with
  | nil => simp only [autoAll, Except.ok.injEq] at h; subst h; rfl
  | cons i is ih =>
    simp only [autoAll] at h
    cases h1 : autoOne recs i with
    | error e => rw [h1] at h; cases h
    | ok r1 => rw [h1] at h; rw [ih r1 h, autoOne_strip recs r1 i h1]

theorem fixAuto_strip (recs recs' : List FieldRec) (os : List Nat) (h : fixAuto recs os = .ok recs') :
    recs'.map strip = recs.map strip := by
  unfold fixAuto at h
  simp only at h
  split at h
  · cases h
  · exact autoAll_strip _ _ _ h

theorem explicitFold_strip (os : List Nat) (recs : List FieldRec) :
    (os.foldl (fun acc i => match acc[i]? with
      | some r => setPref acc i (r.parentDest ++ ['.'])
      | none => acc) recs).map strip = recs.map strip := by
  induction os generalizing recs with
  | nil => rfl
  | cons i is ih =>
    simp only [List.foldl_cons]
    rw [ih]
    split
    · exact setPref_strip _ _ _
    · rfl

theorem fixExplicit_strip (cfg : Cfg) (recs recs' : List FieldRec) (s : Str) (os : List Nat)
    (h : fixExplicit cfg recs s os = .ok recs') : recs'.map strip = recs.map strip := by
  unfold fixExplicit at h
  split at h
  · cases h
  · simp only at h
    split at h
    · split at h
      · cases h
      · simp only [Except.ok.injEq] at h; subst h; exact explicitFold_strip os recs
    · simp only [Except.ok.injEq] at h; subst h; exact explicitFold_strip os recs

theorem fixStep_strip (cfg : Cfg) (mode : CR) (recs recs' : List FieldRec) (s : Str) (os : List Nat)
    (h : fixStep cfg mode recs s os = .ok recs') : recs'.map strip = recs.map strip := by
  cases mode <;> simp only [fixStep] at h
  · cases h
  · exact fixExplicit_strip cfg recs recs' s os h
  · cases h
  · exact fixAuto_strip recs recs' os h

/-- **C03 (frame).** Resolution never adds, drops, reorders or retargets a field: names,
    destinations (`parentDest`), nesting levels and aliases of the flat field list are unchanged —
    only prefixes move. So the i-th field wrapper after resolution still describes the i-th leaf
    (same `dest`). This is a statement about the wrapper list only; what *parsing* an option string
    does ("changes that leaf and nothing else") is not stated in Lean for C03 — together with
    `c03_owner_eq` (the lookup table sends a string to the single field that generated it) it is
    observed on the real parser, one parse per option string (oracle clause `exact-leaf`). -/
theorem c03_frame (cfg : Cfg) (mode : CR) (recs recs' : List FieldRec)
    (h : resolve cfg mode recs = .ok recs') : recs'.map strip = recs.map strip := by
  unfold resolve at h
  generalize maxAttempts = fuel at h
  induction fuel generalizing recs with
  | zero => simp [resolveLoop] at h
  | succ n ih =>
    simp only [resolveLoop] at h
    cases hc : getConflict cfg recs with
    | none => rw [hc] at h; simp only [CROut.ok.injEq] at h; subst h; rfl
    | some c =>
      obtain ⟨s, os⟩ := c
      rw [hc] at h
      simp only at h
      cases hf : fixStep cfg mode recs s os with
      | error e => rw [hf] at h; cases h
      | ok r2 =>
        rw [hf] at h
        simp only at h
        split at h
        · cases h
        · rw [ih r2 h, fixStep_strip cfg mode recs r2 s os hf]

theorem c03_frame_length (cfg : Cfg) (mode : CR) (recs recs' : List FieldRec)
    (h : resolve cfg mode recs = .ok recs') : recs'.length = recs.length := by
  have := congrArg List.length (c03_frame cfg mode recs recs' h)
  simpa using this

/-! ### a round touches only the owners of the conflicting option -/

theorem setPref_getElem_ne (recs : List FieldRec) (i j : Nat) (p : Str) (h : i ≠ j) :
    (setPref recs i p)[j]? = recs[j]? := by
  unfold setPref
  rw [List.getElem?_modify]
  simp [h]

theorem autoOne_untouched (recs recs' : List FieldRec) (i j : Nat) (hij : i ≠ j)
    (h : autoOne recs i = .ok recs') : recs'[j]? = recs[j]? := by
  unfold autoOne at h
  split at h
  · simp only [Except.ok.injEq] at h; subst h; rfl
  · simp only at h
    split at h
    · cases h
    · split at h
      · split at h
        · simp only [Except.ok.injEq] at h; subst h; exact setPref_getElem_ne _ _ _ _ hij
        · cases h
      · cases h

theorem autoAll_untouched (recs recs' : List FieldRec) (is : List Nat) (j : Nat) (hj : j ∉ is)
    (h : autoAll recs is = .ok recs') : recs'[j]? = recs[j]? := by
  induction is generalizing recs with
  | nil => simp only [autoAll, Except.ok.injEq] at h; subst h; rfl
  | cons i is ih =>
    simp only [List.mem_cons, not_or] at hj
    simp only [autoAll] at h
    cases h1 : autoOne recs i with
    | error e => rw [h1] at h; cases h
    | ok r1 =>
      rw [h1] at h
      rw [ih r1 hj.2 h, autoOne_untouched recs r1 i j (fun hh => hj.1 hh.symm) h1]

theorem mem_insertByLevel (recs : List FieldRec) (i x : Nat) (l : List Nat) :
    x ∈ insertByLevel recs i l ↔ x = i ∨ x ∈ l := by
  induction l with
  | nil => simp [insertByLevel]
  | cons j js ih =>
    simp only [insertByLevel]
    split
    · simp
    · simp only [List.mem_cons, ih]; constructor <;> (intro h; rcases h with h | h | h <;> simp [h])

theorem mem_sortByLevel (recs : List FieldRec) (l : List Nat) (x : Nat) :
    x ∈ sortByLevel recs l ↔ x ∈ l := by
  unfold sortByLevel
  have : ∀ (acc : List Nat), x ∈ l.foldl (fun acc i => insertByLevel recs i acc) acc ↔ x ∈ acc ∨ x ∈ l := by
    induction l with
    | nil => intro acc; simp
    | cons i is ih =>
      intro acc
      simp only [List.foldl_cons, ih, mem_insertByLevel, List.mem_cons]
      constructor
      · rintro ((h | h) | h) <;> simp [h]
      · rintro (h | h | h) <;> simp [h]
  simpa using this []

theorem fixAuto_untouched (recs recs' : List FieldRec) (os : List Nat) (j : Nat) (hj : j ∉ os)
    (h : fixAuto recs os = .ok recs') : recs'[j]? = recs[j]? := by
  unfold fixAuto at h
  simp only at h
  split at h
  · cases h
  · apply autoAll_untouched _ _ _ j _ h
    intro hmem
    apply hj
    rw [← mem_sortByLevel recs os j]
    generalize sortByLevel recs os = sorted at hmem ⊢
    match sorted, hmem with
    | [], hmem => simp at hmem
    | [a], hmem => simpa using hmem
    | a :: b :: rest, hmem =>
      simp only at hmem
      split at hmem
      · exact List.mem_cons_of_mem _ hmem
      · exact hmem

theorem explicitFold_untouched (os : List Nat) (recs : List FieldRec) (j : Nat) (hj : j ∉ os) :
    (os.foldl (fun acc i => match acc[i]? with
      | some r => setPref acc i (r.parentDest ++ ['.'])
      | none => acc) recs)[j]? = recs[j]? := by
  induction os generalizing recs with
  | nil => rfl
  | cons i is ih =>
    simp only [List.mem_cons, not_or] at hj
    simp only [List.foldl_cons]
    rw [ih _ hj.2]
    split
    · exact setPref_getElem_ne _ _ _ _ (fun hh => hj.1 hh.symm)
    · rfl

theorem fixExplicit_untouched (cfg : Cfg) (recs recs' : List FieldRec) (s : Str) (os : List Nat)
    (j : Nat) (hj : j ∉ os) (h : fixExplicit cfg recs s os = .ok recs') : recs'[j]? = recs[j]? := by
  unfold fixExplicit at h
  split at h
  · cases h
  · simp only at h
    split at h
    · split at h
      · cases h
      · simp only [Except.ok.injEq] at h; subst h; exact explicitFold_untouched os recs j hj
    · simp only [Except.ok.injEq] at h; subst h; exact explicitFold_untouched os recs j hj

/-- **C03 (a field that does not own the conflicting option keeps its name this round).** -/
theorem c03_round_untouched (cfg : Cfg) (mode : CR) (recs recs' : List FieldRec) (s : Str)
    (os : List Nat) (j : Nat) (hj : j ∉ os) (h : fixStep cfg mode recs s os = .ok recs') :
    recs'[j]? = recs[j]? := by
  cases mode <;> simp only [fixStep] at h
  · cases h
  · exact fixExplicit_untouched cfg recs recs' s os j hj h
  · cases h
  · exact fixAuto_untouched recs recs' os j hj h

/-! ### totality: the resolver answers `ok` or `ConflictResolutionError`, nothing else -/

theorem length_insertByLevel (recs : List FieldRec) (i : Nat) (l : List Nat) :
    (insertByLevel recs i l).length = l.length + 1 := by
  induction l with
  | nil => simp [insertByLevel]
  | cons j js ih => simp only [insertByLevel]; split <;> simp [ih]

theorem length_sortByLevel (recs : List FieldRec) (l : List Nat) :
    (sortByLevel recs l).length = l.length := by
  unfold sortByLevel
  have : ∀ (acc : List Nat), (l.foldl (fun acc i => insertByLevel recs i acc) acc).length = acc.length + l.length := by
    induction l with
    | nil => intro acc; simp
    | cons i is ih => intro acc; simp only [List.foldl_cons, ih, length_insertByLevel, List.length_cons]; omega
  simpa using this []

theorem autoOne_no_assert (recs : List FieldRec) (i : Nat) : autoOne recs i ≠ .error .assertionError := by
  unfold autoOne
  split
  · simp
  · simp only
    split
    · simp
    · split
      · rename_i hlt
        split
        · simp
        · rename_i hnone
          exfalso
          rw [List.getElem?_eq_none_iff] at hnone
          omega
      · simp

theorem autoAll_no_assert (recs : List FieldRec) (is : List Nat) : autoAll recs is ≠ .error .assertionError := by
  induction is generalizing recs with
  | nil => simp [autoAll]
  | cons i is ih =>
    simp only [autoAll]
    cases h1 : autoOne recs i with
    | error e =>
      simp only
      intro h
      have : e = .assertionError := by simpa using h
      subst this
      exact autoOne_no_assert recs i h1
    | ok r1 => exact ih r1

theorem fixExplicit_no_assert (cfg : Cfg) (recs : List FieldRec) (s : Str) (os : List Nat) :
    fixExplicit cfg recs s os ≠ .error .assertionError := by
  unfold fixExplicit
  split
  · simp
  · simp only
    split
    · split <;> simp
    · simp

/-- **C03 (total).** In the NONE / EXPLICIT / AUTO modes the resolver returns either a resolved
    forest or `ConflictResolutionError` — never the third outcome (`AssertionError`) that the code's
    internal `assert`s would produce. (True only after the repair of the "same user prefix under
    AUTO" defect, commit 00d3779; the 50-round limit is a `ConflictResolutionError` too.) -/
theorem c03_total (cfg : Cfg) (mode : CR) (hm : mode ≠ .always_merge) (recs : List FieldRec) :
    resolve cfg mode recs ≠ .err .assertionError := by
  unfold resolve
  generalize maxAttempts = fuel
  induction fuel generalizing recs with
  | zero => simp [resolveLoop]
  | succ n ih =>
    simp only [resolveLoop]
    cases hc : getConflict cfg recs with
    | none => simp
    | some c =>
      obtain ⟨s, os⟩ := c
      simp only
      cases hf : fixStep cfg mode recs s os with
      | ok r2 =>
        simp only
        split
        · simp
        · exact ih r2
      | error e =>
        simp only
        intro h
        have he : e = .assertionError := by simpa using h
        subst he
        obtain ⟨hos, hlen⟩ := getConflict_some_owners cfg recs s os hc
        cases mode with
        | none => simp [fixStep] at hf
        | explicit => exact fixExplicit_no_assert cfg recs s os (by simpa [fixStep] using hf)
        | always_merge => exact hm rfl
        | auto =>
          simp only [fixStep, fixAuto] at hf
          split at hf
          · rename_i hlt
            rw [length_sortByLevel] at hlt
            omega
          · exact autoAll_no_assert _ _ hf

/-- the whole setup is `ok` or `ConflictResolutionError` provided no final option string collides
    with an option already on the parser (`-h`/`--help`) … -/
theorem c03_setup_total_partial (cfg : Cfg) (mode : CR) (hm : mode ≠ .always_merge)
    (reserved : List Str) (recs : List FieldRec)
    (hres : ∀ recs', resolve cfg mode recs = .ok recs' →
      (allOpts cfg recs').any (fun s => reserved.contains s) = false) :
    (∃ recs', setup cfg mode reserved recs = .ok recs') ∨
      setup cfg mode reserved recs = .conflictResolutionError := by
  unfold setup
  cases hr : resolve cfg mode recs with
  | ok recs' =>
    left
    refine ⟨recs', ?_⟩
    simp only
    rw [hres recs' hr]
    simp
  | err e =>
    cases e with
    | conflictResolutionError => right; rfl
    | assertionError => exact absurd hr (c03_total cfg mode hm recs)

/-- … and the unrestricted statement is false today (open finding C03-help-clash): a field named
    `h` makes setup fail with `argparse.ArgumentError`. -/
def SetupTotal : Prop :=
  ∀ (cfg : Cfg) (mode : CR) (recs : List FieldRec), mode ≠ .always_merge →
    (∃ recs', setup cfg mode ["-h".toList, "--help".toList] recs = .ok recs') ∨
      setup cfg mode ["-h".toList, "--help".toList] recs = .conflictResolutionError

theorem c03_setup_total_witness : ¬ SetupTotal := by
  intro h
  have := h ⟨.underscore, .flat, .default⟩ .auto
    [{ name := "h".toList, parentDest := "a".toList, level := 1, aliases := [], pref := [] }] (by decide)
  have hs : setup ⟨.underscore, .flat, .default⟩ .auto ["-h".toList, "--help".toList]
      [{ name := "h".toList, parentDest := "a".toList, level := 1, aliases := [], pref := [] }] =
      .argumentError := by decide
  rw [hs] at this
  rcases this with ⟨r, hr⟩ | hr <;> cases hr

/-! ### exactly one owner; the owner of an option string is the field that generated it -/

theorem owner_of_mem_opts (cfg : Cfg) (recs : List FieldRec) (i : Nat) (r : FieldRec) (s : Str)
    (hi : recs[i]? = some r) (hs : s ∈ r.opts cfg) : i ∈ owners cfg recs s := by
  have hlt : i < recs.length := by
    rcases Nat.lt_or_ge i recs.length with h | h
    · exact h
    · rw [List.getElem?_eq_none h] at hi; cases hi
  unfold owners
  simp only [List.mem_filter, List.mem_range]
  exact ⟨hlt, by rw [hi]; simpa using hs⟩

theorem mem_owners (cfg : Cfg) (recs : List FieldRec) (i : Nat) (s : Str)
    (hi : i ∈ owners cfg recs s) : ∃ r, recs[i]? = some r ∧ s ∈ r.opts cfg := by
  unfold owners at hi
  simp only [List.mem_filter, List.mem_range] at hi
  obtain ⟨hlt, hc⟩ := hi
  have hget : recs[i]? = some recs[i] := List.getElem?_eq_getElem hlt
  rw [hget] at hc
  exact ⟨recs[i], hget, by simpa using hc⟩

theorem owners_lt (cfg : Cfg) (recs : List FieldRec) (s : Str) (i : Nat)
    (hi : i ∈ owners cfg recs s) : i < recs.length := by
  unfold owners at hi
  simp only [List.mem_filter, List.mem_range] at hi
  exact hi.1

theorem owners_nodup (cfg : Cfg) (recs : List FieldRec) (s : Str) : (owners cfg recs s).Nodup := by
  unfold owners
  exact List.Nodup.sublist List.filter_sublist List.nodup_range

/-- an option string that appears at all has an owner -/
theorem owners_ne_nil_of_mem_allOpts (cfg : Cfg) (recs : List FieldRec) (s : Str)
    (hs : s ∈ allOpts cfg recs) : owners cfg recs s ≠ [] := by
  unfold allOpts at hs
  simp only [List.mem_flatMap] at hs
  obtain ⟨r, hr, hsr⟩ := hs
  obtain ⟨i, hi⟩ := List.mem_iff_getElem?.mp hr
  intro hnil
  have := owner_of_mem_opts cfg recs i r s hi hsr
  rw [hnil] at this
  cases this

/-- **C03 (exactly one).** After a successful resolution (NONE / EXPLICIT / AUTO; `always_merge`
    never reaches `.ok` through this loop — see `c03_merge_never_ok`) every option string that the
    parser offers has *exactly* one owner. -/
theorem c03_exactly_one (cfg : Cfg) (mode : CR) (recs recs' : List FieldRec)
    (h : resolve cfg mode recs = .ok recs') (s : Str) (hs : s ∈ allOpts cfg recs') :
    (owners cfg recs' s).length = 1 := by
  have h1 := c03_unique cfg mode recs recs' h s
  have h2 := owners_ne_nil_of_mem_allOpts cfg recs' s hs
  match ho : owners cfg recs' s, h1, h2 with
  | [], _, h2 => exact absurd rfl h2
  | [_], _, _ => rfl
  | _ :: _ :: _, h1, _ => simp at h1

/-- **C03 (the owner is the generating field).** If the i-th field generates `s` after resolution,
    the table of owners of `s` is exactly `[i]`: looking `s` up reaches the i-th field and no
    other one. (That argparse's exact-match lookup stores into that action's own `dest`, i.e.
    "passing it changes that leaf and nothing else", is observed on the real parser by the probe
    parses of the harness — clause `exact-leaf` — and is not restated here.) -/
theorem c03_owner_eq (cfg : Cfg) (mode : CR) (recs recs' : List FieldRec)
    (h : resolve cfg mode recs = .ok recs') (i : Nat) (ri : FieldRec) (s : Str)
    (hi : recs'[i]? = some ri) (hs : s ∈ ri.opts cfg) : owners cfg recs' s = [i] := by
  have h1 := c03_unique cfg mode recs recs' h s
  have hm := owner_of_mem_opts cfg recs' i ri s hi hs
  match ho : owners cfg recs' s, h1, hm with
  | [], _, hm => cases hm
  | [a], _, hm => simp only [List.mem_singleton] at hm; rw [hm]
  | _ :: _ :: _, h1, _ => simp at h1

/-- the loop of `Model/Conflicts` answers `.ok` under `always_merge` only when there was no
    conflict to begin with (merging is modelled in `Model/Merge`, property C11) -/
theorem c03_merge_never_ok (cfg : Cfg) (recs recs' : List FieldRec)
    (h : resolve cfg .always_merge recs = .ok recs') : recs' = recs ∧ getConflict cfg recs = none := by
  unfold resolve maxAttempts at h
  rw [resolveLoop] at h
  cases hc : getConflict cfg recs with
  | none => rw [hc] at h; simp only [CROut.ok.injEq] at h; exact ⟨h.symm, rfl⟩
  | some c => obtain ⟨s, os⟩ := c; rw [hc] at h; simp [fixStep] at h

/-! ### invariants travel through the loop -/

/-- any property of the field list that one successful round preserves holds at the exit -/
theorem resolveLoop_inv (cfg : Cfg) (mode : CR) (P : List FieldRec → Prop)
    (hstep : ∀ recs s os recs', P recs → getConflict cfg recs = some (s, os) →
      fixStep cfg mode recs s os = .ok recs' → P recs')
    (fuel : Nat) (recs recs' : List FieldRec) (h0 : P recs)
    (h : resolveLoop cfg mode fuel recs = .ok recs') : P recs' := by
  induction fuel generalizing recs with
  | zero => simp [resolveLoop] at h
  | succ n ih =>
    simp only [resolveLoop] at h
    cases hc : getConflict cfg recs with
    | none => rw [hc] at h; simp only [CROut.ok.injEq] at h; subst h; exact h0
    | some c =>
      obtain ⟨s, os⟩ := c
      rw [hc] at h
      simp only at h
      cases hf : fixStep cfg mode recs s os with
      | error e => rw [hf] at h; cases h
      | ok r2 =>
        rw [hf] at h
        simp only at h
        split at h
        · cases h
        · exact ih r2 (hstep recs s os r2 h0 hc hf) h

theorem setPref_get (recs : List FieldRec) (i j : Nat) (p : Str) :
    (setPref recs i p)[j]? =
      if i = j then (recs[j]?).map (fun r => { r with pref := p }) else recs[j]? := by
  unfold setPref
  rw [List.getElem?_modify]
  by_cases h : i = j
  · subst h; cases recs[i]? <;> simp
  · cases recs[j]? <;> simp [h]

theorem mem_setPref (recs : List FieldRec) (i : Nat) (p : Str) (r : FieldRec)
    (h : r ∈ setPref recs i p) :
    r ∈ recs ∨ ∃ r0, recs[i]? = some r0 ∧ r = { r0 with pref := p } := by
  obtain ⟨j, hj⟩ := List.mem_iff_getElem?.mp h
  rw [setPref_get] at hj
  by_cases hij : i = j
  · subst hij
    simp only [if_true] at hj
    cases hr : recs[i]? with
    | none => rw [hr] at hj; cases hj
    | some r0 =>
      rw [hr] at hj
      simp only [Option.map_some, Option.some.injEq] at hj
      exact .inr ⟨r0, rfl, hj.symm⟩
  · simp only [hij, if_false] at hj
    exact .inl (List.mem_iff_getElem?.mpr ⟨j, hj⟩)

/-- what a successful `autoOne` did: nothing (index out of range) or it put one more word of the
    parent destination in front of the i-th prefix -/
theorem autoOne_ok_spec (recs recs' : List FieldRec) (i : Nat) (h : autoOne recs i = .ok recs') :
    (recs[i]? = none ∧ recs' = recs) ∨
    ∃ r w, recs[i]? = some r ∧ r.pref ≠ r.parentDest ++ ['.'] ∧
      (words (r.parentDest ++ ['.'])).length > (words r.pref).length ∧
      (words (r.parentDest ++ ['.']))[(words (r.parentDest ++ ['.'])).length - 1 -
        (words r.pref).length]? = some w ∧
      recs' = setPref recs i (w ++ '.' :: r.pref) := by
  unfold autoOne at h
  split at h
  · rename_i hn
    simp only [Except.ok.injEq] at h
    exact .inl ⟨hn, h.symm⟩
  · rename_i r hr
    simp only at h
    split at h
    · cases h
    · rename_i hne
      split at h
      · rename_i hlt
        split at h
        · rename_i w hw
          simp only [Except.ok.injEq] at h
          exact .inr ⟨r, w, hr, hne, hlt, hw, h.symm⟩
        · cases h
      · cases h

/-! ### progress: a successful AUTO round makes prefixes strictly longer -/

/-- **C03 (progress, one wrapper).** A successful `autoOne` on an existing field makes that
    field's prefix strictly longer (one more word and a dot in front of the old prefix). -/
theorem autoOne_progress (recs recs' : List FieldRec) (i : Nat) (r : FieldRec)
    (hi : recs[i]? = some r) (h : autoOne recs i = .ok recs') :
    ∃ r' w, recs'[i]? = some r' ∧ r'.pref = w ++ '.' :: r.pref ∧ r'.pref.length > r.pref.length ∧
      strip r' = strip r := by
  rcases autoOne_ok_spec recs recs' i h with ⟨hn, _⟩ | ⟨r0, w, hr0, _, _, _, he⟩
  · rw [hn] at hi; cases hi
  · rw [hi] at hr0
    simp only [Option.some.injEq] at hr0
    subst hr0
    subst he
    refine ⟨{ r with pref := w ++ '.' :: r.pref }, w, ?_, rfl, ?_, rfl⟩
    · rw [setPref_get, hi]; simp
    · simp only [List.length_append, List.length_cons]; omega

/-- total length of all prefixes: the measure that AUTO rounds increase -/
def prefSum (recs : List FieldRec) : Nat := (recs.map (fun r => r.pref.length)).sum

theorem prefSum_setPref (recs : List FieldRec) (i : Nat) (r : FieldRec) (p : Str)
    (hi : recs[i]? = some r) : prefSum (setPref recs i p) + r.pref.length = prefSum recs + p.length := by
  unfold setPref prefSum
  induction recs generalizing i with
  | nil => simp at hi
  | cons a as ih =>
    cases i with
    | zero =>
      simp only [List.getElem?_cons_zero, Option.some.injEq] at hi
      subst hi
      simp only [List.modify_zero_cons, List.map_cons, List.sum_cons]
      omega
    | succ n =>
      simp only [List.getElem?_cons_succ] at hi
      have := ih n hi
      simp only [List.modify_succ_cons, List.map_cons, List.sum_cons]
      omega

theorem autoOne_length (recs recs' : List FieldRec) (i : Nat) (h : autoOne recs i = .ok recs') :
    recs'.length = recs.length := by
  have := congrArg List.length (autoOne_strip recs recs' i h)
  simpa using this

theorem autoOne_measure (recs recs' : List FieldRec) (i : Nat) (h : autoOne recs i = .ok recs') :
    prefSum recs ≤ prefSum recs' ∧ (i < recs.length → prefSum recs < prefSum recs') := by
  rcases autoOne_ok_spec recs recs' i h with ⟨hn, he⟩ | ⟨r, w, hr, _, _, _, he⟩
  · subst he
    refine ⟨Nat.le_refl _, fun hlt => ?_⟩
    rw [List.getElem?_eq_getElem hlt] at hn; cases hn
  · subst he
    have := prefSum_setPref recs i r (w ++ '.' :: r.pref) hr
    simp only [List.length_append, List.length_cons] at this
    constructor
    · omega
    · intro _; omega

theorem autoAll_measure (recs recs' : List FieldRec) (is : List Nat) (h : autoAll recs is = .ok recs') :
    prefSum recs ≤ prefSum recs' ∧ ((∃ i ∈ is, i < recs.length) → prefSum recs < prefSum recs') := by
  induction is generalizing recs with
  | nil =>
    simp only [autoAll, Except.ok.injEq] at h
    subst h
    exact ⟨Nat.le_refl _, fun ⟨_, hm, _⟩ => by cases hm⟩
  | cons i is ih =>
    simp only [autoAll] at h
    cases h1 : autoOne recs i with
    | error e => rw [h1] at h; cases h
    | ok r1 =>
      rw [h1] at h
      obtain ⟨hle1, hlt1⟩ := autoOne_measure recs r1 i h1
      obtain ⟨hle2, hlt2⟩ := ih r1 h
      have hlen := autoOne_length recs r1 i h1
      refine ⟨Nat.le_trans hle1 hle2, ?_⟩
      rintro ⟨j, hj, hjlt⟩
      simp only [List.mem_cons] at hj
      rcases hj with rfl | hj
      · exact Nat.lt_of_lt_of_le (hlt1 hjlt) hle2
      · exact Nat.lt_of_le_of_lt hle1 (hlt2 ⟨j, hj, by rw [hlen]; exact hjlt⟩)

/-- **C03 (progress, one AUTO fix).** `_fix_conflict_auto` on owners that exist either raises or
    strictly increases the total prefix length: a round never returns the forest unchanged, so the
    loop cannot spin on the same conflict. -/
theorem fixAuto_progress (recs recs' : List FieldRec) (os : List Nat)
    (hvalid : ∀ i ∈ os, i < recs.length) (h : fixAuto recs os = .ok recs') :
    prefSum recs < prefSum recs' := by
  unfold fixAuto at h
  simp only at h
  split at h
  · cases h
  · rename_i hlen
    apply (autoAll_measure _ _ _ h).2
    have hmem : ∀ x ∈ sortByLevel recs os, x < recs.length :=
      fun x hx => hvalid x ((mem_sortByLevel recs os x).mp hx)
    generalize sortByLevel recs os = sorted at hlen hmem ⊢
    match sorted, hlen, hmem with
    | [], hlen, _ => simp at hlen
    | [_], hlen, _ => simp at hlen
    | a :: b :: rest, _, hmem =>
      simp only
      split
      · exact ⟨b, by simp, hmem b (by simp)⟩
      · exact ⟨a, by simp, hmem a (by simp)⟩

/-- **C03 (progress, one round of the loop under AUTO).** -/
theorem c03_auto_round_progress (cfg : Cfg) (recs recs' : List FieldRec) (s : Str) (os : List Nat)
    (hc : getConflict cfg recs = some (s, os)) (h : fixStep cfg .auto recs s os = .ok recs') :
    prefSum recs < prefSum recs' := by
  obtain ⟨hos, _⟩ := getConflict_some_owners cfg recs s os hc
  subst hos
  exact fixAuto_progress recs recs' _ (fun i hi => owners_lt cfg recs s i hi) (by simpa [fixStep] using h)

/-! ### generated prefixes are dotted suffixes of the parent destination -/

theorem splitOnChar_ne_nil (sep : Char) (s : Str) : splitOnChar sep s ≠ [] := by
  cases s with
  | nil => simp [splitOnChar]
  | cons c cs =>
    simp only [splitOnChar]
    split
    · simp
    · split <;> simp

theorem splitOnChar_append_sep (sep : Char) (s : Str) :
    splitOnChar sep (s ++ [sep]) = splitOnChar sep s ++ [[]] := by
  induction s with
  | nil => simp [splitOnChar]
  | cons c cs ih =>
    simp only [List.cons_append, splitOnChar]
    split
    · simp [ih]
    · rw [ih]
      cases hs : splitOnChar sep cs with
      | nil => exact absurd hs (splitOnChar_ne_nil sep cs)
      | cons p ps => simp

theorem splitOnChar_word_sep (sep : Char) (w rest : Str) (h : sep ∉ w) :
    splitOnChar sep (w ++ sep :: rest) = w :: splitOnChar sep rest := by
  induction w with
  | nil => simp [splitOnChar]
  | cons c cs ih =>
    simp only [List.mem_cons, not_or] at h
    have hc : c ≠ sep := fun e => h.1 e.symm
    simp only [List.cons_append, splitOnChar, hc, if_false, ih h.2]

theorem splitOnChar_parts_no_sep (sep : Char) (s : Str) : ∀ w ∈ splitOnChar sep s, sep ∉ w := by
  induction s with
  | nil => intro w hw; simp [splitOnChar] at hw; subst hw; simp
  | cons c cs ih =>
    intro w hw
    simp only [splitOnChar] at hw
    split at hw
    · simp only [List.mem_cons] at hw
      rcases hw with rfl | hw
      · simp
      · exact ih w hw
    · rename_i hc
      cases hs : splitOnChar sep cs with
      | nil => exact absurd hs (splitOnChar_ne_nil sep cs)
      | cons p ps =>
        rw [hs] at hw ih
        simp only [List.mem_cons] at hw
        rcases hw with rfl | hw
        · have := ih p (by simp)
          simp only [List.mem_cons, not_or]
          exact ⟨fun e => hc e.symm, this⟩
        · exact ih w (by simp [hw])

/-- the words of a dotted path are non-empty and dot-free -/
theorem words_spec (s : Str) : ∀ w ∈ words s, w ≠ [] ∧ '.' ∉ w := by
  intro w hw
  unfold words at hw
  simp only [List.mem_filter] at hw
  refine ⟨?_, splitOnChar_parts_no_sep '.' s w hw.1⟩
  intro e; subst e; simp at hw

/-- `explicit_prefix.split(".")` and `dest.split(".")` have the same non-empty words -/
theorem words_append_dot (s : Str) : words (s ++ ['.']) = words s := by
  unfold words
  rw [splitOnChar_append_sep]
  simp

/-- every word followed by a dot: `"".join(w + "." for w in ws)` -/
def sufPref (ws : List Str) : Str := ws.flatMap (fun w => w ++ ['.'])

theorem sufPref_cons (w : Str) (ws : List Str) : sufPref (w :: ws) = w ++ '.' :: sufPref ws := by
  simp [sufPref]

/-- for a non-empty word list this is `".".join(ws) + "."` -/
theorem sufPref_eq_join (ws : List Str) (h : ws ≠ []) : sufPref ws = joinWith '.' ws ++ ['.'] := by
  induction ws with
  | nil => exact absurd rfl h
  | cons w ws ih =>
    cases ws with
    | nil => simp [sufPref, joinWith]
    | cons v vs =>
      rw [sufPref_cons, ih (by simp)]
      simp [joinWith]

theorem words_sufPref (ws : List Str) (h : ∀ w ∈ ws, w ≠ [] ∧ '.' ∉ w) : words (sufPref ws) = ws := by
  induction ws with
  | nil => simp [sufPref, words, splitOnChar]
  | cons w ws ih =>
    have hw := h w (by simp)
    have ih' := ih (fun v hv => h v (by simp [hv]))
    rw [sufPref_cons]
    unfold words at ih' ⊢
    rw [splitOnChar_word_sep '.' w _ hw.2]
    simp only [List.filter_cons]
    have : (!w.isEmpty) = true := by
      cases w with
      | nil => exact absurd rfl hw.1
      | cons _ _ => rfl
    rw [this]
    simp only [if_true, ih']

/-- **the suffix invariant**: the prefix is empty (`k` = number of words) or consists of the last
    words of the parent destination path, each followed by a dot:
    `pref = ".".join(words(parent.dest)[k:]) + "."`. -/
def SufInv (r : FieldRec) : Prop :=
  ∃ k, k ≤ (words r.parentDest).length ∧ r.pref = sufPref ((words r.parentDest).drop k)

/-- the readable form of `SufInv` -/
theorem SufInv.nil_or_join {r : FieldRec} (h : SufInv r) :
    r.pref = [] ∨ ∃ k, k < (words r.parentDest).length ∧
      r.pref = joinWith '.' ((words r.parentDest).drop k) ++ ['.'] := by
  obtain ⟨k, hk, hp⟩ := h
  rcases Nat.lt_or_ge k (words r.parentDest).length with hlt | hge
  · right
    refine ⟨k, hlt, ?_⟩
    rw [hp, sufPref_eq_join]
    intro e
    have := congrArg List.length e
    simp only [List.length_drop, List.length_nil] at this
    omega
  · left
    rw [hp, List.drop_eq_nil_of_le hge]
    rfl

theorem SufInv.of_nil {r : FieldRec} (h : r.pref = []) : SufInv r :=
  ⟨(words r.parentDest).length, Nat.le_refl _, by rw [h, List.drop_eq_nil_of_le (Nat.le_refl _)]; rfl⟩

theorem autoOne_suf (recs recs' : List FieldRec) (i : Nat) (hinv : ∀ r ∈ recs, SufInv r)
    (h : autoOne recs i = .ok recs') : ∀ r ∈ recs', SufInv r := by
  rcases autoOne_ok_spec recs recs' i h with ⟨_, he⟩ | ⟨r, w, hr, _, hlt, hw, he⟩
  · subst he; exact hinv
  · subst he
    intro r' hr'
    rcases mem_setPref recs i _ r' hr' with hmem | ⟨r0, hr0, he⟩
    · exact hinv r' hmem
    · rw [hr] at hr0
      simp only [Option.some.injEq] at hr0
      subst hr0
      subst he
      obtain ⟨k, hk, hp⟩ := hinv r (List.mem_iff_getElem?.mpr ⟨i, hr⟩)
      rw [words_append_dot] at hlt hw
      have hused : words r.pref = (words r.parentDest).drop k := by
        rw [hp]
        exact words_sufPref _ (fun v hv => words_spec r.parentDest v (List.mem_of_mem_drop hv))
      rw [hused, List.length_drop] at hlt hw
      cases k with
      | zero => omega
      | succ m =>
        have hidx : (words r.parentDest).length - 1 - ((words r.parentDest).length - (m + 1)) = m := by
          omega
        rw [hidx] at hw
        have hm : m < (words r.parentDest).length := by omega
        have hw' : (words r.parentDest)[m] = w := by
          rw [List.getElem?_eq_getElem hm] at hw
          simpa using hw
        refine ⟨m, (by show m ≤ (words r.parentDest).length; omega), ?_⟩
        show w ++ '.' :: r.pref = sufPref ((words r.parentDest).drop m)
        rw [List.drop_eq_getElem_cons hm, sufPref_cons, hw', hp]

theorem autoAll_suf (recs recs' : List FieldRec) (is : List Nat) (hinv : ∀ r ∈ recs, SufInv r)
    (h : autoAll recs is = .ok recs') : ∀ r ∈ recs', SufInv r := by
  induction is generalizing recs with
  | nil => simp only [autoAll, Except.ok.injEq] at h; subst h; exact hinv
  | cons i is ih =>
    simp only [autoAll] at h
    cases h1 : autoOne recs i with
    | error e => rw [h1] at h; cases h
    | ok r1 => rw [h1] at h; exact ih r1 (autoOne_suf recs r1 i hinv h1) h

theorem fixAuto_suf (recs recs' : List FieldRec) (os : List Nat) (hinv : ∀ r ∈ recs, SufInv r)
    (h : fixAuto recs os = .ok recs') : ∀ r ∈ recs', SufInv r := by
  unfold fixAuto at h
  simp only at h
  split at h
  · cases h
  · exact autoAll_suf _ _ _ hinv h

/-- **C03 (dotted suffix, AUTO).** If every prefix is empty or a dotted suffix of its field's parent
    destination when resolution starts — in particular when there are no user prefixes — then so
    is every prefix when AUTO resolution returns, after any number of rounds: each generated flat
    name `pref ++ name` is a dotted suffix of the field's destination path `parentDest.name`. -/
theorem c03_suffix_auto (cfg : Cfg) (recs recs' : List FieldRec) (h0 : ∀ r ∈ recs, SufInv r)
    (h : resolve cfg .auto recs = .ok recs') : ∀ r ∈ recs', SufInv r :=
  resolveLoop_inv cfg .auto (fun l => ∀ r ∈ l, SufInv r)
    (fun a _ os b ha _ hf => fixAuto_suf a b os ha (by simpa [fixStep] using hf)) _ recs recs' h0 h

/-- the statement of the property text: without user prefixes, every AUTO prefix is empty or
    `".".join(last words of parent.dest) + "."` -/
theorem c03_suffix_auto_noprefix (cfg : Cfg) (recs recs' : List FieldRec)
    (h0 : ∀ r ∈ recs, r.pref = []) (h : resolve cfg .auto recs = .ok recs') (r : FieldRec)
    (hr : r ∈ recs') :
    r.pref = [] ∨ ∃ k, k < (words r.parentDest).length ∧
      r.pref = joinWith '.' ((words r.parentDest).drop k) ++ ['.'] :=
  (c03_suffix_auto cfg recs recs' (fun r hr => SufInv.of_nil (h0 r hr)) h r hr).nil_or_join

/-! ### the 50-round limit matters only for forests that need that many rounds -/

def wsum (ws : List Str) : Nat := (ws.map (fun w => w.length + 1)).sum

theorem wsum_cons (w : Str) (ws : List Str) : wsum (w :: ws) = w.length + 1 + wsum ws := by
  simp [wsum]

theorem length_sufPref (ws : List Str) : (sufPref ws).length = wsum ws := by
  induction ws with
  | nil => rfl
  | cons w ws ih =>
    rw [sufPref_cons, wsum_cons, List.length_append, List.length_cons, ih]
    omega

theorem wsum_splitOnChar (sep : Char) (s : Str) : wsum (splitOnChar sep s) = s.length + 1 := by
  induction s with
  | nil => rfl
  | cons c cs ih =>
    simp only [splitOnChar]
    split
    · rw [wsum_cons, ih]; simp only [List.length_nil, List.length_cons]; omega
    · cases hs : splitOnChar sep cs with
      | nil => exact absurd hs (splitOnChar_ne_nil sep cs)
      | cons p ps =>
        rw [hs, wsum_cons] at ih
        simp only [wsum_cons, List.length_cons]
        omega

theorem wsum_filter_le (p : Str → Bool) (l : List Str) : wsum (l.filter p) ≤ wsum l := by
  induction l with
  | nil => exact Nat.le_refl _
  | cons w ws ih =>
    simp only [List.filter_cons]
    split
    · rw [wsum_cons, wsum_cons]; omega
    · rw [wsum_cons]; omega

theorem wsum_drop_le (k : Nat) (l : List Str) : wsum (l.drop k) ≤ wsum l := by
  induction l generalizing k with
  | nil => simp
  | cons w ws ih =>
    cases k with
    | zero => exact Nat.le_refl _
    | succ n =>
      simp only [List.drop_succ_cons]
      rw [wsum_cons]
      have := ih n
      omega

/-- under the suffix invariant a prefix is never longer than the parent destination plus its dot -/
theorem SufInv.pref_le {r : FieldRec} (h : SufInv r) : r.pref.length ≤ r.parentDest.length + 1 := by
  obtain ⟨k, _, hp⟩ := h
  rw [hp, length_sufPref]
  have h1 := wsum_drop_le k (words r.parentDest)
  have h2 : wsum (words r.parentDest) ≤ wsum (splitOnChar '.' r.parentDest) := wsum_filter_le _ _
  rw [wsum_splitOnChar] at h2
  omega

/-- the ceiling of `prefSum`: total length of the explicit prefixes -/
def destSum (recs : List FieldRec) : Nat := (recs.map (fun r => r.parentDest.length + 1)).sum

theorem prefSum_le_destSum (recs : List FieldRec) (h : ∀ r ∈ recs, SufInv r) :
    prefSum recs ≤ destSum recs := by
  unfold prefSum destSum
  induction recs with
  | nil => exact Nat.le_refl _
  | cons a as ih =>
    have ha := (h a (by simp)).pref_le
    have := ih (fun r hr => h r (by simp [hr]))
    simp only [List.map_cons, List.sum_cons]
    omega

theorem destSum_of_strip (a b : List FieldRec) (h : b.map strip = a.map strip) :
    destSum b = destSum a := by
  have key : ∀ l : List FieldRec, destSum l = destSum (l.map strip) := by
    intro l
    simp [destSum, List.map_map, Function.comp_def, strip]
  rw [key b, key a, h]

/-- **C03 (the fuel is not what stops AUTO).** Without user prefixes (more generally under the
    suffix invariant) the rounds of AUTO resolution are bounded by `destSum - prefSum` — every
    successful round strictly lengthens prefixes (`c03_auto_round_progress`) and prefixes cannot
    outgrow the explicit ones (`SufInv.pref_le`) — so any two fuel values above that bound give the
    same answer: the loop ends by resolving or by a genuine `ConflictResolutionError`, not by the
    attempt counter. -/
theorem c03_auto_fuel_irrelevant (cfg : Cfg) (n : Nat) : ∀ (recs : List FieldRec) (m : Nat),
    (∀ r ∈ recs, SufInv r) → destSum recs - prefSum recs < n → destSum recs - prefSum recs < m →
    resolveLoop cfg .auto n recs = resolveLoop cfg .auto m recs := by
  induction n with
  | zero => intro recs m _ hn _; omega
  | succ n' ih =>
    intro recs m h0 hn hm
    cases m with
    | zero => omega
    | succ m' =>
      simp only [resolveLoop]
      cases hc : getConflict cfg recs with
      | none => rfl
      | some c =>
        obtain ⟨s, os⟩ := c
        simp only
        cases hf : fixStep cfg .auto recs s os with
        | error e => rfl
        | ok r2 =>
          simp only
          have hprog := c03_auto_round_progress cfg recs r2 s os hc hf
          have hsuf : ∀ r ∈ r2, SufInv r := fixAuto_suf recs r2 os h0 (by simpa [fixStep] using hf)
          have hle := prefSum_le_destSum r2 hsuf
          have hds := destSum_of_strip recs r2 (fixStep_strip cfg .auto recs r2 s os hf)
          have hn' : n' ≠ 0 := by omega
          have hm' : m' ≠ 0 := by omega
          simp only [hn', hm', if_false]
          exact ih r2 m' hsuf (by omega) (by omega)

/-- in particular the limit of 50 attempts only matters for forests whose explicit prefixes have
    more than 50 characters left to add (such forests exist: a class of 50 fields registered twice
    — the harness runs 49 / 50 / 51 fields against the real code) -/
theorem c03_auto_limit_only_when_needed (cfg : Cfg) (recs : List FieldRec)
    (h0 : ∀ r ∈ recs, r.pref = []) (hsmall : destSum recs < maxAttempts) (m : Nat)
    (hm : maxAttempts ≤ m) : resolve cfg .auto recs = resolveLoop cfg .auto m recs := by
  unfold resolve
  apply c03_auto_fuel_irrelevant cfg _ recs m (fun r hr => SufInv.of_nil (h0 r hr)) <;> omega

/-! ### EXPLICIT: a prefixed field carries the full path -/

def FullInv (r : FieldRec) : Prop := r.pref = [] ∨ r.pref = r.parentDest ++ ['.']

theorem explicitFold_full (os : List Nat) (recs : List FieldRec) (hinv : ∀ r ∈ recs, FullInv r) :
    ∀ r ∈ os.foldl (fun acc i => match acc[i]? with
      | some r => setPref acc i (r.parentDest ++ ['.'])
      | none => acc) recs, FullInv r := by
  induction os generalizing recs with
  | nil => exact hinv
  | cons i is ih =>
    simp only [List.foldl_cons]
    apply ih
    split
    · rename_i r0 hr0
      intro r hr
      rcases mem_setPref recs i _ r hr with hmem | ⟨r1, hr1, he⟩
      · exact hinv r hmem
      · rw [hr0] at hr1
        simp only [Option.some.injEq] at hr1
        subst hr1
        subst he
        exact .inr rfl
    · exact hinv

theorem fixExplicit_full (cfg : Cfg) (recs recs' : List FieldRec) (s : Str) (os : List Nat)
    (hinv : ∀ r ∈ recs, FullInv r) (h : fixExplicit cfg recs s os = .ok recs') :
    ∀ r ∈ recs', FullInv r := by
  unfold fixExplicit at h
  split at h
  · cases h
  · simp only at h
    split at h
    · split at h
      · cases h
      · simp only [Except.ok.injEq] at h; subst h; exact explicitFold_full os recs hinv
    · simp only [Except.ok.injEq] at h; subst h; exact explicitFold_full os recs hinv

/-- **C03 (full path, EXPLICIT).** Without user prefixes, every prefix after EXPLICIT resolution is
    empty or the field's whole parent destination followed by a dot: a renamed field is addressed
    by its full destination path. -/
theorem c03_full_explicit (cfg : Cfg) (recs recs' : List FieldRec) (h0 : ∀ r ∈ recs, r.pref = [])
    (h : resolve cfg .explicit recs = .ok recs') :
    ∀ r ∈ recs', r.pref = [] ∨ r.pref = r.parentDest ++ ['.'] :=
  resolveLoop_inv cfg .explicit (fun l => ∀ r ∈ l, FullInv r)
    (fun a s os b ha _ hf => fixExplicit_full cfg a b s os ha (by simpa [fixStep] using hf))
    _ recs recs' (fun r hr => .inl (h0 r hr)) h

/-! ### a field that clashes with nothing keeps its bare name -/

theorem mem_insertByLen (x y : Str) (l : List Str) : y ∈ insertByLen x l ↔ y = x ∨ y ∈ l := by
  induction l with
  | nil => simp [insertByLen]
  | cons z zs ih =>
    simp only [insertByLen]
    split
    · simp
    · simp only [List.mem_cons, ih]
      constructor <;> (intro h; rcases h with h | h | h <;> simp [h])

theorem mem_sortByLen (l : List Str) (y : Str) : y ∈ sortByLen l ↔ y ∈ l := by
  unfold sortByLen
  have : ∀ (acc : List Str), y ∈ l.foldl (fun acc x => insertByLen x acc) acc ↔ y ∈ acc ∨ y ∈ l := by
    induction l with
    | nil => intro acc; simp
    | cons x xs ih =>
      intro acc
      simp only [List.foldl_cons, ih, mem_insertByLen, List.mem_cons]
      constructor
      · rintro ((h | h) | h) <;> simp [h]
      · rintro (h | h | h) <;> simp [h]
  simpa using this []

theorem mem_of_mem_dedup (l : List Str) (x : Str) (h : x ∈ dedup l) : x ∈ l := by
  induction l with
  | nil => simp [dedup] at h
  | cons y ys ih =>
    simp only [dedup, List.mem_cons, List.mem_filter] at h
    rcases h with h | ⟨h, _⟩
    · exact List.mem_cons.mpr (.inl h)
    · exact List.mem_cons_of_mem _ (ih h)

theorem dot_mem_dashify (s : Str) (h : '.' ∈ s) : '.' ∈ dashify s := by
  unfold dashify
  simp only [List.mem_map]
  exact ⟨'.', h, by decide⟩

theorem aliasPair_dotted (pref a : Str) (hp : '.' ∈ pref) : '.' ∈ (aliasPair pref a).2 := by
  unfold aliasPair
  split <;> exact List.mem_append_left _ hp

theorem basePairs_dotted (cfg : Cfg) (hflat : cfg.gen = .flat) (fw : FW) (hp : '.' ∈ fw.pref) :
    ∀ p ∈ basePairs cfg fw, '.' ∈ p.2 := by
  have hc : ∀ c ∈ candidates cfg fw, '.' ∈ c := by
    intro c hc
    simp only [candidates, hflat, List.mem_singleton] at hc
    subst hc
    unfold flatCand
    have : '.' ∈ fw.pref ++ fw.name := List.mem_append_left _ hp
    simp only
    split
    · exact dot_mem_dashify _ this
    · exact this
  intro p hp'
  unfold basePairs at hp'
  simp only [List.mem_append, List.mem_map] at hp'
  rcases hp' with (⟨c, hcm, rfl⟩ | h2) | ⟨a, _, rfl⟩
  · exact hc c hcm
  · by_cases hl : fw.name.length = 1
    · simp only [hl, if_true, List.mem_map] at h2
      obtain ⟨c, hcm, rfl⟩ := h2
      exact hc c hcm
    · simp [hl] at h2
  · exact aliasPair_dotted _ _ hp

/-- under FLAT generation, every option string of a field whose prefix contains a dot contains a dot -/
theorem opts_dotted (cfg : Cfg) (hflat : cfg.gen = .flat) (r : FieldRec) (hp : '.' ∈ r.pref) :
    ∀ s ∈ r.opts cfg, '.' ∈ s := by
  intro s hs
  have hpos : r.toFW.positional = false := rfl
  simp only [FieldRec.opts, optionStrings, hpos, Bool.false_eq_true, if_false] at hs
  have hs' := mem_of_mem_dedup _ _ ((mem_sortByLen _ _).mp hs)
  simp only [optionList, hpos, Bool.false_eq_true, if_false, List.mem_map, List.mem_append] at hs'
  obtain ⟨p, hp', rfl⟩ := hs'
  apply List.mem_append_right
  rcases hp' with hb | he
  · exact basePairs_dotted cfg hflat r.toFW hp p hb
  · unfold extraPairs at he
    split at he
    · simp only [List.mem_map, List.mem_filter] at he
      obtain ⟨q, ⟨hq, _⟩, rfl⟩ := he
      exact dot_mem_dashify _ (basePairs_dotted cfg hflat r.toFW hp q hq)
    · cases he

/-- each field is as it was in `a`, or its prefix contains a dot -/
def StepDot (a b : List FieldRec) : Prop :=
  ∀ i : Nat, b[i]? = a[i]? ∨ ∃ r : FieldRec, b[i]? = some r ∧ '.' ∈ r.pref

theorem StepDot.refl (a : List FieldRec) : StepDot a a := fun _ => .inl rfl

theorem StepDot.trans {a b c : List FieldRec} (h1 : StepDot a b) (h2 : StepDot b c) : StepDot a c := by
  intro i
  rcases h2 i with h | h
  · rcases h1 i with h' | ⟨r, hr, hd⟩
    · exact .inl (h.trans h')
    · exact .inr ⟨r, h.trans hr, hd⟩
  · exact .inr h

theorem setPref_stepDot (recs : List FieldRec) (i : Nat) (p : Str) (hp : '.' ∈ p) :
    StepDot recs (setPref recs i p) := by
  intro j
  rw [setPref_get]
  by_cases h : i = j
  · subst h
    cases hr : recs[i]? with
    | none => left; simp
    | some r => right; exact ⟨{ r with pref := p }, by simp, hp⟩
  · left; simp [h]

theorem autoOne_stepDot (recs recs' : List FieldRec) (i : Nat) (h : autoOne recs i = .ok recs') :
    StepDot recs recs' := by
  rcases autoOne_ok_spec recs recs' i h with ⟨_, he⟩ | ⟨r, w, _, _, _, _, he⟩
  · subst he; exact StepDot.refl _
  · subst he; exact setPref_stepDot _ _ _ (by simp)

theorem autoAll_stepDot (recs recs' : List FieldRec) (is : List Nat) (h : autoAll recs is = .ok recs') :
    StepDot recs recs' := by
  induction is generalizing recs with
  | nil => simp only [autoAll, Except.ok.injEq] at h; subst h; exact StepDot.refl _
  | cons i is ih =>
    simp only [autoAll] at h
    cases h1 : autoOne recs i with
    | error e => rw [h1] at h; cases h
    | ok r1 => rw [h1] at h; exact (autoOne_stepDot recs r1 i h1).trans (ih r1 h)

theorem fixAuto_stepDot (recs recs' : List FieldRec) (os : List Nat) (h : fixAuto recs os = .ok recs') :
    StepDot recs recs' := by
  unfold fixAuto at h
  simp only at h
  split at h
  · cases h
  · exact autoAll_stepDot _ _ _ h

theorem explicitFold_stepDot (os : List Nat) (recs : List FieldRec) :
    StepDot recs (os.foldl (fun acc i => match acc[i]? with
      | some r => setPref acc i (r.parentDest ++ ['.'])
      | none => acc) recs) := by
  induction os generalizing recs with
  | nil => exact StepDot.refl _
  | cons i is ih =>
    simp only [List.foldl_cons]
    refine StepDot.trans ?_ (ih _)
    split
    · exact setPref_stepDot _ _ _ (by simp)
    · exact StepDot.refl _

theorem fixExplicit_stepDot (cfg : Cfg) (recs recs' : List FieldRec) (s : Str) (os : List Nat)
    (h : fixExplicit cfg recs s os = .ok recs') : StepDot recs recs' := by
  unfold fixExplicit at h
  split at h
  · cases h
  · simp only at h
    split at h
    · split at h
      · cases h
      · simp only [Except.ok.injEq] at h; subst h; exact explicitFold_stepDot os recs
    · simp only [Except.ok.injEq] at h; subst h; exact explicitFold_stepDot os recs

theorem fixStep_stepDot (cfg : Cfg) (mode : CR) (recs recs' : List FieldRec) (s : Str) (os : List Nat)
    (h : fixStep cfg mode recs s os = .ok recs') : StepDot recs recs' := by
  cases mode <;> simp only [fixStep] at h
  · cases h
  · exact fixExplicit_stepDot cfg recs recs' s os h
  · cases h
  · exact fixAuto_stepDot recs recs' os h

/-- **C03 (every rewritten prefix is dotted).** After resolution each field is exactly as it was
    registered, or its prefix contains a `.` (any mode, any number of rounds). -/
theorem c03_stepDot (cfg : Cfg) (mode : CR) (recs recs' : List FieldRec)
    (h : resolve cfg mode recs = .ok recs') : StepDot recs recs' :=
  resolveLoop_inv cfg mode (StepDot recs)
    (fun a s os b ha _ hf => ha.trans (fixStep_stepDot cfg mode a b s os hf)) _ recs recs'
    (StepDot.refl _) h

/-- without user prefixes every final prefix is empty or contains a dot -/
theorem c03_pref_nil_or_dotted (cfg : Cfg) (mode : CR) (recs recs' : List FieldRec)
    (h0 : ∀ r ∈ recs, r.pref = []) (h : resolve cfg mode recs = .ok recs') :
    ∀ r ∈ recs', r.pref = [] ∨ '.' ∈ r.pref := by
  intro r hr
  obtain ⟨i, hi⟩ := List.mem_iff_getElem?.mp hr
  rcases c03_stepDot cfg mode recs recs' h i with he | ⟨r', hr', hd⟩
  · left
    rw [hi] at he
    exact h0 r (List.mem_iff_getElem?.mpr ⟨i, he.symm⟩)
  · right
    rw [hi] at hr'
    simp only [Option.some.injEq] at hr'
    subst hr'
    exact hd

theorem exists_ne_of_nodup (l : List Nat) (j : Nat) (hn : l.Nodup) (hl : 1 < l.length) :
    ∃ i ∈ l, i ≠ j := by
  match l, hn, hl with
  | [], _, hl => simp at hl
  | [_], _, hl => simp at hl
  | a :: b :: rest, hn, _ =>
    have hab : a ≠ b := by
      intro e
      subst e
      simp at hn
    by_cases ha : a = j
    · exact ⟨b, by simp, fun hb => hab (ha.trans hb.symm)⟩
    · exact ⟨a, by simp, ha⟩

/-- one round leaves a dot-free, initially unshared field out of the conflict -/
theorem bare_not_owner (cfg : Cfg) (hflat : cfg.gen = .flat) (recs state : List FieldRec)
    (j : Nat) (rj : FieldRec) (hdot : ∀ s ∈ rj.opts cfg, '.' ∉ s)
    (hun : ∀ s ∈ rj.opts cfg, owners cfg recs s = [j])
    (hsj : state[j]? = some rj) (hsd : StepDot recs state) (s : Str) (os : List Nat)
    (hc : getConflict cfg state = some (s, os)) : j ∉ os := by
  obtain ⟨hos, hlen⟩ := getConflict_some_owners cfg state s os hc
  subst hos
  intro hj
  obtain ⟨r, hr, hsr⟩ := mem_owners cfg state j s hj
  rw [hsj] at hr
  simp only [Option.some.injEq] at hr
  subst hr
  obtain ⟨i, hi, hne⟩ := exists_ne_of_nodup _ j (owners_nodup cfg state s) hlen
  obtain ⟨ri, hri, hsi⟩ := mem_owners cfg state i s hi
  rcases hsd i with he | ⟨r', hr', hd⟩
  · rw [hri] at he
    have := owner_of_mem_opts cfg recs i ri s he.symm hsi
    rw [hun s hsr] at this
    simp only [List.mem_singleton] at this
    exact hne this
  · rw [hri] at hr'
    simp only [Option.some.injEq] at hr'
    subst hr'
    exact hdot s hsr (opts_dotted cfg hflat ri hd s hsi)

/-- **C03 (bare name).** Under FLAT generation (the default), in any mode and for any forest: a
    field whose option strings are dot-free and which — before resolution — is the only owner of
    each of them is never part of a conflict in any round, so it comes out of resolution exactly as
    it went in: same prefix, hence the same (bare) option strings. -/
theorem c03_bare (cfg : Cfg) (hflat : cfg.gen = .flat) (mode : CR) (recs recs' : List FieldRec)
    (h : resolve cfg mode recs = .ok recs') (j : Nat) (rj : FieldRec) (hj : recs[j]? = some rj)
    (hdot : ∀ s ∈ rj.opts cfg, '.' ∉ s) (hun : ∀ s ∈ rj.opts cfg, owners cfg recs s = [j]) :
    recs'[j]? = some rj := by
  have key := resolveLoop_inv cfg mode (fun l => l[j]? = some rj ∧ StepDot recs l)
    (fun a s os b ha hc hf => by
      obtain ⟨haj, had⟩ := ha
      have hno := bare_not_owner cfg hflat recs a j rj hdot hun haj had s os hc
      exact ⟨(c03_round_untouched cfg mode a b s os j hno hf).trans haj,
        had.trans (fixStep_stepDot cfg mode a b s os hf)⟩)
    _ recs recs' ⟨hj, StepDot.refl _⟩ h
  exact key.1

/-! ### bool leaves: their negative flags are invisible to the resolver (open finding C03-neg-clash)

  `Model/Conflicts.setup` knows the option strings `FieldWrapper.option_strings` returns. A `bool`
  leaf registers more: `BooleanOptionalAction.__init__` (custom_actions.py:97-126) appends one
  `--no<x>` string per positive string when `add_argument` runs, *after* resolution, so
  `get_conflict` never sees them. The definitions below extend `setup` locally (they are not part
  of the driver; the harness observes the same behaviour on the real parser). -/

/-- negative option strings derived from the final positive ones (default `negative_prefix="--no"`,
    no `negative_option`) -/
def negOpts (cfg : Cfg) (r : FieldRec) : List Str :=
  (negStrings (r.opts cfg) "--no".toList none r.pref).getD []

/-- every string the `add_argument` call of one field registers -/
def addedOpts (cfg : Cfg) (r : FieldRec) (isBool : Bool) : List Str :=
  r.opts cfg ++ (if isBool then negOpts cfg r else [])

/-- the `add_argument` calls in field order (argparse `_check_conflict` with the default
    `conflict_handler="error"`): `false` = some string of a new action is already registered -/
def addAll (cfg : Cfg) : List Str → List (FieldRec × Bool) → Bool
  | _, [] => true
  | taken, (r, b) :: rest =>
    if (addedOpts cfg r b).any (fun s => taken.contains s) then false
    else addAll cfg (taken ++ addedOpts cfg r b) rest

/-- `_preprocessing` for a forest whose i-th leaf is a `bool` iff `bools[i]` -/
def setupNeg (cfg : Cfg) (mode : CR) (reserved : List Str) (recs : List FieldRec)
    (bools : List Bool) : SetupOut :=
  match resolve cfg mode recs with
  | .err .conflictResolutionError => .conflictResolutionError
  | .err .assertionError => .assertionError
  | .ok recs' => if addAll cfg reserved (recs'.zip bools) then .ok recs' else .argumentError

/-- full statement: set-up of a forest with bool leaves succeeds or raises ConflictResolutionError -/
def NegTotal : Prop :=
  ∀ (cfg : Cfg) (mode : CR) (recs : List FieldRec) (bools : List Bool), mode ≠ .always_merge →
    (∃ recs', setupNeg cfg mode [] recs bools = .ok recs') ∨
      setupNeg cfg mode [] recs bools = .conflictResolutionError

/-- … false today (open finding C03-neg-clash): `class A: x: bool; nox: int` at dest `a` — the
    negative flag `--nox` of `x` is the option string of `nox`; the resolver sees no conflict and
    `add_argument` raises `argparse.ArgumentError` (even without the built-in help option). -/
theorem c03_neg_clash_witness : ¬ NegTotal := by
  intro h
  have := h ⟨.underscore, .flat, .default⟩ .auto
    [{ name := "x".toList, parentDest := "a".toList, level := 1, aliases := [], pref := [] },
     { name := "nox".toList, parentDest := "a".toList, level := 1, aliases := [], pref := [] }]
    [true, false] (by decide)
  have hs : setupNeg ⟨.underscore, .flat, .default⟩ .auto []
      [{ name := "x".toList, parentDest := "a".toList, level := 1, aliases := [], pref := [] },
       { name := "nox".toList, parentDest := "a".toList, level := 1, aliases := [], pref := [] }]
      [true, false] = .argumentError := by decide
  rw [hs] at this
  rcases this with ⟨r, hr⟩ | hr <;> cases hr

/-- the named exclusion: no string registered by a field's `add_argument` is already on the parser -/
def NoAddClash (cfg : Cfg) (mode : CR) (reserved : List Str) (recs : List FieldRec)
    (bools : List Bool) : Prop :=
  ∀ recs', resolve cfg mode recs = .ok recs' → addAll cfg reserved (recs'.zip bools) = true

theorem c03_neg_total_partial (cfg : Cfg) (mode : CR) (hm : mode ≠ .always_merge)
    (reserved : List Str) (recs : List FieldRec) (bools : List Bool)
    (hfree : NoAddClash cfg mode reserved recs bools) :
    (∃ recs', setupNeg cfg mode reserved recs bools = .ok recs') ∨
      setupNeg cfg mode reserved recs bools = .conflictResolutionError := by
  unfold setupNeg
  cases hr : resolve cfg mode recs with
  | ok recs' =>
    left
    refine ⟨recs', ?_⟩
    simp only
    rw [hfree recs' hr]
    simp
  | err e =>
    cases e with
    | conflictResolutionError => right; rfl
    | assertionError => exact absurd hr (c03_total cfg mode hm recs)

/-- the exclusion is satisfiable by a forest with a bool leaf registered twice (its negative flags
    `--a.nox` / `--b.nox` follow the resolved prefixes) -/
example : setupNeg ⟨.underscore, .flat, .default⟩ .auto ["-h".toList, "--help".toList]
    [{ name := "x".toList, parentDest := "a".toList, level := 1, aliases := [], pref := [] },
     { name := "x".toList, parentDest := "b".toList, level := 1, aliases := [], pref := [] }]
    [true, true] =
    .ok [{ name := "x".toList, parentDest := "a".toList, level := 1, aliases := [], pref := "a.".toList },
         { name := "x".toList, parentDest := "b".toList, level := 1, aliases := [], pref := "b.".toList }] := by
  decide

example : negOpts ⟨.underscore, .flat, .default⟩
    { name := "x".toList, parentDest := "a".toList, level := 1, aliases := [], pref := "a.".toList } =
    ["--a.nox".toList, "--a.nox".toList] := by decide

/-! ### non-vacuity of the theorems above -/

def cfgD : Cfg := ⟨.underscore, .flat, .default⟩

/-- `Top{y: Mid{y: Leaf{v}}}` registered at `x` and at `z`: leaves `x.y.y.v`, `z.y.y.v` -/
def deep2 : List FieldRec :=
  [{ name := "v".toList, parentDest := "x.y.y".toList, level := 3, aliases := [], pref := [] },
   { name := "v".toList, parentDest := "z.y.y".toList, level := 3, aliases := [], pref := [] }]

/-- AUTO needs three rounds here (one word per round): two are not enough … -/
example : resolveLoop cfgD .auto 3 deep2 = .err .conflictResolutionError := by decide
/-- … and resolution does succeed, with the full paths as prefixes (so `c03_unique` etc. are not
    vacuous: a model whose `fixAuto` always failed would not pass this). -/
example : resolve cfgD .auto deep2 =
    .ok [{ name := "v".toList, parentDest := "x.y.y".toList, level := 3, aliases := [], pref := "x.y.y.".toList },
         { name := "v".toList, parentDest := "z.y.y".toList, level := 3, aliases := [], pref := "z.y.y.".toList }] := by
  decide
/-- EXPLICIT resolves the same forest in a single round -/
example : resolveLoop cfgD .explicit 2 deep2 =
    .ok [{ name := "v".toList, parentDest := "x.y.y".toList, level := 3, aliases := [], pref := "x.y.y.".toList },
         { name := "v".toList, parentDest := "z.y.y".toList, level := 3, aliases := [], pref := "z.y.y.".toList }] := by
  decide
/-- a clash between a field and a deeper one: the least nested keeps its bare name, one round -/
example : resolveLoop cfgD .auto 2
    [{ name := "xx".toList, parentDest := "a".toList, level := 1, aliases := [], pref := [] },
     { name := "xx".toList, parentDest := "a.b".toList, level := 2, aliases := [], pref := [] },
     { name := "xx".toList, parentDest := "a.c.d".toList, level := 3, aliases := [], pref := [] }] =
    .ok [{ name := "xx".toList, parentDest := "a".toList, level := 1, aliases := [], pref := [] },
         { name := "xx".toList, parentDest := "a.b".toList, level := 2, aliases := [], pref := "b.".toList },
         { name := "xx".toList, parentDest := "a.c.d".toList, level := 3, aliases := [], pref := "d.".toList }] := by
  decide

/-- hypotheses of `fixAuto_progress` / `autoOne_progress` on a real conflict -/
example : prefSum deep2 < prefSum
    [{ name := "v".toList, parentDest := "x.y.y".toList, level := 3, aliases := [], pref := "y.".toList },
     { name := "v".toList, parentDest := "z.y.y".toList, level := 3, aliases := [], pref := "y.".toList }] :=
  fixAuto_progress deep2 _ [0, 1] (by decide) (by rfl)

/-- hypotheses of `c03_auto_limit_only_when_needed` -/
example : destSum deep2 < maxAttempts := by decide

/-- hypotheses of `c03_suffix_auto_noprefix` / `c03_full_explicit` / `c03_pref_nil_or_dotted` -/
example : ∀ r ∈ deep2, r.pref = [] := by decide
example : SufInv ⟨"v".toList, "x.y.y".toList, 3, [], "y.y.".toList⟩ := ⟨1, by decide, by decide⟩

/-- `x` at `a`, `x` and `yy` at `b`: `yy` clashes with nothing -/
def bare3 : List FieldRec :=
  [{ name := "x".toList, parentDest := "a".toList, level := 1, aliases := [], pref := [] },
   { name := "x".toList, parentDest := "b".toList, level := 1, aliases := [], pref := [] },
   { name := "yy".toList, parentDest := "b".toList, level := 1, aliases := ["-q".toList], pref := [] }]

/-- hypotheses of `c03_bare` on a forest that does need resolution -/
example : ∃ recs', resolve cfgD .auto bare3 = .ok recs' ∧ recs' ≠ bare3 ∧ recs'[2]? = bare3[2]? := by
  have h : resolve cfgD .auto bare3 =
      .ok [{ name := "x".toList, parentDest := "a".toList, level := 1, aliases := [], pref := "a.".toList },
           { name := "x".toList, parentDest := "b".toList, level := 1, aliases := [], pref := "b.".toList },
           { name := "yy".toList, parentDest := "b".toList, level := 1, aliases := ["-q".toList], pref := [] }] := by
    decide
  exact ⟨_, h, by decide, c03_bare cfgD rfl .auto bare3 _ h 2 _ rfl (by decide) (by decide)⟩

/-- hypotheses of `c03_exactly_one` / `c03_owner_eq` -/
example : owners cfgD
    [{ name := "x".toList, parentDest := "a".toList, level := 1, aliases := [], pref := "a.".toList },
     { name := "x".toList, parentDest := "b".toList, level := 1, aliases := [], pref := "b.".toList }]
    "--b.x".toList = [1] := by decide

/-! a forest with a real clash that AUTO resolves, and one that NONE rejects -/
example : resolve ⟨.underscore, .flat, .default⟩ .auto
    [{ name := "x".toList, parentDest := "a".toList, level := 1, aliases := [], pref := [] },
     { name := "x".toList, parentDest := "b".toList, level := 1, aliases := [], pref := [] }] =
    .ok [{ name := "x".toList, parentDest := "a".toList, level := 1, aliases := [], pref := "a.".toList },
         { name := "x".toList, parentDest := "b".toList, level := 1, aliases := [], pref := "b.".toList }] := by
  decide

example : resolve ⟨.underscore, .flat, .default⟩ .none
    [{ name := "x".toList, parentDest := "a".toList, level := 1, aliases := [], pref := [] },
     { name := "x".toList, parentDest := "b".toList, level := 1, aliases := [], pref := [] }] =
    .err .conflictResolutionError := by decide

end SpVerif.C03
