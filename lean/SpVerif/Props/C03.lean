/-
  C03 — Every generated option addresses exactly one field of one destination.
  Theorems about `SpVerif.Model.Conflicts` (mirrors ConflictResolver, conflicts.py:65-315).
-/
import SpVerif.Model.Conflicts
namespace SpVerif.C03
open SpVerif

/-! ### `get_conflict` = none  ⇔  no option string has two owners -/

theorem getConflict_none_iff (cfg : Cfg) (recs : List FieldRec) :
    getConflict cfg recs = none ↔ ∀ s ∈ allOpts cfg recs, (owners cfg recs s).length ≤ 1 := by
  unfold getConflict
  constructor
  · intro h s hs
    cases hf : (allOpts cfg recs).find? (fun s => decide ((owners cfg recs s).length > 1)) with
    | some s' => rw [hf] at h; cases h
    | none =>
      have := List.find?_eq_none.mp hf s hs
      simpa using this
  · intro h
    have : (allOpts cfg recs).find? (fun s => decide ((owners cfg recs s).length > 1)) = none := by
      apply List.find?_eq_none.mpr
      intro s hs
      have := h s hs
      simp; omega
    rw [this]

theorem getConflict_some_owners (cfg : Cfg) (recs : List FieldRec) (s : Str) (os : List Nat)
    (h : getConflict cfg recs = some (s, os)) : os = owners cfg recs s ∧ os.length > 1 := by
  unfold getConflict at h
  cases hf : (allOpts cfg recs).find? (fun s => decide ((owners cfg recs s).length > 1)) with
  | none => rw [hf] at h; cases h
  | some s' =>
    rw [hf] at h
    simp only [Option.some.injEq, Prod.mk.injEq] at h
    obtain ⟨rfl, rfl⟩ := h
    have := List.find?_some hf
    exact ⟨rfl, by simpa using this⟩

/-- an option string that some field owns appears in `allOpts` -/
theorem mem_allOpts_of_owner (cfg : Cfg) (recs : List FieldRec) (s : Str) (i : Nat)
    (hi : i ∈ owners cfg recs s) : s ∈ allOpts cfg recs := by
  unfold owners at hi
  simp only [List.mem_filter, List.mem_range] at hi
  obtain ⟨hlt, hc⟩ := hi
  have hget : recs[i]? = some recs[i] := List.getElem?_eq_getElem hlt
  rw [hget] at hc
  unfold allOpts
  simp only [List.mem_flatMap]
  exact ⟨recs[i], List.getElem_mem hlt, by simpa using hc⟩

/-- **No conflict ⇒ every option string has at most one owner** (also strings nobody offers). -/
theorem unique_of_no_conflict (cfg : Cfg) (recs : List FieldRec) (h : getConflict cfg recs = none)
    (s : Str) : (owners cfg recs s).length ≤ 1 := by
  by_cases hs : s ∈ allOpts cfg recs
  · exact (getConflict_none_iff cfg recs).mp h s hs
  · cases ho : owners cfg recs s with
    | nil => simp
    | cons i rest =>
      exact absurd (mem_allOpts_of_owner cfg recs s i (by rw [ho]; simp)) hs

/-! ### the resolution loop -/

theorem resolveLoop_ok_no_conflict (cfg : Cfg) (mode : CR) (fuel : Nat) (recs recs' : List FieldRec)
    (h : resolveLoop cfg mode fuel recs = .ok recs') : getConflict cfg recs' = none := by
  induction fuel generalizing recs with
  | zero => simp [resolveLoop] at h
  | succ n ih =>
    simp only [resolveLoop] at h
    cases hc : getConflict cfg recs with
    | none => rw [hc] at h; simp only [CROut.ok.injEq] at h; subst h; exact hc
    | some c =>
      obtain ⟨s, os⟩ := c
      rw [hc] at h
      simp only at h
      cases hf : fixStep cfg mode recs s os with
      | error e => rw [hf] at h; cases h
      | ok r2 =>
        rw [hf] at h
        simp only at h
        split at h
        · cases h
        · exact ih r2 h

/-- **C03 (unique owner).** Whenever setup's conflict resolution returns — in any mode, for any
    forest, with or without user prefixes, after any number of rounds — every option string belongs
    to at most one field wrapper, i.e. to exactly one field of exactly one destination. -/
theorem c03_unique (cfg : Cfg) (mode : CR) (recs recs' : List FieldRec)
    (h : resolve cfg mode recs = .ok recs') (s : Str) : (owners cfg recs' s).length ≤ 1 :=
  unique_of_no_conflict cfg recs' (resolveLoop_ok_no_conflict cfg mode _ recs recs' h) s

/-- two different fields never share an option string after a successful resolution -/
theorem c03_disjoint (cfg : Cfg) (mode : CR) (recs recs' : List FieldRec)
    (h : resolve cfg mode recs = .ok recs') (i j : Nat) (ri rj : FieldRec)
    (hi : recs'[i]? = some ri) (hj : recs'[j]? = some rj) (hij : i ≠ j) (s : Str)
    (hsi : s ∈ ri.opts cfg) (hsj : s ∈ rj.opts cfg) : False := by
  have hu := c03_unique cfg mode recs recs' h s
  have hlt_i : i < recs'.length := by
    rcases Nat.lt_or_ge i recs'.length with h | h
    · exact h
    · rw [List.getElem?_eq_none h] at hi; cases hi
  have hlt_j : j < recs'.length := by
    rcases Nat.lt_or_ge j recs'.length with h | h
    · exact h
    · rw [List.getElem?_eq_none h] at hj; cases hj
  have hmi : i ∈ owners cfg recs' s := by
    unfold owners; simp only [List.mem_filter, List.mem_range]; exact ⟨hlt_i, by rw [hi]; simpa using hsi⟩
  have hmj : j ∈ owners cfg recs' s := by
    unfold owners; simp only [List.mem_filter, List.mem_range]; exact ⟨hlt_j, by rw [hj]; simpa using hsj⟩
  match ho : owners cfg recs' s, hu, hmi, hmj with
  | [], _, hmi, _ => simp at hmi
  | [a], _, hmi, hmj =>
    simp only [List.mem_singleton] at hmi hmj
    exact hij (hmi.trans hmj.symm)
  | _ :: _ :: _, hu, _, _ => simp at hu

/-- **NONE mode raises exactly when a clash exists** (and otherwise changes nothing). -/
theorem c03_none_iff (cfg : Cfg) (recs : List FieldRec) :
    (resolve cfg .none recs = .err .conflictResolutionError ↔ getConflict cfg recs ≠ none) ∧
    (resolve cfg .none recs = .ok recs ↔ getConflict cfg recs = none) := by
  have key : ∀ n, (resolveLoop cfg .none (n + 1) recs = .err .conflictResolutionError ↔ getConflict cfg recs ≠ none) ∧
      (resolveLoop cfg .none (n + 1) recs = .ok recs ↔ getConflict cfg recs = none) := by
    intro n
    rw [resolveLoop]
    cases hc : getConflict cfg recs with
    | none => simp
    | some c => obtain ⟨s, os⟩ := c; simp [fixStep]
  exact key 49

/-! ### resolution only rewrites prefixes -/

/-- everything about a field except its prefix -/
def strip (r : FieldRec) : FieldRec := { r with pref := [] }

theorem setPref_strip (recs : List FieldRec) (i : Nat) (p : Str) :
    (setPref recs i p).map strip = recs.map strip := by
  unfold setPref
  induction recs generalizing i with
  | nil => simp
  | cons r rs ih =>
    cases i with
    | zero => simp [List.modify, strip]
    | succ n => simp only [List.modify_succ_cons, List.map_cons, ih]

theorem autoOne_strip (recs recs' : List FieldRec) (i : Nat) (h : autoOne recs i = .ok recs') :
    recs'.map strip = recs.map strip := by
  unfold autoOne at h
  split at h
  · simp only [Except.ok.injEq] at h; subst h; rfl
  · simp only at h
    split at h
    · cases h
    · split at h
      · split at h
        · simp only [Except.ok.injEq] at h; subst h; exact setPref_strip _ _ _
        · cases h
      · cases h

theorem autoAll_strip (recs recs' : List FieldRec) (is : List Nat) (h : autoAll recs is = .ok recs') :
    recs'.map strip = recs.map strip := by
  induction is generalizing recs with
  | nil => simp only [autoAll, Except.ok.injEq] at h; subst h; rfl
  | cons i is ih =>
    simp only [autoAll] at h
    cases h1 : autoOne recs i with
    | error e => rw [h1] at h; cases h
    | ok r1 => rw [h1] at h; rw [ih r1 h, autoOne_strip recs r1 i h1]

theorem fixAuto_strip (recs recs' : List FieldRec) (os : List Nat) (h : fixAuto recs os = .ok recs') :
    recs'.map strip = recs.map strip := by
  unfold fixAuto at h
  simp only at h
  split at h
  · cases h
  · exact autoAll_strip _ _ _ h

theorem explicitFold_strip (os : List Nat) (recs : List FieldRec) :
    (os.foldl (fun acc i => match acc[i]? with
      | some r => setPref acc i (r.parentDest ++ ['.'])
      | none => acc) recs).map strip = recs.map strip := by
  induction os generalizing recs with
  | nil => rfl
  | cons i is ih =>
    simp only [List.foldl_cons]
    rw [ih]
    split
    · exact setPref_strip _ _ _
    · rfl

theorem fixExplicit_strip (cfg : Cfg) (recs recs' : List FieldRec) (s : Str) (os : List Nat)
    (h : fixExplicit cfg recs s os = .ok recs') : recs'.map strip = recs.map strip := by
  unfold fixExplicit at h
  split at h
  · cases h
  · simp only at h
    split at h
    · split at h
      · cases h
      · simp only [Except.ok.injEq] at h; subst h; exact explicitFold_strip os recs
    · simp only [Except.ok.injEq] at h; subst h; exact explicitFold_strip os recs

theorem fixStep_strip (cfg : Cfg) (mode : CR) (recs recs' : List FieldRec) (s : Str) (os : List Nat)
    (h : fixStep cfg mode recs s os = .ok recs') : recs'.map strip = recs.map strip := by
  cases mode <;> simp only [fixStep] at h
  · cases h
  · exact fixExplicit_strip cfg recs recs' s os h
  · cases h
  · exact fixAuto_strip recs recs' os h

/-- **C03 (frame).** Resolution never adds, drops, reorders or retargets a field: names,
    destinations (`parentDest`), nesting levels and aliases of the flat field list are unchanged —
    only prefixes move. Hence an option string of the i-th field still stores into the i-th
    field's own destination. -/
theorem c03_frame (cfg : Cfg) (mode : CR) (recs recs' : List FieldRec)
    (h : resolve cfg mode recs = .ok recs') : recs'.map strip = recs.map strip := by
  unfold resolve at h
  generalize maxAttempts = fuel at h
  induction fuel generalizing recs with
  | zero => simp [resolveLoop] at h
  | succ n ih =>
    simp only [resolveLoop] at h
    cases hc : getConflict cfg recs with
    | none => rw [hc] at h; simp only [CROut.ok.injEq] at h; subst h; rfl
    | some c =>
      obtain ⟨s, os⟩ := c
      rw [hc] at h
      simp only at h
      cases hf : fixStep cfg mode recs s os with
      | error e => rw [hf] at h; cases h
      | ok r2 =>
        rw [hf] at h
        simp only at h
        split at h
        · cases h
        · rw [ih r2 h, fixStep_strip cfg mode recs r2 s os hf]

theorem c03_frame_length (cfg : Cfg) (mode : CR) (recs recs' : List FieldRec)
    (h : resolve cfg mode recs = .ok recs') : recs'.length = recs.length := by
  have := congrArg List.length (c03_frame cfg mode recs recs' h)
  simpa using this

/-! ### a round touches only the owners of the conflicting option -/

theorem setPref_getElem_ne (recs : List FieldRec) (i j : Nat) (p : Str) (h : i ≠ j) :
    (setPref recs i p)[j]? = recs[j]? := by
  unfold setPref
  rw [List.getElem?_modify]
  simp [h]

theorem autoOne_untouched (recs recs' : List FieldRec) (i j : Nat) (hij : i ≠ j)
    (h : autoOne recs i = .ok recs') : recs'[j]? = recs[j]? := by
  unfold autoOne at h
  split at h
  · simp only [Except.ok.injEq] at h; subst h; rfl
  · simp only at h
    split at h
    · cases h
    · split at h
      · split at h
        · simp only [Except.ok.injEq] at h; subst h; exact setPref_getElem_ne _ _ _ _ hij
        · cases h
      · cases h

theorem autoAll_untouched (recs recs' : List FieldRec) (is : List Nat) (j : Nat) (hj : j ∉ is)
    (h : autoAll recs is = .ok recs') : recs'[j]? = recs[j]? := by
  induction is generalizing recs with
  | nil => simp only [autoAll, Except.ok.injEq] at h; subst h; rfl
  | cons i is ih =>
    simp only [List.mem_cons, not_or] at hj
    simp only [autoAll] at h
    cases h1 : autoOne recs i with
    | error e => rw [h1] at h; cases h
    | ok r1 =>
      rw [h1] at h
      rw [ih r1 hj.2 h, autoOne_untouched recs r1 i j (fun hh => hj.1 hh.symm) h1]

theorem mem_insertByLevel (recs : List FieldRec) (i x : Nat) (l : List Nat) :
    x ∈ insertByLevel recs i l ↔ x = i ∨ x ∈ l := by
  induction l with
  | nil => simp [insertByLevel]
  | cons j js ih =>
    simp only [insertByLevel]
    split
    · simp
    · simp only [List.mem_cons, ih]; constructor <;> (intro h; rcases h with h | h | h <;> simp [h])

theorem mem_sortByLevel (recs : List FieldRec) (l : List Nat) (x : Nat) :
    x ∈ sortByLevel recs l ↔ x ∈ l := by
  unfold sortByLevel
  have : ∀ (acc : List Nat), x ∈ l.foldl (fun acc i => insertByLevel recs i acc) acc ↔ x ∈ acc ∨ x ∈ l := by
    induction l with
    | nil => intro acc; simp
    | cons i is ih =>
      intro acc
      simp only [List.foldl_cons, ih, mem_insertByLevel, List.mem_cons]
      constructor
      · rintro ((h | h) | h) <;> simp [h]
      · rintro (h | h | h) <;> simp [h]
  simpa using this []

theorem fixAuto_untouched (recs recs' : List FieldRec) (os : List Nat) (j : Nat) (hj : j ∉ os)
    (h : fixAuto recs os = .ok recs') : recs'[j]? = recs[j]? := by
  unfold fixAuto at h
  simp only at h
  split at h
  · cases h
  · apply autoAll_untouched _ _ _ j _ h
    intro hmem
    apply hj
    rw [← mem_sortByLevel recs os j]
    generalize sortByLevel recs os = sorted at hmem ⊢
    match sorted, hmem with
    | [], hmem => simp at hmem
    | [a], hmem => simpa using hmem
    | a :: b :: rest, hmem =>
      simp only at hmem
      split at hmem
      · exact List.mem_cons_of_mem _ hmem
      · exact hmem

theorem explicitFold_untouched (os : List Nat) (recs : List FieldRec) (j : Nat) (hj : j ∉ os) :
    (os.foldl (fun acc i => match acc[i]? with
      | some r => setPref acc i (r.parentDest ++ ['.'])
      | none => acc) recs)[j]? = recs[j]? := by
  induction os generalizing recs with
  | nil => rfl
  | cons i is ih =>
    simp only [List.mem_cons, not_or] at hj
    simp only [List.foldl_cons]
    rw [ih _ hj.2]
    split
    · exact setPref_getElem_ne _ _ _ _ (fun hh => hj.1 hh.symm)
    · rfl

theorem fixExplicit_untouched (cfg : Cfg) (recs recs' : List FieldRec) (s : Str) (os : List Nat)
    (j : Nat) (hj : j ∉ os) (h : fixExplicit cfg recs s os = .ok recs') : recs'[j]? = recs[j]? := by
  unfold fixExplicit at h
  split at h
  · cases h
  · simp only at h
    split at h
    · split at h
      · cases h
      · simp only [Except.ok.injEq] at h; subst h; exact explicitFold_untouched os recs j hj
    · simp only [Except.ok.injEq] at h; subst h; exact explicitFold_untouched os recs j hj

/-- **C03 (a field that does not own the conflicting option keeps its name this round).** -/
theorem c03_round_untouched (cfg : Cfg) (mode : CR) (recs recs' : List FieldRec) (s : Str)
    (os : List Nat) (j : Nat) (hj : j ∉ os) (h : fixStep cfg mode recs s os = .ok recs') :
    recs'[j]? = recs[j]? := by
  cases mode <;> simp only [fixStep] at h
  · cases h
  · exact fixExplicit_untouched cfg recs recs' s os j hj h
  · cases h
  · exact fixAuto_untouched recs recs' os j hj h

/-! ### totality: the resolver answers `ok` or `ConflictResolutionError`, nothing else -/

theorem length_insertByLevel (recs : List FieldRec) (i : Nat) (l : List Nat) :
    (insertByLevel recs i l).length = l.length + 1 := by
  induction l with
  | nil => simp [insertByLevel]
  | cons j js ih => simp only [insertByLevel]; split <;> simp [ih]

theorem length_sortByLevel (recs : List FieldRec) (l : List Nat) :
    (sortByLevel recs l).length = l.length := by
  unfold sortByLevel
  have : ∀ (acc : List Nat), (l.foldl (fun acc i => insertByLevel recs i acc) acc).length = acc.length + l.length := by
    induction l with
    | nil => intro acc; simp
    | cons i is ih => intro acc; simp only [List.foldl_cons, ih, length_insertByLevel, List.length_cons]; omega
  simpa using this []

theorem autoOne_no_assert (recs : List FieldRec) (i : Nat) : autoOne recs i ≠ .error .assertionError := by
  unfold autoOne
  split
  · simp
  · simp only
    split
    · simp
    · split
      · rename_i hlt
        split
        · simp
        · rename_i hnone
          exfalso
          rw [List.getElem?_eq_none_iff] at hnone
          omega
      · simp

theorem autoAll_no_assert (recs : List FieldRec) (is : List Nat) : autoAll recs is ≠ .error .assertionError := by
  induction is generalizing recs with
  | nil => simp [autoAll]
  | cons i is ih =>
    simp only [autoAll]
    cases h1 : autoOne recs i with
    | error e =>
      simp only
      intro h
      have : e = .assertionError := by simpa using h
      subst this
      exact autoOne_no_assert recs i h1
    | ok r1 => exact ih r1

theorem fixExplicit_no_assert (cfg : Cfg) (recs : List FieldRec) (s : Str) (os : List Nat) :
    fixExplicit cfg recs s os ≠ .error .assertionError := by
  unfold fixExplicit
  split
  · simp
  · simp only
    split
    · split <;> simp
    · simp

/-- **C03 (total).** In the NONE / EXPLICIT / AUTO modes the resolver returns either a resolved
    forest or `ConflictResolutionError` — never the third outcome (`AssertionError`) that the code's
    internal `assert`s would produce. (True only after the repair of the "same user prefix under
    AUTO" defect, commit 00d3779; the 50-round limit is a `ConflictResolutionError` too.) -/
theorem c03_total (cfg : Cfg) (mode : CR) (hm : mode ≠ .always_merge) (recs : List FieldRec) :
    resolve cfg mode recs ≠ .err .assertionError := by
  unfold resolve
  generalize maxAttempts = fuel
  induction fuel generalizing recs with
  | zero => simp [resolveLoop]
  | succ n ih =>
    simp only [resolveLoop]
    cases hc : getConflict cfg recs with
    | none => simp
    | some c =>
      obtain ⟨s, os⟩ := c
      simp only
      cases hf : fixStep cfg mode recs s os with
      | ok r2 =>
        simp only
        split
        · simp
        · exact ih r2
      | error e =>
        simp only
        intro h
        have he : e = .assertionError := by simpa using h
        subst he
        obtain ⟨hos, hlen⟩ := getConflict_some_owners cfg recs s os hc
        cases mode with
        | none => simp [fixStep] at hf
        | explicit => exact fixExplicit_no_assert cfg recs s os (by simpa [fixStep] using hf)
        | always_merge => exact hm rfl
        | auto =>
          simp only [fixStep, fixAuto] at hf
          split at hf
          · rename_i hlt
            rw [length_sortByLevel] at hlt
            omega
          · exact autoAll_no_assert _ _ hf

/-- the whole setup is `ok` or `ConflictResolutionError` provided no final option string collides
    with an option already on the parser (`-h`/`--help`) … -/
theorem c03_setup_total_partial (cfg : Cfg) (mode : CR) (hm : mode ≠ .always_merge)
    (reserved : List Str) (recs : List FieldRec)
    (hres : ∀ recs', resolve cfg mode recs = .ok recs' →
      (allOpts cfg recs').any (fun s => reserved.contains s) = false) :
    (∃ recs', setup cfg mode reserved recs = .ok recs') ∨
      setup cfg mode reserved recs = .conflictResolutionError := by
  unfold setup
  cases hr : resolve cfg mode recs with
  | ok recs' =>
    left
    refine ⟨recs', ?_⟩
    simp only
    rw [hres recs' hr]
    simp
  | err e =>
    cases e with
    | conflictResolutionError => right; rfl
    | assertionError => exact absurd hr (c03_total cfg mode hm recs)

/-- … and the unrestricted statement is false today (open finding C03-help-clash): a field named
    `h` makes setup fail with `argparse.ArgumentError`. -/
def SetupTotal : Prop :=
  ∀ (cfg : Cfg) (mode : CR) (recs : List FieldRec), mode ≠ .always_merge →
    (∃ recs', setup cfg mode ["-h".toList, "--help".toList] recs = .ok recs') ∨
      setup cfg mode ["-h".toList, "--help".toList] recs = .conflictResolutionError

theorem c03_setup_total_witness : ¬ SetupTotal := by
  intro h
  have := h ⟨.underscore, .flat, .default⟩ .auto
    [{ name := "h".toList, parentDest := "a".toList, level := 1, aliases := [], pref := [] }] (by decide)
  have hs : setup ⟨.underscore, .flat, .default⟩ .auto ["-h".toList, "--help".toList]
      [{ name := "h".toList, parentDest := "a".toList, level := 1, aliases := [], pref := [] }] =
      .argumentError := by decide
  rw [hs] at this
  rcases this with ⟨r, hr⟩ | hr <;> cases hr

/-! non-vacuity: a forest with a real clash that AUTO resolves, and one that NONE rejects -/
example : resolve ⟨.underscore, .flat, .default⟩ .auto
    [{ name := "x".toList, parentDest := "a".toList, level := 1, aliases := [], pref := [] },
     { name := "x".toList, parentDest := "b".toList, level := 1, aliases := [], pref := [] }] =
    .ok [{ name := "x".toList, parentDest := "a".toList, level := 1, aliases := [], pref := "a.".toList },
         { name := "x".toList, parentDest := "b".toList, level := 1, aliases := [], pref := "b.".toList }] := by
  decide

example : resolve ⟨.underscore, .flat, .default⟩ .none
    [{ name := "x".toList, parentDest := "a".toList, level := 1, aliases := [], pref := [] },
     { name := "x".toList, parentDest := "b".toList, level := 1, aliases := [], pref := [] }] =
    .err .conflictResolutionError := by decide

end SpVerif.C03
